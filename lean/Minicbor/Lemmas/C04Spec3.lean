/-
  C04 infrastructure for `typed_sound`, part 3: `decode_fields!`, enums, `Option`, tags, unit,
  `Duration` against the specification side of Lemmas/C04Interp.lean.
-/
import Minicbor.Lemmas.C04Spec2

namespace Minicbor.C04
open Dec

/-! ### `decode_fields!` -/

theorem interpAll_unit : ∀ xs : List WItem, ∃ us, interpAll (fun _ => some ()) xs = some us
  | [] => ⟨[], rfl⟩
  | _ :: xs => by
    obtain ⟨us, h⟩ := interpAll_unit xs
    exact ⟨() :: us, by simp [interpAll, h]⟩

/-- skipping `n` trailing items. -/
theorem repeatN_skip (xs : List WItem) (rest : Bytes) (hv : validAll xs = true) (hf : FitsL xs) :
    ∃ us, repeatN (Dec.skip true) xs.length (encWs xs ++ rest) = .ok us rest := by
  obtain ⟨us, h⟩ := interpAll_unit xs
  have := repeatN_spec Spec.skip xs rest hv hf
  rw [h] at this
  exact ⟨us, this⟩

theorem fieldsDef_spec {ms : List (Dec α)} {fs : List (WItem → Option α)} (h : SpecL ms fs) :
    ∀ (xs : List WItem) (rest : Bytes), validAll xs = true → FitsL xs →
      Is (fieldsDef ms xs.length (encWs xs ++ rest)) (interpFields fs xs) rest := by
  induction h with
  | nil =>
    intro xs rest hv hf
    obtain ⟨us, hus⟩ := repeatN_skip xs rest hv hf
    simp [fieldsDef, interpFields, Dec.bind_run, hus, Is]
  | cons hmf _ ih =>
    intro xs rest hv hf
    cases xs with
    | nil => simp only [List.length_nil, fieldsDef, interpFields]; exact NotOk.err
    | cons x xs =>
      simp only [validAll, Bool.and_eq_true] at hv
      simp only [FitsL, encWs, List.length_append] at hf
      simp only [List.length_cons, fieldsDef, interpFields, encWs, List.append_assoc]
      refine Is.bind (hmf x _ hv.1 (by unfold Fits; omega)) (fun v _ => ?_)
      refine Is.bind (ih xs rest hv.2 (by unfold FitsL; omega)) (fun vs _ => ?_)
      simp [Is]

/-- the trailing `skip()` loop up to and including the break. -/
theorem skipUntilBreak_items : ∀ (xs : List WItem) (rest : Bytes) (fuel : Nat), validAll xs = true → FitsL xs →
    xs.length < fuel → skipUntilBreak fuel (encWs xs ++ 0xff :: rest) = .ok () rest
  | [], rest, fuel, _, _, hfu => by
    cases fuel with
    | zero => omega
    | succ n => simp [skipUntilBreak, encWs, Dec.bind_run, datatype_break, skip_break]
  | x :: xs, rest, fuel, hv, hf, hfu => by
    cases fuel with
    | zero => omega
    | succ n =>
      simp only [validAll, Bool.and_eq_true] at hv
      simp only [FitsL, encWs, List.length_append] at hf
      simp only [encWs, List.append_assoc]
      obtain ⟨ty, hty, hnb, _⟩ := datatype_item x hv.1 (encWs xs ++ 0xff :: rest)
      have hb : (ty == CType.break) = false := by simpa using hnb
      have hs := skip_item x hv.1 (by unfold Fits; omega) (encWs xs ++ 0xff :: rest)
      have ih := skipUntilBreak_items xs rest n hv.2 (by unfold FitsL; omega) (by simpa using hfu)
      simp only [skipUntilBreak, Dec.bind_run, hty, hb, Bool.false_eq_true, if_false, hs, ih]

theorem fieldsIndef_spec {ms : List (Dec α)} {fs : List (WItem → Option α)} (h : SpecL ms fs) :
    ∀ (xs : List WItem) (rest : Bytes) (fuel : Nat), validAll xs = true → FitsL xs → xs.length < fuel →
      Is (fieldsIndef ms fuel (encWs xs ++ 0xff :: rest)) (interpFields fs xs) rest := by
  induction h with
  | nil =>
    intro xs rest fuel hv hf hfu
    simp [fieldsIndef, interpFields, Dec.bind_run, skipUntilBreak_items xs rest fuel hv hf hfu, Is]
  | cons hmf _ ih =>
    intro xs rest fuel hv hf hfu
    cases xs with
    | nil =>
      simp only [fieldsIndef, interpFields, encWs, List.nil_append]
      simp [Dec.bind_run, datatype_break, skip_break]
      exact NotOk.err
    | cons x xs =>
      simp only [validAll, Bool.and_eq_true] at hv
      simp only [FitsL, encWs, List.length_append] at hf
      simp only [fieldsIndef, interpFields, encWs, List.append_assoc]
      obtain ⟨ty, hty, hnb, _⟩ := datatype_item x hv.1 (encWs xs ++ 0xff :: rest)
      have hb : (ty == CType.break) = false := by simpa using hnb
      rw [Dec.bind_run, hty]
      simp only [hb, Bool.false_eq_true, if_false]
      refine Is.bind (hmf x _ hv.1 (by unfold Fits; omega)) (fun v _ => ?_)
      refine Is.bind (ih xs rest fuel hv.2 (by unfold FitsL; omega) (by simp at hfu; omega)) (fun vs _ => ?_)
      simp [Is]

/-- `decode_fields!`: definite or indefinite array, extra entries skipped. -/
theorem Spec.fieldsDec {ms : List (Dec α)} {fs : List (WItem → Option α)} (h : SpecL ms fs) :
    Spec (Dec.fieldsDec ms) (fun w => (elems w).bind (interpFields fs)) := by
  intro w rest hv hf
  have ha := array_is w hv rest
  unfold Dec.fieldsDec
  cases w
  case array wd xs =>
    simp only [WItem.Valid, WItem.valid, Bool.and_eq_true] at hv
    simp only [view, after, Is] at ha
    simp only [elems, Option.bind_some]
    rw [Dec.bind_run, ha]
    exact fieldsDef_spec h xs rest hv.2 (fits_elems (w := .array wd xs) rfl hf)
  case arrayI xs =>
    simp only [WItem.Valid, WItem.valid] at hv
    simp only [view, after, Is, List.append_assoc, List.singleton_append] at ha
    simp only [elems, Option.bind_some]
    rw [Dec.bind_run, ha]
    simp only [Dec.bind_run, Dec.remaining]
    refine fieldsIndef_spec h xs rest _ hv (fits_elems (w := .arrayI xs) rfl hf) ?_
    have := encWs_length_ge xs
    simp; omega
  all_goals exact NotOk.bind_left ha

/-! ### enums `[index, payload]` -/

theorem SpecL.get {ms : List (Dec α)} {fs : List (WItem → Option α)} (h : SpecL ms fs) (j : Nat) :
    (∃ m f, ms[j]? = some m ∧ fs[j]? = some f ∧ Spec m f) ∨ (ms[j]? = none ∧ fs[j]? = none) := by
  induction h generalizing j with
  | nil => right; simp
  | cons hmf _ ih =>
    cases j with
    | zero => left; exact ⟨_, _, by simp, by simp, hmf⟩
    | succ j => simpa using ih j

theorem Spec.enum {ms : List (Dec Val)} {fs : List (WItem → Option Val)} (h : SpecL ms fs) :
    Spec (do let n ← Dec.array
             if n != some 2 then Dec.fail .message
             else do
               let i ← intAcc .u32
               pickVariant ms i.toNat)
      (fun w => (elemsDef w).bind fun xs =>
        match xs with
        | [i, x] => (view (.int .u32) i).bind fun n =>
            match fs[n.toNat]? with
            | some f => (f x).map (Val.variant n.toNat)
            | none => none
        | _ => none) := by
  intro w rest hv hf
  have ha := array_is w hv rest
  cases w
  case array wd xs =>
    simp only [WItem.Valid, WItem.valid, Bool.and_eq_true] at hv
    simp only [view, after, Is] at ha
    simp only [elemsDef, Option.bind_some]
    rw [Dec.bind_run, ha]
    have hfl := fits_elems (w := .array wd xs) rfl hf
    match xs, hv, hfl with
    | [i, x], hv, hfl =>
      simp only [validAll, Bool.and_eq_true] at hv
      simp only [FitsL, encWs, List.length_append, List.length_nil] at hfl
      have : (some [i, x].length != some 2) = false := by simp
      simp only [this, Bool.false_eq_true, if_false, encWs, List.append_nil, List.append_assoc]
      refine Is.bind (Spec.int .u32 i _ hv.2.1 (by unfold Fits; omega)) (fun n _ => ?_)
      unfold pickVariant
      rcases h.get n.toNat with ⟨m, f, hm, hff, hs⟩ | ⟨hm, hff⟩
      · simp only [hm, hff]
        exact Is.map _ (hs x rest hv.2.2.1 (by unfold Fits; omega))
      · simp only [hm, hff]; exact NotOk.err
    | [], _, _ => simp [Is]; exact NotOk.err
    | [_], _, _ => simp [Is]; exact NotOk.err
    | _ :: _ :: _ :: _, _, _ => simp [Is]; exact NotOk.err
  case arrayI xs =>
    simp only [view, after, Is, List.append_assoc, List.singleton_append] at ha
    simp only [elemsDef, Option.bind_none]
    rw [Dec.bind_run, ha]
    simp [Is]; exact NotOk.err
  all_goals exact NotOk.bind_left ha

/-! ### `Option`, tags, unit -/

theorem Spec.opt {m : Dec Val} {f : WItem → Option Val} (hs : Spec m f) :
    Spec (do let ty ← datatype
             if ty == .null then do Dec.skip; pure Val.none
             else do let v ← m; pure (Val.some v))
      (fun w => if isNull w = true then some Val.none else (f w).map Val.some) := by
  intro w rest hv hf
  obtain ⟨ty, hty, _, h0, h1⟩ := datatype_item w hv rest
  dsimp only
  rw [Dec.bind_run, hty]
  cases hn : isNull w with
  | true =>
    have := h1 hn; subst this
    simp only [beq_self_eq_true, if_true]
    simp [Dec.bind_run, skip_item w hv hf rest, Is]
  | false =>
    have : (ty == CType.null) = false := by simpa using h0 hn
    simp only [this, Bool.false_eq_true, if_false]
    exact Is.map _ (hs w rest hv hf)

theorem Spec.tagged {m : Dec Val} {f : WItem → Option Val} (hs : Spec m f) (n : Nat) :
    Spec (do let g ← Dec.tag
             if g != n then Dec.fail .tag
             else do let v ← m; pure (Val.tagged v))
      (fun w => match w with
        | .tag _ g x => if g = n then (f x).map Val.tagged else none
        | _ => none) := by
  intro w rest hv hf
  have ha := tag_is w hv rest
  cases w
  case tag wd g x =>
    simp only [WItem.Valid, WItem.valid, Bool.and_eq_true] at hv
    simp only [view, after, Is] at ha
    rw [Dec.bind_run, ha]
    simp only []
    by_cases hg : g = n
    · subst hg
      have : (g != g) = false := by simp
      simp only [this, Bool.false_eq_true, if_false, if_true]
      refine Is.map _ (hs x rest hv.2 ?_)
      simp [Fits, encW, headW] at hf ⊢; omega
    · have : (g != n) = true := by simp [hg]
      simp only [this, if_true, hg, if_false]
      exact NotOk.err
  all_goals exact NotOk.bind_left ha

theorem Spec.unit :
    Spec (do let n ← Dec.array
             if n == some 0 then pure Val.unit else Dec.fail .message)
      (fun w => (elemsDef w).bind fun xs => if xs.length = 0 then some Val.unit else none) := by
  intro w rest hv hf
  have ha := array_is w hv rest
  cases w
  case array wd xs =>
    simp only [view, after, Is] at ha
    simp only [elemsDef, Option.bind_some]
    rw [Dec.bind_run, ha]
    cases xs with
    | nil => simp [encWs, Is]
    | cons x xs => simp [Is]; exact NotOk.err
  case arrayI xs =>
    simp only [view, after, Is, List.append_assoc, List.singleton_append] at ha
    simp only [elemsDef, Option.bind_none]
    rw [Dec.bind_run, ha]
    simp [Is]; exact NotOk.err
  all_goals exact NotOk.bind_left ha

theorem Spec.skipUnit : Spec (do Dec.skip; pure Val.unit) (fun _ => some Val.unit) := by
  intro w rest hv hf
  simp [Dec.bind_run, skip_item w hv hf rest, Is]

/-! ### byte-string refinements, non-zero integers, `Duration` / `SystemTime` -/

theorem Spec.barr (n : Nat) :
    Spec (do let b ← Dec.bytes
             if b.length = n then pure (Val.bytes b) else Dec.fail .message)
      (fun w => (view .bytes w).bind fun b => if b.length = n then some (Val.bytes b) else none) := by
  refine Spec.bindPure Spec.bytes (fun b bs => ?_)
  split
  · simp [Is]
  · exact NotOk.err

theorem Spec.cstr :
    Spec (do let b ← Dec.bytes
             match b.reverse with
             | z :: revInit => if z == 0 && revInit.all (· != 0) then pure (Val.bytes revInit.reverse) else Dec.fail .message
             | [] => Dec.fail .message)
      (fun w => (view .bytes w).bind cstrVal) := by
  refine Spec.bindPure Spec.bytes (fun b bs => ?_)
  unfold cstrVal
  generalize b.reverse = l
  cases l with
  | nil => exact NotOk.err
  | cons z ri =>
    dsimp only
    split
    · simp [Is]
    · exact NotOk.err

theorem Spec.nz (t : IntTy) :
    Spec (do let v ← intAcc t
             if v == 0 then Dec.fail .message else pure (Val.int v))
      (fun w => (view (.int t) w).bind fun v => if v = 0 then none else some (Val.int v)) := by
  refine Spec.bindPure (Spec.int t) (fun v bs => ?_)
  by_cases h : v = 0
  · subst h; simp; exact NotOk.err
  · have : (v == 0) = false := by simpa using h
    simp [this, h, Is]

theorem specL_dur : SpecL [intAcc .u64, intAcc .u32] [view (.int .u64), view (.int .u32)] :=
  .cons (Spec.int _) (.cons (Spec.int _) .nil)

theorem Spec.duration (sys : Bool) :
    Spec (decodeDuration sys)
      (fun w => (elems w).bind fun xs => (interpFields [view (.int .u64), view (.int .u32)] xs).bind (durVal sys)) := by
  intro w rest hv hf
  have h := Spec.fieldsDec specL_dur w rest hv hf
  unfold decodeDuration
  dsimp only at h ⊢
  have e : ((elems w).bind fun xs => (interpFields [view (.int .u64), view (.int .u32)] xs).bind (durVal sys)) =
      ((elems w).bind (interpFields [view (.int .u64), view (.int .u32)])).bind (durVal sys) := by
    cases elems w <;> rfl
  rw [e]
  refine Is.bind h (fun l _ => ?_)
  match l with
  | [s, n] =>
    simp only [durVal]
    split
    · exact NotOk.err
    · split
      · exact NotOk.err
      · simp [Is]
  | [] => simp only [durVal]; intro v r hc; cases hc
  | [_] => simp only [durVal]; intro v r hc; cases hc
  | _ :: _ :: _ :: _ => simp only [durVal]; intro v r hc; cases hc

end Minicbor.C04
