/-
  The token view of `skip` on ARBITRARY bytes: one iteration = read a token (`armTok`, which
  does not depend on the build or on the state) and apply it to the state (`applyTok`, pure,
  or the no-alloc build's "unsupported" error).
-/
import Minicbor.Lemmas.SkipRefine

namespace Minicbor
open Dec

instance : LawfulMonad Dec := LawfulMonad.mk'
  (id_map := by
    intro α x; funext bs
    show (x >>= fun a => pure (id a)) bs = x bs
    rw [Dec.bind_run]; cases x bs <;> rfl)
  (pure_bind := by intro α β a f; rfl)
  (bind_assoc := by
    intro α β γ x f g; funext bs
    simp only [Dec.bind_run]
    cases x bs <;> rfl)

/-- what one iteration of the loop reads, independently of the state. -/
inductive Tok where
  | item | defn (n : Nat) | indef | brk | tag
  deriving Repr, DecidableEq

def optTok (f : Nat → Nat) : Option Nat → Tok
  | some k => .defn (f k)
  | none => .indef

/-- the token at the head of the input (mirrors the `match` of `skip`, without the state). -/
def Dec.armTok : Dec Tok := do
  let b ← current
  let n := b.toNat
  if n ≤ 0x1b then do
    let _ ← intAcc .u64; pure .item
  else if 0x20 ≤ n && n ≤ 0x3b then do
    let _ ← intAcc .int; pure .item
  else if 0x40 ≤ n && n ≤ 0x5f then do
    skipString false; pure .item
  else if 0x60 ≤ n && n ≤ 0x7f then do
    skipString true; pure .item
  else if 0x80 ≤ n && n ≤ 0x9f then do
    let o ← array; pure (optTok id o)
  else if 0xa0 ≤ n && n ≤ 0xbf then do
    let o ← map; pure (optTok satMul2 o)
  else if 0xc0 ≤ n && n ≤ 0xdb then do
    let h ← read
    let _ ← unsigned (infoOf h)
    pure .tag
  else if 0xe0 ≤ n && n ≤ 0xfb then do
    let h ← read
    let _ ← unsigned (infoOf h)
    pure .item
  else if n == 0xff then do
    let _ ← read
    pure .brk
  else typeMismatch b

/-- the effect of a token on the state (before the bookkeeping). -/
def Dec.applyTok (alloc : Bool) (s : SkipSt) : Tok → Dec SkipArm
  | .item => pure (.next s)
  | .defn n => pure (.next (defSt alloc s n))
  | .indef => match indefSt alloc s with
      | some s' => pure (.next s')
      | none => fail .message
  | .brk => pure (.next (brkSt alloc s))
  | .tag => pure (.cont s)

theorem ite_bind' {c : Prop} [Decidable c] (a b : Dec α) (f : α → Dec β) :
    (if c then a else b) >>= f = if c then a >>= f else b >>= f := by
  split <;> rfl

theorem typeMismatch_bind (b : UInt8) (f : α → Dec β) :
    (typeMismatch b : Dec α) >>= f = typeMismatch b := by
  unfold typeMismatch
  rw [bind_assoc]
  congr 1

theorem skipIndefinite_bind (alloc : Bool) (s : SkipSt) :
    (skipIndefinite alloc s >>= fun s' => pure (SkipArm.next s')) = applyTok alloc s .indef := by
  funext bs
  rw [Dec.bind_run, Dec.skipIndefinite_eq]
  unfold applyTok
  cases indefSt alloc s <;> rfl

theorem skipArm_eq (alloc : Bool) (s : SkipSt) : skipArm alloc s = armTok >>= applyTok alloc s := by
  unfold skipArm armTok
  simp only [bind_assoc, ite_bind', pure_bind, typeMismatch_bind]
  congr 1; funext b
  repeat' (first | rfl | (apply ite_congr rfl <;> intro _))
  · congr 1; funext o
    match o with
    | some 0 => cases alloc <;> simp [applyTok, optTok, defSt]
    | some (k + 1) => simp [applyTok, optTok, defSt]
    | none => exact skipIndefinite_bind alloc s
  · congr 1; funext o
    match o with
    | some 0 => cases alloc <;> simp [applyTok, optTok, defSt, satMul2]
    | some (k + 1) =>
      have : satMul2 (k + 1) ≠ 0 := by unfold satMul2 U64MAX; split <;> omega
      simp [applyTok, optTok, defSt, this]
    | none => exact skipIndefinite_bind alloc s
  · congr 1; funext _
    unfold applyTok brkSt
    split
    · split <;> simp_all
    · rfl

/-- the effect of one whole iteration (token + bookkeeping) on the state; `none`: the no-alloc
    build refuses an indefinite array/map while more than one item is pending. -/
def tokStep (alloc : Bool) (s : SkipSt) : Tok → Option SkipSt
  | .item => some (postSt alloc s)
  | .defn n => some (postSt alloc (defSt alloc s n))
  | .indef => (indefSt alloc s).map (postSt alloc)
  | .brk => some (postSt alloc (brkSt alloc s))
  | .tag => some s

/-- one iteration of a running loop, in the token view. -/
theorem loop_tok (alloc : Bool) (s : SkipSt) (bs : Bytes) (f : Nat)
    (hrun : skipRunning alloc s = true) :
    skipLoop alloc (f + 2) s bs =
      match armTok bs with
      | .ok t r =>
        (match tokStep alloc s t with
         | some s' => skipLoop alloc (f + 1) s' r
         | none => .err .message r)
      | .err e r => .err e r
      | .panic => .panic := by
  cases ht : armTok bs with
  | ok t r =>
    have harm : skipArm alloc s bs = applyTok alloc s t r := by
      rw [skipArm_eq, Dec.bind_run, ht]
    cases t with
    | item => exact loop_next alloc s s bs r f hrun harm
    | defn n => exact loop_next alloc s _ bs r f hrun harm
    | brk => exact loop_next alloc s _ bs r f hrun harm
    | tag => exact loop_cont alloc s s bs r (f + 1) hrun harm
    | indef =>
      simp only [tokStep]
      unfold applyTok at harm
      cases hi : indefSt alloc s with
      | some s' =>
        rw [hi] at harm
        exact loop_next alloc s s' bs r f hrun harm
      | none =>
        rw [hi] at harm
        rw [skipLoop_succ _ _ _ _ hrun, harm]
        rfl
  | err e r =>
    have harm : skipArm alloc s bs = .err e r := by
      rw [skipArm_eq, Dec.bind_run, ht]
    rw [skipLoop_succ _ _ _ _ hrun, harm]
  | panic =>
    have harm : skipArm alloc s bs = .panic := by
      rw [skipArm_eq, Dec.bind_run, ht]
    rw [skipLoop_succ _ _ _ _ hrun, harm]

end Minicbor
