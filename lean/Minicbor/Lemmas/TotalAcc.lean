/-
  C02 infrastructure, part 2: every accessor of Decoder.lean and `skip` satisfy
  `NoPanic`, `Suffix`, `EoiNil`, and the size facts needed later.
-/
import Minicbor.Lemmas.TotalBase

namespace Minicbor.Dec

/-! ### NoPanic for the accessors not covered by NoPanic.lean / SkipLocal.lean -/

theorem NoPanic.bool : NoPanic Dec.bool := by
  unfold Dec.bool
  have := @NoPanic.typeMismatch Bool
  nopanic'

theorem NoPanic.f16 : NoPanic Dec.f16 := by
  unfold Dec.f16
  have := @NoPanic.typeMismatch Nat
  nopanic'

theorem NoPanic.f32 (half : Bool) : NoPanic (Dec.f32 half) := by
  unfold Dec.f32
  have := @NoPanic.typeMismatch Nat
  have := NoPanic.f16
  nopanic'

theorem NoPanic.f64 (half : Bool) : NoPanic (Dec.f64 half) := by
  unfold Dec.f64
  have := @NoPanic.typeMismatch Nat
  have := NoPanic.f16
  have := NoPanic.f32 half
  nopanic'

theorem NoPanic.char : NoPanic Dec.char := by
  unfold Dec.char
  have := NoPanic.intAcc .u32
  nopanic'

theorem NoPanic.array : NoPanic Dec.array := NoPanic.container _
theorem NoPanic.map : NoPanic Dec.map := NoPanic.container _

theorem NoPanic.tag : NoPanic Dec.tag := by
  unfold Dec.tag
  have := @NoPanic.typeMismatch Nat
  have := NoPanic.unsigned
  nopanic'

theorem NoPanic.null : NoPanic Dec.null := by
  unfold Dec.null
  have := @NoPanic.typeMismatch Unit
  nopanic'

theorem NoPanic.undefined : NoPanic Dec.undefined := by
  unfold Dec.undefined
  have := @NoPanic.typeMismatch Unit
  nopanic'

theorem NoPanic.simple : NoPanic Dec.simple := by
  unfold Dec.simple
  have := @NoPanic.typeMismatch Nat
  nopanic'

theorem NoPanic.datatype : NoPanic Dec.datatype := by
  unfold Dec.datatype
  have := NoPanic.typeOf
  nopanic'

theorem NoPanic.bytesIter : NoPanic Dec.bytesIter := NoPanic.stringIter _
theorem NoPanic.strIter : NoPanic Dec.strIter := NoPanic.stringIter _

/-! ### Suffix -/

theorem Suffix.typeOf (b : UInt8) : Suffix (Dec.typeOf b) := by
  unfold Dec.typeOf; suffix

theorem Suffix.typeMismatch (b : UInt8) : Suffix (Dec.typeMismatch b : Dec α) := by
  unfold Dec.typeMismatch
  have := Suffix.typeOf b
  suffix

theorem Suffix.unsigned (b : UInt8) : Suffix (Dec.unsigned b) := by
  unfold Dec.unsigned
  have := @Suffix.typeMismatch Nat b
  suffix

theorem Suffix.tryAs (v m : Nat) : Suffix (Dec.tryAs v m) := by
  unfold Dec.tryAs; suffix

theorem Suffix.u64ToUsize (n : Nat) : Suffix (Dec.u64ToUsize n) := by
  unfold Dec.u64ToUsize; suffix

theorem Suffix.intAcc (t : IntTy) : Suffix (Dec.intAcc t) := by
  unfold Dec.intAcc
  have := Suffix.unsigned
  have := Suffix.tryAs
  have := @Suffix.typeMismatch Int
  suffix

theorem Suffix.bool : Suffix Dec.bool := by
  unfold Dec.bool
  have := @Suffix.typeMismatch Bool
  suffix

theorem Suffix.f16 : Suffix Dec.f16 := by
  unfold Dec.f16
  have := @Suffix.typeMismatch Nat
  suffix

theorem Suffix.f32 (half : Bool) : Suffix (Dec.f32 half) := by
  unfold Dec.f32
  have := @Suffix.typeMismatch Nat
  have := Suffix.f16
  suffix

theorem Suffix.f64 (half : Bool) : Suffix (Dec.f64 half) := by
  unfold Dec.f64
  have := @Suffix.typeMismatch Nat
  have := Suffix.f16
  have := Suffix.f32 half
  suffix

theorem Suffix.char : Suffix Dec.char := by
  unfold Dec.char
  have := Suffix.intAcc .u32
  suffix

theorem Suffix.bytes : Suffix Dec.bytes := by
  unfold Dec.bytes
  have := @Suffix.typeMismatch Bytes
  have := Suffix.unsigned
  have := Suffix.u64ToUsize
  suffix

theorem Suffix.str : Suffix Dec.str := by
  unfold Dec.str
  have := @Suffix.typeMismatch Bytes
  have := Suffix.unsigned
  have := Suffix.u64ToUsize
  suffix

theorem Suffix.container (maj : Nat) : Suffix (Dec.container maj) := by
  unfold Dec.container
  have := @Suffix.typeMismatch (Option Nat)
  have := Suffix.unsigned
  suffix

theorem Suffix.array : Suffix Dec.array := Suffix.container _
theorem Suffix.map : Suffix Dec.map := Suffix.container _

theorem Suffix.tag : Suffix Dec.tag := by
  unfold Dec.tag
  have := @Suffix.typeMismatch Nat
  have := Suffix.unsigned
  suffix

theorem Suffix.null : Suffix Dec.null := by
  unfold Dec.null
  have := @Suffix.typeMismatch Unit
  suffix

theorem Suffix.undefined : Suffix Dec.undefined := by
  unfold Dec.undefined
  have := @Suffix.typeMismatch Unit
  suffix

theorem Suffix.simple : Suffix Dec.simple := by
  unfold Dec.simple
  have := @Suffix.typeMismatch Nat
  suffix

theorem Suffix.datatype : Suffix Dec.datatype := by
  unfold Dec.datatype
  have := Suffix.typeOf
  suffix

theorem Suffix.chunkLoop (text : Bool) (fuel : Nat) : Suffix (Dec.chunkLoop text fuel) := by
  induction fuel with
  | zero => unfold Dec.chunkLoop; exact Suffix.panic
  | succ f ih =>
    unfold Dec.chunkLoop
    have := Suffix.str
    have := Suffix.bytes
    suffix

theorem Suffix.stringIter (text : Bool) : Suffix (Dec.stringIter text) := by
  unfold Dec.stringIter
  have := @Suffix.typeMismatch (List Bytes)
  have := Suffix.unsigned
  have := Suffix.u64ToUsize
  have := Suffix.chunkLoop text
  suffix

theorem Suffix.bytesIter : Suffix Dec.bytesIter := Suffix.stringIter _
theorem Suffix.strIter : Suffix Dec.strIter := Suffix.stringIter _

theorem Suffix.skipString (text : Bool) : Suffix (Dec.skipString text) := by
  unfold Dec.skipString
  have := Suffix.stringIter text
  suffix

theorem Suffix.skipIndefinite (alloc : Bool) (s : SkipSt) : Suffix (Dec.skipIndefinite alloc s) := by
  unfold Dec.skipIndefinite; suffix

theorem Suffix.skipArm (alloc : Bool) (s : SkipSt) : Suffix (Dec.skipArm alloc s) := by
  unfold Dec.skipArm
  have := @Suffix.typeMismatch SkipArm
  have := Suffix.unsigned
  have := Suffix.intAcc
  have := Suffix.skipString
  have := Suffix.array
  have := Suffix.map
  have := Suffix.skipIndefinite alloc
  suffix

theorem Suffix.skipPost (alloc : Bool) (s : SkipSt) : Suffix (Dec.skipPost alloc s) := by
  unfold Dec.skipPost; suffix

theorem Suffix.skipLoop (alloc : Bool) (fuel : Nat) (s : SkipSt) : Suffix (Dec.skipLoop alloc fuel s) := by
  induction fuel generalizing s with
  | zero => unfold Dec.skipLoop; exact Suffix.panic
  | succ f ih =>
    unfold Dec.skipLoop
    have := Suffix.skipArm alloc
    have := Suffix.skipPost alloc
    suffix

theorem Suffix.skip (alloc : Bool) : Suffix (Dec.skip alloc) := by
  unfold Dec.skip
  have := Suffix.skipLoop alloc
  suffix

end Minicbor.Dec
