/-
  C02 infrastructure, part 2: every accessor of Decoder.lean and `skip` satisfy
  `NoPanic`, `Suffix`, `EoiNil`, and the size facts needed later.
-/
import Minicbor.Lemmas.TotalBase

namespace Minicbor.Dec

/-! ### NoPanic for the accessors not covered by NoPanic.lean / SkipLocal.lean -/

theorem NoPanic.char : NoPanic Dec.char := by
  unfold Dec.char
  have := NoPanic.intAcc .u32
  nopanic'

theorem NoPanic.array : NoPanic Dec.array := NoPanic.container _
theorem NoPanic.map : NoPanic Dec.map := NoPanic.container _

theorem NoPanic.null : NoPanic Dec.null := by
  unfold Dec.null
  have := @NoPanic.typeMismatch Unit
  nopanic'

theorem NoPanic.undefined : NoPanic Dec.undefined := by
  unfold Dec.undefined
  have := @NoPanic.typeMismatch Unit
  nopanic'

theorem NoPanic.bytesIter : NoPanic Dec.bytesIter := NoPanic.stringIter _
theorem NoPanic.strIter : NoPanic Dec.strIter := NoPanic.stringIter _

/-! ### Suffix -/

theorem Suffix.typeOf (b : UInt8) : Suffix (Dec.typeOf b) := by
  unfold Dec.typeOf; suffix

theorem Suffix.typeMismatch (b : UInt8) : Suffix (Dec.typeMismatch b : Dec α) := by
  unfold Dec.typeMismatch
  have := Suffix.typeOf b
  suffix

theorem Suffix.unsigned (b : UInt8) : Suffix (Dec.unsigned b) := by
  unfold Dec.unsigned
  have := @Suffix.typeMismatch Nat b
  suffix

theorem Suffix.tryAs (v m : Nat) : Suffix (Dec.tryAs v m) := by
  unfold Dec.tryAs; suffix

theorem Suffix.u64ToUsize (n : Nat) : Suffix (Dec.u64ToUsize n) := by
  unfold Dec.u64ToUsize; suffix

theorem Suffix.intAcc (t : IntTy) : Suffix (Dec.intAcc t) := by
  unfold Dec.intAcc
  have := Suffix.unsigned
  have := Suffix.tryAs
  have := @Suffix.typeMismatch Int
  suffix

theorem Suffix.bool : Suffix Dec.bool := by
  unfold Dec.bool
  have := @Suffix.typeMismatch Bool
  suffix

theorem Suffix.f16 : Suffix Dec.f16 := by
  unfold Dec.f16
  have := @Suffix.typeMismatch Nat
  suffix

theorem Suffix.f32 (half : Bool) : Suffix (Dec.f32 half) := by
  unfold Dec.f32
  have := @Suffix.typeMismatch Nat
  have := Suffix.f16
  suffix

theorem Suffix.f64 (half : Bool) : Suffix (Dec.f64 half) := by
  unfold Dec.f64
  have := @Suffix.typeMismatch Nat
  have := Suffix.f16
  have := Suffix.f32 half
  suffix

theorem Suffix.char : Suffix Dec.char := by
  unfold Dec.char
  have := Suffix.intAcc .u32
  suffix

theorem Suffix.bytes : Suffix Dec.bytes := by
  unfold Dec.bytes
  have := @Suffix.typeMismatch Bytes
  have := Suffix.unsigned
  have := Suffix.u64ToUsize
  suffix

theorem Suffix.str : Suffix Dec.str := by
  unfold Dec.str
  have := @Suffix.typeMismatch Bytes
  have := Suffix.unsigned
  have := Suffix.u64ToUsize
  suffix

theorem Suffix.container (maj : Nat) : Suffix (Dec.container maj) := by
  unfold Dec.container
  have := @Suffix.typeMismatch (Option Nat)
  have := Suffix.unsigned
  suffix

theorem Suffix.array : Suffix Dec.array := Suffix.container _
theorem Suffix.map : Suffix Dec.map := Suffix.container _

theorem Suffix.tag : Suffix Dec.tag := by
  unfold Dec.tag
  have := @Suffix.typeMismatch Nat
  have := Suffix.unsigned
  suffix

theorem Suffix.null : Suffix Dec.null := by
  unfold Dec.null
  have := @Suffix.typeMismatch Unit
  suffix

theorem Suffix.undefined : Suffix Dec.undefined := by
  unfold Dec.undefined
  have := @Suffix.typeMismatch Unit
  suffix

theorem Suffix.simple : Suffix Dec.simple := by
  unfold Dec.simple
  have := @Suffix.typeMismatch Nat
  suffix

theorem Suffix.datatype : Suffix Dec.datatype := by
  unfold Dec.datatype
  have := Suffix.typeOf
  suffix

theorem Suffix.chunkLoop (text : Bool) (fuel : Nat) : Suffix (Dec.chunkLoop text fuel) := by
  induction fuel with
  | zero => unfold Dec.chunkLoop; exact Suffix.panic
  | succ f ih =>
    unfold Dec.chunkLoop
    have := Suffix.str
    have := Suffix.bytes
    suffix

theorem Suffix.stringIter (text : Bool) : Suffix (Dec.stringIter text) := by
  unfold Dec.stringIter
  have := @Suffix.typeMismatch (List Bytes)
  have := Suffix.unsigned
  have := Suffix.u64ToUsize
  have := Suffix.chunkLoop text
  suffix

theorem Suffix.bytesIter : Suffix Dec.bytesIter := Suffix.stringIter _
theorem Suffix.strIter : Suffix Dec.strIter := Suffix.stringIter _

theorem Suffix.skipString (text : Bool) : Suffix (Dec.skipString text) := by
  unfold Dec.skipString
  have := Suffix.stringIter text
  suffix

theorem Suffix.skipIndefinite (alloc : Bool) (s : SkipSt) : Suffix (Dec.skipIndefinite alloc s) := by
  unfold Dec.skipIndefinite; suffix

theorem Suffix.skipArm (alloc : Bool) (s : SkipSt) : Suffix (Dec.skipArm alloc s) := by
  unfold Dec.skipArm
  have := @Suffix.typeMismatch SkipArm
  have := Suffix.unsigned
  have := Suffix.intAcc
  have := Suffix.skipString
  have := Suffix.array
  have := Suffix.map
  have := Suffix.skipIndefinite alloc
  suffix

theorem Suffix.skipPost (alloc : Bool) (s : SkipSt) : Suffix (Dec.skipPost alloc s) := by
  unfold Dec.skipPost; suffix

theorem Suffix.skipLoop (alloc : Bool) (fuel : Nat) (s : SkipSt) : Suffix (Dec.skipLoop alloc fuel s) := by
  induction fuel generalizing s with
  | zero => unfold Dec.skipLoop; exact Suffix.panic
  | succ f ih =>
    unfold Dec.skipLoop
    have := Suffix.skipArm alloc
    have := Suffix.skipPost alloc
    suffix

theorem Suffix.skip (alloc : Bool) : Suffix (Dec.skip alloc) := by
  unfold Dec.skip
  have := Suffix.skipLoop alloc
  suffix

/-! ### EoiNil: at (or beyond) the end of the input every entry point reports end-of-input and
    leaves the position alone -/

theorem EoiNil.intAcc (t : IntTy) : EoiNil (Dec.intAcc t) := EoiNil.bind _ EoiNil.read
theorem EoiNil.bool : EoiNil Dec.bool := EoiNil.bind _ EoiNil.read
theorem EoiNil.f16 : EoiNil Dec.f16 := EoiNil.bind _ EoiNil.read
theorem EoiNil.f32 (half : Bool) : EoiNil (Dec.f32 half) := EoiNil.bind _ EoiNil.current
theorem EoiNil.f64 (half : Bool) : EoiNil (Dec.f64 half) := EoiNil.bind _ EoiNil.current
theorem EoiNil.char : EoiNil Dec.char := EoiNil.bind _ (EoiNil.intAcc _)
theorem EoiNil.bytes : EoiNil Dec.bytes := EoiNil.bind _ EoiNil.read
theorem EoiNil.str : EoiNil Dec.str := EoiNil.bind _ EoiNil.read
theorem EoiNil.stringIter (text : Bool) : EoiNil (Dec.stringIter text) := EoiNil.bind _ EoiNil.read
theorem EoiNil.bytesIter : EoiNil Dec.bytesIter := EoiNil.stringIter _
theorem EoiNil.strIter : EoiNil Dec.strIter := EoiNil.stringIter _
theorem EoiNil.container (maj : Nat) : EoiNil (Dec.container maj) := EoiNil.bind _ EoiNil.read
theorem EoiNil.array : EoiNil Dec.array := EoiNil.container _
theorem EoiNil.map : EoiNil Dec.map := EoiNil.container _
theorem EoiNil.tag : EoiNil Dec.tag := EoiNil.bind _ EoiNil.read
theorem EoiNil.null : EoiNil Dec.null := EoiNil.bind _ EoiNil.read
theorem EoiNil.undefined : EoiNil Dec.undefined := EoiNil.bind _ EoiNil.read
theorem EoiNil.simple : EoiNil Dec.simple := EoiNil.bind _ EoiNil.read
theorem EoiNil.datatype : EoiNil Dec.datatype := EoiNil.bind _ EoiNil.current
theorem EoiNil.skip (alloc : Bool) : EoiNil (Dec.skip alloc) := by
  cases alloc <;> rfl

/-! ### consumption / size -/

theorem Consumes.char : Consumes Dec.char 1 := by
  unfold Dec.char
  refine Consumes.bind (k := 0) (Consumes.intAcc _) (fun _ => ?_)
  apply Suffix.consumes0; suffix

theorem Consumes.array : Consumes Dec.array 1 := Consumes.container _
theorem Consumes.map : Consumes Dec.map 1 := Consumes.container _

theorem Consumes.null : Consumes Dec.null 1 := by
  unfold Dec.null
  apply Consumes.read_bind; intro b; apply Suffix.consumes0
  have := @Suffix.typeMismatch Unit
  suffix

theorem Consumes.undefined : Consumes Dec.undefined 1 := by
  unfold Dec.undefined
  apply Consumes.read_bind; intro b; apply Suffix.consumes0
  have := @Suffix.typeMismatch Unit
  suffix

/-- a successful `skip` consumes at least one byte (the loop runs at least once: `nrounds = 1`). -/
theorem Consumes.skip (alloc : Bool) : Consumes (Dec.skip alloc) 1 := by
  intro bs a r h
  unfold Dec.skip at h
  simp only [Dec.bind_run, Dec.remaining] at h
  unfold Dec.skipLoop at h
  have hrun : skipRunning alloc SkipSt.init = true := by cases alloc <;> rfl
  simp only [hrun, Bool.not_true, Bool.false_eq_true, if_false, Dec.bind_run] at h
  obtain ⟨x, r', harm, h⟩ := bind_ok_inv h
  have h1 := Consumes.skipArm alloc _ bs x r' harm
  cases x with
  | cont s' =>
    have := (Suffix.skipLoop alloc _ s').length_ok h
    omega
  | next s' =>
    obtain ⟨o, r'', hp, h⟩ := bind_ok_inv h
    have h2 := (Suffix.skipPost alloc s').length_ok hp
    cases o with
    | none => cases h; omega
    | some s'' =>
      have := (Suffix.skipLoop alloc _ s'').length_ok h
      omega

/-- the payload of a byte/text string is paid for by the bytes consumed (declared lengths that
    exceed the input are an `end of input` error, never an allocation). -/
theorem Sized.bytes : Sized (fun b : Bytes => 1 + b.length) Dec.bytes := by
  unfold Dec.bytes
  refine SizedBy.bindC Consumes.read (fun b => ?_)
  refine SizedBy.ite (SizedBy.typeMismatch _ _ _) ?_
  refine SizedBy.bindC (Consumes.unsigned _) (fun n => ?_)
  refine SizedBy.bindC (Consumes.u64ToUsize _) (fun n => ?_)
  exact SizedBy.readSlice _ _

theorem Sized.str : Sized (fun b : Bytes => 1 + b.length) Dec.str := by
  unfold Dec.str
  refine SizedBy.bindC Consumes.read (fun b => ?_)
  refine SizedBy.ite (SizedBy.typeMismatch _ _ _) ?_
  refine SizedBy.bindC (Consumes.unsigned _) (fun n => ?_)
  refine SizedBy.bindC (Consumes.u64ToUsize _) (fun n => ?_)
  refine SizedBy.bind (SizedBy.readSlice _ _) (fun d => ?_)
  exact SizedBy.ite (SizedBy.pure (Nat.le_refl _)) (SizedBy.fail _ _ _)

theorem Sized.chunk (text : Bool) : Sized (fun b : Bytes => 1 + b.length) (if text then Dec.str else Dec.bytes) := by
  cases text
  · exact Sized.bytes
  · exact Sized.str

/-- chunks of an indefinite string: one unit per chunk plus its payload. -/
theorem Sized.chunkLoop (text : Bool) (fuel : Nat) :
    Sized (listSz fun b : Bytes => 1 + b.length) (Dec.chunkLoop text fuel) := by
  induction fuel with
  | zero => unfold Dec.chunkLoop; exact SizedBy.panic _ _
  | succ f ih =>
    unfold Dec.chunkLoop
    refine SizedBy.bindC Consumes.current (fun b => ?_)
    refine SizedBy.ite ?_ ?_
    · exact SizedBy.bindC Consumes.read (fun _ => SizedBy.pure (Nat.zero_le _))
    · refine SizedBy.bind (Sized.chunk text) (fun c => ?_)
      intro bs cs r h
      obtain ⟨cs', r', hl, h⟩ := bind_ok_inv h
      have := ih bs cs' r' hl
      cases h
      simp at this ⊢; omega

/-- `bytes_iter` / `str_iter` drained: the chunks collected (one unit per chunk plus its payload)
    are paid for by consumed bytes. -/
theorem Sized.stringIter (text : Bool) :
    Sized (listSz fun b : Bytes => 1 + b.length) (Dec.stringIter text) := by
  unfold Dec.stringIter
  refine SizedBy.bindC Consumes.read (fun b => ?_)
  refine SizedBy.ite (SizedBy.typeMismatch _ _ _) ?_
  refine SizedBy.ite ?_ ?_
  · refine SizedBy.bindC Consumes.remaining (fun r => ?_)
    exact (Sized.chunkLoop text _).mono (by omega) (fun _ => Nat.le_refl _)
  · refine SizedBy.bindC (Consumes.unsigned _) (fun n => ?_)
    refine SizedBy.bindC (Consumes.u64ToUsize _) (fun n => ?_)
    refine SizedBy.ite (SizedBy.pure (Nat.zero_le _)) ?_
    refine SizedBy.bind (SizedBy.readSlice _ _) (fun d => ?_)
    refine SizedBy.ite (SizedBy.fail _ _ _) (SizedBy.pure ?_)
    simp

end Minicbor.Dec
