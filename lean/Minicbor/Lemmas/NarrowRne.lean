/-
  Round-to-nearest-even for `f64ToF32` (the model of Rust's `f64 as f32`), all finite binary64 inputs.

  Magnitudes are in units of 2^-1074 (every finite binary32 and binary64 value is an integer multiple).
  `mag32` extends the binary32 grid beyond the largest finite pattern 0x7F7FFFFF the IEEE way ("as if the
  exponent range were unbounded"): 0x7F800000 ↦ 2^128, so overflow to infinity is rounding to the next
  grid point.  The cell argument (`Rn`, correct decision between two neighbouring grid points) is the one of
  `FloatRne.lean`; here the shift is a variable (`rneShift M sh`), so the decision lemma is proved once for
  every shift instead of by cases.
-/
import Minicbor.Narrow
import Minicbor.Lemmas.FloatRne

namespace Minicbor

/-- magnitude (units of 2^-1074) of the 31 low bits `X` of a binary32 pattern. -/
def mag32 (X : Nat) : Nat :=
  if X / 8388608 = 0 then X % 8388608 * 2 ^ 925 else (8388608 + X % 8388608) * 2 ^ (X / 8388608 + 924)

/-- magnitude (units of 2^-1074) of a finite binary64 with biased exponent `e`, mantissa `m`. -/
def mag64f (e m : Nat) : Nat := if e = 0 then m else (4503599627370496 + m) * 2 ^ (e - 1)

/-- the low 31 bits `f64ToF32` produces for a finite binary64 (`e < 2047`). -/
def rnd32 (e m : Nat) : Nat :=
  let E := if e = 0 then 1 else e
  let M := if e = 0 then m else 4503599627370496 + m
  if E ≥ 897 then
    (if (E - 896) * 8388608 + (rneShift M 29 - 8388608) ≥ 0x7F800000 then 0x7F800000
     else (E - 896) * 8388608 + (rneShift M 29 - 8388608))
  else rneShift M (926 - E)

/-! ### the binary32 grid is strictly increasing in the pattern -/

theorem mag32_succ (X : Nat) :
    mag32 (X + 1) = mag32 X + 2 ^ ((if X / 8388608 = 0 then 1 else X / 8388608) + 924) := by
  unfold mag32
  by_cases hw : X % 8388608 = 8388607
  · have a1 : (X + 1) / 8388608 = X / 8388608 + 1 := by omega
    have a2 : (X + 1) % 8388608 = 0 := by omega
    have a3 : ¬ (X / 8388608 + 1 = 0) := by omega
    rw [a1, a2]
    simp only [a3, if_false, hw]
    by_cases h0 : X / 8388608 = 0
    · simp only [h0, if_true]
      generalize 2 ^ 925 = P
      omega
    · simp only [h0, if_false]
      have : 2 ^ (X / 8388608 + 1 + 924) = 2 ^ (X / 8388608 + 924) * 2 := by
        rw [show X / 8388608 + 1 + 924 = (X / 8388608 + 924) + 1 by omega, Nat.pow_succ]
      rw [this]
      generalize 2 ^ (X / 8388608 + 924) = P
      omega
  · have a1 : (X + 1) / 8388608 = X / 8388608 := by omega
    have a2 : (X + 1) % 8388608 = X % 8388608 + 1 := by omega
    rw [a1, a2]
    by_cases h0 : X / 8388608 = 0
    · simp only [h0, if_true]
      generalize 2 ^ 925 = P
      rw [Nat.add_mul]
      omega
    · simp only [h0, if_false]
      generalize 2 ^ (X / 8388608 + 924) = P
      rw [show 8388608 + (X % 8388608 + 1) = (8388608 + X % 8388608) + 1 by omega, Nat.add_mul]
      omega

theorem mag32_lt_succ (X : Nat) : mag32 X < mag32 (X + 1) := by
  rw [mag32_succ]
  have : 0 < 2 ^ ((if X / 8388608 = 0 then 1 else X / 8388608) + 924) := Nat.pow_pos (by decide)
  omega

theorem mag32_mono {a b : Nat} (h : a ≤ b) : mag32 a ≤ mag32 b := by
  induction b with
  | zero => have : a = 0 := by omega
            subst this; exact Nat.le_refl _
  | succ b ih =>
    by_cases hb : a = b + 1
    · subst hb; exact Nat.le_refl _
    · have := ih (by omega)
      have := mag32_lt_succ b
      omega

theorem mag32_strict {a b : Nat} (h : a < b) : mag32 a < mag32 b := by
  have := mag32_mono (show a + 1 ≤ b by omega)
  have := mag32_lt_succ a
  omega

theorem mag32_small (X : Nat) (h : X ≤ 8388608) : mag32 X = X * 2 ^ 925 := by
  unfold mag32
  by_cases h1 : X = 8388608
  · subst h1
    have a1 : (8388608 : Nat) / 8388608 = 1 := by decide
    have a2 : (8388608 : Nat) % 8388608 = 0 := by decide
    rw [a1, a2, if_neg (by decide)]
  · have a1 : X / 8388608 = 0 := by omega
    have a2 : X % 8388608 = X := by omega
    rw [a1, a2, if_pos rfl]

/-! ### a nearest point of a strictly increasing grid, from a correct decision in one cell -/

theorem nearest_of_rn_grid (g : Nat → Nat) (hg : ∀ a b, a < b → g a < g b) (lo A : Nat) (up : Bool)
    (h : Rn (g lo) A (g (lo + 1)) (lo % 2 == 0) up) (H' : Nat) :
    ndist (g (if up then lo + 1 else lo)) A ≤ ndist (g H') A ∧
    (ndist (g (if up then lo + 1 else lo)) A = ndist (g H') A →
      H' ≠ (if up then lo + 1 else lo) → (if up then lo + 1 else lo) % 2 = 0) := by
  obtain ⟨h1, h2, h3, h4⟩ := h
  unfold ndist
  have hs := hg lo (lo + 1) (by omega)
  rcases Nat.lt_or_ge H' lo with c | c
  · have m1 := hg _ _ c
    cases up
    · have ⟨a, b⟩ := h3 rfl
      simp only [Bool.false_eq_true, if_false]
      constructor
      · omega
      · intro; omega
    · have ⟨a, b⟩ := h4 rfl
      simp only [if_true]
      constructor
      · omega
      · intro; omega
  · rcases Nat.eq_or_lt_of_le c with c | c
    · subst c
      cases up
      · simp only [Bool.false_eq_true, if_false]
        constructor
        · omega
        · intro _ hne; exact absurd rfl hne
      · have ⟨a, b⟩ := h4 rfl
        simp only [if_true]
        constructor
        · omega
        · intro heq _
          have : 2 * A = g lo + g (lo + 1) := by omega
          have := b this
          simp at this
          omega
    · rcases Nat.eq_or_lt_of_le (show lo + 1 ≤ H' from c) with c' | c'
      · subst c'
        cases up
        · have ⟨a, b⟩ := h3 rfl
          simp only [Bool.false_eq_true, if_false]
          constructor
          · omega
          · intro heq _
            have : 2 * A = g lo + g (lo + 1) := by omega
            have := b this
            simp at this
            omega
        · simp only [if_true]
          constructor
          · omega
          · intro _ hne; exact absurd rfl hne
      · have m1 := hg _ _ c'
        cases up
        · have ⟨a, b⟩ := h3 rfl
          simp only [Bool.false_eq_true, if_false]
          constructor
          · omega
          · intro; omega
        · have ⟨a, b⟩ := h4 rfl
          simp only [if_true]
          constructor
          · omega
          · intro; omega

/-! ### `rneShift` decides correctly, for every shift -/

/-- the decision `rneShift` takes (round up?) -/
def rneUp (M sh : Nat) : Bool :=
  M % 2 ^ sh > 2 ^ (sh - 1) || (M % 2 ^ sh == 2 ^ (sh - 1) && M / 2 ^ sh % 2 == 1)

theorem rneShift_eq (M sh : Nat) (hsh : 0 < sh) :
    rneShift M sh = if rneUp M sh = true then M / 2 ^ sh + 1 else M / 2 ^ sh := by
  unfold rneShift rneUp
  have : (sh == 0) = false := by
    have : sh ≠ 0 := by omega
    simpa using this
  simp only [this, Bool.false_eq_true, if_false]

theorem rneShift_rn (M sh : Nat) (hsh : 0 < sh) :
    Rn (M / 2 ^ sh * 2 ^ sh) M ((M / 2 ^ sh + 1) * 2 ^ sh) (M / 2 ^ sh % 2 == 0) (rneUp M sh) := by
  have hp : 2 ^ sh = 2 * 2 ^ (sh - 1) := by
    rw [show sh = (sh - 1) + 1 by omega, Nat.pow_succ, Nat.mul_comm]
    simp
  have hP : 0 < 2 ^ (sh - 1) := Nat.pow_pos (by decide)
  have hdm := Nat.div_add_mod M (2 ^ sh)
  have hr : M % 2 ^ sh < 2 ^ sh := Nat.mod_lt _ (Nat.pow_pos (by decide))
  have hU : (M / 2 ^ sh + 1) * 2 ^ sh = M / 2 ^ sh * 2 ^ sh + 2 ^ sh := by rw [Nat.add_mul, Nat.one_mul]
  have hL : 2 ^ sh * (M / 2 ^ sh) = M / 2 ^ sh * 2 ^ sh := Nat.mul_comm _ _
  rw [hU]
  unfold Rn rneUp
  generalize M / 2 ^ sh * 2 ^ sh = L at *
  generalize M % 2 ^ sh = r at *
  generalize M / 2 ^ sh = q at *
  rw [hp] at hr ⊢
  generalize 2 ^ (sh - 1) = P at *
  refine ⟨by omega, by omega, ?_, ?_⟩
  · intro h
    simp only [Bool.or_eq_false_iff, decide_eq_false_iff_not, Bool.and_eq_false_imp, beq_iff_eq,
      beq_eq_false_iff_ne, ne_eq] at h
    obtain ⟨ha, hb⟩ := h
    constructor
    · omega
    · intro heq
      have : r = P := by omega
      have := hb this
      simp only [beq_iff_eq]; omega
  · intro h
    simp only [Bool.or_eq_true, decide_eq_true_eq, Bool.and_eq_true, beq_iff_eq] at h
    constructor
    · omega
    · intro heq
      simp only [beq_eq_false_iff_ne, ne_eq]
      rcases h with h | ⟨_, h⟩ <;> omega

/-! ### the two result classes of `f64ToF32` -/

theorem div29_bounds (M : Nat) (h1 : 4503599627370496 ≤ M) (h2 : M < 9007199254740992) :
    8388608 ≤ M / 2 ^ 29 ∧ M / 2 ^ 29 < 16777216 := by
  simp only [Nat.reducePow]; omega

theorem div30_bound (M : Nat) (h2 : M < 9007199254740992) : M / 2 ^ 30 < 8388608 := by
  simp only [Nat.reducePow]; omega

theorem mag64f_eq (e m : Nat) :
    mag64f e m = (if e = 0 then m else 4503599627370496 + m) * 2 ^ ((if e = 0 then 1 else e) - 1) := by
  unfold mag64f
  by_cases h0 : e = 0
  · simp [h0]
  · simp [h0]

/-- **the rounding decision of `f64ToF32` is correct in both classes** (finite inputs below the exponent at
    which every result is an infinity). -/
theorem rnd32_cell (e m : Nat) (he : e < 1151) (hm : m < 4503599627370496) :
    ∃ lo up, rnd32 e m = (if up = true then lo + 1 else lo) ∧ lo ≤ 0x7F7FFFFF ∧
      Rn (mag32 lo) (mag64f e m) (mag32 (lo + 1)) (lo % 2 == 0) up := by
  rw [mag64f_eq]
  unfold rnd32
  generalize hE : (if e = 0 then 1 else e) = E
  generalize hM : (if e = 0 then m else 4503599627370496 + m) = M
  have hE1 : 1 ≤ E := by rw [← hE]; split <;> omega
  have hE2 : E < 1151 := by rw [← hE]; split <;> omega
  have hM2 : M < 9007199254740992 := by rw [← hM]; split <;> omega
  have hMn : 2 ≤ E → 4503599627370496 ≤ M := by
    intro h; rw [← hM]; rw [← hE] at h; split at h <;> split <;> omega
  have hK : 0 < 2 ^ (E - 1) := Nat.pow_pos (by decide)
  by_cases hn : E ≥ 897
  · -- normal range: 24 significant bits kept
    have hMn' := hMn (by omega)
    have hrn := (rneShift_rn M 29 (by omega)).scale (2 ^ (E - 1)) hK
    obtain ⟨hq1, hq2⟩ := div29_bounds M hMn' hM2
    refine ⟨(E - 896) * 8388608 + (M / 2 ^ 29 - 8388608), rneUp M 29, ?_, by omega, ?_⟩
    · simp only [hn, if_true]
      rw [rneShift_eq M 29 (by omega)]
      by_cases hu : rneUp M 29 = true
      · simp only [hu, if_true]
        have : (E - 896) * 8388608 + (M / 2 ^ 29 + 1 - 8388608)
            = (E - 896) * 8388608 + (M / 2 ^ 29 - 8388608) + 1 := by omega
        rw [this]
        split
        · omega
        · rfl
      · simp only [hu, Bool.false_eq_true, if_false]
        split
        · omega
        · rfl
    · have l1 : ((E - 896) * 8388608 + (M / 2 ^ 29 - 8388608)) / 8388608 = E - 896 := by omega
      have l2 : ((E - 896) * 8388608 + (M / 2 ^ 29 - 8388608)) % 8388608 = M / 2 ^ 29 - 8388608 := by omega
      have l3 : ¬ (E - 896 = 0) := by omega
      have hp : 2 ^ (E - 896 + 924) = 2 ^ 29 * 2 ^ (E - 1) := by
        rw [show E - 896 + 924 = 29 + (E - 1) by omega, Nat.pow_add]
      have hL : mag32 ((E - 896) * 8388608 + (M / 2 ^ 29 - 8388608)) = M / 2 ^ 29 * 2 ^ 29 * 2 ^ (E - 1) := by
        unfold mag32
        simp only [l1, l2, l3, if_false, hp]
        rw [show 8388608 + (M / 2 ^ 29 - 8388608) = M / 2 ^ 29 by omega, Nat.mul_assoc]
      have hU : mag32 ((E - 896) * 8388608 + (M / 2 ^ 29 - 8388608) + 1)
          = (M / 2 ^ 29 + 1) * 2 ^ 29 * 2 ^ (E - 1) := by
        rw [mag32_succ, hL]
        simp only [l1, l3, if_false, hp]
        rw [Nat.add_mul (M / 2 ^ 29) 1, Nat.one_mul, Nat.add_mul]
      have hpar : ((E - 896) * 8388608 + (M / 2 ^ 29 - 8388608)) % 2 = M / 2 ^ 29 % 2 := by omega
      rw [hL, hU]
      have : (((E - 896) * 8388608 + (M / 2 ^ 29 - 8388608)) % 2 == 0) = (M / 2 ^ 29 % 2 == 0) := by rw [hpar]
      rw [this]
      exact hrn
  · -- below the normal range: multiples of 2^-149
    have hsh : 30 ≤ 926 - E := by omega
    have hrn := (rneShift_rn M (926 - E) (by omega)).scale (2 ^ (E - 1)) hK
    have hp : 2 ^ (926 - E) * 2 ^ (E - 1) = 2 ^ 925 := by
      rw [← Nat.pow_add, show 926 - E + (E - 1) = 925 by omega]
    have hq : M / 2 ^ (926 - E) < 8388608 := by
      have a : 2 ^ 30 ≤ 2 ^ (926 - E) := Nat.pow_le_pow_right (by decide) hsh
      have b : M / 2 ^ (926 - E) ≤ M / 2 ^ 30 := Nat.div_le_div_left a (by decide)
      exact Nat.lt_of_le_of_lt b (div30_bound M hM2)
    refine ⟨M / 2 ^ (926 - E), rneUp M (926 - E), ?_, by omega, ?_⟩
    · simp only [hn, if_false]
      exact rneShift_eq M (926 - E) (by omega)
    · rw [mag32_small _ (by omega), mag32_small _ (by omega)]
      rw [Nat.mul_assoc, Nat.mul_assoc, hp] at hrn
      exact hrn

/-! ### overflow threshold and the magnitude-level theorem -/

/-- 2^103 in units of 2^-1074: half the spacing of the binary32 grid at its top. -/
def U32 : Nat := 2 ^ 1177

theorem mag32_max : mag32 0x7F7FFFFF = 33554430 * U32 := by decide +kernel
theorem mag32_inf : mag32 0x7F800000 = 33554432 * U32 := by decide +kernel

theorem mag64f_ge_inf (e m : Nat) (he : 1151 ≤ e) : 33554432 * U32 ≤ mag64f e m := by
  unfold mag64f
  have h0 : ¬ (e = 0) := by omega
  simp only [h0, if_false]
  have a : 2 ^ 1150 ≤ 2 ^ (e - 1) := Nat.pow_le_pow_right (by decide) (by omega)
  have b : 4503599627370496 * 2 ^ 1150 ≤ 4503599627370496 * 2 ^ (e - 1) := Nat.mul_le_mul_left _ a
  have c : 4503599627370496 * 2 ^ (e - 1) ≤ (4503599627370496 + m) * 2 ^ (e - 1) := Nat.mul_le_mul_right _ (by omega)
  have d : 33554432 * U32 = 4503599627370496 * 2 ^ 1150 := by decide +kernel
  rw [d]
  exact Nat.le_trans b c

/-- the threshold above which round-to-nearest gives an infinity: (2^25 − 1) · 2^103, half way between the
    largest finite binary32 value and 2^128. -/
def ovf32 : Nat := 33554431 * U32

/-- **round to nearest even, on magnitudes**, for every finite binary64 (`e < 2047`). -/
theorem narrow_rne_mag (e m : Nat) (he : e < 2047) (hm : m < 4503599627370496) :
    rnd32 e m ≤ 0x7F800000 ∧
    (ovf32 ≤ mag64f e m → rnd32 e m = 0x7F800000) ∧
    (mag64f e m < ovf32 → rnd32 e m < 0x7F800000 ∧ ∀ H',
      ndist (mag32 (rnd32 e m)) (mag64f e m) ≤ ndist (mag32 H') (mag64f e m) ∧
      (ndist (mag32 (rnd32 e m)) (mag64f e m) = ndist (mag32 H') (mag64f e m) →
        H' ≠ rnd32 e m → rnd32 e m % 2 = 0)) := by
  by_cases ho : 1151 ≤ e
  · have hR : rnd32 e m = 0x7F800000 := by
      unfold rnd32
      have h0 : ¬ (e = 0) := by omega
      have h1 : e ≥ 897 := by omega
      simp only [h0, if_false, h1, if_true]
      have : (e - 896) * 8388608 + (rneShift (4503599627370496 + m) 29 - 8388608) ≥ 0x7F800000 := by omega
      simp only [this, if_true]
    have hA := mag64f_ge_inf e m ho
    refine ⟨by omega, fun _ => hR, fun h => ?_⟩
    exfalso
    unfold ovf32 at h
    omega
  · obtain ⟨lo, up, hR, hlo, hrn⟩ := rnd32_cell e m (by omega) hm
    have hnear := nearest_of_rn_grid mag32 (fun a b h => mag32_strict h) lo (mag64f e m) up hrn
    rw [← hR] at hnear
    unfold ovf32
    have hup_of : ovf32 ≤ mag64f e m → lo = 0x7F7FFFFF ∧ up = true := by
      intro hge
      unfold ovf32 at hge
      have hlo' : lo = 0x7F7FFFFF := by
        by_cases hc : lo + 1 ≤ 0x7F7FFFFF
        · exfalso
          have := mag32_mono hc
          rw [mag32_max] at this
          have := hrn.2.1
          omega
        · omega
      refine ⟨hlo', ?_⟩
      have hmax : mag32 lo = 33554430 * U32 := by rw [hlo']; exact mag32_max
      have hinf : mag32 (lo + 1) = 33554432 * U32 := by rw [hlo']; exact mag32_inf
      cases up
      · exfalso
        have ⟨a, b⟩ := hrn.2.2.1 rfl
        rw [hmax, hinf] at a b
        have : 2 * mag64f e m = 33554430 * U32 + 33554432 * U32 := by omega
        have := b this
        simp at this
        omega
      · rfl
    refine ⟨?_, ?_, ?_⟩
    · rw [hR]; split <;> omega
    · intro hge
      obtain ⟨h1, h2⟩ := hup_of hge
      rw [hR, h1, h2]; rfl
    · intro hlt
      refine ⟨?_, hnear⟩
      rw [hR]
      cases up
      · simp only [Bool.false_eq_true, if_false]; omega
      · simp only [if_true]
        apply Nat.lt_of_le_of_ne (by omega)
        intro hc
        have hlo' : lo = 0x7F7FFFFF := by omega
        have hmax : mag32 lo = 33554430 * U32 := by rw [hlo']; exact mag32_max
        have hinf : mag32 (lo + 1) = 33554432 * U32 := by rw [hlo']; exact mag32_inf
        have ⟨a, _⟩ := hrn.2.2.2 rfl
        rw [hmax, hinf] at a
        omega

/-! ### from magnitudes to the value semantics `val32` / `val64` -/

theorem val64_finite (s e m : Nat) (hs : s < 2) (he : e < 2047) (hm : m < 4503599627370496) :
    val64 (s * 9223372036854775808 + e * 4503599627370496 + m) = .finite (s == 1) (mag64f e m) := by
  rw [val64_mk s e m hs (by omega) hm]
  have h1 : ¬ (e = 2047) := by omega
  unfold mag64f
  rw [if_neg h1]
  by_cases h0 : e = 0
  · rw [if_pos h0, if_pos h0]
  · rw [if_neg h0, if_neg h0]

theorem val32_of_mag (s R : Nat) (hs : s < 2) (hR : R ≤ 0x7F7FFFFF) :
    val32 (s * 2147483648 + R) = .finite (s == 1) (mag32 R) := by
  have hsplit : s * 2147483648 + R = s * 2147483648 + (R / 8388608) * 8388608 + R % 8388608 := by omega
  rw [hsplit, val32_mk s (R / 8388608) (R % 8388608) hs (by omega) (by omega)]
  have h1 : ¬ (R / 8388608 = 255) := by omega
  unfold mag32
  rw [if_neg h1]
  by_cases h0 : R / 8388608 = 0
  · rw [if_pos h0, if_pos h0]
  · rw [if_neg h0, if_neg h0]

theorem val32_infinite (s : Nat) (hs : s < 2) : val32 (s * 2147483648 + 0x7F800000) = .inf (s == 1) := by
  have := val32_mk s 255 0 hs (by omega) (by omega)
  simpa using this

/-- a binary32 pattern that denotes a finite value, in fields. -/
theorem val32_finite_inv (y : Nat) (hy : y < 4294967296) (n' : Bool) (b' : Nat)
    (hv : val32 y = .finite n' b') :
    y % 2147483648 ≤ 0x7F7FFFFF ∧ n' = (y / 2147483648 == 1) ∧ b' = mag32 (y % 2147483648) := by
  have hfin : y % 2147483648 ≤ 0x7F7FFFFF := by
    by_cases he : y / 8388608 % 256 = 255
    · exfalso
      unfold val32 at hv
      simp only [he, beq_self_eq_true, if_true] at hv
      split at hv <;> cases hv
    · omega
  have hsplit : y = (y / 2147483648) * 2147483648 + y % 2147483648 := by omega
  have := val32_of_mag (y / 2147483648) (y % 2147483648) (by omega) hfin
  rw [← hsplit, hv] at this
  injection this with h1 h2
  exact ⟨hfin, h1, h2⟩

end Minicbor
