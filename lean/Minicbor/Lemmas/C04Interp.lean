/-
  C04, specification side of typed decoding: `interp t w` — which wire shapes (of ANY head width,
  definite or indefinite) the built-in `Decode` impl of type `t` accepts, and the value the RFC 8949
  data model assigns.  Written on the wire tree, independently of the decoder model; the scalar
  cases are the accessor specification `view` of Lemmas/C04Acc.lean.

  Summary of what a type accepts (everything else is `none`):
    integers, char, nz   uint / nint heads of any width whose value is in range (char: a scalar value, nz: ≠ 0)
    bool                 simple 20 / 21;        f32: f16 or f32 items;   f64: f16, f32 or f64 items (widened)
    str, bytes, barr, cstr   DEFINITE strings only, any head width (barr: exact length, cstr: one trailing NUL)
    unit                 the empty definite array (any head width);    skipUnit: any item whatsoever
    opt t                null ↦ None, anything else as `t`
    seq, map             definite (any width) or indefinite arrays / maps, elements as `t` / `k`,`v`
    arr n t              definite or indefinite array of exactly `n` elements
    tup ts               DEFINITE array of exactly `|ts|` elements;  enum ts: DEFINITE `[index, payload]`
    tagged n t           tag `n` at any width around a `t`
    fields ts            definite or indefinite array with AT LEAST `|ts|` elements, the extra ones ignored
    duration, systime    as `fields [u64, u32]`, then `secs + nanos / 10^9` must fit (u64 / i64)
    tag                  (bare `data::Tag`) never: it reads a tag HEAD, which is not a data item
-/
import Minicbor.Types
import Minicbor.Lemmas.C04Acc

namespace Minicbor.C04

/-! ### element loops on the specification side -/

/-- every element, in order. -/
def interpAll (f : WItem → Option α) : List WItem → Option (List α)
  | [] => some []
  | x :: xs => (f x).bind fun v => (interpAll f xs).bind fun vs => some (v :: vs)

/-- flattened key / value entries, alternating. -/
def interpPairs (fk fv : WItem → Option α) : List WItem → Option (List α)
  | [] => some []
  | k :: v :: rest =>
      (fk k).bind fun a => (fv v).bind fun b => (interpPairs fk fv rest).bind fun c => some (a :: b :: c)
  | [_] => none

/-- one interpretation per element, same number of each (tuples). -/
def interpZip : List (WItem → Option α) → List WItem → Option (List α)
  | [], [] => some []
  | f :: fs, x :: xs => (f x).bind fun v => (interpZip fs xs).bind fun vs => some (v :: vs)
  | _, _ => none

/-- one interpretation per leading element, further elements ignored (`decode_fields!`). -/
def interpFields : List (WItem → Option α) → List WItem → Option (List α)
  | [], _ => some []
  | _ :: _, [] => none
  | f :: fs, x :: xs => (f x).bind fun v => (interpFields fs xs).bind fun vs => some (v :: vs)

/-- the elements of a definite or indefinite array … -/
def elems : WItem → Option (List WItem)
  | .array _ xs => some xs
  | .arrayI xs => some xs
  | _ => none

/-- … of a definite array only … -/
def elemsDef : WItem → Option (List WItem)
  | .array _ xs => some xs
  | _ => none

/-- … and the flattened entries of a definite or indefinite map. -/
def entries : WItem → Option (List WItem)
  | .map _ kvs => some kvs
  | .mapI kvs => some kvs
  | _ => none

/-- the item is `null` (`f6`). -/
def isNull : WItem → Bool
  | .simple n => n == 22
  | _ => false

/-- `CStr::from_bytes_with_nul`: exactly one NUL, at the end; the value is the part before it. -/
def cstrVal (b : Bytes) : Option Val :=
  match b.reverse with
  | z :: revInit => if z == 0 && revInit.all (· != 0) then some (.bytes revInit.reverse) else none
  | [] => none

/-- `Duration` / `SystemTime` from `[secs, nanos]`: the carry must fit. -/
def durVal (sys : Bool) : List Int → Option Val
  | [s, n] =>
      let secs := s.toNat + n.toNat / NANOS_PER_SEC
      if secs > 18446744073709551615 then none
      else if sys && secs > 9223372036854775807 then none
      else some (.list [.int secs, .int (n.toNat % NANOS_PER_SEC)])
  | _ => none

mutual
/-- **SPEC.**  `interp t w = some v`: type `t` accepts the (valid) wire tree `w` and `v` is the value
    the data model assigns; `none`: `t` does not accept `w`. -/
def interp : Ty → WItem → Option Val
  | .int k, w => (view (.int k.ty) w).map Val.int
  | .bool, w => (view .bool w).map Val.bool
  | .char, w => (view .char w).map fun c => Val.int (c : Nat)
  | .f32, w => (view (.f32 true) w).map Val.float
  | .f64, w => (view (.f64 true) w).map Val.float
  | .str, w => (view .str w).map Val.str
  | .bytes, w => (view .bytes w).map Val.bytes
  | .barr n, w => (view .bytes w).bind fun b => if b.length = n then some (.bytes b) else none
  | .cstr, w => (view .bytes w).bind cstrVal
  | .unit, w => (elemsDef w).bind fun xs => if xs.length = 0 then some .unit else none
  | .skipUnit, _ => some .unit
  | .opt t, w => if isNull w = true then some .none else (interp t w).map Val.some
  | .seq t, w => (elems w).bind fun xs => (interpAll (interp t) xs).map Val.list
  | .arr n t, w => (elems w).bind fun xs =>
      if xs.length = n then (interpAll (interp t) xs).map Val.list else none
  | .tup ts, w => (elemsDef w).bind fun xs => (interpZip (interps ts) xs).map Val.list
  | .map k v, w => (entries w).bind fun kvs => (interpPairs (interp k) (interp v) kvs).map Val.map
  | .nz k, w => (view (.int k.ty) w).bind fun v => if v = 0 then none else some (.int v)
  | .tag, _ => none
  | .tagged n t, w =>
      match w with
      | .tag _ g x => if g = n then (interp t x).map Val.tagged else none
      | _ => none
  | .enum ts, w => (elemsDef w).bind fun xs =>
      match xs with
      | [i, x] => (view (.int .u32) i).bind fun n =>
          match (interps ts)[n.toNat]? with
          | some f => (f x).map (Val.variant n.toNat)
          | none => none
      | _ => none
  | .fields ts, w => (elems w).bind fun xs => (interpFields (interps ts) xs).map Val.list
  | .duration, w => (elems w).bind fun xs =>
      (interpFields [view (.int .u64), view (.int .u32)] xs).bind (durVal false)
  | .systime, w => (elems w).bind fun xs =>
      (interpFields [view (.int .u64), view (.int .u32)] xs).bind (durVal true)
def interps : List Ty → List (WItem → Option Val)
  | [] => []
  | t :: ts => interp t :: interps ts
end

end Minicbor.C04
