/-
  Sanity of `C11.canon`: the canonical tree is valid, is in preferred form, and denotes the same
  data-model value (when no half float is a signalling NaN).
-/
import Minicbor.Lemmas.TokenEnc

namespace Minicbor.C11

theorem quiet16_idem (h : Nat) : quiet16 (quiet16 h) = quiet16 h := by
  by_cases hs : h / 1024 % 32 = 31 ∧ h % 1024 ≠ 0 ∧ h % 1024 < 512
  · have e : quiet16 h = h + 512 := by unfold quiet16; rw [if_pos hs]
    rw [e]; unfold quiet16; rw [if_neg (by omega)]
  · have e : quiet16 h = h := by unfold quiet16; rw [if_neg hs]
    rw [e, e]

theorem canonChunks_valid (u : Bool) (cs : List (Width × Bytes)) (h : chunksValid u cs = true) :
    chunksValid u (canonChunks cs) = true := by
  induction cs with
  | nil => rfl
  | cons c cs ih =>
    obtain ⟨w, b⟩ := c
    simp only [chunksValid, Bool.and_eq_true] at h
    simp only [canonChunks, chunksValid, Bool.and_eq_true]
    exact ⟨⟨prefWidth_fits _ (fits_lt64 h.1.1), h.1.2⟩, ih h.2⟩

theorem canonChunks_preferred (cs : List (Width × Bytes)) : chunksPreferred (canonChunks cs) = true := by
  induction cs with
  | nil => rfl
  | cons c cs ih => obtain ⟨w, b⟩ := c; simp [canonChunks, chunksPreferred, ih]

theorem canonChunks_join (cs : List (Width × Bytes)) : joinChunks (canonChunks cs) = joinChunks cs := by
  induction cs with
  | nil => rfl
  | cons c cs ih => obtain ⟨w, b⟩ := c; simp [canonChunks, joinChunks, ih]

mutual
theorem canon_valid (w : WItem) (h : w.valid = true) : (canon w).valid = true := by
  cases w with
  | uint w n => simp only [WItem.valid] at h; simp only [canon, WItem.valid]; exact prefWidth_fits _ (fits_lt64 h)
  | nint w n => simp only [WItem.valid] at h; simp only [canon, WItem.valid]; exact prefWidth_fits _ (fits_lt64 h)
  | bytes w b => simp only [WItem.valid] at h; simp only [canon, WItem.valid]; exact prefWidth_fits _ (fits_lt64 h)
  | text w b =>
    simp only [WItem.valid, Bool.and_eq_true] at h
    simp only [canon, WItem.valid, Bool.and_eq_true]
    exact ⟨prefWidth_fits _ (fits_lt64 h.1), h.2⟩
  | bytesI cs => simp only [WItem.valid] at h; simp only [canon, WItem.valid]; exact canonChunks_valid _ cs h
  | textI cs => simp only [WItem.valid] at h; simp only [canon, WItem.valid]; exact canonChunks_valid _ cs h
  | array w xs =>
    simp only [WItem.valid, Bool.and_eq_true] at h
    simp only [canon, WItem.valid, Bool.and_eq_true, canonL_length]
    exact ⟨prefWidth_fits _ (fits_lt64 h.1), canonL_valid xs h.2⟩
  | arrayI xs => simp only [WItem.valid] at h; simp only [canon, WItem.valid]; exact canonL_valid xs h
  | map w kvs =>
    simp only [WItem.valid, Bool.and_eq_true] at h
    simp only [canon, WItem.valid, Bool.and_eq_true, canonL_length]
    exact ⟨⟨h.1.1, prefWidth_fits _ (fits_lt64 h.1.2)⟩, canonL_valid kvs h.2⟩
  | mapI kvs =>
    simp only [WItem.valid, Bool.and_eq_true] at h
    simp only [canon, WItem.valid, Bool.and_eq_true, canonL_length]
    exact ⟨h.1, canonL_valid kvs h.2⟩
  | tag w n x =>
    simp only [WItem.valid, Bool.and_eq_true] at h
    simp only [canon, WItem.valid, Bool.and_eq_true]
    exact ⟨prefWidth_fits _ (fits_lt64 h.1), canon_valid x h.2⟩
  | simple n => exact h
  | f16 b =>
    simp only [WItem.valid, decide_eq_true_eq] at h
    simp only [canon, WItem.valid, decide_eq_true_eq]
    exact quiet16_lt b h
  | f32 b => exact h
  | f64 b => exact h
theorem canonL_valid (ws : List WItem) (h : validAll ws = true) : validAll (canonL ws) = true := by
  cases ws with
  | nil => rfl
  | cons x xs =>
    simp only [validAll, Bool.and_eq_true] at h
    simp only [canonL, validAll, Bool.and_eq_true]
    exact ⟨canon_valid x h.1, canonL_valid xs h.2⟩
end

mutual
theorem canon_preferred (w : WItem) : preferred (canon w) = true := by
  cases w with
  | bytesI cs => simp only [canon, preferred, canonChunks_preferred]
  | textI cs => simp only [canon, preferred, canonChunks_preferred]
  | array w xs => simp only [canon, preferred, canonL_length, canonL_preferred xs, beq_self_eq_true, Bool.and_self]
  | arrayI xs => simp only [canon, preferred, canonL_preferred xs]
  | map w kvs => simp only [canon, preferred, canonL_length, canonL_preferred kvs, beq_self_eq_true, Bool.and_self]
  | mapI kvs => simp only [canon, preferred, canonL_preferred kvs]
  | tag w n x => simp only [canon, preferred, canon_preferred x, beq_self_eq_true, Bool.and_self]
  | f16 b => simp only [canon, preferred, quiet16_idem, beq_self_eq_true]
  | _ => simp [canon, preferred]
theorem canonL_preferred (ws : List WItem) : preferredL (canonL ws) = true := by
  cases ws with
  | nil => rfl
  | cons x xs => simp only [canonL, preferredL, canon_preferred x, canonL_preferred xs, Bool.and_self]
end

mutual
theorem canon_value (w : WItem) (h : halfQuiet w = true) : value (canon w) = value w := by
  cases w with
  | bytesI cs => simp only [canon, value, canonChunks_join]
  | textI cs => simp only [canon, value, canonChunks_join]
  | array w xs => simp only [halfQuiet] at h; simp only [canon, value, canonL_values xs h]
  | arrayI xs => simp only [halfQuiet] at h; simp only [canon, value, canonL_values xs h]
  | map w kvs => simp only [halfQuiet] at h; simp only [canon, value, canonL_values kvs h]
  | mapI kvs => simp only [halfQuiet] at h; simp only [canon, value, canonL_values kvs h]
  | tag w n x => simp only [halfQuiet] at h; simp only [canon, value, canon_value x h]
  | f16 b => simp only [halfQuiet, beq_iff_eq] at h; simp only [canon, value, h]
  | _ => rfl
theorem canonL_values (ws : List WItem) (h : halfQuietL ws = true) : values (canonL ws) = values ws := by
  cases ws with
  | nil => rfl
  | cons x xs =>
    simp only [halfQuietL, Bool.and_eq_true] at h
    simp only [canonL, values, canon_value x h.1, canonL_values xs h.2]
end

end Minicbor.C11
