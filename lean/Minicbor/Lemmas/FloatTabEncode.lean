/-
  Complete finite table: for each of the 65 536 binary16 patterns `h`, converting its exact
  binary32 image back with `f32ToF16` (the model of `half::f16::from_f32`) returns `h`
  itself; for NaN patterns it returns the same payload with the quiet bit (0x0200) set.
  Checked by kernel evaluation (`decide +kernel`) in 4 × 16 chunks, no `native_decide`.
-/
import Minicbor.Lemmas.FloatTabEncode0
import Minicbor.Lemmas.FloatTabEncode1
import Minicbor.Lemmas.FloatTabEncode2
import Minicbor.Lemmas.FloatTabEncode3

namespace Minicbor
open FloatTab

theorem f16_encode_table : ∀ h, h < 65536 →
    f32ToF16 (f16ToF32 h) = (if isNan16 h && h / 512 % 2 == 0 then h + 512 else h) := by
  have a0 : allFrom 0 16384 encP0 = true := encP0_all
  have a1 : allFrom 0 32768 encP0 = true := allFrom_append a0 encP1_all (by decide) (by decide)
  have a2 : allFrom 0 49152 encP0 = true := allFrom_append a1 encP2_all (by decide) (by decide)
  have a3 : allFrom 0 65536 encP0 = true := allFrom_append a2 encP3_all (by decide) (by decide)
  intro h hh
  have := allFrom_spec a3 h (by omega) (by omega)
  simpa [encP0] using this

end Minicbor
