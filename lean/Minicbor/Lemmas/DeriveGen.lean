/-
  The slot loops of the generated decoder on a body given as *arbitrary* item encodings
  (`X i` for the array cells, `(key bytes, item bytes)` for the map entries), in definite and
  indefinite-length containers: the generic engine behind C09's re-framed input.  Each item is
  described by `StepH` (DeriveCompat.lean): either no field has that index and `skip()` crosses
  the item, or the field's action delivers `ρ`.
-/
import Minicbor.Lemmas.DeriveCompat
import Minicbor.Lemmas.DeriveIndef

namespace Minicbor.Derive
open Minicbor.Dec

/-! ### array bodies -/

/-- the concatenation of the cells `c .. c+n-1`. -/
def catX (X : Nat → Bytes) (c n : Nat) : Bytes := ((List.range' c n).map X).flatten

theorem catX_zero (X : Nat → Bytes) (c : Nat) : catX X c 0 = [] := by simp [catX]

theorem catX_succ (X : Nat → Bytes) (c n : Nat) : catX X c (n + 1) = X c ++ catX X (c + 1) n := by
  simp [catX, List.range'_succ]

theorem ovr_zero (σ ρ : Nat → Option Val) (c i : Nat) : ovr σ ρ c 0 i = σ i := by
  have : ¬ (c ≤ i ∧ i < c + 0) := by omega
  simp [ovr]; omega

theorem ovr_step (σ ρ : Nat → Option Val) (c n i : Nat) :
    ovr (updR σ c (ρ c)) ρ (c + 1) n i = ovr σ ρ c (n + 1) i := by
  simp only [ovr, updR]
  by_cases hic : i = c
  · subst hic
    have e1 : (decide (i + 1 ≤ i) && decide (i < i + 1 + n)) = false := by
      have : ¬ (i + 1 ≤ i) := by omega
      simp [this]
    have e2 : (decide (i ≤ i) && decide (i < i + (n + 1))) = true := by simp
    rw [e1, e2]
    simp
  · have hb : (i == c) = false := by simpa using hic
    by_cases h1 : c + 1 ≤ i <;> by_cases h2 : i < c + 1 + n
    · have e1 : (decide (c + 1 ≤ i) && decide (i < c + 1 + n)) = true := by simp [h1, h2]
      have e2 : (decide (c ≤ i) && decide (i < c + (n + 1))) = true := by simp; omega
      simp [e1, e2, hb]
    · have e1 : (decide (c + 1 ≤ i) && decide (i < c + 1 + n)) = false := by simp [h2]
      have e2 : (decide (c ≤ i) && decide (i < c + (n + 1))) = false := by simp; omega
      simp [e1, e2, hb]
    · have e1 : (decide (c + 1 ≤ i) && decide (i < c + 1 + n)) = false := by simp [h1]
      have e2 : (decide (c ≤ i) && decide (i < c + (n + 1))) = false := by simp; omega
      simp [e1, e2, hb]
    · have e1 : (decide (c + 1 ≤ i) && decide (i < c + 1 + n)) = false := by simp [h1]
      have e2 : (decide (c ≤ i) && decide (i < c + (n + 1))) = false := by simp; omega
      simp [e1, e2, hb]

theorem arrLoopN_X (rest : Bytes) (gs : Fields) (X : Nat → Bytes) (ρ : Nat → Option Val)
    (hnd : (liveIdxs gs).Nodup) :
    ∀ (n c : Nat) (ss : Slots) (σ : Nat → Option Val), InvR σ gs ss →
    (∀ i, c ≤ i → i < c + n → StepH gs (ρ i) i (X i)) →
    ∃ ss', arrLoopN (decFields gs) n c ss (catX X c n ++ rest) = .ok ss' rest ∧ InvR (ovr σ ρ c n) gs ss'
  | 0, c, ss, σ, hi, _ => by
    refine ⟨ss, by simp [arrLoopN, catX_zero], invR_congr gs ss (fun i _ => (ovr_zero σ ρ c i).symm) hi⟩
  | n + 1, c, ss, σ, hi, hstep => by
    obtain ⟨ss1, h1, hi1⟩ := runAtR_step σ c (X c) (catX X (c + 1) n ++ rest) (ρ c) gs ss hnd hi
      (hstep c (Nat.le_refl _) (by omega))
    obtain ⟨ss2, h2, hi2⟩ := arrLoopN_X rest gs X ρ hnd n (c + 1) ss1 _ hi1
      (fun i h1 h2 => hstep i (by omega) (by omega))
    refine ⟨ss2, ?_, invR_congr gs ss2 (fun i _ => ovr_step σ ρ c n i) hi2⟩
    rw [catX_succ, List.append_assoc]
    simp only [arrLoopN]
    rw [Dec.bind_run, h1]
    exact h2

theorem arrLoopI_X (rest : Bytes) (gs : Fields) (X : Nat → Bytes) (ρ : Nat → Option Val)
    (hnd : (liveIdxs gs).Nodup) :
    ∀ (n c : Nat) (ss : Slots) (σ : Nat → Option Val) (fuel : Nat), n < fuel → InvR σ gs ss →
    (∀ i, c ≤ i → i < c + n → StepH gs (ρ i) i (X i)) →
    (∀ i, c ≤ i → i < c + n → startNB (X i) = true) →
    ∃ ss', arrLoopI (decFields gs) fuel c ss (catX X c n ++ 0xff :: rest) = .ok ss' rest ∧ InvR (ovr σ ρ c n) gs ss'
  | 0, c, ss, σ, fuel + 1, _, hi, _, _ => by
    refine ⟨ss, ?_, invR_congr gs ss (fun i _ => (ovr_zero σ ρ c i).symm) hi⟩
    simp only [catX_zero, List.nil_append, arrLoopI]
    rw [Dec.bind_run, datatype_break]
    simp only [beq_self_eq_true, if_true]
    rw [Dec.bind_run, skip_break]
    rfl
  | n + 1, c, ss, σ, fuel + 1, hf, hi, hstep, hst => by
    obtain ⟨ty, hdt, hnb⟩ := datatype_startNB (X c) (catX X (c + 1) n ++ 0xff :: rest) (hst c (Nat.le_refl _) (by omega))
    obtain ⟨ss1, h1, hi1⟩ := runAtR_step σ c (X c) (catX X (c + 1) n ++ 0xff :: rest) (ρ c) gs ss hnd hi
      (hstep c (Nat.le_refl _) (by omega))
    obtain ⟨ss2, h2, hi2⟩ := arrLoopI_X rest gs X ρ hnd n (c + 1) ss1 _ fuel (by omega) hi1
      (fun i h1 h2 => hstep i (by omega) (by omega)) (fun i h1 h2 => hst i (by omega) (by omega))
    refine ⟨ss2, ?_, invR_congr gs ss2 (fun i _ => ovr_step σ ρ c n i) hi2⟩
    rw [catX_succ, List.append_assoc]
    simp only [arrLoopI]
    rw [Dec.bind_run, hdt]
    have : (ty == CType.break) = false := by simpa using hnb
    simp only [this, Bool.false_eq_true, if_false]
    rw [Dec.bind_run, h1]
    exact h2
  | _, _, _, _, 0, hf, _, _, _ => by omega

theorem startNB_length (bs : Bytes) (h : startNB bs = true) : 1 ≤ bs.length := by
  cases bs with
  | nil => simp [startNB] at h
  | cons b tl => simp

theorem catX_length_ge (X : Nat → Bytes) : ∀ (n c : Nat), (∀ i, c ≤ i → i < c + n → 1 ≤ (X i).length) →
    n ≤ (catX X c n).length
  | 0, _, _ => by simp
  | n + 1, c, h => by
    rw [catX_succ, List.length_append]
    have := catX_length_ge X n (c + 1) (fun i h1 h2 => h i (by omega) (by omega))
    have := h c (Nat.le_refl _) (by omega)
    omega

/-- **array body, definite container** (any head `H` that `array()` reads as `n`). -/
theorem fieldsDec_arrN (gs : Fields) (ρ : Nat → Option Val) (H : Bytes) (n : Nat) (X : Nat → Bytes) (rest : Bytes)
    (hnd : (liveIdxs gs).Nodup) (hH : ∀ r, Dec.array (H ++ r) = .ok (some n) r)
    (hstep : ∀ i, i < n → StepH gs (ρ i) i (X i))
    (hopt : ∀ b u, (b, u) ∈ gs → b.skip = false → ovr (fun _ => none) ρ 0 n b.idx = none → slotInit u = none →
      (nilOf b u).isSome = true) :
    fieldsDec .array (decFields gs) (H ++ (catX X 0 n ++ rest)) = .ok (readerVals (ovr (fun _ => none) ρ 0 n) gs) rest := by
  obtain ⟨ss', h1, hi1⟩ := arrLoopN_X rest gs X ρ hnd n 0 _ _ (invR_init gs) (fun i _ h2 => hstep i (by omega))
  have hres := resolveR _ gs ss' hi1 hopt rest
  simp only [fieldsDec, statements, Dec.bind_run, hH, h1, hres]

/-- **array body, indefinite-length container** (`9f … ff`). -/
theorem fieldsDec_arrI (gs : Fields) (ρ : Nat → Option Val) (n : Nat) (X : Nat → Bytes) (rest : Bytes)
    (hnd : (liveIdxs gs).Nodup)
    (hstep : ∀ i, i < n → StepH gs (ρ i) i (X i)) (hst : ∀ i, i < n → startNB (X i) = true)
    (hopt : ∀ b u, (b, u) ∈ gs → b.skip = false → ovr (fun _ => none) ρ 0 n b.idx = none → slotInit u = none →
      (nilOf b u).isSome = true) :
    fieldsDec .array (decFields gs) (0x9f :: (catX X 0 n ++ 0xff :: rest))
      = .ok (readerVals (ovr (fun _ => none) ρ 0 n) gs) rest := by
  have harr : ∀ Y : Bytes, Dec.array (0x9f :: Y) = .ok none Y := by
    intro Y; simp [Dec.array, Dec.container, Dec.bind_run, Dec.majorOf, Dec.infoOf]; rfl
  have hlen := catX_length_ge X n 0 (fun i _ h2 => startNB_length _ (hst i (by omega)))
  obtain ⟨ss', h1, hi1⟩ := arrLoopI_X rest gs X ρ hnd n 0 _ _ ((catX X 0 n ++ 0xff :: rest).length + 1)
    (by simp only [List.length_append]; omega) (invR_init gs) (fun i _ h2 => hstep i (by omega))
    (fun i _ h2 => hst i (by omega))
  have hres := resolveR _ gs ss' hi1 hopt rest
  simp only [fieldsDec, statements, Dec.bind_run, harr, Dec.remaining, h1, hres]

/-! ### map bodies -/

/-- an entry on the wire: the field index, the bytes of the key, the bytes of the item. -/
abbrev Entry := Nat × Bytes × Bytes

def catE : List Entry → Bytes
  | [] => []
  | e :: es => e.2.1 ++ (e.2.2 ++ catE es)

/-- `σ` after the entries with the keys `ks`. -/
def ovrE (σ : Nat → Option Val) (ρ : Nat → Option Val) (ks : List Nat) : Nat → Option Val :=
  fun i => if ks.contains i then (match ρ i with | some pv => some pv | none => σ i) else σ i

theorem ovrE_step (σ ρ : Nat → Option Val) (k : Nat) (ks : List Nat) (hk : k ∉ ks) (i : Nat) :
    ovrE (updR σ k (ρ k)) ρ ks i = ovrE σ ρ (k :: ks) i := by
  simp only [ovrE, updR, List.contains_cons]
  by_cases hik : i = k
  · subst hik
    simp [hk]
    cases ρ i <;> rfl
  · have hb : (i == k) = false := by simpa using hik
    simp [hb]

theorem mapLoopN_E (rest : Bytes) (gs : Fields) (ρ : Nat → Option Val) (hnd : (liveIdxs gs).Nodup) :
    ∀ (E : List Entry) (ss : Slots) (σ : Nat → Option Val), InvR σ gs ss → (E.map (·.1)).Nodup →
    (∀ e ∈ E, ∀ r, Dec.intAcc .u32 (e.2.1 ++ r) = .ok (e.1 : Int) r) →
    (∀ e ∈ E, StepH gs (ρ e.1) e.1 e.2.2) →
    ∃ ss', mapLoopN (decFields gs) E.length ss (catE E ++ rest) = .ok ss' rest ∧ InvR (ovrE σ ρ (E.map (·.1))) gs ss'
  | [], ss, σ, hi, _, _, _ => by
    refine ⟨ss, by simp [mapLoopN, catE], invR_congr gs ss (fun i _ => by simp [ovrE]) hi⟩
  | e :: E, ss, σ, hi, hndE, hkey, hstep => by
    have hndE' : e.1 ∉ E.map (·.1) ∧ (E.map (·.1)).Nodup := List.nodup_cons.1 hndE
    obtain ⟨ss1, h1, hi1⟩ := runAtR_step σ e.1 e.2.2 (catE E ++ rest) (ρ e.1) gs ss hnd hi (hstep e (by simp))
    obtain ⟨ss2, h2, hi2⟩ := mapLoopN_E rest gs ρ hnd E ss1 _ hi1 hndE'.2 (fun q hq => hkey q (by simp [hq]))
      (fun q hq => hstep q (by simp [hq]))
    refine ⟨ss2, ?_, invR_congr gs ss2 (fun i _ => ?_) hi2⟩
    · simp only [List.length_cons, mapLoopN, catE, List.append_assoc]
      rw [Dec.bind_run, hkey e (by simp)]
      simp only [Int.toNat_natCast]
      rw [Dec.bind_run, h1]
      exact h2
    · simpa using ovrE_step σ ρ e.1 (E.map (·.1)) hndE'.1 i

theorem mapLoopI_E (rest : Bytes) (gs : Fields) (ρ : Nat → Option Val) (hnd : (liveIdxs gs).Nodup) :
    ∀ (E : List Entry) (ss : Slots) (σ : Nat → Option Val) (fuel : Nat), E.length < fuel → InvR σ gs ss →
    (E.map (·.1)).Nodup →
    (∀ e ∈ E, ∀ r, Dec.intAcc .u32 (e.2.1 ++ r) = .ok (e.1 : Int) r) → (∀ e ∈ E, startNB e.2.1 = true) →
    (∀ e ∈ E, StepH gs (ρ e.1) e.1 e.2.2) →
    ∃ ss', mapLoopI (decFields gs) fuel ss (catE E ++ 0xff :: rest) = .ok ss' rest ∧ InvR (ovrE σ ρ (E.map (·.1))) gs ss'
  | [], ss, σ, fuel + 1, _, hi, _, _, _, _ => by
    refine ⟨ss, ?_, invR_congr gs ss (fun i _ => by simp [ovrE]) hi⟩
    simp only [catE, List.nil_append, mapLoopI]
    rw [Dec.bind_run, datatype_break]
    simp only [beq_self_eq_true, if_true]
    rw [Dec.bind_run, skip_break]
    rfl
  | e :: E, ss, σ, fuel + 1, hf, hi, hndE, hkey, hst, hstep => by
    have hndE' : e.1 ∉ E.map (·.1) ∧ (E.map (·.1)).Nodup := List.nodup_cons.1 hndE
    obtain ⟨ty, hdt, hnb⟩ := datatype_startNB e.2.1 (e.2.2 ++ (catE E ++ 0xff :: rest)) (hst e (by simp))
    obtain ⟨ss1, h1, hi1⟩ := runAtR_step σ e.1 e.2.2 (catE E ++ 0xff :: rest) (ρ e.1) gs ss hnd hi (hstep e (by simp))
    obtain ⟨ss2, h2, hi2⟩ := mapLoopI_E rest gs ρ hnd E ss1 _ fuel (by simp at hf; omega) hi1 hndE'.2
      (fun q hq => hkey q (by simp [hq])) (fun q hq => hst q (by simp [hq])) (fun q hq => hstep q (by simp [hq]))
    refine ⟨ss2, ?_, invR_congr gs ss2 (fun i _ => ?_) hi2⟩
    · simp only [mapLoopI, catE, List.append_assoc]
      rw [Dec.bind_run, hdt]
      have : (ty == CType.break) = false := by simpa using hnb
      simp only [this, Bool.false_eq_true, if_false]
      rw [Dec.bind_run, hkey e (by simp)]
      simp only [Int.toNat_natCast]
      rw [Dec.bind_run, h1]
      exact h2
    · simpa using ovrE_step σ ρ e.1 (E.map (·.1)) hndE'.1 i
  | _, _, _, 0, hf, _, _, _, _, _ => by omega

theorem catE_length_ge : ∀ (E : List Entry), (∀ e ∈ E, 1 ≤ e.2.1.length) → E.length ≤ (catE E).length
  | [], _ => by simp
  | e :: E, h => by
    simp only [catE, List.length_append, List.length_cons]
    have := catE_length_ge E (fun q hq => h q (by simp [hq]))
    have := h e (by simp)
    omega

/-- **map body, definite container.** -/
theorem fieldsDec_mapN (gs : Fields) (ρ : Nat → Option Val) (H : Bytes) (E : List Entry) (rest : Bytes)
    (hnd : (liveIdxs gs).Nodup) (hH : ∀ r, Dec.map (H ++ r) = .ok (some E.length) r)
    (hndE : (E.map (·.1)).Nodup)
    (hkey : ∀ e ∈ E, ∀ r, Dec.intAcc .u32 (e.2.1 ++ r) = .ok (e.1 : Int) r)
    (hstep : ∀ e ∈ E, StepH gs (ρ e.1) e.1 e.2.2)
    (hopt : ∀ b u, (b, u) ∈ gs → b.skip = false → ovrE (fun _ => none) ρ (E.map (·.1)) b.idx = none → slotInit u = none →
      (nilOf b u).isSome = true) :
    fieldsDec .map (decFields gs) (H ++ (catE E ++ rest)) = .ok (readerVals (ovrE (fun _ => none) ρ (E.map (·.1))) gs) rest := by
  obtain ⟨ss', h1, hi1⟩ := mapLoopN_E rest gs ρ hnd E _ _ (invR_init gs) hndE hkey hstep
  have hres := resolveR _ gs ss' hi1 hopt rest
  simp only [fieldsDec, statements, Dec.bind_run, hH, h1, hres]

/-- **map body, indefinite-length container** (`bf … ff`). -/
theorem fieldsDec_mapI (gs : Fields) (ρ : Nat → Option Val) (E : List Entry) (rest : Bytes)
    (hnd : (liveIdxs gs).Nodup) (hndE : (E.map (·.1)).Nodup)
    (hkey : ∀ e ∈ E, ∀ r, Dec.intAcc .u32 (e.2.1 ++ r) = .ok (e.1 : Int) r) (hst : ∀ e ∈ E, startNB e.2.1 = true)
    (hstep : ∀ e ∈ E, StepH gs (ρ e.1) e.1 e.2.2)
    (hopt : ∀ b u, (b, u) ∈ gs → b.skip = false → ovrE (fun _ => none) ρ (E.map (·.1)) b.idx = none → slotInit u = none →
      (nilOf b u).isSome = true) :
    fieldsDec .map (decFields gs) (0xbf :: (catE E ++ 0xff :: rest))
      = .ok (readerVals (ovrE (fun _ => none) ρ (E.map (·.1))) gs) rest := by
  have hmap : ∀ Y : Bytes, Dec.map (0xbf :: Y) = .ok none Y := by
    intro Y; simp [Dec.map, Dec.container, Dec.bind_run, Dec.majorOf, Dec.infoOf]; rfl
  have hlen := catE_length_ge E (fun e he => startNB_length _ (hst e he))
  obtain ⟨ss', h1, hi1⟩ := mapLoopI_E rest gs ρ hnd E _ _ ((catE E ++ 0xff :: rest).length + 1)
    (by simp only [List.length_append]; omega) (invR_init gs) hndE hkey hst hstep
  have hres := resolveR _ gs ss' hi1 hopt rest
  simp only [fieldsDec, statements, Dec.bind_run, hmap, Dec.remaining, h1, hres]

end Minicbor.Derive
