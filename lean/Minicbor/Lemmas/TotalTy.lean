/-
  C02 infrastructure, part 4: `Val.size`, and `NoPanic` / `Suffix` / `EoiNil` / size bound for
  `decodeT t`, every `t : Ty` (mutual structural induction over `Ty` / `List Ty`).
-/
import Minicbor.Lemmas.TotalComb

namespace Minicbor

mutual
/-- allocation units of a decoded value: one per node, plus the payload length of strings;
    `some v` costs nothing beyond `v`; `tagged`/`variant` cost their heads. -/
def Val.size : Val → Nat
  | .int _ => 1
  | .bool _ => 1
  | .float _ => 1
  | .unit => 1
  | .none => 1
  | .str b => 1 + b.length
  | .bytes b => 1 + b.length
  | .some v => v.size
  | .list vs => 1 + Val.sizeList vs
  | .map vs => 1 + Val.sizeList vs
  | .tagged v => 1 + v.size
  | .variant _ v => 1 + v.size
def Val.sizeList : List Val → Nat
  | [] => 0
  | v :: vs => v.size + Val.sizeList vs
end

theorem Val.sizeList_eq (vs : List Val) : Val.sizeList vs = Dec.listSz Val.size vs := by
  induction vs with
  | nil => simp [Val.sizeList]
  | cons v vs ih => simp [Val.sizeList, ih]

mutual
theorem Val.size_pos : (v : Val) → 1 ≤ v.size
  | .int _ | .bool _ | .float _ | .unit | .none => by simp [Val.size]
  | .str b | .bytes b => by simp [Val.size]
  | .some v => by have := Val.size_pos v; simpa [Val.size] using this
  | .list vs | .map vs => by simp [Val.size]
  | .tagged v | .variant _ v => by simp [Val.size]
end

namespace Dec

theorem SizedBy.pickVariant {ms : List (Dec Val)} (h : ∀ m ∈ ms, Sized Val.size m) (i : Nat) :
    SizedBy 1 Val.size (Dec.pickVariant ms i) := by
  unfold Dec.pickVariant
  split
  · rename_i m hm
    have := h m (List.mem_of_getElem? hm)
    refine SizedBy.bind (this.weaken (sz' := fun v => v.size + 1) (c' := 1) (fun _ => by omega)) (fun v => ?_)
    exact SizedBy.pure (by simp [Val.size]; omega)
  · exact SizedBy.fail _ _ _

/-- the continuation of `decodeDuration` after the two fields, with the unreachable
    `| _ => panic` arm replaced by an error. -/
def durOk (sys : Bool) (l : List Int) : Dec Val :=
  match l with
  | [s, n] =>
      let secs := s.toNat + n.toNat / NANOS_PER_SEC
      if secs > 18446744073709551615 then fail .message
      else if sys && secs > 9223372036854775807 then fail .message
      else pure (.list [.int secs, .int (n.toNat % NANOS_PER_SEC)])
  | _ => fail .message

/-- the `| _ => panic` arm of `decodeDuration` is dead: `decode_fields!` with two fields returns
    exactly two values. -/
theorem decodeDuration_eq (sys : Bool) :
    Dec.decodeDuration sys = (Dec.fieldsDec [Dec.intAcc .u64, Dec.intAcc .u32] >>= durOk sys) := by
  funext bs
  unfold Dec.decodeDuration
  dsimp only
  rw [Dec.bind_run, Dec.bind_run]
  cases h : Dec.fieldsDec [Dec.intAcc IntTy.u64, Dec.intAcc IntTy.u32] bs with
  | ok l r =>
    have hl := fieldsDec_length h
    match l, hl with
    | [s, n], _ => rfl
  | err e r => rfl
  | panic => rfl

theorem durFields_noPanic : ∀ m ∈ [Dec.intAcc IntTy.u64, Dec.intAcc IntTy.u32], NoPanic m := by
  intro m hm; simp at hm; rcases hm with rfl | rfl <;> exact NoPanic.intAcc _
theorem durFields_suffix : ∀ m ∈ [Dec.intAcc IntTy.u64, Dec.intAcc IntTy.u32], Suffix m := by
  intro m hm; simp at hm; rcases hm with rfl | rfl <;> exact Suffix.intAcc _
theorem durFields_sized : ∀ m ∈ [Dec.intAcc IntTy.u64, Dec.intAcc IntTy.u32], Sized (fun _ => 1) m := by
  intro m hm; simp at hm; rcases hm with rfl | rfl <;> exact SizedBy.of_consumes (Consumes.intAcc _)

theorem NoPanic.durOk (sys : Bool) (l : List Int) : NoPanic (Dec.durOk sys l) := by
  unfold Dec.durOk; nopanic'

theorem Suffix.durOk (sys : Bool) (l : List Int) : Suffix (Dec.durOk sys l) := by
  unfold Dec.durOk; suffix

/-- `Duration::decode` / `SystemTime::decode` never panic: the carry `secs + nanos / 10^9` is
    range-checked (commit e7da71d; before it, `Duration::new` panicked on overflow). -/
theorem NoPanic.decodeDuration (sys : Bool) : NoPanic (Dec.decodeDuration sys) := by
  rw [decodeDuration_eq]
  exact NoPanic.bind (NoPanic.fieldsDec durFields_noPanic (fun m hm => (durFields_suffix m hm).consumes0))
    (NoPanic.durOk sys)

theorem Suffix.decodeDuration (sys : Bool) : Suffix (Dec.decodeDuration sys) := by
  rw [decodeDuration_eq]
  exact Suffix.bind (Suffix.fieldsDec durFields_suffix) (Suffix.durOk sys)

theorem EoiNil.decodeDuration (sys : Bool) : EoiNil (Dec.decodeDuration sys) := by
  rw [decodeDuration_eq]
  exact EoiNil.bind _ (EoiNil.fieldsDec _)

theorem Sized.decodeDuration (sys : Bool) : Sized Val.size (Dec.decodeDuration sys) := by
  rw [decodeDuration_eq]
  refine SizedBy.bind (Sized.fieldsDec durFields_sized) (fun l => ?_)
  unfold Dec.durOk
  split
  · dsimp only
    refine SizedBy.ite (SizedBy.fail _ _ _) (SizedBy.ite (SizedBy.fail _ _ _) (SizedBy.pure ?_))
    simp [Val.size, Val.sizeList]
  · exact SizedBy.fail _ _ _

/-- `Duration::decode` as it was BEFORE commit e7da71d (`Ok(Duration::new(secs, nanos))`):
    `Duration::new` panics when the carry `nanos / 10^9` overflows `secs`.  Only used to show
    that the no-panic theorem is sensitive to that repair (finding F1). -/
def decodeDurationPreFix : Dec Val := do
  match (← Dec.fieldsDec [Dec.intAcc .u64, Dec.intAcc .u32]) with
  | [s, n] =>
      let secs := s.toNat + n.toNat / NANOS_PER_SEC
      if secs > 18446744073709551615 then Dec.panic
      else pure (.list [.int secs, .int (n.toNat % NANOS_PER_SEC)])
  | _ => Dec.panic

theorem mem_decoders_cons {t : Ty} {ts : List Ty} {m : Dec Val} (h : m ∈ decoders (t :: ts)) :
    m = decodeT t ∨ m ∈ decoders ts := by
  simpa [decoders] using h

/-! ### the decoded value is paid for by consumed bytes -/

mutual
theorem decodeT_sized : (t : Ty) → Sized Val.size (decodeT t)
  | .int k => by
    unfold decodeT
    exact SizedBy.bindC (Consumes.intAcc _) (fun _ => SizedBy.pure (by simp [Val.size]))
  | .bool => by
    unfold decodeT
    exact SizedBy.bindC Consumes.bool (fun _ => SizedBy.pure (by simp [Val.size]))
  | .char => by
    unfold decodeT
    exact SizedBy.bindC Consumes.char (fun _ => SizedBy.pure (by simp [Val.size]))
  | .f32 => by
    unfold decodeT
    exact SizedBy.bindC (Consumes.f32 _) (fun _ => SizedBy.pure (by simp [Val.size]))
  | .f64 => by
    unfold decodeT
    exact SizedBy.bindC (Consumes.f64 _) (fun _ => SizedBy.pure (by simp [Val.size]))
  | .str => by
    unfold decodeT
    exact SizedBy.bind Sized.str (fun _ => SizedBy.pure (by simp [Val.size]))
  | .bytes => by
    unfold decodeT
    exact SizedBy.bind Sized.bytes (fun _ => SizedBy.pure (by simp [Val.size]))
  | .barr n => by
    unfold decodeT
    exact SizedBy.bind Sized.bytes (fun _ => SizedBy.ite (SizedBy.pure (by simp [Val.size])) (SizedBy.fail _ _ _))
  | .cstr => by
    unfold decodeT
    refine SizedBy.bind Sized.bytes (fun b => ?_)
    split
    · rename_i z revInit heq
      have hl : b.length = revInit.length + 1 := by
        have := congrArg List.length heq; simpa using this
      exact SizedBy.ite (SizedBy.pure (by simp [Val.size]; omega)) (SizedBy.fail _ _ _)
    · exact SizedBy.fail _ _ _
  | .unit => by
    unfold decodeT
    exact SizedBy.bindC Consumes.array (fun _ => SizedBy.ite (SizedBy.pure (by simp [Val.size])) (SizedBy.fail _ _ _))
  | .skipUnit => by
    unfold decodeT
    exact SizedBy.bindC (Consumes.skip true) (fun _ => SizedBy.pure (by simp [Val.size]))
  | .opt t => by
    have ih := decodeT_sized t
    unfold decodeT
    refine SizedBy.bindC Consumes.datatype (fun ty => SizedBy.ite ?_ ?_)
    · exact SizedBy.bindC (Consumes.skip true) (fun _ => SizedBy.pure (by simp [Val.size]))
    · exact SizedBy.bind ih (fun _ => SizedBy.pure (by simp [Val.size]))
  | .seq t => by
    have ih := decodeT_sized t
    unfold decodeT
    exact SizedBy.bind (Sized.arrayIter ih) (fun _ => SizedBy.pure (by simp [Val.size, Val.sizeList_eq]))
  | .arr n t => by
    have ih := decodeT_sized t
    unfold decodeT
    exact SizedBy.bind (Sized.arrayN ih n) (fun _ => SizedBy.pure (by simp [Val.size, Val.sizeList_eq]))
  | .tup ts => by
    have ih := decoders_sized ts
    unfold decodeT
    refine SizedBy.bindC Consumes.array (fun o => SizedBy.ite (SizedBy.fail _ _ _) ?_)
    refine SizedBy.bind ((Sized.seqAll ih).weaken (sz' := fun l => 1 + listSz Val.size l) (c' := 0 + 1)
      (fun _ => by omega)) (fun _ => SizedBy.pure (by simp [Val.size, Val.sizeList_eq]))
  | .map k v => by
    have ihk := decodeT_sized k
    have ihv := decodeT_sized v
    unfold decodeT
    exact SizedBy.bind (Sized.mapIter ihk ihv) (fun _ => SizedBy.pure (by simp [Val.size, Val.sizeList_eq]))
  | .nz k => by
    unfold decodeT
    exact SizedBy.bindC (Consumes.intAcc _)
      (fun _ => SizedBy.ite (SizedBy.fail _ _ _) (SizedBy.pure (by simp [Val.size])))
  | .tag => by
    unfold decodeT
    exact SizedBy.bindC Consumes.tag (fun _ => SizedBy.pure (by simp [Val.size]))
  | .tagged n t => by
    have ih := decodeT_sized t
    unfold decodeT
    refine SizedBy.bindC Consumes.tag (fun g => SizedBy.ite (SizedBy.fail _ _ _) ?_)
    exact SizedBy.bind (ih.weaken (sz' := fun v => 1 + v.size) (c' := 0 + 1) (fun _ => by omega))
      (fun _ => SizedBy.pure (by simp [Val.size]))
  | .enum ts => by
    have ih := decoders_sized ts
    unfold decodeT
    refine SizedBy.bindC Consumes.array (fun o => SizedBy.ite (SizedBy.fail _ _ _) ?_)
    refine SizedBy.bindC (Consumes.intAcc _) (fun i => ?_)
    exact (SizedBy.pickVariant ih _).mono (by omega) (fun _ => Nat.le_refl _)
  | .fields ts => by
    have ih := decoders_sized ts
    unfold decodeT
    exact SizedBy.bind (Sized.fieldsDec ih) (fun _ => SizedBy.pure (by simp [Val.size, Val.sizeList_eq]))
  | .duration => by unfold decodeT; exact Sized.decodeDuration _
  | .systime => by unfold decodeT; exact Sized.decodeDuration _
theorem decoders_sized : (ts : List Ty) → ∀ m ∈ decoders ts, Sized Val.size m
  | [] => by intro m hm; simp [decoders] at hm
  | t :: ts => by
    intro m hm
    rcases mem_decoders_cons hm with rfl | hm
    · exact decodeT_sized t
    · exact decoders_sized ts m hm
end

/-- every successful typed decode consumes at least one byte. -/
theorem Consumes.decodeT (t : Ty) : Consumes (decodeT t) 1 :=
  (decodeT_sized t).to_consumes Val.size_pos

theorem Consumes.decoders (ts : List Ty) : ∀ m ∈ decoders ts, Consumes m 1 :=
  fun m hm => (decoders_sized ts m hm).to_consumes Val.size_pos

/-! ### never panics (incl. fuel adequacy of every loop) -/

mutual
theorem decodeT_noPanic : (t : Ty) → NoPanic (decodeT t)
  | .int k => by unfold Minicbor.decodeT; have := NoPanic.intAcc; nopanic'
  | .bool => by unfold Minicbor.decodeT; have := NoPanic.bool; nopanic'
  | .char => by unfold Minicbor.decodeT; have := NoPanic.char; nopanic'
  | .f32 => by unfold Minicbor.decodeT; have := NoPanic.f32; nopanic'
  | .f64 => by unfold Minicbor.decodeT; have := NoPanic.f64; nopanic'
  | .str => by unfold Minicbor.decodeT; have := NoPanic.str; nopanic'
  | .bytes => by unfold Minicbor.decodeT; have := NoPanic.bytes; nopanic'
  | .barr n => by unfold Minicbor.decodeT; have := NoPanic.bytes; nopanic'
  | .cstr => by unfold Minicbor.decodeT; have := NoPanic.bytes; nopanic'
  | .unit => by unfold Minicbor.decodeT; have := NoPanic.array; nopanic'
  | .skipUnit => by unfold Minicbor.decodeT; have := NoPanic.skip true; nopanic'
  | .opt t => by
    have ih := decodeT_noPanic t
    unfold Minicbor.decodeT
    have := NoPanic.datatype; have := NoPanic.skip true
    nopanic'
  | .seq t => by
    have ih := NoPanic.arrayIter (decodeT_noPanic t) (Consumes.decodeT t)
    unfold Minicbor.decodeT; nopanic'
  | .arr n t => by
    have ih := NoPanic.arrayN (decodeT_noPanic t) (Consumes.decodeT t) n
    unfold Minicbor.decodeT; nopanic'
  | .tup ts => by
    have ih := NoPanic.seqAll (decoders_noPanic ts)
    unfold Minicbor.decodeT
    have := NoPanic.array
    nopanic'
  | .map k v => by
    have ih := NoPanic.mapIter (decodeT_noPanic k) (decodeT_noPanic v) (Consumes.decodeT k)
      ((Consumes.decodeT v).mono (Nat.zero_le _))
    unfold Minicbor.decodeT; nopanic'
  | .nz k => by unfold Minicbor.decodeT; have := NoPanic.intAcc; nopanic'
  | .tag => by unfold Minicbor.decodeT; have := NoPanic.tag; nopanic'
  | .tagged n t => by
    have ih := decodeT_noPanic t
    unfold Minicbor.decodeT
    have := NoPanic.tag
    nopanic'
  | .enum ts => by
    have ih := NoPanic.pickVariant (decoders_noPanic ts)
    unfold Minicbor.decodeT
    have := NoPanic.array; have := NoPanic.intAcc
    nopanic'
  | .fields ts => by
    have ih := NoPanic.fieldsDec (decoders_noPanic ts)
      (fun m hm => (Consumes.decoders ts m hm).mono (Nat.zero_le _))
    unfold Minicbor.decodeT; nopanic'
  | .duration => by unfold Minicbor.decodeT; exact NoPanic.decodeDuration _
  | .systime => by unfold Minicbor.decodeT; exact NoPanic.decodeDuration _
theorem decoders_noPanic : (ts : List Ty) → ∀ m ∈ decoders ts, NoPanic m
  | [] => by intro m hm; simp [decoders] at hm
  | t :: ts => by
    intro m hm
    rcases mem_decoders_cons hm with rfl | hm
    · exact decodeT_noPanic t
    · exact decoders_noPanic ts m hm
end

/-! ### the position stays inside the buffer and never moves backwards -/

mutual
theorem decodeT_suffix : (t : Ty) → Suffix (decodeT t)
  | .int k => by unfold Minicbor.decodeT; have := Suffix.intAcc; suffix
  | .bool => by unfold Minicbor.decodeT; have := Suffix.bool; suffix
  | .char => by unfold Minicbor.decodeT; have := Suffix.char; suffix
  | .f32 => by unfold Minicbor.decodeT; have := Suffix.f32; suffix
  | .f64 => by unfold Minicbor.decodeT; have := Suffix.f64; suffix
  | .str => by unfold Minicbor.decodeT; have := Suffix.str; suffix
  | .bytes => by unfold Minicbor.decodeT; have := Suffix.bytes; suffix
  | .barr n => by unfold Minicbor.decodeT; have := Suffix.bytes; suffix
  | .cstr => by unfold Minicbor.decodeT; have := Suffix.bytes; suffix
  | .unit => by unfold Minicbor.decodeT; have := Suffix.array; suffix
  | .skipUnit => by unfold Minicbor.decodeT; have := Suffix.skip true; suffix
  | .opt t => by
    have ih := decodeT_suffix t
    unfold Minicbor.decodeT
    have := Suffix.datatype; have := Suffix.skip true
    suffix
  | .seq t => by
    have ih := Suffix.arrayIter (decodeT_suffix t)
    unfold Minicbor.decodeT; suffix
  | .arr n t => by
    have ih := Suffix.arrayN (decodeT_suffix t) n
    unfold Minicbor.decodeT; suffix
  | .tup ts => by
    have ih := Suffix.seqAll (decoders_suffix ts)
    unfold Minicbor.decodeT
    have := Suffix.array
    suffix
  | .map k v => by
    have ih := Suffix.mapIter (decodeT_suffix k) (decodeT_suffix v)
    unfold Minicbor.decodeT; suffix
  | .nz k => by unfold Minicbor.decodeT; have := Suffix.intAcc; suffix
  | .tag => by unfold Minicbor.decodeT; have := Suffix.tag; suffix
  | .tagged n t => by
    have ih := decodeT_suffix t
    unfold Minicbor.decodeT
    have := Suffix.tag
    suffix
  | .enum ts => by
    have ih := Suffix.pickVariant (decoders_suffix ts)
    unfold Minicbor.decodeT
    have := Suffix.array; have := Suffix.intAcc
    suffix
  | .fields ts => by
    have ih := Suffix.fieldsDec (decoders_suffix ts)
    unfold Minicbor.decodeT; suffix
  | .duration => by unfold Minicbor.decodeT; exact Suffix.decodeDuration _
  | .systime => by unfold Minicbor.decodeT; exact Suffix.decodeDuration _
theorem decoders_suffix : (ts : List Ty) → ∀ m ∈ decoders ts, Suffix m
  | [] => by intro m hm; simp [decoders] at hm
  | t :: ts => by
    intro m hm
    rcases mem_decoders_cons hm with rfl | hm
    · exact decodeT_suffix t
    · exact decoders_suffix ts m hm
end

/-! ### at or beyond the end of the input: `end of input`, position unchanged -/

theorem decodeT_eoiNil (t : Ty) : EoiNil (decodeT t) := by
  cases t <;> unfold Minicbor.decodeT
  case int => exact EoiNil.bind _ (EoiNil.intAcc _)
  case bool => exact EoiNil.bind _ EoiNil.bool
  case char => exact EoiNil.bind _ EoiNil.char
  case f32 => exact EoiNil.bind _ (EoiNil.f32 _)
  case f64 => exact EoiNil.bind _ (EoiNil.f64 _)
  case str => exact EoiNil.bind _ EoiNil.str
  case bytes => exact EoiNil.bind _ EoiNil.bytes
  case barr => exact EoiNil.bind _ EoiNil.bytes
  case cstr => exact EoiNil.bind _ EoiNil.bytes
  case unit => exact EoiNil.bind _ EoiNil.array
  case skipUnit => exact EoiNil.bind _ (EoiNil.skip _)
  case opt => exact EoiNil.bind _ EoiNil.datatype
  case seq => exact EoiNil.bind _ (EoiNil.arrayIter _)
  case arr => exact EoiNil.bind _ (EoiNil.arrayN _ _)
  case tup => exact EoiNil.bind _ EoiNil.array
  case map => exact EoiNil.bind _ (EoiNil.mapIter _ _)
  case nz => exact EoiNil.bind _ (EoiNil.intAcc _)
  case tag => exact EoiNil.bind _ EoiNil.tag
  case tagged => exact EoiNil.bind _ EoiNil.tag
  case enum => exact EoiNil.bind _ EoiNil.array
  case fields => exact EoiNil.bind _ (EoiNil.fieldsDec _)
  case duration => exact EoiNil.decodeDuration _
  case systime => exact EoiNil.decodeDuration _

end Dec
end Minicbor
