/-
  Tokenising the encoding of a valid wire tree: by mutual induction over `WItem` /
  `List WItem`, with the bytes that follow generalised, the tokenizer steps through exactly
  `C11.toks w`.
-/
import Minicbor.Lemmas.TokenHeads

namespace Minicbor
open Dec C11

theorem steps_chunks_bytes (cs : List (Width × Bytes)) (hv : chunksValid false cs = true) (rest : Bytes) :
    Steps (chunkToks false cs) (encChunks 2 cs ++ rest) rest := by
  induction cs with
  | nil => exact Steps.nil _
  | cons c cs ih =>
    obtain ⟨w, b⟩ := c
    simp only [chunksValid, Bool.and_eq_true] at hv
    obtain ⟨⟨hfit, _⟩, hrest⟩ := hv
    have hb := token_bytes w b (encChunks 2 cs ++ rest) hfit
    simp only [encW] at hb
    simp only [encChunks, chunkToks, List.append_assoc]
    exact Steps.cons (by simpa using hb) (ih hrest)

theorem steps_chunks_text (cs : List (Width × Bytes)) (hv : chunksValid true cs = true) (rest : Bytes) :
    Steps (chunkToks true cs) (encChunks 3 cs ++ rest) rest := by
  induction cs with
  | nil => exact Steps.nil _
  | cons c cs ih =>
    obtain ⟨w, b⟩ := c
    simp only [chunksValid, Bool.and_eq_true, Bool.not_true, Bool.false_or] at hv
    obtain ⟨⟨hfit, hu⟩, hrest⟩ := hv
    have hb := token_text w b (encChunks 3 cs ++ rest) hfit hu
    simp only [encW] at hb
    simp only [encChunks, chunkToks, List.append_assoc]
    exact Steps.cons (by simpa using hb) (ih hrest)

mutual
/-- the tokenizer on the encoding of a valid tree, followed by anything, steps through `toks w`
    and leaves exactly what followed. -/
theorem steps_item (w : WItem) (hv : w.valid = true) (rest : Bytes) :
    Steps (toks w) (encW w ++ rest) rest := by
  cases w with
  | uint w n =>
    simp only [WItem.valid] at hv
    exact Steps.one (token_uint w n rest hv)
  | nint w n =>
    simp only [WItem.valid] at hv
    exact Steps.one (token_nint w n rest hv)
  | bytes w b =>
    simp only [WItem.valid] at hv
    exact Steps.one (token_bytes w b rest hv)
  | text w b =>
    simp only [WItem.valid, Bool.and_eq_true] at hv
    exact Steps.one (token_text w b rest hv.1 hv.2)
  | bytesI cs =>
    simp only [WItem.valid] at hv
    simp only [encW, toks, List.cons_append, List.append_assoc]
    refine Steps.cons (token_beginBytes _) (Steps.append (steps_chunks_bytes cs hv _) ?_)
    exact Steps.one (token_break rest)
  | textI cs =>
    simp only [WItem.valid] at hv
    simp only [encW, toks, List.cons_append, List.append_assoc]
    refine Steps.cons (token_beginString _) (Steps.append (steps_chunks_text cs hv _) ?_)
    exact Steps.one (token_break rest)
  | array w xs =>
    simp only [WItem.valid, Bool.and_eq_true] at hv
    simp only [encW, toks, List.append_assoc]
    exact Steps.cons (token_array w xs.length _ hv.1) (steps_items xs hv.2 rest)
  | arrayI xs =>
    simp only [WItem.valid] at hv
    simp only [encW, toks, List.cons_append, List.append_assoc]
    refine Steps.cons (token_beginArray _) (Steps.append (steps_items xs hv _) ?_)
    exact Steps.one (token_break rest)
  | map w kvs =>
    simp only [WItem.valid, Bool.and_eq_true] at hv
    simp only [encW, toks, List.append_assoc]
    exact Steps.cons (token_map w _ _ hv.1.2) (steps_items kvs hv.2 rest)
  | mapI kvs =>
    simp only [WItem.valid, Bool.and_eq_true] at hv
    simp only [encW, toks, List.cons_append, List.append_assoc]
    refine Steps.cons (token_beginMap _) (Steps.append (steps_items kvs hv.2 _) ?_)
    exact Steps.one (token_break rest)
  | tag w n x =>
    simp only [WItem.valid, Bool.and_eq_true] at hv
    simp only [encW, toks, List.append_assoc]
    exact Steps.cons (token_tag w n _ hv.1) (steps_item x hv.2 rest)
  | simple n =>
    exact Steps.one (token_simple n rest hv)
  | f16 b =>
    simp only [WItem.valid, decide_eq_true_eq] at hv
    simp only [encW, toks, List.cons_append]
    exact Steps.one (token_f16 b rest hv)
  | f32 b =>
    simp only [WItem.valid, decide_eq_true_eq] at hv
    simp only [encW, toks, List.cons_append]
    exact Steps.one (token_f32 b rest hv)
  | f64 b =>
    simp only [WItem.valid, decide_eq_true_eq] at hv
    simp only [encW, toks, List.cons_append]
    exact Steps.one (token_f64 b rest hv)
theorem steps_items (ws : List WItem) (hv : validAll ws = true) (rest : Bytes) :
    Steps (toksL ws) (encWs ws ++ rest) rest := by
  cases ws with
  | nil => exact Steps.nil _
  | cons x xs =>
    simp only [validAll, Bool.and_eq_true] at hv
    simp only [encWs, toksL, List.append_assoc]
    exact Steps.append (steps_item x hv.1 _) (steps_items xs hv.2 rest)
end

end Minicbor
