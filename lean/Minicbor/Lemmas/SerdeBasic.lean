/-
  Helper lemmas for C17 / C18: what `datatype` answers on a given first byte, and reading back
  what each `Enc.*` method wrote.
-/
import Minicbor.Serde
import Minicbor.Wire
import Minicbor.Thm.C03
import Minicbor.Thm.C04
import Minicbor.Thm.C05
import Minicbor.Lemmas.SkipExt

namespace Minicbor.Serde
open Minicbor.Dec

abbrev U64 : Nat := 18446744073709551616

/-! ### `datatype` -/

/-- `Decoder::type_of` as a pure function of the byte and of whether the next byte is `< 0x80`. -/
def typeOfB (b : UInt8) (small : Bool) : CType :=
  let n := b.toNat
  if n ≤ 0x18 then .u8
  else if n == 0x19 then .u16
  else if n == 0x1a then .u32
  else if n == 0x1b then .u64
  else if 0x20 ≤ n && n ≤ 0x37 then .i8
  else if n == 0x38 then (if small then .i8 else .i16)
  else if n == 0x39 then (if small then .i16 else .i32)
  else if n == 0x3a then (if small then .i32 else .i64)
  else if n == 0x3b then (if small then .i64 else .int)
  else if 0x40 ≤ n && n ≤ 0x5b then .bytes
  else if n == 0x5f then .bytesIndef
  else if 0x60 ≤ n && n ≤ 0x7b then .string
  else if n == 0x7f then .stringIndef
  else if 0x80 ≤ n && n ≤ 0x9b then .array
  else if n == 0x9f then .arrayIndef
  else if 0xa0 ≤ n && n ≤ 0xbb then .map
  else if n == 0xbf then .mapIndef
  else if 0xc0 ≤ n && n ≤ 0xdb then .tag
  else if (0xe0 ≤ n && n ≤ 0xf3) || n == 0xf8 then .simple
  else if n == 0xf4 || n == 0xf5 then .bool
  else if n == 0xf6 then .null
  else if n == 0xf7 then .undefined
  else if n == 0xf9 then .f16
  else if n == 0xfa then .f32
  else if n == 0xfb then .f64
  else if n == 0xff then .break
  else .unknown n

def needsPeek (b : UInt8) : Bool := 0x38 ≤ b.toNat && b.toNat ≤ 0x3b

def tyCheck1 (b : UInt8) : Bool :=
  match typeOf b [b] with
  | .ok t [x] => x == b && decide (t = typeOfB b false)
  | _ => false

def tyCheck2 (b y : UInt8) : Bool :=
  match typeOf b [b, y] with
  | .ok t [x, z] => x == b && z == y && decide (t = typeOfB b (decide (y.toNat < 0x80)))
  | _ => false

theorem tyCheck1_all : ∀ n : Fin 256, needsPeek (UInt8.ofNat n) = false → tyCheck1 (UInt8.ofNat n) = true := by
  decide +kernel

theorem tyCheck2_all : ∀ n : Fin 4, ∀ y : Fin 256, tyCheck2 (UInt8.ofNat (0x38 + n)) (UInt8.ofNat y) = true := by
  decide +kernel

theorem uint8_ofNat_toNat (b : UInt8) : UInt8.ofNat b.toNat = b := UInt8.ofNat_toNat

theorem typeOf_nopeek1 (b : UInt8) (h : needsPeek b = false) : typeOf b [b] = .ok (typeOfB b false) [b] := by
  have h0 := tyCheck1_all ⟨b.toNat, b.toNat_lt⟩
  simp only [uint8_ofNat_toNat] at h0
  have h1 := h0 h
  unfold tyCheck1 at h1
  split at h1
  · rename_i t x heq
    simp only [Bool.and_eq_true, beq_iff_eq, decide_eq_true_eq] at h1
    rw [heq, h1.1, h1.2]
  · cases h1

/-- `datatype` on input whose first byte needs no peek. -/
theorem datatype_nopeek (b : UInt8) (tl : Bytes) (h : needsPeek b = false) :
    datatype (b :: tl) = .ok (typeOfB b false) (b :: tl) := by
  have := Ext.typeOf b [b] _ [b] tl (typeOf_nopeek1 b h)
  simpa [datatype, Dec.bind_run] using this

theorem typeOf_peek2 (b y : UInt8) (h : needsPeek b = true) :
    typeOf b [b, y] = .ok (typeOfB b (decide (y.toNat < 0x80))) [b, y] := by
  simp only [needsPeek, Bool.and_eq_true, decide_eq_true_eq] at h
  have hb : b = UInt8.ofNat (0x38 + (b.toNat - 0x38)) := by
    rw [show 0x38 + (b.toNat - 0x38) = b.toNat by omega]; exact (uint8_ofNat_toNat b).symm
  have h0 := tyCheck2_all ⟨b.toNat - 0x38, by omega⟩ ⟨y.toNat, y.toNat_lt⟩
  simp only [uint8_ofNat_toNat] at h0
  rw [← hb] at h0
  unfold tyCheck2 at h0
  split at h0
  · rename_i t x z heq
    simp only [Bool.and_eq_true, beq_iff_eq, decide_eq_true_eq] at h0
    rw [heq, h0.1.1, h0.1.2, h0.2]
  · cases h0

theorem datatype_peek (b y : UInt8) (tl : Bytes) (h : needsPeek b = true) :
    datatype (b :: y :: tl) = .ok (typeOfB b (decide (y.toNat < 0x80))) (b :: y :: tl) := by
  have := Ext.typeOf b [b, y] _ [b, y] tl (typeOf_peek2 b y h)
  simpa [datatype, Dec.bind_run] using this

/-- the `Type` reported for a head of major type `maj ≠ 1` with additional information `ai ≤ 27`. -/
def headTy (maj ai : Nat) : CType :=
  match maj with
  | 0 => if ai ≤ 24 then .u8 else if ai == 25 then .u16 else if ai == 26 then .u32 else .u64
  | 2 => .bytes
  | 3 => .string
  | 4 => .array
  | 5 => .map
  | 6 => .tag
  | 7 => if ai == 20 || ai == 21 then .bool else if ai == 22 then .null else if ai == 23 then .undefined
         else if ai == 25 then .f16 else if ai == 26 then .f32 else if ai == 27 then .f64 else .simple
  | _ => .i8

theorem typeOfB_tab : ∀ maj : Fin 8, ∀ ai : Fin 28, maj.val ≠ 1 →
    typeOfB (u8 (maj.val * 32 + ai.val)) false = headTy maj.val ai.val := by
  decide +kernel

theorem datatype_head (maj : Nat) (w : Width) (n : Nat) (rest : Bytes) (hm : maj < 8) (h1 : maj ≠ 1)
    (hf : w.fits n = true) :
    datatype (headW maj w n ++ rest) = .ok (headTy maj (w.ai n)) (headW maj w n ++ rest) := by
  have hai := Width.ai_le w n hf
  have hb := headByte_toNat maj w n hm hf
  have hnp : needsPeek (u8 (maj * 32 + w.ai n)) = false := by
    simp only [needsPeek, hb, Bool.and_eq_false_iff, decide_eq_false_iff_not]
    have : maj = 0 ∨ 2 ≤ maj := by omega
    rcases this with h | h <;> omega
  have ht := typeOfB_tab ⟨maj, hm⟩ ⟨w.ai n, by omega⟩ h1
  simp only at ht
  simp only [headW, List.cons_append]
  rw [datatype_nopeek _ _ hnp, ht]

def nintType (w : Width) (n : Nat) : CType :=
  match w with
  | .w0 => .i8
  | .w1 => if n < 128 then .i8 else .i16
  | .w2 => if n < 32768 then .i16 else .i32
  | .w4 => if n < 2147483648 then .i32 else .i64
  | .w8 => if n < 9223372036854775808 then .i64 else .int

theorem typeOfB_neg0 : ∀ n : Fin 24, typeOfB (u8 (32 + n.val)) false = .i8 := by decide +kernel
theorem typeOfB_neg (s : Bool) :
    typeOfB (u8 56) s = (if s then .i8 else .i16) ∧ typeOfB (u8 57) s = (if s then .i16 else .i32) ∧
    typeOfB (u8 58) s = (if s then .i32 else .i64) ∧ typeOfB (u8 59) s = (if s then .i64 else .int) := by
  cases s <;> decide

theorem datatype_nint (w : Width) (n : Nat) (rest : Bytes) (hf : w.fits n = true) :
    datatype (headW 1 w n ++ rest) = .ok (nintType w n) (headW 1 w n ++ rest) := by
  cases w
  · simp only [Width.fits, decide_eq_true_eq] at hf
    simp only [headW, Width.ai, Width.bytes, be, List.cons_append, List.nil_append, nintType]
    have hnp : needsPeek (u8 (1 * 32 + n)) = false := by
      simp [needsPeek]; omega
    rw [datatype_nopeek _ _ hnp]
    have := typeOfB_neg0 ⟨n, hf⟩
    simp only at this
    rw [show 1 * 32 + n = 32 + n by omega, this]
  · simp only [Width.fits, decide_eq_true_eq] at hf
    simp only [headW, Width.ai, Width.bytes, be, List.cons_append, List.nil_append, nintType]
    rw [datatype_peek _ _ _ (by decide), (typeOfB_neg _).1]
    have h1 : n % 256 = n := by omega
    simp [h1]
  · simp only [Width.fits, decide_eq_true_eq] at hf
    simp only [headW, Width.ai, Width.bytes, be, List.cons_append, List.nil_append, nintType]
    rw [datatype_peek _ _ _ (by decide), (typeOfB_neg _).2.1]
    have : (u8 (n / 256 ^ 1)).toNat = n / 256 := by simp; omega
    simp only [this]
    have : (n / 256 < 128) ↔ n < 32768 := by omega
    simp [this]
  · simp only [Width.fits, decide_eq_true_eq] at hf
    simp only [headW, Width.ai, Width.bytes, be, List.cons_append, List.nil_append, nintType]
    rw [datatype_peek _ _ _ (by decide), (typeOfB_neg _).2.2.1]
    have : (u8 (n / 256 ^ 3)).toNat = n / 16777216 := by simp; omega
    simp only [this]
    have : (n / 16777216 < 128) ↔ n < 2147483648 := by omega
    simp [this]
  · simp only [Width.fits, decide_eq_true_eq] at hf
    simp only [headW, Width.ai, Width.bytes, be, List.cons_append, List.nil_append, nintType]
    rw [datatype_peek _ _ _ (by decide), (typeOfB_neg _).2.2.2]
    have : (u8 (n / 256 ^ 7)).toNat = n / 72057594037927936 := by simp; omega
    simp only [this]
    have : (n / 72057594037927936 < 128) ↔ n < 9223372036854775808 := by omega
    simp [this]

/-! ### reading back what the encoder wrote -/

theorem bool_rt (b : Bool) (rest : Bytes) : Dec.bool (Enc.bool b ++ rest) = .ok b rest := by
  cases b
  · exact C04.bool_sound false rest
  · exact C04.bool_sound true rest

theorem kind_bounds (k : IntKind) :
    k.ty.max < U64 ∧ k.hi = k.ty.max ∧ (k.ty.neg = true → k.lo = -1 - (k.ty.max : Int)) ∧ (k.ty.neg = false → k.lo = 0) := by
  cases k <;> decide

/-- the bytes of an integer: a preferred head of major type 0 or 1. -/
theorem encInt_head (k : IntKind) (v : Int) (h1 : k.lo ≤ v) (h2 : v ≤ k.hi) :
    encInt k v = (if v ≥ 0 then headW 0 (prefWidth v.toNat) v.toNat else headW 1 (prefWidth (-1 - v).toNat) (-1 - v).toNat) := by
  have hb := kind_bounds k
  have hu : ∀ x : Nat, x < U64 → Enc.u64 x = headW 0 (prefWidth x) x := fun x hx => by
    rw [C03.u64_pref x hx]; rfl
  have hn : ∀ x : Nat, x < U64 → Enc.negArms x = headW 1 (prefWidth x) x := fun x hx => by
    rw [C03.negArms_pref x hx]; rfl
  cases k <;> simp only [IntKind.lo, IntKind.hi, IntKind.ty, IntTy.lo, IntTy.hi, IntTy.u8, IntTy.u16, IntTy.u32,
    IntTy.u64, IntTy.i8, IntTy.i16, IntTy.i32, IntTy.i64] at h1 h2 <;> simp at h1 h2
  · have : v ≥ 0 := h1
    simp only [encInt, this, if_true]; rw [C03.u8_pref _ (by omega)]; rfl
  · have : v ≥ 0 := h1
    simp only [encInt, this, if_true]; rw [C03.u16_pref _ (by omega)]; rfl
  · have : v ≥ 0 := h1
    simp only [encInt, this, if_true]; rw [C03.u32_pref _ (by omega)]; rfl
  · have : v ≥ 0 := h1
    simp only [encInt, this, if_true]; rw [C03.u64_pref _ (by omega)]; rfl
  · simp only [encInt]; rw [C03.i8_pref v (by omega)]; unfold C03.intItem; split <;> rfl
  · simp only [encInt]; rw [C03.i16_pref v (by omega)]; unfold C03.intItem; split <;> rfl
  · simp only [encInt]; rw [C03.i32_pref v (by omega)]; unfold C03.intItem; split <;> rfl
  · simp only [encInt]; rw [C03.i64_pref v (by omega)]; unfold C03.intItem; split <;> rfl

theorem int_rt (k : IntKind) (v : Int) (rest : Bytes) (h1 : k.lo ≤ v) (h2 : v ≤ k.hi) :
    intAcc k.ty (encInt k v ++ rest) = .ok v rest := by
  have hb := kind_bounds k
  have hU : U64 = 18446744073709551616 := rfl
  rw [encInt_head k v h1 h2]
  by_cases hv : v ≥ 0
  · simp only [hv, if_true]
    have hfit := prefWidth_fits v.toNat (by omega)
    have := C05.int_accessor_ok k.ty (prefWidth v.toNat) false v.toNat rest hfit (by simp) (by omega)
    simp only [C05.intHead, C05.intVal] at this
    simp only [Bool.false_eq_true, if_false] at this
    rw [this]; congr 1; omega
  · simp only [hv, if_false]
    have hneg : k.ty.neg = true := by
      cases hn : k.ty.neg with
      | true => rfl
      | false => have := hb.2.2.2 hn; omega
    have hlo := hb.2.2.1 hneg
    have hfit := prefWidth_fits (-1 - v).toNat (by omega)
    have := C05.int_accessor_ok k.ty (prefWidth (-1 - v).toNat) true (-1 - v).toNat rest hfit (fun _ => hneg) (by omega)
    simp only [C05.intHead, C05.intVal, if_true] at this
    rw [this]; congr 1; omega

theorem f32_rt (b : Nat) (rest : Bytes) (h : b < 4294967296) : Dec.f32 true (Enc.f32 b ++ rest) = .ok b rest := by
  have hs := Dec.readSlice_be 4 b rest
  have hv := fromBe_be 4 b (by simpa using h)
  simp [Enc.f32, Enc.SIMPLE, Dec.f32, Dec.bind_run, hs, hv, u8]

theorem f64_rt (b : Nat) (rest : Bytes) (h : b < U64) : Dec.f64 true (Enc.f64 b ++ rest) = .ok b rest := by
  have hs := Dec.readSlice_be 8 b rest
  have hv := fromBe_be 8 b (by simpa using h)
  simp [Enc.f64, Enc.SIMPLE, Dec.f64, Dec.bind_run, hs, hv, u8]

theorem char_rt (c : Nat) (rest : Bytes) (h : isScalar c = true) : Dec.char (Enc.char c ++ rest) = .ok c rest := by
  have hc : c < 4294967296 := by simp [isScalar] at h; omega
  have := int_rt .u32 (c : Int) rest
    (by simp [IntKind.lo, IntKind.ty, IntTy.lo, IntTy.u32]) (by simp [IntKind.hi, IntKind.ty, IntTy.hi, IntTy.u32]; omega)
  simp only [encInt, Int.toNat_natCast, IntKind.ty] at this
  simp [Dec.char, Enc.char, Dec.bind_run, this, h]

theorem str_rt (s : Bytes) (rest : Bytes) (hu : validUtf8 s = true) (hl : s.length < U64) :
    Dec.str (Enc.str s ++ rest) = .ok s rest := by
  rw [C03.str_pref s hl]
  exact C04.str_sound (prefWidth s.length) s rest (prefWidth_fits _ hl) hu

theorem bytes_rt (b : Bytes) (rest : Bytes) (hl : b.length < U64) : Dec.bytes (Enc.bytes b ++ rest) = .ok b rest := by
  rw [C03.bytes_pref b hl]
  exact C04.bytes_sound (prefWidth b.length) b rest (prefWidth_fits _ hl)

theorem array_rt (n : Nat) (rest : Bytes) (h : n < U64) : Dec.array (Enc.array n ++ rest) = .ok (some n) rest := by
  rw [C03.array_pref n h]; exact C04.array_sound _ n rest (prefWidth_fits _ h)

theorem map_rt (n : Nat) (rest : Bytes) (h : n < U64) : Dec.map (Enc.map n ++ rest) = .ok (some n) rest := by
  rw [C03.map_pref n h]; exact C04.map_sound _ n rest (prefWidth_fits _ h)

theorem beginArray_rt (rest : Bytes) : Dec.array (Enc.beginArray ++ rest) = .ok none rest := C04.array_indef rest
theorem beginMap_rt (rest : Bytes) : Dec.map (Enc.beginMap ++ rest) = .ok none rest := C04.map_indef rest

/-! ### `datatype` on a well-formed item -/

/-- the `Type` that `datatype` reports at the start of a wire tree. -/
def wType : WItem → CType
  | .uint w n => headTy 0 (w.ai n)
  | .nint w n => nintType w n
  | .bytes _ _ => .bytes
  | .bytesI _ => .bytesIndef
  | .text _ _ => .string
  | .textI _ => .stringIndef
  | .array _ _ => .array
  | .arrayI _ => .arrayIndef
  | .map _ _ => .map
  | .mapI _ => .mapIndef
  | .tag _ _ _ => .tag
  | .simple n => if n < 24 then headTy 7 n else .simple
  | .f16 _ => .f16
  | .f32 _ => .f32
  | .f64 _ => .f64

theorem typeOfB_simple : ∀ n : Fin 24, typeOfB (u8 (0xe0 + n.val)) false = headTy 7 n.val := by decide +kernel

theorem datatype_encW (w : WItem) (hv : w.valid = true) (rest : Bytes) :
    datatype (encW w ++ rest) = .ok (wType w) (encW w ++ rest) := by
  cases w with
  | uint w n => simp only [WItem.valid] at hv; exact datatype_head 0 w n rest (by omega) (by omega) hv
  | nint w n => simp only [WItem.valid] at hv; exact datatype_nint w n rest hv
  | bytes w b =>
    simp only [WItem.valid] at hv
    simp only [encW, List.append_assoc, wType]
    exact datatype_head 2 w _ _ (by omega) (by omega) hv
  | text w b =>
    simp only [WItem.valid, Bool.and_eq_true] at hv
    simp only [encW, List.append_assoc, wType]
    exact datatype_head 3 w _ _ (by omega) (by omega) hv.1
  | array w xs =>
    simp only [WItem.valid, Bool.and_eq_true] at hv
    simp only [encW, List.append_assoc, wType]
    exact datatype_head 4 w _ _ (by omega) (by omega) hv.1
  | map w kvs =>
    simp only [WItem.valid, Bool.and_eq_true] at hv
    simp only [encW, List.append_assoc, wType]
    exact datatype_head 5 w _ _ (by omega) (by omega) hv.1.2
  | tag w n x =>
    simp only [WItem.valid, Bool.and_eq_true] at hv
    simp only [encW, List.append_assoc, wType]
    exact datatype_head 6 w _ _ (by omega) (by omega) hv.1
  | bytesI cs => simp only [encW, List.cons_append, wType]; exact datatype_nopeek _ _ (by decide)
  | textI cs => simp only [encW, List.cons_append, wType]; exact datatype_nopeek _ _ (by decide)
  | arrayI xs => simp only [encW, List.cons_append, wType]; exact datatype_nopeek _ _ (by decide)
  | mapI kvs => simp only [encW, List.cons_append, wType]; exact datatype_nopeek _ _ (by decide)
  | simple n =>
    simp only [WItem.valid, Bool.or_eq_true, Bool.and_eq_true, decide_eq_true_eq] at hv
    by_cases h : n < 24
    · simp only [encW, h, if_true, List.cons_append, List.nil_append, wType]
      have hnp : needsPeek (u8 (0xe0 + n)) = false := by simp [needsPeek]; omega
      rw [datatype_nopeek _ _ hnp]
      have := typeOfB_simple ⟨n, h⟩
      simp only at this
      rw [this]
    · simp only [encW, h, if_false, List.cons_append, wType]
      exact datatype_nopeek _ _ (by decide)
  | f16 b => simp only [encW, List.cons_append, wType]; exact datatype_nopeek _ _ (by decide)
  | f32 b => simp only [encW, List.cons_append, wType]; exact datatype_nopeek _ _ (by decide)
  | f64 b => simp only [encW, List.cons_append, wType]; exact datatype_nopeek _ _ (by decide)

theorem headTy0_ne_null (ai : Nat) : headTy 0 ai ≠ .null := by
  unfold headTy; simp only; repeat' split
  all_goals simp

theorem nintType_ne_null (w : Width) (n : Nat) : nintType w n ≠ .null := by
  cases w <;> simp only [nintType] <;> (try split) <;> simp

/-- only the item `null` reports `Type::Null`. -/
theorem wType_null (w : WItem) (hv : w.valid = true) (h : wType w = .null) : w = .simple 22 := by
  cases w with
  | uint w n => exact absurd h (headTy0_ne_null _)
  | nint w n => exact absurd h (nintType_ne_null _ _)
  | simple n =>
    simp only [wType] at h
    split at h
    · rename_i hn
      have : ∀ m : Fin 24, headTy 7 m.val = .null → m.val = 22 := by decide
      have := this ⟨n, hn⟩ h
      simp only at this
      rw [this]
    · cases h
  | _ => simp [wType] at h

end Minicbor.Serde
