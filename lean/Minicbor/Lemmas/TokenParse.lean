/-
  "Each token carries the data-model value of its head", made precise: `itemOfTokens` rebuilds a
  data-model value (`Item`, RFC 8949 §2) from a token list using nothing but the payloads of the
  tokens — integers by their numeric value, strings by their bytes, containers by their declared
  length or up to the matching `break`, chunks concatenated — and on the tokens of a valid wire
  tree it returns exactly the value of that tree.
-/
import Minicbor.Lemmas.TokenSpec
import Minicbor.Lemmas.TokenEnc

namespace Minicbor.C11

/-- chunks of an indefinite-length string up to the `break`: concatenated. -/
def parseChunks (text : Bool) : List Token → Option (Bytes × List Token)
  | .brk :: ts => some ([], ts)
  | .bytes b :: ts => if text then none else (parseChunks text ts).map fun (r : Bytes × List Token) => (b ++ r.1, r.2)
  | .string b :: ts => if text then (parseChunks text ts).map fun (r : Bytes × List Token) => (b ++ r.1, r.2) else none
  | _ => none

mutual
/-- one data item from the front of a token list (fuel: nesting). -/
def parseItem : Nat → List Token → Option (Item × List Token)
  | 0, _ => none
  | _ + 1, [] => none
  | f + 1, t :: ts =>
    match t with
    | .u8 n | .u16 n | .u32 n | .u64 n => some (.uint n, ts)
    | .i8 v | .i16 v | .i32 v | .i64 v | .int v => some (C03.intItem v, ts)   -- the data-model value of an integer
    | .bytes b => some (.bytes b, ts)
    | .string b => some (.text b, ts)
    | .beginBytes => (parseChunks false ts).map fun r => (.bytes r.1, r.2)
    | .beginString => (parseChunks true ts).map fun r => (.text r.1, r.2)
    | .array n => (parseN f n ts).map fun r => (.array r.1, r.2)
    | .map n => (parseN f (2 * n) ts).map fun r => (.map r.1, r.2)
    | .beginArray => (parseUntil f ts).map fun r => (.array r.1, r.2)
    | .beginMap => (parseUntil f ts).map fun r => (.map r.1, r.2)
    | .tag n => (parseItem f ts).map fun r => (.tag n r.1, r.2)
    | .bool b => some (.simple (if b then 21 else 20), ts)
    | .null => some (.simple 22, ts)
    | .undefined => some (.simple 23, ts)
    | .simple n => some (.simple n, ts)
    | .f16 x => some (.f16 (f32ToF16 x), ts)      -- the half that the `f32` payload denotes
    | .f32 x => some (.f32 x, ts)
    | .f64 x => some (.f64 x, ts)
    | .brk => none
/-- exactly `n` items. -/
def parseN : Nat → Nat → List Token → Option (List Item × List Token)
  | _, 0, ts => some ([], ts)
  | 0, _ + 1, _ => none
  | f + 1, n + 1, ts =>
    match parseItem f ts with
    | none => none
    | some (x, r) => (parseN f n r).map fun p => (x :: p.1, p.2)
/-- items up to the matching `break`. -/
def parseUntil : Nat → List Token → Option (List Item × List Token)
  | 0, _ => none
  | _ + 1, .brk :: ts => some ([], ts)
  | f + 1, ts =>
    match parseItem f ts with
    | none => none
    | some (x, r) => (parseUntil f r).map fun p => (x :: p.1, p.2)
end

/-- the data-model value a token list denotes (one item, nothing left over). -/
def itemOfTokens (ts : List Token) : Option Item :=
  match parseItem (2 * ts.length) ts with
  | some (x, []) => some x
  | _ => none

/-! ### the parser on the tokens of a valid tree -/

theorem parseChunks_toks (text : Bool) (cs : List (Width × Bytes)) (rest : List Token) :
    parseChunks text (chunkToks text cs ++ .brk :: rest) = some (joinChunks cs, rest) := by
  induction cs with
  | nil => rfl
  | cons c cs ih =>
    obtain ⟨w, b⟩ := c
    cases text <;> simp [chunkToks, parseChunks, ih, joinChunks]

theorem canonChunks_join_eq (cs : List (Width × Bytes)) : joinChunks (canonChunks cs) = joinChunks cs := by
  induction cs with
  | nil => rfl
  | cons c cs ih => obtain ⟨w, b⟩ := c; simp [canonChunks, joinChunks, ih]

theorem parse_uintTok (f : Nat) (w : Width) (n : Nat) (rest : List Token) :
    parseItem (f + 1) (uintTok w n :: rest) = some (.uint n, rest) := by
  cases w <;> rfl

theorem parse_nintTok (f : Nat) (w : Width) (n : Nat) (rest : List Token) :
    parseItem (f + 1) (nintTok w n :: rest) = some (.nint n, rest) := by
  have := intItem_neg n
  cases w <;> simp only [nintTok] <;> (try split) <;> simp [parseItem, this]

theorem parse_simpleTok (f : Nat) (n : Nat) (rest : List Token) :
    parseItem (f + 1) (simpleTok n :: rest) = some (.simple n, rest) := by
  unfold simpleTok
  (repeat' split) <;> simp_all [parseItem]

theorem toks_length_pos (w : WItem) : 1 ≤ (toks w).length := by
  cases w <;> simp [toks]

theorem toks_head_ne_brk (w : WItem) : ∃ t r, toks w = t :: r ∧ t ≠ Token.brk := by
  cases w with
  | uint w n => exact ⟨_, _, rfl, by cases w <;> simp [uintTok]⟩
  | nint w n => exact ⟨_, _, rfl, by cases w <;> simp only [nintTok] <;> (try split) <;> simp⟩
  | simple n => exact ⟨_, _, rfl, by unfold simpleTok; (repeat' split) <;> simp⟩
  | _ => exact ⟨_, _, rfl, by simp⟩

mutual
/-- **the value of the tree is recovered from its tokens** (for the canonical tree: the only
    difference is that a signalling half NaN has been quieted by the token's `f32` payload). -/
theorem parse_toks (w : WItem) (hv : w.valid = true) (f : Nat) (rest : List Token)
    (hf : 2 * (toks w).length ≤ f) :
    parseItem f (toks w ++ rest) = some (value (canon w), rest) := by
  have hp := toks_length_pos w
  cases f with
  | zero => omega
  | succ f =>
    cases w with
    | uint w n => exact parse_uintTok f w n rest
    | nint w n => exact parse_nintTok f w n rest
    | bytes w b => rfl
    | text w b => rfl
    | bytesI cs =>
      simp only [toks, List.cons_append, List.append_assoc, List.singleton_append, parseItem,
        parseChunks_toks, canon, value, canonChunks_join_eq, List.nil_append, Option.map_some]
    | textI cs =>
      simp only [toks, List.cons_append, List.append_assoc, List.singleton_append, parseItem,
        parseChunks_toks, canon, value, canonChunks_join_eq, List.nil_append, Option.map_some]
    | array w xs =>
      simp only [WItem.valid, Bool.and_eq_true] at hv
      simp only [toks, List.length_cons] at hf
      simp only [toks, List.cons_append, parseItem, parse_toksN xs hv.2 f rest (by omega), canon, value]
      rfl
    | arrayI xs =>
      simp only [WItem.valid] at hv
      simp only [toks, List.length_cons, List.length_append, List.length_nil] at hf
      simp only [toks, List.cons_append, List.append_assoc, List.singleton_append, List.nil_append, parseItem,
        parse_toksU xs hv f rest (by omega), canon, value, Option.map_some]
    | map w kvs =>
      simp only [WItem.valid, Bool.and_eq_true, beq_iff_eq] at hv
      simp only [toks, List.length_cons] at hf
      have e : 2 * (kvs.length / 2) = kvs.length := by omega
      simp only [toks, List.cons_append, parseItem, e, parse_toksN kvs hv.2 f rest (by omega), canon, value]
      rfl
    | mapI kvs =>
      simp only [WItem.valid, Bool.and_eq_true] at hv
      simp only [toks, List.length_cons, List.length_append, List.length_nil] at hf
      simp only [toks, List.cons_append, List.append_assoc, List.singleton_append, List.nil_append, parseItem,
        parse_toksU kvs hv.2 f rest (by omega), canon, value, Option.map_some]
    | tag w n x =>
      simp only [WItem.valid, Bool.and_eq_true] at hv
      simp only [toks, List.length_cons] at hf
      simp only [toks, List.cons_append, parseItem, parse_toks x hv.2 f rest (by omega), canon, value]
      rfl
    | simple n => exact parse_simpleTok f n rest
    | f16 b =>
      simp only [WItem.valid, decide_eq_true_eq] at hv
      simp only [toks, List.cons_append, List.nil_append, parseItem, half_roundtrip b hv, canon, value]
    | f32 b => rfl
    | f64 b => rfl
/-- a definite-length sequence. -/
theorem parse_toksN (ws : List WItem) (hv : validAll ws = true) (f : Nat) (rest : List Token)
    (hf : 2 * (toksL ws).length + 1 ≤ f) :
    parseN f ws.length (toksL ws ++ rest) = some (values (canonL ws), rest) := by
  cases ws with
  | nil => cases f <;> rfl
  | cons x xs =>
    simp only [validAll, Bool.and_eq_true] at hv
    have hp := toks_length_pos x
    simp only [toksL, List.length_append] at hf
    cases f with
    | zero => omega
    | succ f =>
      simp only [toksL, List.length_cons, List.append_assoc, parseN,
        parse_toks x hv.1 f (toksL xs ++ rest) (by omega), parse_toksN xs hv.2 f rest (by omega),
        canonL, values, Option.map_some]
/-- an indefinite-length sequence, closed by `break`. -/
theorem parse_toksU (ws : List WItem) (hv : validAll ws = true) (f : Nat) (rest : List Token)
    (hf : 2 * (toksL ws).length + 1 ≤ f) :
    parseUntil f (toksL ws ++ .brk :: rest) = some (values (canonL ws), rest) := by
  cases ws with
  | nil =>
    cases f with
    | zero => omega
    | succ f => rfl
  | cons x xs =>
    simp only [validAll, Bool.and_eq_true] at hv
    have hp := toks_length_pos x
    obtain ⟨t, r, htr, hne⟩ := toks_head_ne_brk x
    simp only [toksL, List.length_append] at hf
    cases f with
    | zero => omega
    | succ f =>
      have h1 := parse_toks x hv.1 f (toksL xs ++ .brk :: rest) (by omega)
      have h2 := parse_toksU xs hv.2 f rest (by omega)
      have hu : parseUntil (f + 1) (toks x ++ (toksL xs ++ .brk :: rest)) =
          match parseItem f (toks x ++ (toksL xs ++ .brk :: rest)) with
          | none => none
          | some (y, r) => (parseUntil f r).map fun p => (y :: p.1, p.2) := by
        rw [htr]
        cases t <;> first | exact absurd rfl hne | rfl
      simp only [toksL, List.append_assoc]
      rw [hu, h1]
      simp only [h2, canonL, values]
      rfl
end

end Minicbor.C11
