/-
  The decision procedure `balanced` decides the specification `Balanced`:
  `balanced ts = some ws ↔ Balanced ts ws` (soundness by induction on the fuel, completeness by
  induction on the derivation; the fuel `2 * length + 1` is always enough).
-/
import Minicbor.Balanced

namespace Minicbor

theorem Balanced.append {a b : List Token} {xs ys : List WItem}
    (h1 : Balanced a xs) (h2 : Balanced b ys) : Balanced (a ++ b) (xs ++ ys) := by
  induction h1 with
  | nil => simpa using h2
  | scalar hs _ ih => exact .scalar hs ih
  | array hx hl _ _ ih =>
    simp only [List.cons_append, List.append_assoc]; exact .array hx hl ih
  | map hx hl _ _ ih =>
    simp only [List.cons_append, List.append_assoc]; exact .map hx hl ih
  | tag hx _ _ ih =>
    simp only [List.cons_append, List.append_assoc]; exact .tag hx ih
  | arrayI hx _ _ ih =>
    simp only [List.cons_append, List.append_assoc]; exact .arrayI hx ih
  | mapI hx hl _ _ ih =>
    simp only [List.cons_append, List.append_assoc]; exact .mapI hx hl ih
  | bytesI _ ih =>
    simp only [List.cons_append, List.append_assoc]; exact .bytesI ih
  | textI _ ih =>
    simp only [List.cons_append, List.append_assoc]; exact .textI ih

theorem Balanced.cons_item {a b : List Token} {x : WItem} {ys : List WItem}
    (h1 : Balanced a [x]) (h2 : Balanced b ys) : Balanced (a ++ b) (x :: ys) := by
  simpa using h1.append h2

/-! ### one-step unfoldings (in `Option.bind` form, so that no matcher appears in a statement) -/

theorem balN_succ (f n : Nat) (ts : List Token) :
    balN (f + 1) (n + 1) ts =
      (balItem f ts).bind fun p => (balN f n p.2).map fun q => (p.1 :: q.1, q.2) := by
  simp only [balN]
  rcases balItem f ts with _ | ⟨x, r⟩ <;> rfl

theorem balUntil_brk (f : Nat) (ts : List Token) : balUntil (f + 1) (.brk :: ts) = some ([], ts) := by
  simp only [balUntil]

theorem balUntil_step (f : Nat) (ts : List Token) (h : ∀ r, ts ≠ .brk :: r) :
    balUntil (f + 1) ts =
      (balItem f ts).bind fun p => (balUntil f p.2).map fun q => (p.1 :: q.1, q.2) := by
  cases ts with
  | nil =>
    simp only [balUntil]
    rcases balItem f [] with _ | ⟨x, r⟩ <;> rfl
  | cons t ts =>
    cases t
    case brk => exact absurd rfl (h ts)
    all_goals
      simp only [balUntil]
      rcases balItem f _ with _ | ⟨x, r⟩ <;> rfl

theorem balTop_step (f : Nat) (t : Token) (ts : List Token) :
    balTop (f + 1) (t :: ts) = (balItem f (t :: ts)).bind fun p => (balTop f p.2).map fun q => p.1 :: q := by
  simp only [balTop]
  rcases balItem f (t :: ts) with _ | ⟨x, r⟩ <;> rfl

/-! ### soundness -/

theorem balChunks_sound_bytes (ts : List Token) (cs : List Bytes) (r : List Token)
    (h : balChunks false ts = some (cs, r)) : ts = cs.map Token.bytes ++ .brk :: r := by
  induction ts generalizing cs with
  | nil => simp [balChunks] at h
  | cons t ts ih =>
    cases t <;> simp only [balChunks, Bool.false_eq_true, if_false, Option.map_eq_some_iff,
      Option.some.injEq, Prod.mk.injEq, reduceCtorEq] at h
    case bytes b =>
      obtain ⟨⟨cs', r'⟩, h1, h2, h3⟩ := h
      subst h2; subst h3
      simp [ih cs' h1]
    case brk =>
      obtain ⟨h1, h2⟩ := h
      subst h1; subst h2; simp

theorem balChunks_sound_text (ts : List Token) (cs : List Bytes) (r : List Token)
    (h : balChunks true ts = some (cs, r)) : ts = cs.map Token.string ++ .brk :: r := by
  induction ts generalizing cs with
  | nil => simp [balChunks] at h
  | cons t ts ih =>
    cases t <;> simp only [balChunks, if_true, Option.map_eq_some_iff,
      Option.some.injEq, Prod.mk.injEq, reduceCtorEq] at h
    case string b =>
      obtain ⟨⟨cs', r'⟩, h1, h2, h3⟩ := h
      subst h2; subst h3
      simp [ih cs' h1]
    case brk =>
      obtain ⟨h1, h2⟩ := h
      subst h1; subst h2; simp

/-- every successful run of the three mutually recursive loops consumed a balanced prefix. -/
theorem bal_sound (f : Nat) :
    (∀ ts w r, balItem f ts = some (w, r) → ∃ pre, ts = pre ++ r ∧ Balanced pre [w]) ∧
    (∀ n ts ws r, balN f n ts = some (ws, r) →
      ∃ pre, ts = pre ++ r ∧ Balanced pre ws ∧ ws.length = n) ∧
    (∀ ts ws r, balUntil f ts = some (ws, r) → ∃ pre, ts = pre ++ .brk :: r ∧ Balanced pre ws) := by
  induction f with
  | zero =>
    refine ⟨?_, ?_, ?_⟩
    · intro ts w r h; simp [balItem] at h
    · intro n ts ws r h
      cases n with
      | zero =>
        simp only [balN, Option.some.injEq, Prod.mk.injEq] at h
        obtain ⟨rfl, rfl⟩ := h
        exact ⟨[], rfl, .nil, rfl⟩
      | succ n => simp [balN] at h
    · intro ts ws r h; simp [balUntil] at h
  | succ f ih =>
    obtain ⟨ihI, ihN, ihU⟩ := ih
    refine ⟨?_, ?_, ?_⟩
    · intro ts w r h
      cases ts with
      | nil => simp [balItem] at h
      | cons t ts =>
        simp only [balItem] at h
        cases hs : scalarW t with
        | some w' =>
          simp only [hs, Option.some.injEq, Prod.mk.injEq] at h
          obtain ⟨rfl, rfl⟩ := h
          exact ⟨[t], rfl, .scalar hs .nil⟩
        | none =>
          simp only [hs] at h
          cases t <;> simp only [reduceCtorEq, Option.map_eq_some_iff, Prod.mk.injEq] at h
          case array n =>
            obtain ⟨⟨xs, r'⟩, h1, rfl, rfl⟩ := h
            obtain ⟨pre, rfl, hb, hl⟩ := ihN _ _ _ _ h1
            exact ⟨.array n :: pre, rfl, by simpa using Balanced.array hb hl .nil⟩
          case map n =>
            obtain ⟨⟨xs, r'⟩, h1, rfl, rfl⟩ := h
            obtain ⟨pre, rfl, hb, hl⟩ := ihN _ _ _ _ h1
            exact ⟨.map n :: pre, rfl, by simpa using Balanced.map hb hl .nil⟩
          case tag n =>
            obtain ⟨⟨x, r'⟩, h1, rfl, rfl⟩ := h
            obtain ⟨pre, rfl, hb⟩ := ihI _ _ _ h1
            exact ⟨.tag n :: pre, rfl, by simpa using Balanced.tag hb .nil⟩
          case beginArray =>
            obtain ⟨⟨xs, r'⟩, h1, rfl, rfl⟩ := h
            obtain ⟨pre, rfl, hb⟩ := ihU _ _ _ h1
            exact ⟨.beginArray :: (pre ++ [.brk]), by simp, by simpa using Balanced.arrayI hb .nil⟩
          case beginMap =>
            cases hu : balUntil f ts with
            | none => simp [hu] at h
            | some p =>
              obtain ⟨kvs, r'⟩ := p
              simp only [hu] at h
              split at h
              · rename_i he
                simp only [Option.some.injEq, Prod.mk.injEq] at h
                obtain ⟨rfl, rfl⟩ := h
                obtain ⟨pre, rfl, hb⟩ := ihU _ _ _ hu
                exact ⟨.beginMap :: (pre ++ [.brk]), by simp, by simpa using Balanced.mapI hb he .nil⟩
              · simp at h
          case beginBytes =>
            obtain ⟨⟨cs, r'⟩, h1, rfl, rfl⟩ := h
            have := balChunks_sound_bytes _ _ _ h1
            subst this
            exact ⟨.beginBytes :: (cs.map Token.bytes ++ [.brk]), by simp,
              by simpa using Balanced.bytesI (cs := cs) .nil⟩
          case beginString =>
            obtain ⟨⟨cs, r'⟩, h1, rfl, rfl⟩ := h
            have := balChunks_sound_text _ _ _ h1
            subst this
            exact ⟨.beginString :: (cs.map Token.string ++ [.brk]), by simp,
              by simpa using Balanced.textI (cs := cs) .nil⟩
    · intro n ts ws r h
      cases n with
      | zero =>
        simp only [balN, Option.some.injEq, Prod.mk.injEq] at h
        obtain ⟨rfl, rfl⟩ := h
        exact ⟨[], rfl, .nil, rfl⟩
      | succ n =>
        rw [balN_succ] at h
        simp only [Option.bind_eq_some_iff, Option.map_eq_some_iff, Prod.mk.injEq] at h
        obtain ⟨⟨x, r1⟩, hi, ⟨xs, r2⟩, h1, rfl, rfl⟩ := h
        obtain ⟨pre1, rfl, hb1⟩ := ihI _ _ _ hi
        obtain ⟨pre2, rfl, hb2, hl⟩ := ihN _ _ _ _ h1
        exact ⟨pre1 ++ pre2, by simp, hb1.cons_item hb2, by simp [hl]⟩
    · intro ts ws r h
      by_cases hb : ∃ r', ts = .brk :: r'
      · obtain ⟨r', rfl⟩ := hb
        simp only [balUntil_brk, Option.some.injEq, Prod.mk.injEq] at h
        obtain ⟨rfl, rfl⟩ := h
        exact ⟨[], rfl, .nil⟩
      · rw [balUntil_step f ts (fun r' e => hb ⟨r', e⟩)] at h
        simp only [Option.bind_eq_some_iff, Option.map_eq_some_iff, Prod.mk.injEq] at h
        obtain ⟨⟨x, r1⟩, hi, ⟨xs, r2⟩, h1, rfl, rfl⟩ := h
        obtain ⟨pre1, rfl, hb1⟩ := ihI _ _ _ hi
        obtain ⟨pre2, rfl, hb2⟩ := ihU _ _ _ h1
        exact ⟨pre1 ++ pre2, by simp, hb1.cons_item hb2⟩

theorem balTop_sound (f : Nat) (ts : List Token) (ws : List WItem) (h : balTop f ts = some ws) :
    Balanced ts ws := by
  induction f generalizing ts ws with
  | zero =>
    cases ts with
    | nil => simp only [balTop, Option.some.injEq] at h; subst h; exact .nil
    | cons t ts => simp [balTop] at h
  | succ f ih =>
    cases ts with
    | nil => simp only [balTop, Option.some.injEq] at h; subst h; exact .nil
    | cons t ts =>
      rw [balTop_step] at h
      simp only [Option.bind_eq_some_iff, Option.map_eq_some_iff] at h
      obtain ⟨⟨x, r⟩, hi, xs, h1, rfl⟩ := h
      obtain ⟨pre, hpre, hb⟩ := (bal_sound f).1 _ _ _ hi
      rw [hpre]
      exact hb.cons_item (ih _ _ h1)

/-! ### completeness -/

theorem balChunks_complete_bytes (cs : List Bytes) (rest : List Token) :
    balChunks false (cs.map Token.bytes ++ .brk :: rest) = some (cs, rest) := by
  induction cs with
  | nil => rfl
  | cons c cs ih => simp [balChunks, ih]

theorem balChunks_complete_text (cs : List Bytes) (rest : List Token) :
    balChunks true (cs.map Token.string ++ .brk :: rest) = some (cs, rest) := by
  induction cs with
  | nil => rfl
  | cons c cs ih => simp [balChunks, ih]

/-- with fuel `2 * length + 1` each of the three loops reads a balanced prefix back. -/
def Complete (ts : List Token) (ws : List WItem) : Prop :=
  ∀ f, 2 * ts.length + 1 ≤ f →
    (∀ rest, balN f ws.length (ts ++ rest) = some (ws, rest)) ∧
    (∀ rest, balUntil f (ts ++ .brk :: rest) = some (ws, rest)) ∧
    balTop f ts = some ws

theorem complete_cons {pre tl : List Token} {w : WItem} {ws : List WItem}
    (hne : ∃ t p, pre = t :: p ∧ t ≠ .brk)
    (hitem : ∀ rest g, 2 * pre.length ≤ g → balItem g (pre ++ rest) = some (w, rest))
    (htl : Complete tl ws) : Complete (pre ++ tl) (w :: ws) := by
  obtain ⟨t, p, rfl, hbrk⟩ := hne
  intro f hf
  simp only [List.length_append, List.length_cons] at hf
  cases f with
  | zero => omega
  | succ g =>
    obtain ⟨hN, hU, hT⟩ := htl g (by omega)
    refine ⟨fun rest => ?_, fun rest => ?_, ?_⟩
    · rw [List.length_cons, balN_succ, List.append_assoc,
        hitem (tl ++ rest) g (by simp only [List.length_cons]; omega)]
      simp [hN rest]
    · rw [balUntil_step _ _ (by intro r e; simp only [List.cons_append, List.cons.injEq] at e; exact hbrk e.1),
        List.append_assoc, hitem (tl ++ .brk :: rest) g (by simp only [List.length_cons]; omega)]
      simp [hU rest]
    · rw [List.cons_append, balTop_step, ← List.cons_append,
        hitem tl g (by simp only [List.length_cons]; omega)]
      simp [hT]

theorem Complete.item {xt : List Token} {x : WItem} (h : Complete xt [x]) (rest : List Token) (g : Nat)
    (hg : 2 * xt.length ≤ g) : balItem g (xt ++ rest) = some (x, rest) := by
  have := (h (g + 1) (by omega)).1 rest
  rw [List.length_singleton, balN_succ] at this
  simp only [Option.bind_eq_some_iff, Option.map_eq_some_iff, Prod.mk.injEq] at this
  obtain ⟨⟨y, r1⟩, hi, ⟨ys, r2⟩, h1, h2, h3⟩ := this
  cases g with
  | zero => simp [balItem] at hi
  | succ g =>
    simp only [balN, Option.some.injEq, Prod.mk.injEq] at h1
    obtain ⟨rfl, rfl⟩ := h1
    simp only [List.cons.injEq, and_true] at h2
    subst h2; subst h3
    exact hi

theorem Balanced.complete {ts : List Token} {ws : List WItem} (h : Balanced ts ws) : Complete ts ws := by
  induction h with
  | nil =>
    intro f hf
    cases f with
    | zero => omega
    | succ g => exact ⟨fun _ => rfl, fun _ => by simp [balUntil_brk], rfl⟩
  | @scalar t w ts ws hs _ ih =>
    have hne : t ≠ .brk := by intro e; subst e; simp [scalarW] at hs
    refine complete_cons (pre := [t]) ⟨t, [], rfl, hne⟩ ?_ ih
    intro rest g hg
    cases g with
    | zero => simp at hg
    | succ g => simp [balItem, hs]
  | @array n xt ts xs ws _ hl _ ihx ih =>
    have := complete_cons (pre := .array n :: xt) (w := .array (prefWidth n) xs)
      ⟨_, _, rfl, by simp⟩ ?_ ih
    · simpa using this
    · intro rest g hg
      simp only [List.length_cons] at hg
      cases g with
      | zero => omega
      | succ g =>
        have := (ihx g (by omega)).1 rest
        rw [hl] at this
        simp [balItem, scalarW, this]
  | @map n xt ts kvs ws _ hl _ ihx ih =>
    have := complete_cons (pre := .map n :: xt) (w := .map (prefWidth n) kvs)
      ⟨_, _, rfl, by simp⟩ ?_ ih
    · simpa using this
    · intro rest g hg
      simp only [List.length_cons] at hg
      cases g with
      | zero => omega
      | succ g =>
        have := (ihx g (by omega)).1 rest
        rw [hl] at this
        simp [balItem, scalarW, this]
  | @tag n xt ts x ws _ _ ihx ih =>
    have := complete_cons (pre := .tag n :: xt) (w := .tag (prefWidth n) n x)
      ⟨_, _, rfl, by simp⟩ ?_ ih
    · simpa using this
    · intro rest g hg
      simp only [List.length_cons] at hg
      cases g with
      | zero => omega
      | succ g =>
        have := ihx.item rest g (by omega)
        simp [balItem, scalarW, this]
  | @arrayI xt ts xs ws _ _ ihx ih =>
    have := complete_cons (pre := .beginArray :: (xt ++ [.brk])) (w := .arrayI xs)
      ⟨_, _, rfl, by simp⟩ ?_ ih
    · simpa using this
    · intro rest g hg
      simp only [List.length_cons, List.length_append, List.length_nil] at hg
      cases g with
      | zero => omega
      | succ g =>
        have := (ihx g (by omega)).2.1 rest
        simp [balItem, scalarW, this]
  | @mapI xt ts kvs ws _ he _ ihx ih =>
    have := complete_cons (pre := .beginMap :: (xt ++ [.brk])) (w := .mapI kvs)
      ⟨_, _, rfl, by simp⟩ ?_ ih
    · simpa using this
    · intro rest g hg
      simp only [List.length_cons, List.length_append, List.length_nil] at hg
      cases g with
      | zero => omega
      | succ g =>
        have := (ihx g (by omega)).2.1 rest
        simp [balItem, scalarW, this, he]
  | @bytesI cs ts ws _ ih =>
    have := complete_cons (pre := .beginBytes :: (cs.map Token.bytes ++ [.brk])) (w := .bytesI (prefChunks cs))
      ⟨_, _, rfl, by simp⟩ ?_ ih
    · simpa using this
    · intro rest g hg
      cases g with
      | zero => simp at hg
      | succ g => simp [balItem, scalarW, balChunks_complete_bytes]
  | @textI cs ts ws _ ih =>
    have := complete_cons (pre := .beginString :: (cs.map Token.string ++ [.brk])) (w := .textI (prefChunks cs))
      ⟨_, _, rfl, by simp⟩ ?_ ih
    · simpa using this
    · intro rest g hg
      cases g with
      | zero => simp at hg
      | succ g => simp [balItem, scalarW, balChunks_complete_text]

/-- **`balanced` decides `Balanced`.** -/
theorem balanced_iff (ts : List Token) (ws : List WItem) : balanced ts = some ws ↔ Balanced ts ws :=
  ⟨balTop_sound _ ts ws, fun h => (h.complete _ (Nat.le_refl _)).2.2⟩

/-- the denotation is unique. -/
theorem Balanced.unique {ts : List Token} {ws ws' : List WItem}
    (h : Balanced ts ws) (h' : Balanced ts ws') : ws = ws' := by
  have a := (balanced_iff ts ws).2 h
  have b := (balanced_iff ts ws').2 h'
  rw [a] at b
  exact Option.some.inj b

end Minicbor
