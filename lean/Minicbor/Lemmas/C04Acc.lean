/-
  C04 infrastructure: the accessors of `Decoder` as one family, and the specification side of
  "which wire shapes does an accessor accept, and what does it return on them".

  * `Acc`            — the sixteen typed accessors (integer accessors and `f32`/`f64` are families),
  * `Acc.run`        — the model action of Decoder.lean,
  * `view a w`       — SPEC: `some v` iff accessor `a` accepts the wire tree `w`, and then `v` is
                       the value the RFC 8949 data model assigns (written directly on the tree),
  * `consumed a w`   — SPEC: the bytes of `encW w` the accessor reads (`array`/`map`/`tag` read the
                       head only), `after a w` the bytes of `encW w` it leaves,
  * `accepts a n`    — the class of initial bytes on which the accessor can succeed at all,
  * `run_ok_accepts` — a successful run started on an initial byte of that class,
  * `WItem.ib`       — the initial byte of the encoding of a (valid) tree.
-/
import Minicbor.Lemmas.Accessors
import Minicbor.Lemmas.SkipLocal
import Minicbor.Lemmas.C04Stable
import Minicbor.Wire
import Minicbor.Float

namespace Minicbor.C04
open Dec

/-- the typed accessors of `minicbor::decode::Decoder`. -/
inductive Acc where
  | bool
  | int (t : IntTy)          -- u8 u16 u32 u64 i8 i16 i32 i64 int
  | f16
  | f32 (half : Bool)        -- `half` = the feature flag
  | f64 (half : Bool)
  | char
  | bytes | str
  | bytesIter | strIter      -- drained: the list of chunks
  | array | map | tag
  | null | undefined
  | simple

/-- result type of each accessor. -/
@[reducible] def Acc.Out : Acc → Type
  | .bool => Bool
  | .int _ => Int
  | .f16 | .f32 _ | .f64 _ | .char | .tag | .simple => Nat
  | .bytes | .str => Bytes
  | .bytesIter | .strIter => List Bytes
  | .array | .map => Option Nat
  | .null | .undefined => Unit

/-- the model action. -/
def Acc.run : (a : Acc) → Dec a.Out
  | .bool => Dec.bool
  | .int t => Dec.intAcc t
  | .f16 => Dec.f16
  | .f32 h => Dec.f32 h
  | .f64 h => Dec.f64 h
  | .char => Dec.char
  | .bytes => Dec.bytes
  | .str => Dec.str
  | .bytesIter => Dec.bytesIter
  | .strIter => Dec.strIter
  | .array => Dec.array
  | .map => Dec.map
  | .tag => Dec.tag
  | .null => Dec.null
  | .undefined => Dec.undefined
  | .simple => Dec.simple

/-- the chunk list the string iterators yield on a definite string: one chunk, or none when the
    string is empty (`BytesIter`/`StrIter` with `len == Some(0)`). -/
def oneChunk (b : Bytes) : List Bytes := if b.length = 0 then [] else [b]

theorem oneChunk_flatten (b : Bytes) : (oneChunk b).flatten = b := by
  unfold oneChunk; split
  · rename_i h; simp [List.eq_nil_of_length_eq_zero h]
  · simp

/-- **SPEC.**  `view a w = some v`: accessor `a` matches the shape of the (valid) wire tree `w`
    and `v` is what the data model assigns; `none`: the accessor does not match. -/
def view : (a : Acc) → WItem → Option a.Out
  | .bool, .simple n => if n = 20 then some false else if n = 21 then some true else none
  | .int t, .uint _ n => if n ≤ t.max then some (n : Int) else none
  | .int t, .nint _ n => if t.neg = true ∧ n ≤ t.max then some (-1 - (n : Int)) else none
  | .f16, .f16 b => some (f16ToF32 b)
  | .f32 _, .f32 b => some b
  | .f32 h, .f16 b => if h = true then some (f16ToF32 b) else none
  | .f64 _, .f64 b => some b
  | .f64 _, .f32 b => some (f32ToF64 b)
  | .f64 h, .f16 b => if h = true then some (f32ToF64 (f16ToF32 b)) else none
  | .char, .uint _ n => if n ≤ 4294967295 ∧ isScalar n = true then some n else none
  | .bytes, .bytes _ b => some b
  | .str, .text _ b => some b
  | .bytesIter, .bytes _ b => some (oneChunk b)
  | .bytesIter, .bytesI cs => some (cs.map (·.2))
  | .strIter, .text _ b => some (oneChunk b)
  | .strIter, .textI cs => some (cs.map (·.2))
  | .array, .array _ xs => some (some xs.length)
  | .array, .arrayI _ => some none
  | .map, .map _ kvs => some (some (kvs.length / 2))
  | .map, .mapI _ => some none
  | .tag, .tag _ n _ => some n
  | .null, .simple n => if n = 22 then some () else none
  | .undefined, .simple n => if n = 23 then some () else none
  | .simple, .simple n => if n < 20 ∨ 32 ≤ n then some n else none
  | _, _ => none

/-- accessor `a` matches the shape of `w`. -/
abbrev Matches (a : Acc) (w : WItem) : Prop := (view a w).isSome = true

/-- **SPEC.**  the bytes of `encW w` that the accessor leaves unread: `array`/`map`/`tag` read the
    head only, every other accessor reads the whole item. -/
def after : Acc → WItem → Bytes
  | .array, .array _ xs => encWs xs
  | .array, .arrayI xs => encWs xs ++ [0xff]
  | .map, .map _ kvs => encWs kvs
  | .map, .mapI kvs => encWs kvs ++ [0xff]
  | .tag, .tag _ _ x => encW x
  | _, _ => []

/-- **SPEC.**  the bytes of `encW w` that the accessor reads. -/
def consumed : Acc → WItem → Bytes
  | .array, .array w xs => headW 4 w xs.length
  | .array, .arrayI _ => [0x9f]
  | .map, .map w kvs => headW 5 w (kvs.length / 2)
  | .map, .mapI _ => [0xbf]
  | .tag, .tag w n _ => headW 6 w n
  | _, w => encW w

/-- the two pieces make up the encoding. -/
theorem consumed_after (a : Acc) (w : WItem) : encW w = consumed a w ++ after a w := by
  cases a <;> cases w <;> simp [consumed, after, encW]

/-- what the views mean in the data model (`value` erases widths, definiteness, chunking). -/
theorem view_value (w : WItem) :
    (∀ b, view .bytes w = some b → value w = .bytes b) ∧
    (∀ b, view .str w = some b → value w = .text b) ∧
    (∀ cs, view .bytesIter w = some cs → value w = .bytes cs.flatten) ∧
    (∀ cs, view .strIter w = some cs → value w = .text cs.flatten) ∧
    (∀ t i, view (.int t) w = some i → value w = .uint i.toNat ∧ i = i.toNat ∨ value w = .nint (-1 - i).toNat ∧ i = -1 - ((-1 - i).toNat : Int)) ∧
    (∀ n, view .simple w = some n → value w = .simple n) ∧
    (∀ b, view .bool w = some b → value w = .simple (if b then 21 else 20)) ∧
    (view .null w = some () → value w = .simple 22) ∧
    (view .undefined w = some () → value w = .simple 23) ∧
    (∀ n, view .tag w = some n → ∃ x, value w = .tag n x) ∧
    (∀ n, view .array w = some (some n) → ∃ xs, value w = .array xs ∧ xs.length = n) ∧
    (∀ n, view .map w = some (some n) → ∃ xs, value w = .map xs ∧ xs.length / 2 = n) := by
  have hj : ∀ cs : List (Width × Bytes), joinChunks cs = (cs.map (·.2)).flatten := by
    intro cs; induction cs with
    | nil => rfl
    | cons c cs ih => obtain ⟨w, b⟩ := c; simp [joinChunks, ih]
  refine ⟨?_, ?_, ?_, ?_, ?_, ?_, ?_, ?_, ?_, ?_, ?_, ?_⟩
  · intro b h; cases w <;> simp [view] at h; subst h; rfl
  · intro b h; cases w <;> simp [view] at h; subst h; rfl
  · intro cs h; cases w <;> simp [view] at h <;> subst h <;> simp [value, oneChunk_flatten, hj]
  · intro cs h; cases w <;> simp [view] at h <;> subst h <;> simp [value, oneChunk_flatten, hj]
  · intro t i h
    cases w <;> simp [view] at h
    · obtain ⟨_, rfl⟩ := h; left; simp [value]
    · obtain ⟨_, rfl⟩ := h; right; simp [value]; omega
  · intro n h; cases w <;> simp [view] at h; obtain ⟨_, rfl⟩ := h; rfl
  · intro b h; cases w <;> simp [view] at h
    rename_i n
    by_cases h20 : n = 20
    · subst h20; simp at h; subst h; rfl
    · simp [h20] at h; obtain ⟨rfl, rfl⟩ := h; rfl
  · intro h; cases w <;> simp [view] at h; subst h; rfl
  · intro h; cases w <;> simp [view] at h; subst h; rfl
  · intro n h; cases w <;> simp [view] at h; subst h; exact ⟨_, rfl⟩
  · intro n h; cases w <;> simp [view] at h; subst h; exact ⟨_, rfl, values_length _⟩
  · intro n h; cases w <;> simp [view] at h; subst h; exact ⟨_, rfl, by rw [values_length]⟩

/-! ### the initial byte -/

/-- the initial byte of the encoding of a valid tree, as a number. -/
def ib : WItem → Nat
  | .uint w n => w.ai n
  | .nint w n => 32 + w.ai n
  | .bytes w b => 64 + w.ai b.length
  | .bytesI _ => 95
  | .text w b => 96 + w.ai b.length
  | .textI _ => 127
  | .array w xs => 128 + w.ai xs.length
  | .arrayI _ => 159
  | .map w kvs => 160 + w.ai (kvs.length / 2)
  | .mapI _ => 191
  | .tag w n _ => 192 + w.ai n
  | .simple n => if n < 24 then 224 + n else 248
  | .f16 _ => 249
  | .f32 _ => 250
  | .f64 _ => 251

/-- the range of initial bytes of each kind of item (RFC 8949 §3, Appendix B). -/
def ibRange : WItem → Nat × Nat
  | .uint .. => (0, 27) | .nint .. => (32, 59) | .bytes .. => (64, 91) | .bytesI _ => (95, 95)
  | .text .. => (96, 123) | .textI _ => (127, 127) | .array .. => (128, 155) | .arrayI _ => (159, 159)
  | .map .. => (160, 187) | .mapI _ => (191, 191) | .tag .. => (192, 219)
  | .simple n => if n < 24 then (224 + n, 224 + n) else (248, 248)
  | .f16 _ => (249, 249) | .f32 _ => (250, 250) | .f64 _ => (251, 251)

theorem ib_range (w : WItem) (hv : w.Valid) : (ibRange w).1 ≤ ib w ∧ ib w ≤ (ibRange w).2 := by
  cases w <;> simp only [WItem.Valid, WItem.valid, Bool.and_eq_true] at hv <;> simp only [ib, ibRange]
  case simple n => split <;> simp
  case uint w n => have := Width.ai_le w n hv; omega
  case nint w n => have := Width.ai_le w n hv; omega
  case bytes w b => have := Width.ai_le w _ hv; omega
  case text w b => have := Width.ai_le w _ hv.1; omega
  case array w xs => have := Width.ai_le w _ hv.1; omega
  case map w xs => have := Width.ai_le w _ hv.1.2; omega
  case tag w n x => have := Width.ai_le w _ hv.1; omega
  all_goals omega

theorem encW_cons (w : WItem) (hv : w.Valid) : ∃ tl, encW w = u8 (ib w) :: tl ∧ (u8 (ib w)).toNat = ib w := by
  have hr := ib_range w hv
  have hlt : ib w < 256 := by
    cases w <;> simp only [ibRange] at hr <;> try omega
    case simple n =>
      simp only [WItem.Valid, WItem.valid, Bool.or_eq_true, Bool.and_eq_true, decide_eq_true_eq] at hv
      split at hr <;> simp at hr <;> omega
  refine ⟨(encW w).tail, ?_, u8_toNat hlt⟩
  cases w <;> simp [encW, headW, ib] <;> try rfl
  case simple n => split <;> simp <;> rfl

/-! ### the class of initial bytes an accessor can succeed on -/

def accepts : Acc → Nat → Prop
  | .bool, n => n = 244 ∨ n = 245
  | .int t, n => n ≤ 27 ∨ (t.neg = true ∧ 32 ≤ n ∧ n ≤ 59)
  | .f16, n => n = 249
  | .f32 h, n => (h = true ∧ n = 249) ∨ n = 250
  | .f64 h, n => (h = true ∧ n = 249) ∨ n = 250 ∨ n = 251
  | .char, n => n ≤ 27
  | .bytes, n => 64 ≤ n ∧ n ≤ 91
  | .str, n => 96 ≤ n ∧ n ≤ 123
  | .bytesIter, n => (64 ≤ n ∧ n ≤ 91) ∨ n = 95
  | .strIter, n => (96 ≤ n ∧ n ≤ 123) ∨ n = 127
  | .array, n => (128 ≤ n ∧ n ≤ 155) ∨ n = 159
  | .map, n => (160 ≤ n ∧ n ≤ 187) ∨ n = 191
  | .tag, n => 192 ≤ n ∧ n ≤ 219
  | .null, n => n = 246
  | .undefined, n => n = 247
  | .simple, n => (224 ≤ n ∧ n ≤ 243) ∨ n = 248

theorem ite_run {α : Type} (c : Prop) [Decidable c] (f g : Dec α) (x : Bytes) :
    (if c then f else g) x = if c then f x else g x := by split <;> rfl

/-- `unsigned` succeeds only on additional information 0..27. -/
theorem unsigned_ok_le (b : UInt8) (bs : Bytes) (n : Nat) (r : Bytes) (h : unsigned b bs = .ok n r) :
    b.toNat ≤ 27 := by
  unfold unsigned at h
  simp only [beq_iff_eq] at h
  repeat rw [ite_run] at h
  by_cases h1 : b.toNat ≤ 27
  · exact h1
  · exfalso
    rw [if_neg (by omega), if_neg (by omega), if_neg (by omega), if_neg (by omega), if_neg (by omega)] at h
    exact typeMismatch_not_ok _ _ _ _ h

/-- inversion of a successful bind (local copy: Lemmas/TotalBase.lean cannot be imported here, it
    pulls in TokenBasic, which clashes with SkipExact downstream). -/
theorem bind_ok {α β : Type} {m : Dec α} {f : α → Dec β} {bs : Bytes} {b : β} {r : Bytes}
    (h : (m >>= f) bs = .ok b r) : ∃ a r', m bs = .ok a r' ∧ f a r' = .ok b r := by
  rw [Dec.bind_run] at h
  cases hmb : m bs with
  | ok a r' => rw [hmb] at h; exact ⟨a, r', rfl, h⟩
  | err e r' => rw [hmb] at h; cases h
  | panic => rw [hmb] at h; cases h

theorem nm {α : Type} {b : UInt8} {bs : Bytes} {v : α} {r : Bytes}
    (h : (typeMismatch b : Dec α) bs = .ok v r) : False :=
  typeMismatch_not_ok _ _ _ _ h

theorem infoOf_toNat (b : UInt8) : (infoOf b).toNat = b.toNat % 32 := by
  unfold infoOf; rw [u8_toNat_mod]; have := b.toNat_lt; omega

theorem bool_acc (b : UInt8) (tl : Bytes) (v r) (h : Dec.bool (b :: tl) = .ok v r) :
    accepts .bool b.toNat := by
  simp only [Dec.bool, Dec.bind_run, Dec.read_cons] at h
  split at h
  · rename_i hb; simp at hb; subst hb; exact .inl rfl
  · split at h
    · rename_i hb; simp at hb; subst hb; exact .inr rfl
    · exact (nm h).elim

theorem int_acc (t) (b : UInt8) (tl : Bytes) (v r) (h : Dec.intAcc t (b :: tl) = .ok v r) :
    accepts (.int t) b.toNat := by
  simp only [Dec.intAcc, Dec.bind_run, Dec.read_cons] at h
  split at h
  · simp [accepts, *]
  · split at h
    · rename_i hb; simp at hb; simp [accepts, hb]
    · exact (nm h).elim

theorem f16_acc (b : UInt8) (tl : Bytes) (v r) (h : Dec.f16 (b :: tl) = .ok v r) :
    accepts .f16 b.toNat := by
  simp only [Dec.f16, Dec.bind_run, Dec.read_cons] at h
  split at h
  · exact (nm h).elim
  · rename_i hb; simp at hb; subst hb; rfl

theorem f32_acc (hf : Bool) (b : UInt8) (tl : Bytes) (v r) (h : Dec.f32 hf (b :: tl) = .ok v r) :
    accepts (.f32 hf) b.toNat := by
  simp only [Dec.f32, Dec.bind_run, Dec.current_cons] at h
  split at h
  · rename_i hb; simp at hb; obtain ⟨rfl, rfl⟩ := hb; exact .inl ⟨rfl, rfl⟩
  · split at h
    · rename_i hb; simp at hb; subst hb; simp [accepts]
    · exact (nm h).elim

theorem f64_acc (hf : Bool) (b : UInt8) (tl : Bytes) (v r) (h : Dec.f64 hf (b :: tl) = .ok v r) :
    accepts (.f64 hf) b.toNat := by
  simp only [Dec.f64, Dec.bind_run, Dec.current_cons] at h
  split at h
  · rename_i hb; simp at hb; obtain ⟨rfl, rfl⟩ := hb; exact .inl ⟨rfl, rfl⟩
  · split at h
    · rename_i hb; simp at hb; subst hb; simp [accepts]
    · split at h
      · rename_i hb; simp at hb; subst hb; simp [accepts]
      · exact (nm h).elim

theorem char_acc (b : UInt8) (tl : Bytes) (v r) (h : Dec.char (b :: tl) = .ok v r) :
    accepts .char b.toNat := by
  unfold Dec.char at h
  obtain ⟨n, r', hu, _⟩ := bind_ok h
  have := int_acc _ _ _ _ _ hu
  simpa [accepts, IntTy.u32] using this

theorem bytes_acc (b : UInt8) (tl : Bytes) (v r) (h : Dec.bytes (b :: tl) = .ok v r) :
    accepts .bytes b.toNat := by
  simp only [Dec.bytes, Dec.bind_run, Dec.read_cons] at h
  split at h
  · exact (nm h).elim
  · rename_i hb
    obtain ⟨n, r', hu, _⟩ := bind_ok h
    have h1 := unsigned_ok_le _ _ _ _ hu
    rw [infoOf_toNat] at h1
    simp [majorOf] at hb
    simp [accepts]; omega

theorem str_acc (b : UInt8) (tl : Bytes) (v r) (h : Dec.str (b :: tl) = .ok v r) :
    accepts .str b.toNat := by
  simp only [Dec.str, Dec.bind_run, Dec.read_cons] at h
  split at h
  · exact (nm h).elim
  · rename_i hb
    obtain ⟨n, r', hu, _⟩ := bind_ok h
    have h1 := unsigned_ok_le _ _ _ _ hu
    rw [infoOf_toNat] at h1
    simp [majorOf] at hb
    simp [accepts]; omega

theorem stringIter_acc (text : Bool) (b : UInt8) (tl : Bytes) (v r)
    (h : Dec.stringIter text (b :: tl) = .ok v r) :
    let M := if text then 96 else 64
    (M ≤ b.toNat ∧ b.toNat ≤ M + 27) ∨ b.toNat = M + 31 := by
  cases text <;>
  · simp only [Dec.stringIter, Dec.bind_run, Dec.read_cons, if_true, Bool.false_eq_true, if_false] at h
    split at h
    · exact (nm h).elim
    · rename_i hb
      simp [majorOf] at hb
      split at h
      · rename_i h31
        simp only [beq_iff_eq] at h31
        have := congrArg UInt8.toNat h31
        rw [infoOf_toNat] at this
        have e : (31 : UInt8).toNat = 31 := rfl
        simp; omega
      · obtain ⟨n, r', hu, _⟩ := bind_ok h
        have h1 := unsigned_ok_le _ _ _ _ hu
        rw [infoOf_toNat] at h1
        simp; omega

theorem container_acc (M : Nat) (b : UInt8) (tl : Bytes) (v r)
    (h : Dec.container M (b :: tl) = .ok v r) :
    b.toNat / 32 * 32 = M ∧ (b.toNat % 32 ≤ 27 ∨ b.toNat % 32 = 31) := by
  simp only [Dec.container, Dec.bind_run, Dec.read_cons] at h
  split at h
  · exact (nm h).elim
  · rename_i hb
    simp [majorOf] at hb
    refine ⟨hb, ?_⟩
    split at h
    · rename_i h31
      simp only [beq_iff_eq] at h31
      have := congrArg UInt8.toNat h31
      rw [infoOf_toNat] at this
      exact .inr this
    · obtain ⟨n, r', hu, _⟩ := bind_ok h
      have h1 := unsigned_ok_le _ _ _ _ hu
      rw [infoOf_toNat] at h1
      exact .inl h1

theorem tag_acc (b : UInt8) (tl : Bytes) (v r) (h : Dec.tag (b :: tl) = .ok v r) :
    accepts .tag b.toNat := by
  simp only [Dec.tag, Dec.bind_run, Dec.read_cons] at h
  split at h
  · exact (nm h).elim
  · rename_i hb
    have h1 := unsigned_ok_le _ _ _ _ h
    rw [infoOf_toNat] at h1
    simp [majorOf] at hb
    simp [accepts]; omega

theorem null_acc (b : UInt8) (tl : Bytes) (v r) (h : Dec.null (b :: tl) = .ok v r) :
    accepts .null b.toNat := by
  simp only [Dec.null, Dec.bind_run, Dec.read_cons] at h
  split at h
  · rename_i hb; simp at hb; subst hb; rfl
  · exact (nm h).elim

theorem undefined_acc (b : UInt8) (tl : Bytes) (v r) (h : Dec.undefined (b :: tl) = .ok v r) :
    accepts .undefined b.toNat := by
  simp only [Dec.undefined, Dec.bind_run, Dec.read_cons] at h
  split at h
  · rename_i hb; simp at hb; subst hb; rfl
  · exact (nm h).elim

theorem simple_acc (b : UInt8) (tl : Bytes) (v r) (h : Dec.simple (b :: tl) = .ok v r) :
    accepts .simple b.toNat := by
  simp only [Dec.simple, Dec.bind_run, Dec.read_cons] at h
  split at h
  · rename_i hb; simp at hb; simp [accepts, hb]
  · split at h
    · rename_i hb; simp at hb; simp [accepts, hb]
    · exact (nm h).elim

/-- **an accessor can only succeed on an initial byte of its class.** -/
theorem run_ok_accepts (a : Acc) (bs : Bytes) (v : a.Out) (r : Bytes) (h : a.run bs = .ok v r) :
    ∃ b tl, bs = b :: tl ∧ accepts a b.toNat := by
  cases bs with
  | nil =>
    exfalso
    have e : a.run [] = .err .eoi [] := by cases a <;> rfl
    rw [e] at h; cases h
  | cons b tl =>
    refine ⟨b, tl, rfl, ?_⟩
    cases a
    case bool => exact bool_acc _ _ _ _ h
    case int t => exact int_acc _ _ _ _ _ h
    case f16 => exact f16_acc _ _ _ _ h
    case f32 hf => exact f32_acc _ _ _ _ _ h
    case f64 hf => exact f64_acc _ _ _ _ _ h
    case char => exact char_acc _ _ _ _ h
    case bytes => exact bytes_acc _ _ _ _ h
    case str => exact str_acc _ _ _ _ h
    case bytesIter => have := stringIter_acc false _ _ _ _ h; simp at this; simp [accepts]; omega
    case strIter => have := stringIter_acc true _ _ _ _ h; simp at this; simp [accepts]; omega
    case array => have := container_acc _ _ _ _ _ h; simp [accepts]; omega
    case map => have := container_acc _ _ _ _ _ h; simp [accepts]; omega
    case tag => exact tag_acc _ _ _ _ h
    case null => exact null_acc _ _ _ _ h
    case undefined => exact undefined_acc _ _ _ _ h
    case simple => exact simple_acc _ _ _ _ h

/-- no accessor panics (C02; proved again here for the accessors whose `NoPanic` lemma lives in
    Lemmas/TokenBasic.lean, which cannot be imported together with SkipExact). -/
theorem Acc.run_noPanic (a : Acc) : NoPanic a.run := by
  have h1 := @NoPanic.typeMismatch
  have h2 := NoPanic.unsigned
  have hf16 : NoPanic Dec.f16 := by unfold Dec.f16; nopanic
  have hf32 : ∀ hf, NoPanic (Dec.f32 hf) := by intro hf; unfold Dec.f32; nopanic
  cases a
  case bool => unfold Acc.run Dec.bool; nopanic
  case int t => exact NoPanic.intAcc t
  case f16 => exact hf16
  case f32 hf => exact hf32 hf
  case f64 hf => have := hf32 hf; unfold Acc.run Dec.f64; nopanic
  case char => have := NoPanic.intAcc .u32; unfold Acc.run Dec.char; nopanic
  case bytes => exact NoPanic.bytes
  case str => exact NoPanic.str
  case bytesIter => exact NoPanic.stringIter _
  case strIter => exact NoPanic.stringIter _
  case array => exact NoPanic.container _
  case map => exact NoPanic.container _
  case tag => unfold Acc.run Dec.tag; nopanic
  case null => unfold Acc.run Dec.null; nopanic
  case undefined => unfold Acc.run Dec.undefined; nopanic
  case simple => unfold Acc.run Dec.simple; nopanic

/-- every accessor is stable under extension of its input: only an end-of-input outcome can
    change when bytes are appended. -/
theorem Acc.run_stable (a : Acc) : Stable a.run := by
  cases a
  case bool => exact Stable.bool
  case int t => exact Stable.intAcc t
  case f16 => exact Stable.f16
  case f32 hf => exact Stable.f32 hf
  case f64 hf => exact Stable.f64 hf
  case char => exact Stable.char
  case bytes => exact Stable.bytes
  case str => exact Stable.str
  case bytesIter => exact Stable.bytesIter
  case strIter => exact Stable.strIter
  case array => exact Stable.array
  case map => exact Stable.map
  case tag => exact Stable.tag
  case null => exact Stable.null
  case undefined => exact Stable.undefined
  case simple => exact Stable.simple

end Minicbor.C04
