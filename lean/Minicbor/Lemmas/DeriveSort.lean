/-
  Helper lemmas for the derive model: the index sort (`sortP`) is a permutation, its result is
  strictly ascending when the indices are distinct, and it only depends on the *set* of fields
  (so declaration order is irrelevant).
-/
import Minicbor.Derive

namespace Minicbor.Derive

variable {β : Type}

def idxs (ps : List (Piece β)) : List Nat := ps.map (·.idx)

/-- strictly ascending indices. -/
def Asc (ps : List (Piece β)) : Prop := ps.Pairwise (fun p q => p.idx < q.idx)

theorem insertP_perm (p : Piece β) (l : List (Piece β)) : (insertP p l).Perm (p :: l) := by
  induction l with
  | nil => exact List.Perm.refl _
  | cons q qs ih =>
    unfold insertP
    split
    · exact List.Perm.refl _
    · exact ((List.perm_cons q).2 ih).trans (List.Perm.swap p q qs)

theorem sortP_perm (l : List (Piece β)) : (sortP l).Perm l := by
  induction l with
  | nil => exact List.Perm.refl _
  | cons p ps ih =>
    unfold sortP
    exact (insertP_perm p (sortP ps)).trans ((List.perm_cons p).2 ih)

theorem mem_insertP {p q : Piece β} {l : List (Piece β)} : q ∈ insertP p l ↔ q = p ∨ q ∈ l := by
  rw [(insertP_perm p l).mem_iff]; simp

theorem insertP_asc (p : Piece β) (l : List (Piece β)) (hl : Asc l) (hp : ∀ q ∈ l, q.idx ≠ p.idx) :
    Asc (insertP p l) := by
  induction l with
  | nil => simp [insertP, Asc]
  | cons q qs ih =>
    unfold insertP
    have hq := List.pairwise_cons.1 hl
    split
    · rename_i hle
      have hne := hp q (by simp)
      have hlt : p.idx < q.idx := by omega
      refine List.pairwise_cons.2 ⟨?_, hl⟩
      intro a ha
      rcases List.mem_cons.1 ha with rfl | ha
      · exact hlt
      · exact Nat.lt_trans hlt (hq.1 a ha)
    · rename_i hle
      have hlt : q.idx < p.idx := by omega
      refine List.pairwise_cons.2 ⟨?_, ih hq.2 (fun a ha => hp a (by simp [ha]))⟩
      intro a ha
      rcases mem_insertP.1 ha with rfl | ha
      · exact hlt
      · exact hq.1 a ha

theorem idxs_perm {l₁ l₂ : List (Piece β)} (h : l₁.Perm l₂) : (idxs l₁).Perm (idxs l₂) := h.map _

theorem sortP_asc (l : List (Piece β)) (nd : (idxs l).Nodup) : Asc (sortP l) := by
  induction l with
  | nil => simp [sortP, Asc]
  | cons p ps ih =>
    unfold sortP
    have h : p.idx ∉ idxs ps ∧ (idxs ps).Nodup := List.nodup_cons.1 nd
    refine insertP_asc p _ (ih h.2) ?_
    intro q hq heq
    have : q ∈ ps := (sortP_perm ps).mem_iff.1 hq
    exact h.1 (by rw [← heq]; exact List.mem_map.2 ⟨q, this, rfl⟩)

/-- two strictly ascending lists with the same elements are equal. -/
theorem asc_perm_eq : ∀ {l₁ l₂ : List (Piece β)}, Asc l₁ → Asc l₂ → l₁.Perm l₂ → l₁ = l₂
  | [], l₂, _, _, h => by simpa using h.symm.eq_nil
  | p :: ps, [], _, _, h => by simpa using h.eq_nil
  | p :: ps, q :: qs, h₁, h₂, h => by
    have a₁ := List.pairwise_cons.1 h₁
    have a₂ := List.pairwise_cons.1 h₂
    have hpq : p = q := by
      have hp : p ∈ q :: qs := h.mem_iff.1 (by simp)
      have hq : q ∈ p :: ps := h.mem_iff.2 (by simp)
      rcases List.mem_cons.1 hp with e | hp
      · exact e
      · rcases List.mem_cons.1 hq with e | hq
        · exact e.symm
        · have := a₁.1 q hq
          have := a₂.1 p hp
          omega
    subst hpq
    rw [asc_perm_eq a₁.2 a₂.2 ((List.perm_cons p).1 h)]

/-- the sorted field list does not depend on the declaration order. -/
theorem sortP_perm_eq {l₁ l₂ : List (Piece β)} (h : l₁.Perm l₂) (nd : (idxs l₁).Nodup) :
    sortP l₁ = sortP l₂ := by
  have nd₂ : (idxs l₂).Nodup := (idxs_perm h).nodup_iff.1 nd
  exact asc_perm_eq (sortP_asc l₁ nd) (sortP_asc l₂ nd₂)
    ((sortP_perm l₁).trans (h.trans (sortP_perm l₂).symm))

/-- sorting commutes with a map that keeps the indices. -/
theorem insertP_map {γ : Type} (f : Piece β → Piece γ) (hf : ∀ p, (f p).idx = p.idx)
    (p : Piece β) (l : List (Piece β)) : insertP (f p) (l.map f) = (insertP p l).map f := by
  induction l with
  | nil => rfl
  | cons q qs ih =>
    simp only [List.map_cons, insertP, hf]
    split <;> simp [ih]

theorem sortP_map {γ : Type} (f : Piece β → Piece γ) (hf : ∀ p, (f p).idx = p.idx)
    (l : List (Piece β)) : sortP (l.map f) = (sortP l).map f := by
  induction l with
  | nil => rfl
  | cons p ps ih => simp only [List.map_cons, sortP, ih, insertP_map f hf]

end Minicbor.Derive
