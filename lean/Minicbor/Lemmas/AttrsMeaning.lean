/-
  The meaning of a field (`fieldSem`) is a function of the SET of facts the map knows, provided
  nothing is pending (which `try_from_iter`'s final checks guarantee for accepted definitions).
-/
import Minicbor.Lemmas.AttrsFacts

namespace Minicbor.Attrs

/-- nothing pending: what the final checks leave. -/
def Settled (a : A) : Prop := a.isNil = none ∧ a.nil = none ∧ a.hasNil = false

theorem finalChecks_settled (a a' : A) (h : finalChecks a = .ok a') : a' = a ∧ Settled a := by
  unfold finalChecks at h
  (repeat' split at h) <;> (try cases h)
  simp_all [Settled]

theorem opt_ext {α : Type} (x y : Option α) (h : ∀ p, x = some p ↔ y = some p) : x = y := by
  cases x with
  | none => cases y with
    | none => rfl
    | some q => exact absurd ((h q).2 rfl) (by simp)
  | some p => exact ((h p).1 rfl).symm

set_option hygiene false in
macro "split_a" : tactic => `(tactic|
  (obtain ⟨⟨codec, nil, isNil, hasNil, cborLen⟩, ⟨encoding, index, indexOnly, transparent, typeParam, contextBound, tag, skip⟩⟩ := a))

set_option hygiene false in
macro "split_codec" : tactic => `(tactic|
  (rcases codec with _ | ⟨e0, _ | n0⟩ | ⟨d0, _ | m0⟩ | ⟨e0, _ | n0, d0, _ | m0⟩ | ⟨p0, _ | _⟩))

theorem skip_char (a : A) : a.skip = true ↔ Fact.skip ∈ a.facts := by
  split_a; split_codec <;> cases nil <;> cases isNil <;> cases hasNil <;> cases cborLen <;>
    simp [A.skip, A.facts, Cl.facts, Rs.facts, CC.facts]

theorem index_char (a : A) (b : Bool) (i : Nat) : a.index = some (b, i) ↔ Fact.index b i ∈ a.facts := by
  split_a; split_codec <;> cases nil <;> cases isNil <;> cases hasNil <;> cases cborLen <;>
    simp [A.index, A.facts, Cl.facts, Rs.facts, CC.facts] <;> (cases index <;> simp <;> grind)

theorem tag_char (a : A) (t : Nat) : a.tag = some t ↔ Fact.tag t ∈ a.facts := by
  split_a; split_codec <;> cases nil <;> cases isNil <;> cases hasNil <;> cases cborLen <;>
    simp [A.tag, A.facts, Cl.facts, Rs.facts, CC.facts] <;> (cases tag <;> simp <;> grind)

theorem encode_char (a : A) (p : Path) : a.codec.bind CC.encodePath = some p ↔
    (Fact.enc p ∈ a.facts ∨ ∃ m, Fact.modu m ∈ a.facts ∧ p = m ++ ["encode"]) := by
  split_a; split_codec <;> cases nil <;> cases isNil <;> cases hasNil <;> cases cborLen <;>
    simp [A.codec, A.facts, Cl.facts, Rs.facts, CC.facts, CC.encodePath] <;> grind

theorem decode_char (a : A) (p : Path) : a.codec.bind CC.decodePath = some p ↔
    (Fact.dec p ∈ a.facts ∨ ∃ m, Fact.modu m ∈ a.facts ∧ p = m ++ ["decode"]) := by
  split_a; split_codec <;> cases nil <;> cases isNil <;> cases hasNil <;> cases cborLen <;>
    simp [A.codec, A.facts, Cl.facts, Rs.facts, CC.facts, CC.decodePath] <;> grind

theorem isNil_char (a : A) (hs : Settled a) (p : Path) : a.codec.bind CC.isNilPath = some p ↔
    (Fact.isNil p ∈ a.facts ∨ ∃ m, Fact.modu m ∈ a.facts ∧ Fact.hasNil ∈ a.facts ∧ p = m ++ ["is_nil"]) := by
  split_a
  simp only [Settled, A.isNil, A.nil, A.hasNil] at hs
  obtain ⟨h1, h2, h3⟩ := hs; subst h1; subst h2; subst h3
  split_codec <;> cases cborLen <;>
    simp [A.codec, A.facts, Cl.facts, Rs.facts, CC.facts, CC.isNilPath] <;> grind

theorem nil_char (a : A) (hs : Settled a) (p : Path) : a.codec.bind CC.nilPath = some p ↔
    (Fact.nil p ∈ a.facts ∨ ∃ m, Fact.modu m ∈ a.facts ∧ Fact.hasNil ∈ a.facts ∧ p = m ++ ["nil"]) := by
  split_a
  simp only [Settled, A.isNil, A.nil, A.hasNil] at hs
  obtain ⟨h1, h2, h3⟩ := hs; subst h1; subst h2; subst h3
  split_codec <;> cases cborLen <;>
    simp [A.codec, A.facts, Cl.facts, Rs.facts, CC.facts, CC.nilPath] <;> grind

theorem cborLen_char (a : A) (p : Path) : a.cborLenFn = some p ↔
    (Fact.cborLen p ∈ a.facts ∨ ((∀ q, Fact.cborLen q ∉ a.facts) ∧ ∃ m, Fact.modu m ∈ a.facts ∧ p = m ++ ["cbor_len"])) := by
  split_a; split_codec <;> cases nil <;> cases isNil <;> cases hasNil <;> cases cborLen <;>
    simp [A.cborLenFn, A.cborLen, A.codec, A.facts, Cl.facts, Rs.facts, CC.facts, CC.cborLenPath] <;> grind

/-- **settled maps that know the same facts give a field the same meaning.** -/
theorem fieldSem_of_facts (a1 a2 : A) (h1 : Settled a1) (h2 : Settled a2) (hf : ∀ f, f ∈ a1.facts ↔ f ∈ a2.facts) :
    fieldSem a1 = fieldSem a2 := by
  have hskip : a1.skip = a2.skip := by
    have := skip_char a1; have := skip_char a2
    cases h : a1.skip <;> cases h' : a2.skip <;> simp_all
  have hidx : a1.index = a2.index := by
    apply opt_ext; intro ⟨b, i⟩; rw [index_char, index_char, hf]
  have htag : a1.tag = a2.tag := by
    apply opt_ext; intro t; rw [tag_char, tag_char, hf]
  have henc : a1.codec.bind CC.encodePath = a2.codec.bind CC.encodePath := by
    apply opt_ext; intro p; rw [encode_char, encode_char]; simp only [hf]
  have hdec : a1.codec.bind CC.decodePath = a2.codec.bind CC.decodePath := by
    apply opt_ext; intro p; rw [decode_char, decode_char]; simp only [hf]
  have hisn : a1.codec.bind CC.isNilPath = a2.codec.bind CC.isNilPath := by
    apply opt_ext; intro p; rw [isNil_char a1 h1, isNil_char a2 h2]; simp only [hf]
  have hnil : a1.codec.bind CC.nilPath = a2.codec.bind CC.nilPath := by
    apply opt_ext; intro p; rw [nil_char a1 h1, nil_char a2 h2]; simp only [hf]
  have hcl : a1.cborLenFn = a2.cborLenFn := by
    apply opt_ext; intro p; rw [cborLen_char, cborLen_char]; simp only [hf]
  simp only [fieldSem, hskip, hidx, htag, henc, hdec, hisn, hnil, hcl]

theorem encoding_char (a : A) (e : Enc) : a.encoding = some e ↔ Fact.encoding e ∈ a.facts := by
  split_a; split_codec <;> cases nil <;> cases isNil <;> cases hasNil <;> cases cborLen <;>
    simp [A.encoding, A.facts, Cl.facts, Rs.facts, CC.facts] <;> (cases encoding <;> simp <;> grind)

theorem indexOnly_char (a : A) : a.indexOnly = true ↔ Fact.indexOnly ∈ a.facts := by
  split_a; split_codec <;> cases nil <;> cases isNil <;> cases hasNil <;> cases cborLen <;>
    simp [A.indexOnly, A.facts, Cl.facts, Rs.facts, CC.facts]

theorem transparent_char (a : A) : a.transparent = true ↔ Fact.transparent ∈ a.facts := by
  split_a; split_codec <;> cases nil <;> cases isNil <;> cases hasNil <;> cases cborLen <;>
    simp [A.transparent, A.facts, Cl.facts, Rs.facts, CC.facts]

/-- what the generators read off the attributes of a struct, an enum or a variant. -/
def topSem (a : A) : Option Enc × Option Nat × Bool × Bool × Option (Bool × Nat) :=
  (a.encoding, a.tag, a.transparent, a.indexOnly, a.index)

theorem bool_ext (x y : Bool) (h : x = true ↔ y = true) : x = y := by
  cases x <;> cases y <;> simp_all

theorem topSem_of_facts (a1 a2 : A) (hf : ∀ f, f ∈ a1.facts ↔ f ∈ a2.facts) : topSem a1 = topSem a2 := by
  have h1 : a1.encoding = a2.encoding := by apply opt_ext; intro e; rw [encoding_char, encoding_char, hf]
  have h2 : a1.tag = a2.tag := by apply opt_ext; intro t; rw [tag_char, tag_char, hf]
  have h3 : a1.transparent = a2.transparent := by apply bool_ext; rw [transparent_char, transparent_char, hf]
  have h4 : a1.indexOnly = a2.indexOnly := by apply bool_ext; rw [indexOnly_char, indexOnly_char, hf]
  have h5 : a1.index = a2.index := by apply opt_ext; intro ⟨b, i⟩; rw [index_char, index_char, hf]
  simp only [topSem, h1, h2, h3, h4, h5]

end Minicbor.Attrs
