/-
  The refinement argument for the alloc build of `Decoder::skip`.

  * `postSt`: the bookkeeping after the `match`, as a total function on states
    (the loop's `break` is the state with an empty stack).
  * `segs`: the *weights* of a concrete state.  Split the stack at the `None` frames; the
    weight of a segment is the sum of its counts, plus one for the top frame if that is a
    `Some` (a frame on top counts "items still to come minus one").  In counting mode the
    weights are `nrounds :: 0 … 0` (`irounds` zeros).
  * the *true* machine works on weight lists `a :: r` (top first): `a` items are still to come
    in the innermost open container (after that, if `r` is non-empty, any number of further
    items and a break); an item: `a ↦ a-1`; a definite head announcing `n` items:
    `a ↦ a-1+n`; an indefinite head: `a :: r ↦ 0 :: (a-1) :: r`; a break: `0 :: b :: r ↦ b :: r`.
  * `Le X T`: same number of segments, `X ≤ T` pointwise, equality in the bottom segment.
    The code under-counts on purpose inside indefinite containers (`saturating_sub` at 0);
    surplus items are absorbed by the enclosing indefinite container.
  * `Rel c T` is preserved by every kind of token in both modes and across the switch from
    counting to stack mode, and related states stop together.
-/
import Minicbor.Lemmas.SkipTok

namespace Minicbor
open Dec

/-! ### the bookkeeping after the match -/

/-- `while let Some(Some(0)) = stack.last() { pop }; if let Some(Some(n)) = last_mut() { *n -= 1 }` -/
def postStack (st : List (Option Nat)) : List (Option Nat) :=
  match popZeros st with
  | some (k + 1) :: r => some k :: r
  | st' => st'

/-- state after the bookkeeping (the `break` of the loop = empty stack). -/
def postSt (alloc : Bool) (s : SkipSt) : SkipSt :=
  if alloc && !s.counting then { s with stack := postStack s.stack }
  else { s with nr := s.nr - 1 }

theorem popZeros_ne_zero' (st r : List (Option Nat)) : popZeros st ≠ some 0 :: r := by
  induction st with
  | nil => simp [popZeros]
  | cons x st ih =>
    match x with
    | some 0 => simpa [popZeros] using ih
    | some (k + 1) => simp [popZeros]
    | none => simp [popZeros]

theorem not_counting_iff (s : SkipSt) : s.counting = false ↔ s.nr = 0 ∧ s.ir = 0 := by
  unfold SkipSt.counting; simp

/-- a state that is not running ends the loop. -/
theorem skipLoop_done (alloc : Bool) (f : Nat) (s : SkipSt) (bs : Bytes)
    (h : skipRunning alloc s = false) : skipLoop alloc (f + 1) s bs = .ok () bs := by
  rw [skipLoop]; simp [h]

/-- unfolding one iteration of a running loop. -/
theorem skipLoop_succ (alloc : Bool) (f : Nat) (s : SkipSt) (bs : Bytes)
    (hrun : skipRunning alloc s = true) :
    skipLoop alloc (f + 1) s bs =
      match skipArm alloc s bs with
      | .ok (.cont s') r => skipLoop alloc f s' r
      | .ok (.next s') r =>
        (match skipPost alloc s' r with
         | .ok none r' => .ok () r'
         | .ok (some s'') r' => skipLoop alloc f s'' r'
         | .err e r' => .err e r'
         | .panic => .panic)
      | .err e r => .err e r
      | .panic => .panic := by
  rw [skipLoop]
  simp only [hrun, Bool.not_true, Bool.false_eq_true, if_false]
  rw [Dec.bind_run]
  cases skipArm alloc s bs with
  | ok a r =>
    cases a with
    | cont s' => rfl
    | next s' =>
      simp only []
      rw [Dec.bind_run]
      cases skipPost alloc s' r with
      | ok o r' => cases o <;> rfl
      | err e r' => rfl
      | panic => rfl
  | err e r => rfl
  | panic => rfl

/-- one iteration through a `continue` arm. -/
theorem loop_cont (alloc : Bool) (s s1 : SkipSt) (bs r : Bytes) (f : Nat)
    (hrun : skipRunning alloc s = true) (harm : skipArm alloc s bs = .ok (.cont s1) r) :
    skipLoop alloc (f + 1) s bs = skipLoop alloc f s1 r := by
  rw [skipLoop_succ _ _ _ _ hrun, harm]

/-- the bookkeeping never fails; its `break` is the state with an empty stack. -/
theorem skipPost_eq (alloc : Bool) (s : SkipSt) (r : Bytes) :
    skipPost alloc s r =
      .ok (if (alloc && !s.counting) = true ∧ popZeros s.stack = [] then none
           else some (postSt alloc s)) r := by
  unfold skipPost postSt postStack
  by_cases hm : (alloc && !s.counting) = true
  · simp only [hm, if_true, true_and]
    cases hp : popZeros s.stack with
    | nil => simp
    | cons x t =>
      cases x with
      | none => simp
      | some k =>
        cases k with
        | zero => exact absurd hp (popZeros_ne_zero' _ _)
        | succ k => simp
  · simp [hm]

/-- one iteration through an ordinary arm followed by the bookkeeping. -/
theorem loop_next (alloc : Bool) (s s1 : SkipSt) (bs r : Bytes) (f : Nat)
    (hrun : skipRunning alloc s = true) (harm : skipArm alloc s bs = .ok (.next s1) r) :
    skipLoop alloc (f + 2) s bs = skipLoop alloc (f + 1) (postSt alloc s1) r := by
  rw [skipLoop_succ _ _ _ _ hrun, harm]
  simp only []
  rw [skipPost_eq]
  by_cases h : (alloc && !s1.counting) = true ∧ popZeros s1.stack = []
  · rw [if_pos h]
    obtain ⟨hm, hp⟩ := h
    have hnc : s1.counting = false := by
      cases alloc <;> simp at hm; simpa using hm
    obtain ⟨hnr, hir⟩ := (not_counting_iff s1).1 hnc
    simp only []
    rw [skipLoop_done]
    unfold postSt postStack
    simp [hm, hp, skipRunning, hnr, hir]
  · rw [if_neg h]

/-! ### weights -/

/-- (sum of the counts above the first `None`, sums of the segments below it). -/
def raw : List (Option Nat) → Nat × List Nat
  | [] => (0, [])
  | some k :: st => (k + (raw st).1, (raw st).2)
  | none :: st => (0, (raw st).1 :: (raw st).2)

def topSome : List (Option Nat) → Bool
  | some _ :: _ => true
  | _ => false

/-- the weights of a stack: the top frame, if it is a count, stands for one more item. -/
def segsStack (st : List (Option Nat)) : List Nat :=
  ((raw st).1 + (if topSome st then 1 else 0)) :: (raw st).2

/-- the weights of a concrete state. -/
def segs (s : SkipSt) : List Nat :=
  if s.counting then s.nr :: List.replicate s.ir 0 else segsStack s.stack

theorem topSome_false_raw (st : List (Option Nat)) (h : topSome st = false) : (raw st).1 = 0 := by
  match st with
  | [] => rfl
  | none :: _ => rfl
  | some _ :: _ => simp [topSome] at h

theorem postStack_zero (r : List (Option Nat)) : postStack (some 0 :: r) = postStack r := by
  simp [postStack, popZeros]

/-- weights after the bookkeeping, in terms of the raw sums. -/
theorem segsStack_postStack (st : List (Option Nat)) :
    segsStack (postStack st) = (raw st).1 :: (raw st).2 := by
  induction st with
  | nil => simp [postStack, popZeros, segsStack, raw, topSome]
  | cons x st ih =>
    match x with
    | none => simp [postStack, popZeros, segsStack, raw, topSome]
    | some 0 => rw [postStack_zero, ih]; simp [raw]
    | some (k + 1) =>
      simp [postStack, popZeros, segsStack, raw, topSome]; omega

/-- the bookkeeping takes one off the top weight (saturating at 0). -/
theorem segsStack_postStack' (st : List (Option Nat)) :
    segsStack (postStack st) = ((raw st).1 + (if topSome st then 1 else 0) - 1) :: (raw st).2 := by
  rw [segsStack_postStack]
  cases h : topSome st
  · simp [topSome_false_raw st h]
  · simp

theorem raw_replicate_none (k : Nat) : raw (List.replicate k none) = (0, List.replicate k 0) := by
  induction k with
  | zero => rfl
  | succ k ih => simp [List.replicate_succ, raw, ih]

/-! ### the relation -/

/-- same number of segments, pointwise `≤`, equality at the bottom. -/
def Le : List Nat → List Nat → Prop
  | [x], [a] => x = a
  | x :: y :: xs, a :: b :: r => x ≤ a ∧ Le (y :: xs) (b :: r)
  | _, _ => False

theorem Le_single (x a : Nat) : Le [x] [a] ↔ x = a := by simp [Le]

theorem Le_cons2 (x y a b : Nat) (xs r : List Nat) :
    Le (x :: y :: xs) (a :: b :: r) ↔ x ≤ a ∧ Le (y :: xs) (b :: r) := by simp [Le]

theorem Le_nil_right (x : Nat) (xs : List Nat) (a : Nat) : Le (x :: xs) [a] → xs = [] := by
  cases xs with
  | nil => intro _; rfl
  | cons y ys => simp [Le]

theorem Le_nil_left (x a : Nat) (r : List Nat) : Le [x] (a :: r) → r = [] := by
  cases r with
  | nil => intro _; rfl
  | cons y ys => simp [Le]

theorem Le_head_le {x a : Nat} {xs r : List Nat} (h : Le (x :: xs) (a :: r)) : x ≤ a := by
  cases xs with
  | nil => have := Le_nil_left _ _ _ h; subst this; simp [Le] at h; omega
  | cons y ys =>
    cases r with
    | nil => simp [Le] at h
    | cons b r => exact ((Le_cons2 ..).1 h).1

theorem Le_length {X T : List Nat} (h : Le X T) : X.length = T.length := by
  induction X generalizing T with
  | nil => cases T <;> simp [Le] at h
  | cons x xs ih =>
    cases T with
    | nil => cases xs <;> simp [Le] at h
    | cons a r =>
      cases xs with
      | nil => have := Le_nil_left _ _ _ h; subst this; rfl
      | cons y ys =>
        cases r with
        | nil => simp [Le] at h
        | cons b r =>
          have := ih ((Le_cons2 ..).1 h).2
          simp at this ⊢; omega

/-- replacing the top weights. -/
theorem Le_head_replace {x a x' a' : Nat} {xs r : List Nat} (h : Le (x :: xs) (a :: r))
    (hle : x' ≤ a') (heq : xs = [] → x' = a') : Le (x' :: xs) (a' :: r) := by
  cases xs with
  | nil => have := Le_nil_left _ _ _ h; subst this; simp [Le]; exact heq rfl
  | cons y ys =>
    cases r with
    | nil => simp [Le] at h
    | cons b r => exact (Le_cons2 ..).2 ⟨hle, ((Le_cons2 ..).1 h).2⟩

theorem Le_bottom_eq {x a : Nat} {xs r : List Nat} (h : Le (x :: xs) (a :: r)) (hr : r = []) : x = a := by
  subst hr
  have := Le_nil_right _ _ _ h; subst this
  simpa [Le] using h

theorem Le_nil_iff {x a : Nat} {xs r : List Nat} (h : Le (x :: xs) (a :: r)) : xs = [] ↔ r = [] := by
  have := Le_length h
  constructor
  · intro e; subst e; exact Le_nil_left _ _ _ h
  · intro e; subst e; exact Le_nil_right _ _ _ h

/-- pushing an empty top segment on both sides. -/
theorem Le_push {x' a' : Nat} {X T : List Nat} (h : Le X T) (hle : x' ≤ a') : Le (x' :: X) (a' :: T) := by
  cases X with
  | nil => cases T <;> simp [Le] at h
  | cons x xs =>
    cases T with
    | nil => cases xs <;> simp [Le] at h
    | cons a r => exact (Le_cons2 ..).2 ⟨hle, h⟩

theorem Le_pop {x a : Nat} {X T : List Nat} (h : Le (x :: X) (a :: T)) (hT : T ≠ []) : Le X T := by
  cases T with
  | nil => exact absurd rfl hT
  | cons b r =>
    cases X with
    | nil => simp [Le] at h
    | cons y ys => exact ((Le_cons2 ..).1 h).2

/-- the concrete state `c` is related to the true weights `T`. -/
structure Rel (c : SkipSt) (T : List Nat) : Prop where
  wf : c.counting = true → c.stack = []
  le : Le (segs c) T

/-- weights of a state without a stack (either mode). -/
theorem segs_nil (nr ir : Nat) : segs ⟨nr, ir, []⟩ = nr :: List.replicate ir 0 := by
  unfold segs
  by_cases h : (SkipSt.counting ⟨nr, ir, []⟩) = true
  · simp [h]
  · have h' : (SkipSt.counting ⟨nr, ir, []⟩) = false := by simpa using h
    obtain ⟨h1, h2⟩ := (not_counting_iff _).1 h'
    simp at h1 h2
    subst h1 h2
    simp [h', segsStack, raw, topSome]

theorem segs_stack (st : List (Option Nat)) : segs ⟨0, 0, st⟩ = segsStack st := by
  unfold segs; simp [SkipSt.counting]

/-! ### related states stop together -/

theorem counting_mk (nr ir : Nat) (st : List (Option Nat)) :
    SkipSt.counting ⟨nr, ir, st⟩ = !(nr == 0 && ir == 0) := rfl

theorem rel_running {c : SkipSt} {a : Nat} {r : List Nat} (h : Rel c (a :: r))
    (hl : 1 ≤ a ∨ r ≠ []) : skipRunning true c = true := by
  obtain ⟨nr, ir, st⟩ := c
  by_cases hc : SkipSt.counting ⟨nr, ir, st⟩ = true
  · simp [counting_mk] at hc
    simp [skipRunning]; omega
  · have hc' : SkipSt.counting ⟨nr, ir, st⟩ = false := by simpa using hc
    obtain ⟨h1, h2⟩ := (not_counting_iff _).1 hc'
    simp at h1 h2; subst h1 h2
    cases st with
    | nil =>
      have hle := h.le
      rw [segs_nil] at hle
      simp at hle
      have := Le_nil_left _ _ _ hle; subst this
      simp [Le] at hle
      rcases hl with hl | hl
      · omega
      · exact absurd rfl hl
    | cons x st => simp [skipRunning]

theorem rel_done {c : SkipSt} (h : Rel c [0]) : skipRunning true c = false := by
  obtain ⟨nr, ir, st⟩ := c
  by_cases hc : SkipSt.counting ⟨nr, ir, st⟩ = true
  · have hst := h.wf hc
    simp at hst; subst hst
    have hle := h.le
    rw [segs_nil] at hle
    have := Le_nil_right _ _ _ hle
    cases ir with
    | zero => simp [Le] at hle; subst hle; simp [counting_mk] at hc
    | succ k => simp [List.replicate_succ] at this
  · have hc' : SkipSt.counting ⟨nr, ir, st⟩ = false := by simpa using hc
    obtain ⟨h1, h2⟩ := (not_counting_iff _).1 hc'
    simp at h1 h2; subst h1 h2
    have hle := h.le
    rw [segs_stack] at hle
    match st with
    | [] => simp [skipRunning]
    | some k :: st => simp [segsStack, raw, topSome] at hle; have := Le_nil_right _ _ _ hle; simp [this, Le] at hle
    | none :: st => simp [segsStack, raw, topSome, Le] at hle

/-! ### preservation by every kind of token (alloc build) -/

theorem postSt_counting (nr ir : Nat) (h : SkipSt.counting ⟨nr, ir, []⟩ = true) :
    postSt true ⟨nr, ir, []⟩ = ⟨nr - 1, ir, []⟩ := by
  unfold postSt; simp [h]

theorem postSt_stack (st : List (Option Nat)) :
    postSt true ⟨0, 0, st⟩ = ⟨0, 0, postStack st⟩ := by
  unfold postSt; simp [counting_mk]

theorem wf_nil (nr ir : Nat) : SkipSt.counting ⟨nr, ir, []⟩ = true → (SkipSt.mk nr ir []).stack = [] :=
  fun _ => rfl

theorem wf_stack (st : List (Option Nat)) :
    SkipSt.counting ⟨0, 0, st⟩ = true → (SkipSt.mk 0 0 st).stack = [] := by
  simp [counting_mk]

/-- a complete item that is not a container head (the true machine: `a ↦ a - 1`). -/
theorem rel_item {c : SkipSt} {a : Nat} {r : List Nat} (h : Rel c (a :: r)) :
    Rel (postSt true c) ((a - 1) :: r) := by
  obtain ⟨nr, ir, st⟩ := c
  by_cases hc : SkipSt.counting ⟨nr, ir, st⟩ = true
  · have hst := h.wf hc
    simp at hst; subst hst
    have hle := h.le
    rw [segs_nil] at hle
    rw [postSt_counting _ _ hc]
    refine ⟨wf_nil _ _, ?_⟩
    rw [segs_nil]
    have h1 := Le_head_le hle
    refine Le_head_replace hle (by omega) ?_
    intro e
    have := Le_bottom_eq hle ((Le_nil_iff hle).1 e)
    omega
  · have hc' : SkipSt.counting ⟨nr, ir, st⟩ = false := by simpa using hc
    obtain ⟨h1, h2⟩ := (not_counting_iff _).1 hc'
    simp at h1 h2; subst h1 h2
    have hle := h.le
    rw [segs_stack] at hle
    rw [postSt_stack]
    refine ⟨wf_stack _, ?_⟩
    rw [segs_stack, segsStack_postStack']
    unfold segsStack at hle
    have h1 := Le_head_le hle
    refine Le_head_replace hle (by omega) ?_
    intro e
    have := Le_bottom_eq hle ((Le_nil_iff hle).1 e)
    omega

theorem satAdd_eq (a b : Nat) (h : a + b ≤ U64MAX) : satAdd a b = a + b := by
  unfold satAdd; simp [h]

/-- the head of a definite array/map announcing `n` items (the true machine: `a ↦ a - 1 + n`). -/
theorem rel_def {c : SkipSt} {a : Nat} {r : List Nat} (n : Nat) (h : Rel c (a :: r))
    (hl : 1 ≤ a ∨ r ≠ []) (hb : a + n ≤ U64MAX) :
    Rel (postSt true (defSt true c n)) ((a - 1 + n) :: r) := by
  by_cases hn : n = 0
  · subst hn
    have : defSt true c 0 = c := by simp [defSt]
    rw [this]
    exact rel_item h
  obtain ⟨nr, ir, st⟩ := c
  by_cases hc : SkipSt.counting ⟨nr, ir, st⟩ = true
  · have hst := h.wf hc
    simp at hst; subst hst
    have hle := h.le
    rw [segs_nil] at hle
    have h1 := Le_head_le hle
    have hd : defSt true ⟨nr, ir, []⟩ n = ⟨nr + n, ir, []⟩ := by
      simp [defSt, hn, skipDefinite, hc, satAdd_eq nr n (by omega)]
    have hc2 : SkipSt.counting ⟨nr + n, ir, []⟩ = true := by
      simp [counting_mk]; omega
    rw [hd, postSt_counting _ _ hc2]
    refine ⟨wf_nil _ _, ?_⟩
    rw [segs_nil]
    refine Le_head_replace hle (by omega) ?_
    intro e
    have hr := (Le_nil_iff hle).1 e
    have := Le_bottom_eq hle hr
    have : 1 ≤ a := by rcases hl with hl | hl; exact hl; exact absurd hr hl
    omega
  · have hc' : SkipSt.counting ⟨nr, ir, st⟩ = false := by simpa using hc
    obtain ⟨h1, h2⟩ := (not_counting_iff _).1 hc'
    simp at h1 h2; subst h1 h2
    have hle := h.le
    rw [segs_stack] at hle
    have hd : defSt true ⟨0, 0, st⟩ n = ⟨0, 0, some n :: st⟩ := by
      simp [defSt, hn, skipDefinite, counting_mk]
    rw [hd, postSt_stack]
    refine ⟨wf_stack _, ?_⟩
    rw [segs_stack, segsStack_postStack]
    unfold segsStack at hle
    have h1 := Le_head_le hle
    simp only [raw]
    cases hts : topSome st with
    | true =>
      simp only [hts, if_true] at hle h1
      refine Le_head_replace hle (by omega) ?_
      intro e
      have := Le_bottom_eq hle ((Le_nil_iff hle).1 e)
      omega
    | false =>
      have hz := topSome_false_raw st hts
      simp only [hts, Bool.false_eq_true, if_false, Nat.add_zero] at hle h1
      refine Le_head_replace hle (by omega) ?_
      intro e
      have hr := (Le_nil_iff hle).1 e
      have := Le_bottom_eq hle hr
      have : 1 ≤ a := by rcases hl with hl | hl; exact hl; exact absurd hr hl
      omega

theorem postStack_none (st : List (Option Nat)) : postStack (none :: st) = none :: st := by
  simp [postStack, popZeros]

/-- the head of an indefinite array/map (the true machine: `a :: r ↦ 0 :: (a-1) :: r`). -/
theorem rel_indef {c : SkipSt} {a : Nat} {r : List Nat} (h : Rel c (a :: r))
    (hl : 1 ≤ a ∨ r ≠ []) (hb : r.length < U64MAX) :
    ∃ c1, indefSt true c = some c1 ∧ Rel (postSt true c1) (0 :: (a - 1) :: r) := by
  obtain ⟨nr, ir, st⟩ := c
  by_cases hc : SkipSt.counting ⟨nr, ir, st⟩ = true
  · have hst := h.wf hc
    simp at hst; subst hst
    have hle := h.le
    rw [segs_nil] at hle
    have h1 := Le_head_le hle
    have hlen := Le_length hle
    simp at hlen
    by_cases h2 : nr < 2
    · refine ⟨⟨nr, ir + 1, []⟩, ?_, ?_⟩
      · simp [indefSt, hc, h2, satAdd_eq ir 1 (by omega)]
      · have hc2 : SkipSt.counting ⟨nr, ir + 1, []⟩ = true := by simp [counting_mk]
        rw [postSt_counting _ _ hc2]
        refine ⟨wf_nil _ _, ?_⟩
        rw [segs_nil, List.replicate_succ]
        refine (Le_cons2 ..).2 ⟨by omega, ?_⟩
        refine Le_head_replace hle (by omega) ?_
        intro e
        have hr := (Le_nil_iff hle).1 e
        have := Le_bottom_eq hle hr
        have : 1 ≤ a := by rcases hl with hl | hl; exact hl; exact absurd hr hl
        omega
    · refine ⟨⟨0, 0, none :: some (nr - 1) :: (List.replicate ir none ++ [])⟩, ?_, ?_⟩
      · simp [indefSt, hc, h2]
      · rw [postSt_stack, postStack_none]
        refine ⟨wf_stack _, ?_⟩
        rw [segs_stack]
        simp only [segsStack, raw, topSome, List.append_nil, raw_replicate_none]
        refine (Le_cons2 ..).2 ⟨by simp, ?_⟩
        refine Le_head_replace hle (by omega) ?_
        intro e
        have := Le_bottom_eq hle ((Le_nil_iff hle).1 e)
        omega
  · have hc' : SkipSt.counting ⟨nr, ir, st⟩ = false := by simpa using hc
    obtain ⟨h1, h2⟩ := (not_counting_iff _).1 hc'
    simp at h1 h2; subst h1 h2
    have hle := h.le
    rw [segs_stack] at hle
    refine ⟨⟨0, 0, none :: st⟩, ?_, ?_⟩
    · simp [indefSt, counting_mk]
    · rw [postSt_stack, postStack_none]
      refine ⟨wf_stack _, ?_⟩
      rw [segs_stack]
      unfold segsStack at hle
      have h1 := Le_head_le hle
      simp only [segsStack, raw, topSome]
      refine (Le_cons2 ..).2 ⟨by simp, ?_⟩
      cases hts : topSome st with
      | true =>
        simp only [hts, if_true] at hle h1
        refine Le_head_replace hle (by omega) ?_
        intro e
        have := Le_bottom_eq hle ((Le_nil_iff hle).1 e)
        omega
      | false =>
        have hz := topSome_false_raw st hts
        simp only [hts, Bool.false_eq_true, if_false, Nat.add_zero] at hle h1
        refine Le_head_replace hle (by omega) ?_
        intro e
        have hr := (Le_nil_iff hle).1 e
        have := Le_bottom_eq hle hr
        have : 1 ≤ a := by rcases hl with hl | hl; exact hl; exact absurd hr hl
        omega

/-- the break byte of an indefinite array/map (the true machine: `0 :: b :: r ↦ b :: r`). -/
theorem rel_brk {c : SkipSt} {b : Nat} {r : List Nat} (h : Rel c (0 :: b :: r)) :
    Rel (postSt true (brkSt true c)) (b :: r) := by
  obtain ⟨nr, ir, st⟩ := c
  by_cases hc : SkipSt.counting ⟨nr, ir, st⟩ = true
  · have hst := h.wf hc
    simp at hst; subst hst
    have hle := h.le
    rw [segs_nil] at hle
    have h1 := Le_head_le hle
    have hnr : nr = 0 := by omega
    subst hnr
    cases ir with
    | zero => simp [Le] at hle
    | succ k =>
      have hb : brkSt true ⟨0, k + 1, []⟩ = ⟨0, k, []⟩ := by simp [brkSt, hc]
      have hp : postSt true ⟨0, k, []⟩ = ⟨0, k, []⟩ := by
        unfold postSt; split <;> simp [postStack, popZeros]
      rw [hb, hp]
      refine ⟨wf_nil _ _, ?_⟩
      rw [segs_nil]
      rw [List.replicate_succ] at hle
      exact Le_pop hle (by simp)
  · have hc' : SkipSt.counting ⟨nr, ir, st⟩ = false := by simpa using hc
    obtain ⟨h1, h2⟩ := (not_counting_iff _).1 hc'
    simp at h1 h2; subst h1 h2
    have hle := h.le
    rw [segs_stack] at hle
    match st with
    | [] => simp [segsStack, raw, topSome, Le] at hle
    | some k :: st =>
      have := Le_head_le hle
      simp [raw, topSome] at this
    | none :: st =>
      have hb : brkSt true ⟨0, 0, none :: st⟩ = ⟨0, 0, st⟩ := by simp [brkSt, counting_mk]
      rw [hb, postSt_stack]
      refine ⟨wf_stack _, ?_⟩
      rw [segs_stack, segsStack_postStack]
      simp only [segsStack, raw, topSome] at hle
      exact Le_pop hle (by simp)

/-- the initial state expects one item. -/
theorem rel_init : Rel SkipSt.init [1] := by
  refine ⟨fun _ => rfl, ?_⟩
  show Le (segs ⟨1, 0, []⟩) [1]
  rw [segs_nil]; simp [Le]

end Minicbor
