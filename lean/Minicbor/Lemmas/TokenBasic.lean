/-
  Local (input-independent) facts about `Token::decode` and the `Tokenizer` iterator, for
  ARBITRARY bytes: `Dec.token` never panics, a successful call consumes at least one byte,
  the fuel of `tokenize` is never exhausted and does not matter once it exceeds the input length.
-/
import Minicbor.Token
import Minicbor.Lemmas.SkipLocal

namespace Minicbor.Dec

/-! ### the remaining accessors: never panic, consume the initial byte -/

theorem NoPanic.datatype : NoPanic Dec.datatype := by
  unfold Dec.datatype
  have := NoPanic.typeOf
  nopanic

theorem Consumes.datatype : Consumes Dec.datatype 0 := by
  unfold Dec.datatype
  have := Consumes.typeOf
  consumes0

/-- `Keeps m`: `m` only looks — on success the input is untouched. -/
def Keeps (m : Dec α) : Prop := ∀ bs a r, m bs = .ok a r → r = bs

theorem Keeps.pure (a : α) : Keeps (Pure.pure a : Dec α) := by
  intro bs a' r h; cases h; rfl

theorem Keeps.peek : Keeps Dec.peek := by
  intro bs a r h
  match bs with
  | [] => cases h
  | [_] => cases h
  | _ :: _ :: _ => cases h; rfl

theorem Keeps.current : Keeps Dec.current := by
  intro bs a r h
  cases bs with
  | nil => cases h
  | cons b tl => cases h; rfl

theorem Keeps.bind {m : Dec α} {f : α → Dec β} (hm : Keeps m) (hf : ∀ a, Keeps (f a)) :
    Keeps (m >>= f) := by
  intro bs b r h
  rw [Dec.bind_run] at h
  cases hmb : m bs with
  | ok a r' =>
    rw [hmb] at h
    have := hm bs a r' hmb
    subst this
    exact hf a _ b r h
  | err e r' => rw [hmb] at h; cases h
  | panic => rw [hmb] at h; cases h

theorem Keeps.ite {c : Prop} [Decidable c] {a b : Dec α} (ha : Keeps a) (hb : Keeps b) :
    Keeps (if c then a else b) := by
  split <;> assumption

theorem Keeps.typeOf (b : UInt8) : Keeps (Dec.typeOf b) := by
  unfold Dec.typeOf
  repeat' (first
    | exact Keeps.pure _ | exact Keeps.peek
    | apply Keeps.ite | apply Keeps.bind | intro _)

theorem Keeps.datatype : Keeps Dec.datatype := by
  unfold Dec.datatype
  exact Keeps.bind Keeps.current Keeps.typeOf

/-- `datatype` only looks: on success the input is untouched. -/
theorem datatype_rest (bs : Bytes) (t : CType) (r : Bytes) (h : Dec.datatype bs = .ok t r) : r = bs :=
  Keeps.datatype bs t r h

/-- a look followed by anything: the consumption is that of what follows. -/
theorem Consumes.bind_left0 {m : Dec α} {f : α → Dec β} {k : Nat} (hm : Consumes m 0)
    (hf : ∀ a, Consumes (f a) k) : Consumes (m >>= f) k := by
  have := Consumes.bind hm hf
  simpa using this

theorem datatype_nil : Dec.datatype [] = .err .eoi [] := rfl

theorem NoPanic.bool : NoPanic Dec.bool := by
  unfold Dec.bool
  have := @NoPanic.typeMismatch Bool
  nopanic

theorem Consumes.bool : Consumes Dec.bool 1 := by
  unfold Dec.bool
  apply Consumes.read_bind
  intro b
  have := fun b => @Consumes.typeMismatch Bool b 0
  consumes0

theorem NoPanic.f16 : NoPanic Dec.f16 := by
  unfold Dec.f16
  have := @NoPanic.typeMismatch Nat
  nopanic

theorem Consumes.f16 : Consumes Dec.f16 1 := by
  unfold Dec.f16
  apply Consumes.read_bind
  intro b
  have := fun b => @Consumes.typeMismatch Nat b 0
  consumes0

theorem NoPanic.f32 (half : Bool) : NoPanic (Dec.f32 half) := by
  unfold Dec.f32
  have := @NoPanic.typeMismatch Nat
  have := NoPanic.f16
  nopanic

/-- `current` leaves the input alone, so what follows decides the consumption. -/
theorem Consumes.current_bind {f : UInt8 → Dec β} {k : Nat} (hf : ∀ a, Consumes (f a) k) :
    Consumes (Dec.current >>= f) k := by
  have := Consumes.bind Consumes.current hf
  simpa using this

theorem Consumes.f32 (half : Bool) : Consumes (Dec.f32 half) 1 := by
  unfold Dec.f32
  apply Consumes.current_bind
  intro b
  apply Consumes.ite
  · exact Consumes.f16
  · apply Consumes.ite
    · apply Consumes.read_bind
      intro _
      consumes0
    · exact Consumes.typeMismatch _ _

theorem NoPanic.f64 (half : Bool) : NoPanic (Dec.f64 half) := by
  unfold Dec.f64
  have := @NoPanic.typeMismatch Nat
  have := NoPanic.f16
  have := NoPanic.f32 half
  nopanic

theorem Consumes.f64 (half : Bool) : Consumes (Dec.f64 half) 1 := by
  unfold Dec.f64
  apply Consumes.current_bind
  intro b
  apply Consumes.ite
  · exact Consumes.bind (k := 0) Consumes.f16 (fun _ => Consumes.pure _)
  · apply Consumes.ite
    · exact Consumes.bind (k := 0) (Consumes.f32 half) (fun _ => Consumes.pure _)
    · apply Consumes.ite
      · apply Consumes.read_bind
        intro _
        consumes0
      · exact Consumes.typeMismatch _ _

theorem NoPanic.tag : NoPanic Dec.tag := by
  unfold Dec.tag
  have := @NoPanic.typeMismatch Nat
  have := NoPanic.unsigned
  nopanic

theorem Consumes.tag : Consumes Dec.tag 1 := by
  unfold Dec.tag
  apply Consumes.read_bind
  intro b
  have := fun b => @Consumes.typeMismatch Nat b 0
  have := Consumes.unsigned
  consumes0

theorem NoPanic.simple : NoPanic Dec.simple := by
  unfold Dec.simple
  have := @NoPanic.typeMismatch Nat
  nopanic

theorem Consumes.simple : Consumes Dec.simple 1 := by
  unfold Dec.simple
  apply Consumes.read_bind
  intro b
  have := fun b => @Consumes.typeMismatch Nat b 0
  consumes0

theorem NoPanic.skipByte : NoPanic Dec.skipByte := by
  unfold Dec.skipByte
  nopanic

theorem Consumes.skipByte : Consumes Dec.skipByte 1 := by
  unfold Dec.skipByte
  exact Consumes.bind (k := 0) Consumes.read (fun _ => Consumes.pure _)

/-- `m` then wrap the result: same consumption. -/
theorem Consumes.map_pure {m : Dec α} {g : α → β} {k : Nat} (hm : Consumes m k) :
    Consumes (m >>= fun a => (Pure.pure (g a) : Dec β)) k :=
  Consumes.bind (k := 0) hm (fun _ => Consumes.pure _)

/-! ### `Token::decode` -/

/-- **`Token::decode` never panics**, whatever the input. -/
theorem NoPanic.token : NoPanic Dec.token := by
  unfold Dec.token
  apply NoPanic.bind NoPanic.datatype
  intro ty
  have i := NoPanic.intAcc
  have c := NoPanic.container
  cases ty <;> simp only []
  all_goals first
    | exact NoPanic.fail _
    | (apply NoPanic.bind
       first
         | exact NoPanic.bool | exact i _ | exact NoPanic.f16 | exact NoPanic.f32 _
         | exact NoPanic.f64 _ | exact NoPanic.bytes | exact NoPanic.str | exact NoPanic.tag
         | exact NoPanic.simple | exact NoPanic.skipByte | exact c _
       intro a
       first
         | exact NoPanic.pure _
         | (cases a <;> first | exact NoPanic.pure _ | exact NoPanic.fail _))

/-- **a successful `Token::decode` consumes at least one byte.** -/
theorem Consumes.token : Consumes Dec.token 1 := by
  unfold Dec.token
  apply Consumes.bind_left0 Consumes.datatype
  intro ty
  have i := Consumes.intAcc
  have c := Consumes.container
  cases ty <;> simp only []
  all_goals first
    | exact Consumes.fail _ _
    | (refine Consumes.bind (k := 0) (j := 1) ?_ ?_
       · first
         | exact Consumes.bool | exact i _ | exact Consumes.f16 | exact Consumes.f32 _
         | exact Consumes.f64 _ | exact Consumes.bytes | exact Consumes.str | exact Consumes.tag
         | exact Consumes.simple | exact Consumes.skipByte | exact c _
       · intro a
         first
         | exact Consumes.pure _
         | (cases a <;> first | exact Consumes.pure _ | exact Consumes.fail _ _))

theorem token_nil : Dec.token [] = .err .eoi [] := rfl

end Minicbor.Dec

namespace Minicbor
open Dec

/-! ### the `Tokenizer` iterator -/

/-- the shape of what the iterator yields: tokens, then possibly one decoding error. -/
def TokItem.isTok : TokItem → Bool
  | .tok _ => true
  | .err _ => false

/-- with more fuel than input bytes the iterator finishes: it yields tokens followed by at most
    one error (never `eoi`), and the number of yielded items is at most the number of bytes. -/
theorem tokenize_spec (fuel : Nat) (bs : Bytes) (h : bs.length < fuel) :
    ∃ (ts : List Token) (tail : List TokItem),
      tokenize fuel bs = some (ts.map TokItem.tok ++ tail) ∧
      (tail = [] ∨ ∃ e, e ≠ Err.eoi ∧ tail = [TokItem.err e]) ∧
      ts.length + tail.length ≤ bs.length := by
  induction fuel generalizing bs with
  | zero => omega
  | succ f ih =>
    unfold tokenize
    cases ht : Dec.token bs with
    | ok t rest =>
      have hc := Consumes.token bs t rest ht
      obtain ⟨ts, tail, h1, h2, h3⟩ := ih rest (by omega)
      refine ⟨t :: ts, tail, ?_, h2, ?_⟩
      · simp [h1]
      · simp only [List.length_cons]; omega
    | err e rest =>
      have hne : bs ≠ [] ∨ e = .eoi := by
        cases bs with
        | nil => right; rw [token_nil] at ht; cases ht; rfl
        | cons b tl => left; simp
      by_cases he : e = .eoi
      · subst he
        exact ⟨[], [], by simp, Or.inl rfl, by simp⟩
      · refine ⟨[], [.err e], ?_, Or.inr ⟨e, he, rfl⟩, ?_⟩
        · cases e <;> simp_all
        · rcases hne with hne | hne
          · cases bs with
            | nil => exact absurd rfl hne
            | cons b tl => simp
          · exact absurd hne he
    | panic => exact absurd ht (NoPanic.token bs)

/-- the fuel does not matter once it exceeds the input length. -/
theorem tokenize_fuel (f1 f2 : Nat) (bs : Bytes) (h1 : bs.length < f1) (h2 : bs.length < f2) :
    tokenize f1 bs = tokenize f2 bs := by
  induction f1 generalizing f2 bs with
  | zero => omega
  | succ f1 ih =>
    cases f2 with
    | zero => omega
    | succ f2 =>
      unfold tokenize
      cases ht : Dec.token bs with
      | ok t rest =>
        have hc := Consumes.token bs t rest ht
        simp only []
        rw [ih f2 rest (by omega) (by omega)]
      | err e rest => cases e <;> rfl
      | panic => rfl

theorem tokens_nil : tokens [] = some [] := rfl

/-- one step of the iterator. -/
theorem tokens_cons (bs : Bytes) (t : Token) (rest : Bytes) (h : Dec.token bs = .ok t rest) :
    tokens bs = (tokens rest).map (TokItem.tok t :: ·) := by
  have hc := Consumes.token bs t rest h
  unfold tokens
  rw [show bs.length + 1 = (bs.length) + 1 from rfl]
  conv => lhs; unfold tokenize
  simp only [h]
  rw [tokenize_fuel bs.length (rest.length + 1) rest (by omega) (by omega)]

/-- `Steps ts bs rest`: `ts.length` successive calls of `Token::decode` starting at `bs` succeed,
    yield `ts` and leave `rest`. -/
def Steps : List Token → Bytes → Bytes → Prop
  | [], bs, rest => bs = rest
  | t :: ts, bs, rest => ∃ mid, Dec.token bs = .ok t mid ∧ Steps ts mid rest

theorem Steps.nil (bs : Bytes) : Steps [] bs bs := rfl

theorem Steps.one {t : Token} {bs rest : Bytes} (h : Dec.token bs = .ok t rest) : Steps [t] bs rest :=
  ⟨rest, h, rfl⟩

theorem Steps.cons {t : Token} {ts : List Token} {bs mid rest : Bytes}
    (h : Dec.token bs = .ok t mid) (hs : Steps ts mid rest) : Steps (t :: ts) bs rest :=
  ⟨mid, h, hs⟩

theorem Steps.append {ts us : List Token} {bs mid rest : Bytes}
    (h1 : Steps ts bs mid) (h2 : Steps us mid rest) : Steps (ts ++ us) bs rest := by
  induction ts generalizing bs with
  | nil => cases h1; exact h2
  | cons t ts ih =>
    obtain ⟨m, hm, hs⟩ := h1
    exact ⟨m, hm, ih hs⟩

/-- tokenising after a run of successful steps. -/
theorem tokens_steps {ts : List Token} {bs rest : Bytes} (h : Steps ts bs rest) :
    tokens bs = (tokens rest).map (ts.map TokItem.tok ++ ·) := by
  induction ts generalizing bs with
  | nil => cases h; simp
  | cons t ts ih =>
    obtain ⟨m, hm, hs⟩ := h
    rw [tokens_cons bs t m hm, ih hs]
    cases tokens rest <;> simp

theorem tokens_steps_all {ts : List Token} {bs : Bytes} (h : Steps ts bs []) :
    tokens bs = some (ts.map TokItem.tok) := by
  rw [tokens_steps h, tokens_nil]; simp

end Minicbor
