/-
  Encode a token, then decode it: `Token::decode (Token::encode t ++ rest)` yields a token that
  is value-equal to `t` and leaves `rest` (integers may change their kind: the encoder writes the
  shortest head, the decoder classifies by head width).
-/
import Minicbor.Lemmas.TokenHeads
import Minicbor.Lemmas.TokenEnc

set_option linter.unusedSimpArgs false

namespace Minicbor
open Dec C11

namespace C11

theorem valueEq_refl_nonint (t : Token) (h : Token.intVal? t = none) : Token.valueEq t t := by
  simp [Token.valueEq, h]

theorem valueEq_int (a b : Token) (x : Int) (ha : Token.intVal? a = some x) (hb : Token.intVal? b = some x) :
    Token.valueEq a b := by
  simp [Token.valueEq, ha, hb]

theorem intVal_uintTok (w : Width) (n : Nat) : Token.intVal? (uintTok w n) = some (n : Int) := by
  cases w <;> rfl

theorem intVal_nintTok (w : Width) (n : Nat) : Token.intVal? (nintTok w n) = some (-1 - (n : Int)) := by
  cases w <;> simp only [nintTok] <;> (try split) <;> rfl

/-- an unsigned value written as the preferred head comes back as an unsigned token of that value. -/
theorem round_uint (n : Nat) (hn : n < 18446744073709551616) (rest : Bytes) :
    ∃ t', Dec.token (encPref (.uint n) ++ rest) = .ok t' rest ∧ Token.intVal? t' = some (n : Int) :=
  ⟨_, token_uint (prefWidth n) n rest (prefWidth_fits n hn), intVal_uintTok _ _⟩

theorem round_nint (n : Nat) (hn : n < 18446744073709551616) (rest : Bytes) :
    ∃ t', Dec.token (encPref (.nint n) ++ rest) = .ok t' rest ∧ Token.intVal? t' = some (-1 - (n : Int)) :=
  ⟨_, token_nint (prefWidth n) n rest (prefWidth_fits n hn), intVal_nintTok _ _⟩

/-- a signed value `lo ≤ v ≤ hi` inside `[-2^64, 2^64)` written as `intItem v`. -/
theorem round_intItem (v : Int) (h1 : -18446744073709551616 ≤ v) (h2 : v < 18446744073709551616) (rest : Bytes) :
    ∃ t', Dec.token (encPref (C03.intItem v) ++ rest) = .ok t' rest ∧ Token.intVal? t' = some v := by
  unfold C03.intItem
  split
  · obtain ⟨t', h, hv⟩ := round_uint v.toNat (by omega) rest
    exact ⟨t', h, by rw [hv]; congr 1; omega⟩
  · obtain ⟨t', h, hv⟩ := round_nint (-1 - v).toNat (by omega) rest
    exact ⟨t', h, by rw [hv]; congr 1; omega⟩

theorem int_bounds :
    IntTy.i8.lo = -128 ∧ IntTy.i8.hi = 127 ∧ IntTy.i16.lo = -32768 ∧ IntTy.i16.hi = 32767 ∧
    IntTy.i32.lo = -2147483648 ∧ IntTy.i32.hi = 2147483647 ∧
    IntTy.i64.lo = -9223372036854775808 ∧ IntTy.i64.hi = 9223372036854775807 ∧
    IntTy.int.lo = -18446744073709551616 ∧ IntTy.int.hi = 18446744073709551615 := by decide

theorem single_bytes :
    Enc.bool true = [0xf5] ∧ Enc.bool false = [0xf4] ∧ Enc.null = [0xf6] ∧ Enc.undefined = [0xf7] ∧
    Enc.end = [0xff] ∧ Enc.beginBytes = [0x5f] ∧ Enc.beginStr = [0x7f] ∧ Enc.beginArray = [0x9f] ∧
    Enc.beginMap = [0xbf] := by decide

/-- **one token**: decode ∘ encode is value-preserving, for every well-formed payload. -/
theorem round_one (t : Token) (hwf : Token.wf t) (rest : Bytes) :
    ∃ t', Dec.token (t.enc ++ rest) = .ok t' rest ∧ Token.valueEq t t' := by
  obtain ⟨b1, b2, b3, b4, b5, b6, b7, b8, b9⟩ := single_bytes
  obtain ⟨i1, i2, i3, i4, i5, i6, i7, i8, i9, i10⟩ := int_bounds
  cases t with
  | bool b =>
    cases b
    · exact ⟨_, by simp only [Token.enc, b2]; exact token_false rest, valueEq_refl_nonint _ rfl⟩
    · exact ⟨_, by simp only [Token.enc, b1]; exact token_true rest, valueEq_refl_nonint _ rfl⟩
  | u8 n =>
    simp only [Token.wf, Token.ok, decide_eq_true_eq] at hwf
    obtain ⟨t', h, hv⟩ := round_uint n (by omega) rest
    exact ⟨t', by simp only [Token.enc, C03.u8_pref n hwf]; exact h, valueEq_int _ _ _ rfl hv⟩
  | u16 n =>
    simp only [Token.wf, Token.ok, decide_eq_true_eq] at hwf
    obtain ⟨t', h, hv⟩ := round_uint n (by omega) rest
    exact ⟨t', by simp only [Token.enc, C03.u16_pref n hwf]; exact h, valueEq_int _ _ _ rfl hv⟩
  | u32 n =>
    simp only [Token.wf, Token.ok, decide_eq_true_eq] at hwf
    obtain ⟨t', h, hv⟩ := round_uint n (by omega) rest
    exact ⟨t', by simp only [Token.enc, C03.u32_pref n hwf]; exact h, valueEq_int _ _ _ rfl hv⟩
  | u64 n =>
    simp only [Token.wf, Token.ok, decide_eq_true_eq] at hwf
    obtain ⟨t', h, hv⟩ := round_uint n hwf rest
    exact ⟨t', by simp only [Token.enc, C03.u64_pref n hwf]; exact h, valueEq_int _ _ _ rfl hv⟩
  | i8 v =>
    simp only [Token.wf, Token.ok, IntKind.inRange, IntKind.ty, Bool.and_eq_true, decide_eq_true_eq,
      i1, i2, i3, i4, i5, i6, i7, i8, i9, i10] at hwf
    obtain ⟨t', h, hv⟩ := round_intItem v (by omega) (by omega) rest
    exact ⟨t', by simp only [Token.enc, C03.i8_pref v (by omega)]; exact h, valueEq_int _ _ _ rfl hv⟩
  | i16 v =>
    simp only [Token.wf, Token.ok, IntKind.inRange, IntKind.ty, Bool.and_eq_true, decide_eq_true_eq,
      i1, i2, i3, i4, i5, i6, i7, i8, i9, i10] at hwf
    obtain ⟨t', h, hv⟩ := round_intItem v (by omega) (by omega) rest
    exact ⟨t', by simp only [Token.enc, C03.i16_pref v (by omega)]; exact h, valueEq_int _ _ _ rfl hv⟩
  | i32 v =>
    simp only [Token.wf, Token.ok, IntKind.inRange, IntKind.ty, Bool.and_eq_true, decide_eq_true_eq,
      i1, i2, i3, i4, i5, i6, i7, i8, i9, i10] at hwf
    obtain ⟨t', h, hv⟩ := round_intItem v (by omega) (by omega) rest
    exact ⟨t', by simp only [Token.enc, C03.i32_pref v (by omega)]; exact h, valueEq_int _ _ _ rfl hv⟩
  | i64 v =>
    simp only [Token.wf, Token.ok, IntKind.inRange, IntKind.ty, Bool.and_eq_true, decide_eq_true_eq,
      i1, i2, i3, i4, i5, i6, i7, i8, i9, i10] at hwf
    obtain ⟨t', h, hv⟩ := round_intItem v (by omega) (by omega) rest
    exact ⟨t', by simp only [Token.enc, C03.i64_pref v (by omega)]; exact h, valueEq_int _ _ _ rfl hv⟩
  | int v =>
    simp only [Token.wf, Token.ok, IntKind.inRange, IntKind.ty, Bool.and_eq_true, decide_eq_true_eq,
      i1, i2, i3, i4, i5, i6, i7, i8, i9, i10] at hwf
    obtain ⟨t', h, hv⟩ := round_intItem v (by omega) (by omega) rest
    refine ⟨t', ?_, valueEq_int _ _ _ rfl hv⟩
    simp only [Token.enc, IntKind.enc]
    unfold C03.intItem at h
    split
    · rw [C03.int_pref false _ (by omega)]; rw [if_pos (by assumption)] at h; exact h
    · rw [C03.int_pref true _ (by omega)]; rw [if_neg (by assumption)] at h; exact h
  | f16 x =>
    obtain ⟨h, hlt, rfl⟩ := hwf
    refine ⟨.f16 (f16ToF32 h), ?_, valueEq_refl_nonint _ rfl⟩
    have := token_f16 (quiet16 h) rest (quiet16_lt h hlt)
    rw [f16ToF32_quiet h hlt] at this
    simp only [Token.enc, Enc.f16, half_roundtrip h hlt]
    exact this
  | f32 x =>
    simp only [Token.wf, Token.ok, decide_eq_true_eq] at hwf
    exact ⟨_, token_f32 x rest hwf, valueEq_refl_nonint _ rfl⟩
  | f64 x =>
    simp only [Token.wf, Token.ok, decide_eq_true_eq] at hwf
    exact ⟨_, token_f64 x rest hwf, valueEq_refl_nonint _ rfl⟩
  | bytes b =>
    simp only [Token.wf] at hwf
    refine ⟨_, ?_, valueEq_refl_nonint (.bytes b) rfl⟩
    simp only [Token.enc, C03.bytes_pref b hwf]
    exact token_bytes (prefWidth b.length) b rest (prefWidth_fits _ hwf)
  | string b =>
    simp only [Token.wf] at hwf
    refine ⟨_, ?_, valueEq_refl_nonint (.string b) rfl⟩
    simp only [Token.enc, C03.str_pref b hwf.1]
    exact token_text (prefWidth b.length) b rest (prefWidth_fits _ hwf.1) hwf.2
  | array n =>
    simp only [Token.wf, Token.ok, decide_eq_true_eq] at hwf
    refine ⟨_, ?_, valueEq_refl_nonint (.array n) rfl⟩
    simp only [Token.enc, C03.array_pref n hwf]
    exact token_array (prefWidth n) n rest (prefWidth_fits _ hwf)
  | map n =>
    simp only [Token.wf, Token.ok, decide_eq_true_eq] at hwf
    refine ⟨_, ?_, valueEq_refl_nonint (.map n) rfl⟩
    simp only [Token.enc, C03.map_pref n hwf]
    exact token_map (prefWidth n) n rest (prefWidth_fits _ hwf)
  | tag n =>
    simp only [Token.wf, Token.ok, decide_eq_true_eq] at hwf
    refine ⟨_, ?_, valueEq_refl_nonint (.tag n) rfl⟩
    simp only [Token.enc, C03.tag_pref n hwf]
    exact token_tag (prefWidth n) n rest (prefWidth_fits _ hwf)
  | simple n =>
    simp only [Token.wf, Token.ok, decide_eq_true_eq] at hwf
    refine ⟨.simple n, ?_, valueEq_refl_nonint (.simple n) rfl⟩
    simp only [Token.enc, Enc.simple, Enc.SIMPLE]
    split
    · exact token_simple_small n rest (by omega)
    · exact token_simple_f8 n rest hwf
  | brk => exact ⟨_, by simp only [Token.enc, b5]; exact token_break rest, valueEq_refl_nonint _ rfl⟩
  | null => exact ⟨_, by simp only [Token.enc, b3]; exact token_null rest, valueEq_refl_nonint _ rfl⟩
  | undefined => exact ⟨_, by simp only [Token.enc, b4]; exact token_undefined rest, valueEq_refl_nonint _ rfl⟩
  | beginBytes => exact ⟨_, by simp only [Token.enc, b6]; exact token_beginBytes rest, valueEq_refl_nonint _ rfl⟩
  | beginString => exact ⟨_, by simp only [Token.enc, b7]; exact token_beginString rest, valueEq_refl_nonint _ rfl⟩
  | beginArray => exact ⟨_, by simp only [Token.enc, b8]; exact token_beginArray rest, valueEq_refl_nonint _ rfl⟩
  | beginMap => exact ⟨_, by simp only [Token.enc, b9]; exact token_beginMap rest, valueEq_refl_nonint _ rfl⟩

/-- **a list of tokens**: the tokenizer steps through value-equal tokens and leaves what followed. -/
theorem round_steps (ts : List Token) (hwf : ∀ t ∈ ts, Token.wf t) (rest : Bytes) :
    ∃ ts', Steps ts' (encodeTokens ts ++ rest) rest ∧ Token.valueEqL ts ts' := by
  induction ts with
  | nil => exact ⟨[], Steps.nil _, .nil⟩
  | cons t ts ih =>
    obtain ⟨ts', h1, h2⟩ := ih (fun u hu => hwf u (by simp [hu]))
    obtain ⟨t', h3, h4⟩ := round_one t (hwf t (by simp)) (encodeTokens ts ++ rest)
    refine ⟨t' :: ts', ?_, .cons h4 h2⟩
    simp only [encodeTokens, List.append_assoc]
    exact Steps.cons h3 h1

end C11
end Minicbor
