/-
  C04 infrastructure for `typed_sound`: forward simulation of `decodeT` on well-formed items.

  `Is x o rest`   — the outcome `x` is what the specification value `o` demands: `o = some v` ⇒ `x = ok v rest`,
                    `o = none` ⇒ `x` is not a success (`NotOk`).
  `Spec m f`      — on every valid wire tree `w` that fits in a slice, followed by arbitrary bytes,
                    the action `m` behaves as the specification `f` says: `Is (m (encW w ++ rest)) (f w) rest`.
  One lemma per loop combinator of Types.lean (`Spec.arrayIter`, `Spec.mapIter`, `Spec.arrayN`,
  `Spec.tup`, `Spec.fieldsDec`, …) against the specification-side loops of Lemmas/C04Interp.lean.
-/
import Minicbor.Lemmas.C04Interp
import Minicbor.Thm.C04Acc
import Minicbor.Lemmas.SkipExact
import Minicbor.Lemmas.TypesStart

namespace Minicbor.C04
open Dec

/-- not a success (an error, or — excluded by C02 — a panic). -/
def NotOk (x : Res α) : Prop := ∀ v r, x ≠ .ok v r

/-- the outcome demanded by a specification value. -/
def Is (x : Res α) (o : Option α) (rest : Bytes) : Prop :=
  match o with
  | some v => x = .ok v rest
  | none => NotOk x

/-- the encoding fits in a Rust slice (needed wherever `skip` is involved, see `C06.FitsSlice`). -/
abbrev Fits (w : WItem) : Prop := (encW w).length < 2 ^ 64

def Spec (m : Dec α) (f : WItem → Option α) : Prop :=
  ∀ w rest, w.Valid → Fits w → Is (m (encW w ++ rest)) (f w) rest

theorem NotOk.err {e : Err} {r : Bytes} : NotOk (.err e r : Res α) := by intro v r' h; cases h

theorem NotOk.bind_left {m : Dec α} {k : α → Dec β} {bs : Bytes} (h : NotOk (m bs)) : NotOk ((m >>= k) bs) := by
  intro v r hc
  rw [Dec.bind_run] at hc
  cases hm : m bs with
  | ok a r' => exact h a r' hm
  | err e r' => rw [hm] at hc; cases hc
  | panic => rw [hm] at hc; cases hc

theorem NotOk.bind_fail {m : Dec α} {e : Err} {bs : Bytes} : NotOk ((m >>= fun _ => (Dec.fail e : Dec β)) bs) := by
  intro v r hc
  rw [Dec.bind_run] at hc
  cases hm : m bs with
  | ok a r' => rw [hm] at hc; cases hc
  | err e r' => rw [hm] at hc; cases hc
  | panic => rw [hm] at hc; cases hc

/-- sequencing: the first action behaves as `o` says and leaves `mid`; the continuation behaves as `g a` says. -/
theorem Is.bind {m : Dec α} {k : α → Dec β} {bs mid rest : Bytes} {o : Option α} {g : α → Option β}
    (hm : Is (m bs) o mid) (hk : ∀ a, o = some a → Is (k a mid) (g a) rest) :
    Is ((m >>= k) bs) (o.bind g) rest := by
  cases o with
  | none => exact NotOk.bind_left hm
  | some a =>
    simp only [Is] at hm
    simp only [Option.bind_some]
    rw [Dec.bind_run, hm]
    exact hk a rfl

theorem Is.map {m : Dec α} {bs rest : Bytes} {o : Option α} (g : α → β) (hm : Is (m bs) o rest) :
    Is ((m >>= fun a => Pure.pure (g a)) bs) (o.map g) rest := by
  cases o with
  | none => exact NotOk.bind_left hm
  | some a =>
    simp only [Is] at hm
    simp only [Option.map_some, Is]
    rw [Dec.bind_run, hm]; rfl

theorem Is.congr {x : Res α} {o o' : Option α} {rest : Bytes} (h : Is x o rest) (e : o = o') : Is x o' rest := e ▸ h

theorem Spec.map {m : Dec α} {f : WItem → Option α} (g : α → β) (hs : Spec m f) :
    Spec (m >>= fun a => Pure.pure (g a)) (fun w => (f w).map g) :=
  fun w rest hv hf => Is.map g (hs w rest hv hf)

/-- a continuation that does not read: it turns the value into a value or an error. -/
theorem Spec.bindPure {m : Dec α} {f : WItem → Option α} {k : α → Dec β} {g : α → Option β} (hs : Spec m f)
    (hk : ∀ a bs, Is (k a bs) (g a) bs) : Spec (m >>= k) (fun w => (f w).bind g) :=
  fun w rest hv hf => Is.bind (hs w rest hv hf) (fun a _ => hk a rest)

/-! ### leaves: the accessors that read a whole item -/

theorem Spec.acc (a : Acc) (ha : ∀ w, after a w = []) : Spec a.run (view a) := by
  intro w rest hv _
  cases hview : view a w with
  | none => exact accessor_no_value a w hv hview rest
  | some v =>
    have h := accessor_sound a w hv v hview rest
    have e := consumed_after a w
    rw [ha w, List.append_nil] at e
    rw [← e] at h
    exact h

theorem Spec.int (t : IntTy) : Spec (intAcc t) (view (.int t)) := Spec.acc (.int t) (by intro w; cases w <;> rfl)
theorem Spec.bool : Spec Dec.bool (view .bool) := Spec.acc .bool (by intro w; cases w <;> rfl)
theorem Spec.char : Spec Dec.char (view .char) := Spec.acc .char (by intro w; cases w <;> rfl)
theorem Spec.f32 (h : Bool) : Spec (Dec.f32 h) (view (.f32 h)) := Spec.acc (.f32 h) (by intro w; cases w <;> rfl)
theorem Spec.f64 (h : Bool) : Spec (Dec.f64 h) (view (.f64 h)) := Spec.acc (.f64 h) (by intro w; cases w <;> rfl)
theorem Spec.str : Spec Dec.str (view .str) := Spec.acc .str (by intro w; cases w <;> rfl)
theorem Spec.bytes : Spec Dec.bytes (view .bytes) := Spec.acc .bytes (by intro w; cases w <;> rfl)

/-! ### facts about valid items used by the loops -/

/-- the element list fits in a slice. -/
abbrev FitsL (xs : List WItem) : Prop := (encWs xs).length < 2 ^ 64

theorem fits_elems {w : WItem} {xs : List WItem} (h : elems w = some xs) (hf : Fits w) : FitsL xs := by
  cases w <;> simp [elems] at h <;> subst h <;> simp [Fits, encW, headW] at hf <;> (unfold FitsL; omega)

theorem fits_entries {w : WItem} {xs : List WItem} (h : entries w = some xs) (hf : Fits w) : FitsL xs := by
  cases w <;> simp [entries] at h <;> subst h <;> simp [Fits, encW, headW] at hf <;> (unfold FitsL; omega)

theorem valid_elems {w : WItem} {xs : List WItem} (h : elems w = some xs) (hv : w.Valid) : validAll xs = true := by
  cases w <;> simp [elems] at h <;> subst h <;> simp [WItem.Valid, WItem.valid] at hv
  · exact hv.2
  · exact hv

theorem valid_entries {w : WItem} {xs : List WItem} (h : entries w = some xs) (hv : w.Valid) :
    validAll xs = true ∧ xs.length % 2 = 0 := by
  cases w <;> simp [entries] at h <;> subst h <;> simp [WItem.Valid, WItem.valid] at hv
  · exact ⟨hv.2, hv.1.1⟩
  · exact ⟨hv.2, hv.1⟩

/-- a valid item never starts with the break byte. -/
theorem first_ne_break (w : WItem) (hv : w.Valid) (rest : Bytes) :
    ∃ b tl, encW w ++ rest = b :: tl ∧ b ≠ 0xff := by
  obtain ⟨tl, he, hb⟩ := encW_cons w hv
  refine ⟨u8 (ib w), tl ++ rest, by rw [he]; rfl, ?_⟩
  intro hc
  have h1 : (u8 (ib w)).toNat = 255 := by rw [hc]; rfl
  have hr := ib_range w hv
  rw [hb] at h1
  cases w <;> simp [ibRange] at hr <;> (try omega)
  case simple n => simp [ib] at h1; split at h1 <;> omega

theorem untilBreak_cons {m : Dec α} (fuel : Nat) (b : UInt8) (tl : Bytes) (hb : b ≠ 0xff) :
    untilBreak m (fuel + 1) (b :: tl) =
      (m >>= fun x => untilBreak m fuel >>= fun xs => Pure.pure (x :: xs)) (b :: tl) := by
  simp [untilBreak, Dec.bind_run, hb]

theorem untilBreak_break {m : Dec α} (fuel : Nat) (rest : Bytes) :
    untilBreak m (fuel + 1) (0xff :: rest) = .ok [] rest := by
  simp [untilBreak, Dec.bind_run]

/-! ### arrays -/

theorem repeatN_spec {m : Dec α} {f : WItem → Option α} (hs : Spec m f) :
    ∀ (xs : List WItem) (rest : Bytes), validAll xs = true → FitsL xs →
      Is (repeatN m xs.length (encWs xs ++ rest)) (interpAll f xs) rest
  | [], rest, _, _ => by simp [repeatN, interpAll, encWs, Is]
  | x :: xs, rest, hv, hf => by
    simp only [validAll, Bool.and_eq_true] at hv
    simp only [FitsL, encWs, List.length_append] at hf
    simp only [List.length_cons, repeatN, encWs, List.append_assoc, interpAll]
    refine Is.bind (hs x _ hv.1 (by unfold Fits; omega)) (fun v _ => ?_)
    refine Is.bind (repeatN_spec hs xs rest hv.2 (by unfold FitsL; omega)) (fun vs _ => ?_)
    simp [Is]

theorem untilBreak_spec {m : Dec α} {f : WItem → Option α} (hs : Spec m f) :
    ∀ (xs : List WItem) (rest : Bytes) (fuel : Nat), validAll xs = true → FitsL xs → xs.length < fuel →
      Is (untilBreak m fuel (encWs xs ++ 0xff :: rest)) (interpAll f xs) rest
  | [], rest, fuel, _, _, hfu => by
    cases fuel with
    | zero => omega
    | succ k => simp [untilBreak_break, interpAll, encWs, Is]
  | x :: xs, rest, fuel, hv, hf, hfu => by
    cases fuel with
    | zero => omega
    | succ k =>
      simp only [validAll, Bool.and_eq_true] at hv
      simp only [FitsL, encWs, List.length_append] at hf
      simp only [encWs, List.append_assoc, interpAll]
      obtain ⟨b, tl, he, hb⟩ := first_ne_break x hv.1 (encWs xs ++ 0xff :: rest)
      rw [he, untilBreak_cons k b tl hb, ← he]
      refine Is.bind (hs x _ hv.1 (by unfold Fits; omega)) (fun v _ => ?_)
      refine Is.bind (untilBreak_spec hs xs rest k hv.2 (by unfold FitsL; omega) (by simpa using hfu)) (fun vs _ => ?_)
      simp [Is]

/-- what `array()` / `map()` do on every valid item, in `Is` form. -/
theorem array_is (w : WItem) (hv : w.Valid) (rest : Bytes) :
    Is (Dec.array (encW w ++ rest)) (view .array w) (after .array w ++ rest) := by
  cases hview : view .array w with
  | none => exact accessor_no_value .array w hv hview rest
  | some v => exact (accessor_ok_iff .array w hv rest v _).mpr ⟨hview, rfl⟩

theorem map_is (w : WItem) (hv : w.Valid) (rest : Bytes) :
    Is (Dec.map (encW w ++ rest)) (view .map w) (after .map w ++ rest) := by
  cases hview : view .map w with
  | none => exact accessor_no_value .map w hv hview rest
  | some v => exact (accessor_ok_iff .map w hv rest v _).mpr ⟨hview, rfl⟩

theorem tag_is (w : WItem) (hv : w.Valid) (rest : Bytes) :
    Is (Dec.tag (encW w ++ rest)) (view .tag w) (after .tag w ++ rest) := by
  cases hview : view .tag w with
  | none => exact accessor_no_value .tag w hv hview rest
  | some v => exact (accessor_ok_iff .tag w hv rest v _).mpr ⟨hview, rfl⟩

/-- `array_iter_with`, drained. -/
theorem Spec.arrayIter {m : Dec α} {f : WItem → Option α} (hs : Spec m f) :
    Spec (Dec.arrayIter m) (fun w => (elems w).bind (interpAll f)) := by
  intro w rest hv hf
  have ha := array_is w hv rest
  unfold Dec.arrayIter
  cases w
  case array wd xs =>
    simp only [WItem.Valid, WItem.valid, Bool.and_eq_true] at hv
    simp only [view, after, Is] at ha
    simp only [elems, Option.bind_some]
    rw [Dec.bind_run, ha]
    exact repeatN_spec hs xs rest hv.2 (fits_elems (w := .array wd xs) rfl hf)
  case arrayI xs =>
    simp only [WItem.Valid, WItem.valid] at hv
    simp only [view, after, Is, List.append_assoc, List.singleton_append] at ha
    simp only [elems, Option.bind_some]
    rw [Dec.bind_run, ha]
    simp only [Dec.bind_run, Dec.remaining]
    refine untilBreak_spec hs xs rest _ hv (fits_elems (w := .arrayI xs) rfl hf) ?_
    have := encWs_length_ge xs
    simp; omega
  all_goals exact NotOk.bind_left ha

/-! ### `datatype()` and `skip()` on a valid item -/

theorem typeOf_not_break (b : UInt8) (xs : Bytes) (r : Bytes) (h1 : b.toNat ≠ 0xff) :
    typeOf b xs ≠ .ok .break r := by
  intro h
  unfold typeOf at h
  simp only [beq_iff_eq, Bool.and_eq_true, decide_eq_true_eq, Bool.or_eq_true] at h
  repeat rw [Dec.ite_run] at h
  simp only [Dec.pure_run, Dec.bind_run] at h
  have hlt := b.toNat_lt
  generalize b.toNat = n at *
  have hp : n ≤ 24 ∨ n = 25 ∨ n = 26 ∨ n = 27 ∨ (28 ≤ n ∧ n ≤ 31) ∨ (32 ≤ n ∧ n ≤ 55) ∨ n = 56 ∨ n = 57 ∨ n = 58 ∨ n = 59 ∨ (60 ≤ n ∧ n ≤ 63) ∨
      (64 ≤ n ∧ n ≤ 91) ∨ (92 ≤ n ∧ n ≤ 94) ∨ n = 95 ∨ (96 ≤ n ∧ n ≤ 123) ∨ (124 ≤ n ∧ n ≤ 126) ∨ n = 127 ∨
      (128 ≤ n ∧ n ≤ 155) ∨ (156 ≤ n ∧ n ≤ 158) ∨ n = 159 ∨ (160 ≤ n ∧ n ≤ 187) ∨ (188 ≤ n ∧ n ≤ 190) ∨ n = 191 ∨
      (192 ≤ n ∧ n ≤ 219) ∨ (220 ≤ n ∧ n ≤ 223) ∨ (224 ≤ n ∧ n ≤ 243) ∨ (244 ≤ n ∧ n ≤ 245) ∨ n = 246 ∨ n = 247 ∨ n = 248 ∨
      n = 249 ∨ n = 250 ∨ n = 251 ∨ (252 ≤ n ∧ n ≤ 254) := by omega
  rcases hp with h'|h'|h'|h'|h'|h'|h'|h'|h'|h'|h'|h'|h'|h'|h'|h'|h'|h'|h'|h'|h'|h'|h'|h'|h'|h'|h'|h'|h'|h'|h'|h'|h'|h'
  all_goals
    repeat (first | rw [if_pos (by omega)] at h | rw [if_neg (by omega)] at h)
    first
      | (cases h; done)
      | (cases hpk : peek xs <;> rw [hpk] at h <;> simp only [] at h <;> (try (cases h; done)) <;> (split at h <;> cases h))

theorem startOk_encW (w : WItem) (hv : w.Valid) (hn : isNull w = false) : startOk (encW w) = true := by
  obtain ⟨tl, he, hb⟩ := encW_cons w hv
  have hr := ib_range w hv
  rw [he]
  simp only [startOk, hb, Bool.and_eq_true, bne_iff_ne, ne_eq, Bool.or_eq_true, Bool.not_eq_true',
    Bool.and_eq_false_iff, decide_eq_false_iff_not]
  cases w <;> simp only [ibRange] at hr <;> simp only [ib] at hr ⊢
  case nint wd n =>
    refine ⟨by omega, ?_⟩
    simp only [encW, headW] at he
    injection he with _ htl
    cases wd
    · simp only [WItem.Valid, WItem.valid, Width.fits, decide_eq_true_eq] at hv
      left; simp only [Width.ai]; omega
    all_goals (right; rw [← htl]; simp [Width.bytes, be])
  case simple n =>
    simp only [WItem.Valid, WItem.valid, Bool.or_eq_true, Bool.and_eq_true, decide_eq_true_eq] at hv
    have h22 : n ≠ 22 := by simpa [isNull] using hn
    split <;> exact ⟨by omega, by left; omega⟩
  all_goals exact ⟨by omega, by left; omega⟩

theorem datatype_item (w : WItem) (hv : w.Valid) (rest : Bytes) :
    ∃ ty, datatype (encW w ++ rest) = .ok ty (encW w ++ rest) ∧ ty ≠ .break ∧
      (isNull w = false → ty ≠ .null) ∧ (isNull w = true → ty = .null) := by
  have hnb : ∀ ty r, datatype (encW w ++ rest) = .ok ty r → ty ≠ .break := by
    intro ty r h e
    obtain ⟨tl, he, hb⟩ := encW_cons w hv
    rw [he] at h
    subst e
    refine typeOf_not_break _ _ _ ?_ h
    rw [hb]
    have hr := ib_range w hv
    cases w <;> simp only [ibRange] at hr <;> simp only [ib] at hr ⊢ <;> (try omega)
    case simple n => split at hr <;> split <;> simp at hr <;> omega
  cases hn : isNull w with
  | false =>
    obtain ⟨ty, hty, hnn⟩ := datatype_startOk (encW w) rest (startOk_encW w hv hn)
    exact ⟨ty, hty, hnb ty _ hty, fun _ => hnn, fun h => (by cases h)⟩
  | true =>
    have : w = .simple 22 := by
      cases w <;> simp [isNull] at hn
      rw [hn]
    subst this
    exact ⟨.null, rfl, by simp, fun h => (by cases h), fun _ => rfl⟩

theorem datatype_break (rest : Bytes) : datatype (0xff :: rest) = .ok .break (0xff :: rest) := rfl

theorem skip_item (w : WItem) (hv : w.Valid) (hf : Fits w) (rest : Bytes) :
    Dec.skip true (encW w ++ rest) = .ok () rest :=
  Dec.skip_encW w rest hv (by unfold Fits at hf; unfold U64MAX; omega)

theorem Spec.skip : Spec (Dec.skip true) (fun _ => some ()) :=
  fun w rest hv hf => skip_item w hv hf rest

theorem skip_break (rest : Bytes) : Dec.skip true (0xff :: rest) = .ok () rest := by
  apply skip_leaf
  simp [skipArm, Dec.bind_run]
  rfl

end Minicbor.C04
