/-
  Termination of the diagnostic printer with an explicit measure.
  `mu st it` bounds the number of iterations the inner loop can still make from control stack
  `st` with `it` left in the token iterator: every iteration removes a stack element or a token,
  except the "expansions" (`T`, `A(Some n)`, `M(Some n)`, and the indefinite markers), which push
  up to four extra elements — but always with `E::N` on top, whose very next iteration consumes a
  token or (commit 7258571) returns.  So the `N` on top of the stack carries a credit of five.
-/
import Minicbor.Lemmas.DisplayStep

namespace Minicbor

def mu (st : List E) (it : List TokItem) : Nat :=
  match st with
  | .N :: st' =>
    match it with
    | [] => 0
    | _ :: it' => st'.length + 6 * it'.length + 2
  | _ => st.length + 6 * it.length

theorem mu_le (st : List E) (it : List TokItem) : mu st it ≤ st.length + 6 * it.length := by
  unfold mu
  split
  · split <;> simp only [List.length_cons, List.length_nil] <;> omega
  · omega

theorem mu_N_nil (st : List E) : mu (.N :: st) [] = 0 := rfl
theorem mu_N_cons (st : List E) (x : TokItem) (it : List TokItem) :
    mu (.N :: st) (x :: it) = st.length + 6 * it.length + 2 := rfl

theorem mu_N_le (st : List E) (it : List TokItem) : mu (.N :: st) it + 4 ≤ st.length + 6 * it.length ∨ it = [] := by
  cases it with
  | nil => right; rfl
  | cons x it => left; rw [mu_N_cons]; simp only [List.length_cons]; omega

theorem mu_notN (e : E) (st : List E) (it : List TokItem) (h : e ≠ .N) :
    mu (e :: st) it = st.length + 1 + 6 * it.length := by
  cases e <;> first | exact absurd rfl h | rfl

/-- pushing `N :: more` (an expansion) with at most four extra elements. -/
theorem mu_expand (more st : List E) (it : List TokItem) (hm : more.length ≤ 3) :
    mu (.N :: (more ++ st)) it < st.length + 1 + 6 * it.length := by
  cases it with
  | nil => rw [mu_N_nil]; omega
  | cons x it => rw [mu_N_cons]; simp only [List.length_append, List.length_cons]; omega

theorem mu_pop (st : List E) (it : List TokItem) : mu st it < st.length + 1 + 6 * it.length := by
  have := mu_le st it; omega

theorem mu_push1 (p : List E) (st : List E) (it : List TokItem) (hp : p.length ≤ 1) :
    mu (p ++ st) it < st.length + 6 * it.length + 2 := by
  have := mu_le (p ++ st) it
  simp only [List.length_append] at this
  omega

theorem nstep_mu (t : Token) (st it1 st' it' : _) (em : List Piece)
    (h : nstep t st it1 = .cont st' it' em) :
    mu st' it' < st.length + 6 * it1.length + 2 ∧ it'.length ≤ it1.length := by
  have tl : mu st it1.tail < st.length + 6 * it1.length + 2 ∧ it1.tail.length ≤ it1.length := by
    have := mu_le st it1.tail
    have : it1.tail.length ≤ it1.length := by simp
    exact ⟨by omega, this⟩
  cases t <;> simp only [nstep] at h
  case beginBytes =>
    split at h <;> cases h
    · exact tl
    · exact ⟨mu_push1 [_] st _ (by simp), Nat.le_refl _⟩
  case beginString =>
    split at h <;> cases h
    · exact tl
    · exact ⟨mu_push1 [_] st _ (by simp), Nat.le_refl _⟩
  all_goals
    cases h
    first
      | exact ⟨mu_push1 [] st _ (by simp), Nat.le_refl _⟩
      | exact ⟨mu_push1 [_] st _ (by simp), Nat.le_refl _⟩

theorem indefStep_mu (msg close : String) (more st : List E) (it : List TokItem) (st' it' : _)
    (em : List Piece) (hm : more.length ≤ 3)
    (h : indefStep msg close (.N :: more) st it = .cont st' it' em) :
    mu st' it' < st.length + 1 + 6 * it.length ∧ it'.length ≤ it.length := by
  unfold indefStep at h
  split at h
  · cases h
  · cases h
    have := mu_le st it'
    simp only [List.length_cons]
    exact ⟨by omega, by omega⟩
  · cases h
    exact ⟨mu_expand more st it hm, Nat.le_refl _⟩

/-- **every iteration decreases the measure** (and never lengthens the iterator). -/
theorem dstep_mu (e : E) (st : List E) (it : List TokItem) (st' it' : _) (em : List Piece)
    (h : dstep e st it = .cont st' it' em) :
    mu st' it' < mu (e :: st) it ∧ it'.length ≤ it.length := by
  cases e with
  | N =>
    cases it with
    | nil => simp [dstep] at h
    | cons x it1 =>
      cases x with
      | err e => simp [dstep] at h
      | tok t =>
        simp only [dstep] at h
        rw [mu_N_cons]
        have := nstep_mu t st it1 st' it' em h
        exact ⟨this.1, by simp only [List.length_cons]; omega⟩
  | S s =>
    simp only [dstep] at h; cases h; rw [mu_notN _ _ _ (by simp)]
    exact ⟨mu_pop _ _, Nat.le_refl _⟩
  | X s =>
    rw [mu_notN _ _ _ (by simp)]
    simp only [dstep] at h
    split at h <;> first | (cases h; exact ⟨mu_pop _ _, Nat.le_refl _⟩) | cases h
  | T =>
    rw [mu_notN .T _ _ (by simp)]
    simp only [dstep] at h; cases h
    exact ⟨mu_expand [.S ")"] st _ (by simp), Nat.le_refl _⟩
  | A n =>
    rw [mu_notN _ _ _ (by simp)]
    match n with
    | none => exact indefStep_mu _ _ _ st it st' it' em (by simp) h
    | some 0 => simp only [dstep] at h; cases h; exact ⟨mu_pop _ _, Nat.le_refl _⟩
    | some 1 => simp only [dstep] at h; cases h; exact ⟨mu_expand [_] st _ (by simp), Nat.le_refl _⟩
    | some (n + 2) =>
      simp only [dstep] at h; cases h; exact ⟨mu_expand [_, _] st _ (by simp), Nat.le_refl _⟩
  | M n =>
    rw [mu_notN _ _ _ (by simp)]
    match n with
    | none =>
      simp only [dstep] at h
      unfold indefStep at h
      split at h
      · cases h
      · cases h
        have := mu_le st it'
        simp only [List.length_cons]; exact ⟨by omega, by omega⟩
      · cases h
        refine ⟨?_, Nat.le_refl _⟩
        cases it with
        | nil => rw [List.cons_append, mu_N_nil]; omega
        | cons x it =>
          rw [List.cons_append, mu_N_cons]
          simp only [List.length_append, List.length_cons, List.length_nil]; omega
    | some 0 => simp only [dstep] at h; cases h; exact ⟨mu_pop _ _, Nat.le_refl _⟩
    | some 1 => simp only [dstep] at h; cases h; exact ⟨mu_expand [_, _, _] st _ (by simp), Nat.le_refl _⟩
    | some (n + 2) =>
      simp only [dstep] at h; cases h
      refine ⟨?_, Nat.le_refl _⟩
      cases it with
      | nil => rw [mu_N_nil]; omega
      | cons x it => rw [mu_N_cons]; simp only [List.length_cons]; omega
  | B => rw [mu_notN _ _ _ (by simp)]; exact indefStep_mu _ _ _ st it st' it' em (by simp) h
  | D => rw [mu_notN _ _ _ (by simp)]; exact indefStep_mu _ _ _ st it st' it' em (by simp) h

/-- **the inner loop terminates within `mu st it + 1` iterations** (so it never exhausts a fuel
    larger than the measure) and never lengthens the iterator. -/
theorem displayInner_total (fuel : Nat) (st : List E) (it : List TokItem) (out : List Piece)
    (h : mu st it < fuel) :
    ∃ out' it' b, displayInner fuel st it out = some (out', it', b) ∧ it'.length ≤ it.length := by
  induction fuel generalizing st it out with
  | zero => omega
  | succ f ih =>
    cases st with
    | nil => exact ⟨out, it, false, displayInner_nil f it out, Nat.le_refl _⟩
    | cons e st =>
      rw [displayInner_succ]
      cases hd : dstep e st it with
      | stop em => exact ⟨_, [], true, rfl, Nat.zero_le _⟩
      | cont st' it' em =>
        have := dstep_mu e st it st' it' em hd
        obtain ⟨o, i, b, h1, h2⟩ := ih st' it' (out ++ em) (by omega)
        exact ⟨o, i, b, h1, by omega⟩

/-- one round of the outer loop (`stack.push(E::N)` on a non-exhausted iterator) either returns
    from `fmt` or consumes at least one token. -/
theorem displayInner_round (fuel : Nat) (x : TokItem) (it : List TokItem) (out : List Piece)
    (h : 6 * it.length + 2 < fuel) :
    ∃ out' it' b, displayInner fuel [.N] (x :: it) out = some (out', it', b) ∧
      (b = true ∨ it'.length ≤ it.length) := by
  cases fuel with
  | zero => omega
  | succ f =>
    rw [displayInner_succ]
    cases hd : dstep .N [] (x :: it) with
    | stop em => exact ⟨_, [], true, rfl, Or.inl rfl⟩
    | cont st' it' em =>
      have h1 := dstep_mu .N [] (x :: it) st' it' em hd
      rw [mu_N_cons] at h1
      simp only [List.length_nil, Nat.zero_add] at h1
      have hlen : it'.length ≤ it.length := by
        cases x with
        | err e => simp [dstep] at hd
        | tok t => simp only [dstep] at hd; exact (nstep_mu t [] it st' it' em hd).2
      obtain ⟨o, i, b, h2, h3⟩ := displayInner_total f st' it' (out ++ em) (by omega)
      exact ⟨o, i, b, h2, Or.inr (by omega)⟩

/-- the outer loop terminates: each round consumes a token or returns. -/
theorem displayOuter_total (fuel inner : Nat) (it : List TokItem) (out : List Piece)
    (hf : it.length < fuel) (hi : 6 * it.length < inner) :
    ∃ ps, displayOuter fuel inner it out = some ps := by
  induction fuel generalizing it out with
  | zero => omega
  | succ f ih =>
    cases it with
    | nil => exact ⟨out, by unfold displayOuter; rfl⟩
    | cons x it =>
      simp only [List.length_cons] at hf hi
      obtain ⟨o, i, b, h1, h2⟩ := displayInner_round inner x it out (by omega)
      unfold displayOuter
      simp only [h1]
      cases b with
      | true => exact ⟨o, rfl⟩
      | false =>
        have : i.length ≤ it.length := by simpa using h2
        exact ih i o (by omega) (by omega)

end Minicbor
