/-
  C02 infrastructure, part 7: a step count for decoder actions, to state "work proportional to
  the input length" literally.

  `Cost m bs n` — evaluating the action `m` on `bs` along its monadic structure (the program
  text of the model) performs `n` primitive decoder operations.  Primitive operations:
  `current`, `read`, `peek` cost 1; `read_slice(k)` costs `1 + k` when it succeeds (charging the
  bytes it hands out covers UTF-8 validation and copies into owned strings) and 1 when it fails;
  `pure`/`fail` cost nothing; a bind costs the sum of what actually ran.  The relation is an
  upper-bound semantics on the model's own program text (no separate instrumented copy of the
  model exists, so there is nothing to keep in sync).

  `LinC c m`  : on every input `m` takes at most `consumed + c` steps (and does not move back);
  `Lin' K c m`: at most `K * consumed + c` steps.
-/
import Minicbor.Lemmas.TotalTy

namespace Minicbor

/-- the remaining input after a call, whatever the outcome (`none` = panic). -/
def Res.rest? : Res α → Option Bytes
  | .ok _ r => some r
  | .err _ r => some r
  | .panic => none

namespace Dec

inductive Cost : {α : Type} → Dec α → Bytes → Nat → Prop
  | pure {α : Type} (a : α) (bs : Bytes) : Cost (Pure.pure a : Dec α) bs 0
  | fail {α : Type} (e : Err) (bs : Bytes) : Cost (Dec.fail e : Dec α) bs 0
  | panic {α : Type} (bs : Bytes) : Cost (Dec.panic : Dec α) bs 0
  | read (bs : Bytes) : Cost Dec.read bs 1
  | current (bs : Bytes) : Cost Dec.current bs 1
  | peek (bs : Bytes) : Cost Dec.peek bs 1
  | remaining (bs : Bytes) : Cost Dec.remaining bs 0
  | readSlice_ok (k : Nat) (bs : Bytes) (h : k ≤ bs.length) : Cost (Dec.readSlice k) bs (1 + k)
  | readSlice_err (k : Nat) (bs : Bytes) (h : bs.length < k) : Cost (Dec.readSlice k) bs 1
  | bind_ok {α β : Type} {m : Dec α} {f : α → Dec β} {bs : Bytes} {a : α} {r : Bytes} {n1 n2 : Nat}
      (hm : m bs = .ok a r) (h1 : Cost m bs n1) (h2 : Cost (f a) r n2) : Cost (m >>= f) bs (n1 + n2)
  | bind_stop {α β : Type} {m : Dec α} {f : α → Dec β} {bs : Bytes} {n1 : Nat}
      (hm : ∀ a r, m bs ≠ .ok a r) (h1 : Cost m bs n1) : Cost (m >>= f) bs n1

def Lin' (K c : Nat) (m : Dec α) : Prop :=
  ∀ bs, ∃ n, Cost m bs n ∧
    ∀ r, (m bs).rest? = some r → r.length ≤ bs.length ∧ n + K * r.length ≤ K * bs.length + c

/-- at most `consumed + c` steps. -/
def LinC (c : Nat) (m : Dec α) : Prop :=
  ∀ bs, ∃ n, Cost m bs n ∧
    ∀ r, (m bs).rest? = some r → r.length ≤ bs.length ∧ n + r.length ≤ bs.length + c

/-- at most `K * (consumed + 1)` steps. -/
abbrev Lin (K : Nat) (m : Dec α) : Prop := Lin' K K m

theorem rest?_bind_ok {m : Dec α} {f : α → Dec β} {bs : Bytes} {a : α} {r : Bytes} (h : m bs = .ok a r) :
    ((m >>= f) bs).rest? = (f a r).rest? := by rw [Dec.bind_run, h]

theorem rest?_bind_stop {m : Dec α} {f : α → Dec β} {bs : Bytes} (h : ∀ a r, m bs ≠ .ok a r) :
    ((m >>= f) bs).rest? = (m bs).rest? := by
  rw [Dec.bind_run]
  cases hmb : m bs with
  | ok a r => exact absurd hmb (h a r)
  | err e r => rfl
  | panic => rfl

namespace LinC

theorem mono {c N : Nat} {m : Dec α} (h : LinC c m) (hle : c ≤ N) : LinC N m := by
  intro bs
  obtain ⟨n, hc, hb⟩ := h bs
  exact ⟨n, hc, fun r hr => by have := hb r hr; omega⟩

theorem pure (N : Nat) (a : α) : LinC N (Pure.pure a : Dec α) := by
  intro bs
  exact ⟨0, Cost.pure a bs, fun r hr => by cases hr; omega⟩

theorem fail (N : Nat) (e : Err) : LinC N (Dec.fail e : Dec α) := by
  intro bs
  exact ⟨0, Cost.fail e bs, fun r hr => by cases hr; omega⟩

theorem panic (N : Nat) : LinC N (Dec.panic : Dec α) := by
  intro bs
  exact ⟨0, Cost.panic bs, fun r hr => by cases hr⟩

theorem read : LinC 1 Dec.read := by
  intro bs
  refine ⟨1, Cost.read bs, fun r hr => ?_⟩
  cases bs with
  | nil => cases hr; simp
  | cons b bs => cases hr; simp; omega

theorem current : LinC 1 Dec.current := by
  intro bs
  refine ⟨1, Cost.current bs, fun r hr => ?_⟩
  cases bs with
  | nil => cases hr; simp
  | cons b bs => cases hr; simp; omega

theorem peek : LinC 1 Dec.peek := by
  intro bs
  refine ⟨1, Cost.peek bs, fun r hr => ?_⟩
  match bs with
  | [] => cases hr; simp
  | [_] => cases hr; simp
  | _ :: _ :: _ => cases hr; simp; omega

theorem remaining : LinC 0 Dec.remaining := by
  intro bs
  exact ⟨0, Cost.remaining bs, fun r hr => by cases hr; omega⟩

theorem readSlice (k : Nat) : LinC 1 (Dec.readSlice k) := by
  intro bs
  by_cases h : k ≤ bs.length
  · refine ⟨1 + k, Cost.readSlice_ok k bs h, fun r hr => ?_⟩
    unfold Dec.readSlice at hr; rw [if_pos h] at hr; cases hr
    simp; omega
  · refine ⟨1, Cost.readSlice_err k bs (by omega), fun r hr => ?_⟩
    unfold Dec.readSlice at hr; rw [if_neg h] at hr; cases hr
    simp; omega

theorem bind {c1 c2 : Nat} {m : Dec α} {f : α → Dec β} (hm : LinC c1 m) (hf : ∀ a, LinC c2 (f a)) :
    LinC (c1 + c2) (m >>= f) := by
  intro bs
  obtain ⟨n1, hc1, hb1⟩ := hm bs
  cases hmb : m bs with
  | ok a r1 =>
    obtain ⟨n2, hc2, hb2⟩ := hf a r1
    refine ⟨n1 + n2, Cost.bind_ok hmb hc1 hc2, fun r hr => ?_⟩
    rw [rest?_bind_ok hmb] at hr
    have h1 := hb1 r1 (by rw [hmb]; rfl)
    have h2 := hb2 r hr
    omega
  | err e r1 =>
    have hstop : ∀ a r, m bs ≠ .ok a r := by intro a r h; rw [hmb] at h; cases h
    refine ⟨n1, Cost.bind_stop hstop hc1, fun r hr => ?_⟩
    rw [rest?_bind_stop hstop] at hr
    have h1 := hb1 r hr
    omega
  | panic =>
    have hstop : ∀ a r, m bs ≠ .ok a r := by intro a r h; rw [hmb] at h; cases h
    refine ⟨n1, Cost.bind_stop hstop hc1, fun r hr => ?_⟩
    rw [rest?_bind_stop hstop, hmb] at hr
    cases hr

/-- `bind` with the budget `N` given: what is left for the continuation is `N - c1`. -/
theorem bindL {c1 N : Nat} {m : Dec α} {f : α → Dec β} (hm : LinC c1 m) (hle : c1 ≤ N)
    (hf : ∀ a, LinC (N - c1) (f a)) : LinC N (m >>= f) :=
  (bind hm hf).mono (by omega)

theorem ite {p : Prop} [Decidable p] {N : Nat} {a b : Dec α} (ha : LinC N a) (hb : LinC N b) :
    LinC N (if p then a else b) := by
  split <;> assumption

end LinC

/-- a leaf: a primitive or an already-analysed action (hypothesis / lemma in context). -/
macro "linleaf" : tactic =>
  `(tactic| first
      | exact LinC.read | exact LinC.current | exact LinC.peek | exact LinC.remaining
      | exact LinC.readSlice _
      | assumption | solve_by_elim -exfalso -symm (maxDepth := 2))

/-- discharge `LinC N m` for straight-line code, `N` a numeral large enough. -/
macro "linc" : tactic =>
  `(tactic| repeat' (first
      | exact LinC.pure _ _ | exact LinC.fail _ _ | exact LinC.panic _
      | exact LinC.mono (by linleaf) (by omega)
      | refine LinC.bindL (by linleaf) (by omega) (fun _ => ?_)
      | apply LinC.ite | split | dsimp only))

theorem LinC.typeOf (b : UInt8) : LinC 1 (Dec.typeOf b) := by
  unfold Dec.typeOf; linc

theorem LinC.typeMismatch (b : UInt8) : LinC 1 (Dec.typeMismatch b : Dec α) := by
  unfold Dec.typeMismatch
  have := LinC.typeOf
  linc

theorem LinC.unsigned (b : UInt8) : LinC 1 (Dec.unsigned b) := by
  unfold Dec.unsigned
  have := @LinC.typeMismatch Nat
  linc

theorem LinC.tryAs (v m : Nat) : LinC 0 (Dec.tryAs v m) := by
  unfold Dec.tryAs; linc

theorem LinC.u64ToUsize (n : Nat) : LinC 0 (Dec.u64ToUsize n) := by
  unfold Dec.u64ToUsize; linc

theorem LinC.intAcc (t : IntTy) : LinC 2 (Dec.intAcc t) := by
  unfold Dec.intAcc
  have := LinC.unsigned; have := LinC.tryAs; have := @LinC.typeMismatch Int
  linc

theorem LinC.bool : LinC 2 Dec.bool := by
  unfold Dec.bool
  have := @LinC.typeMismatch Bool
  linc

theorem LinC.f16 : LinC 2 Dec.f16 := by
  unfold Dec.f16
  have := @LinC.typeMismatch Nat
  linc

theorem LinC.f32 (half : Bool) : LinC 3 (Dec.f32 half) := by
  unfold Dec.f32
  have := @LinC.typeMismatch Nat; have := LinC.f16
  linc

theorem LinC.f64 (half : Bool) : LinC 4 (Dec.f64 half) := by
  unfold Dec.f64
  have := @LinC.typeMismatch Nat; have := LinC.f16; have := LinC.f32 half
  linc

theorem LinC.char : LinC 2 Dec.char := by
  unfold Dec.char
  have := LinC.intAcc .u32
  linc

theorem LinC.bytes : LinC 3 Dec.bytes := by
  unfold Dec.bytes
  have := @LinC.typeMismatch Bytes; have := LinC.unsigned; have := LinC.u64ToUsize
  linc

theorem LinC.str : LinC 3 Dec.str := by
  unfold Dec.str
  have := @LinC.typeMismatch Bytes; have := LinC.unsigned; have := LinC.u64ToUsize
  linc

theorem LinC.chunk (text : Bool) : LinC 3 (if text then Dec.str else Dec.bytes) := by
  cases text
  · exact LinC.bytes
  · exact LinC.str

theorem LinC.container (maj : Nat) : LinC 2 (Dec.container maj) := by
  unfold Dec.container
  have := @LinC.typeMismatch (Option Nat); have := LinC.unsigned
  linc

theorem LinC.array : LinC 2 Dec.array := LinC.container _
theorem LinC.map : LinC 2 Dec.map := LinC.container _

theorem LinC.tag : LinC 2 Dec.tag := by
  unfold Dec.tag
  have := @LinC.typeMismatch Nat; have := LinC.unsigned
  linc

theorem LinC.null : LinC 2 Dec.null := by
  unfold Dec.null
  have := @LinC.typeMismatch Unit
  linc

theorem LinC.undefined : LinC 2 Dec.undefined := by
  unfold Dec.undefined
  have := @LinC.typeMismatch Unit
  linc

theorem LinC.simple : LinC 2 Dec.simple := by
  unfold Dec.simple
  have := @LinC.typeMismatch Nat
  linc

theorem LinC.datatype : LinC 2 Dec.datatype := by
  unfold Dec.datatype
  have := LinC.typeOf
  linc

/-! ### `K * consumed + c` -/

namespace Lin'

theorem of_linC {c K : Nat} {m : Dec α} (h : LinC c m) (hK : 1 ≤ K) : Lin' K c m := by
  intro bs
  obtain ⟨n, hc, hb⟩ := h bs
  refine ⟨n, hc, fun r hr => ?_⟩
  obtain ⟨h1, h2⟩ := hb r hr
  refine ⟨h1, ?_⟩
  obtain ⟨d, hd⟩ := Nat.exists_eq_add_of_le h1
  rw [hd, Nat.mul_add]
  have : d ≤ K * d := Nat.le_mul_of_pos_left d hK
  omega

theorem mono {K K' c c' : Nat} {m : Dec α} (h : Lin' K c m) (hK : K ≤ K') (hc : c ≤ c') : Lin' K' c' m := by
  intro bs
  obtain ⟨n, hcost, hb⟩ := h bs
  refine ⟨n, hcost, fun r hr => ?_⟩
  obtain ⟨h1, h2⟩ := hb r hr
  refine ⟨h1, ?_⟩
  obtain ⟨e, he⟩ := Nat.exists_eq_add_of_le hK
  have := Nat.mul_le_mul_left e h1
  rw [he, Nat.add_mul, Nat.add_mul]
  omega

theorem pure (K c : Nat) (a : α) : Lin' K c (Pure.pure a : Dec α) := by
  intro bs
  exact ⟨0, Cost.pure a bs, fun r hr => by cases hr; omega⟩

theorem fail (K c : Nat) (e : Err) : Lin' K c (Dec.fail e : Dec α) := by
  intro bs
  exact ⟨0, Cost.fail e bs, fun r hr => by cases hr; omega⟩

theorem panic (K c : Nat) : Lin' K c (Dec.panic : Dec α) := by
  intro bs
  exact ⟨0, Cost.panic bs, fun r hr => by cases hr⟩

theorem bind {K c1 c2 : Nat} {m : Dec α} {f : α → Dec β} (hm : Lin' K c1 m) (hf : ∀ a, Lin' K c2 (f a)) :
    Lin' K (c1 + c2) (m >>= f) := by
  intro bs
  obtain ⟨n1, hc1, hb1⟩ := hm bs
  cases hmb : m bs with
  | ok a r1 =>
    obtain ⟨n2, hc2, hb2⟩ := hf a r1
    refine ⟨n1 + n2, Cost.bind_ok hmb hc1 hc2, fun r hr => ?_⟩
    rw [rest?_bind_ok hmb] at hr
    have h1 := hb1 r1 (by rw [hmb]; rfl)
    have h2 := hb2 r hr
    omega
  | err e r1 =>
    have hstop : ∀ a r, m bs ≠ .ok a r := by intro a r h; rw [hmb] at h; cases h
    refine ⟨n1, Cost.bind_stop hstop hc1, fun r hr => ?_⟩
    rw [rest?_bind_stop hstop] at hr
    have h1 := hb1 r hr
    omega
  | panic =>
    have hstop : ∀ a r, m bs ≠ .ok a r := by intro a r h; rw [hmb] at h; cases h
    refine ⟨n1, Cost.bind_stop hstop hc1, fun r hr => ?_⟩
    rw [rest?_bind_stop hstop, hmb] at hr
    cases hr

theorem ite {p : Prop} [Decidable p] {K c : Nat} {a b : Dec α} (ha : Lin' K c a) (hb : Lin' K c b) :
    Lin' K c (if p then a else b) := by
  split <;> assumption

/-- post-processing the result costs nothing. -/
theorem map {K c : Nat} {m : Dec α} (g : α → β) (h : Lin' K c m) :
    Lin' K c (m >>= fun x => Pure.pure (g x)) := by
  have := bind h (fun a => Lin'.pure K 0 (g a))
  simpa using this

/-- `read` (one step) pays for itself with the byte it consumes. -/
theorem read_then {K c : Nat} {f : UInt8 → Dec β} (hK : 1 ≤ K) (hf : ∀ a, Lin' K c (f a)) :
    Lin' K (max c 1) (Dec.read >>= f) := by
  intro bs
  cases bs with
  | nil =>
    have hstop : ∀ a r, Dec.read [] ≠ .ok a r := by intro a r h; cases h
    refine ⟨1, Cost.bind_stop hstop (Cost.read _), fun r hr => ?_⟩
    rw [rest?_bind_stop hstop] at hr; cases hr
    simp; omega
  | cons b bs =>
    obtain ⟨n2, hc2, hb2⟩ := hf b bs
    have hok : Dec.read (b :: bs) = .ok b bs := rfl
    refine ⟨1 + n2, Cost.bind_ok hok (Cost.read _) hc2, fun r hr => ?_⟩
    rw [rest?_bind_ok hok] at hr
    obtain ⟨h1, h2⟩ := hb2 r hr
    simp only [List.length_cons, Nat.mul_add, Nat.mul_one]
    omega

/-- the loop step: an element decoder that takes at most `K * (consumed + 1)` steps and consumes
    at least one byte per success, followed by the rest of the loop.  With the slope doubled
    (plus 2) the element's cost — and up to two more steps of loop overhead — is absorbed by the
    bytes it consumed, so nothing accumulates per iteration. -/
theorem consume_then {K : Nat} {m : Dec α} {f : α → Dec β} (hm : Lin K m) (hc : Consumes m 1)
    (hf : ∀ a, Lin (2 * K + 2) (f a)) : Lin' (2 * K + 2) (2 * K) (m >>= f) := by
  intro bs
  obtain ⟨n1, hc1, hb1⟩ := hm bs
  cases hmb : m bs with
  | ok a r1 =>
    obtain ⟨n2, hc2, hb2⟩ := hf a r1
    refine ⟨n1 + n2, Cost.bind_ok hmb hc1 hc2, fun r hr => ?_⟩
    rw [rest?_bind_ok hmb] at hr
    obtain ⟨h1, h1'⟩ := hb1 r1 (by rw [hmb]; rfl)
    obtain ⟨h2, h2'⟩ := hb2 r hr
    have hlen := hc bs a r1 hmb
    obtain ⟨d, hd⟩ := Nat.exists_eq_add_of_le hlen
    have e1 : K * bs.length = K * r1.length + K + K * d := by rw [hd, Nat.mul_add, Nat.mul_add]; omega
    have e2 : (2 * K + 2) * bs.length = 2 * (K * bs.length) + 2 * bs.length := by
      rw [Nat.add_mul, Nat.mul_assoc]
    have e3 : (2 * K + 2) * r1.length = 2 * (K * r1.length) + 2 * r1.length := by
      rw [Nat.add_mul, Nat.mul_assoc]
    refine ⟨by omega, ?_⟩
    omega
  | err e r1 =>
    have hstop : ∀ a r, m bs ≠ .ok a r := by intro a r h; rw [hmb] at h; cases h
    refine ⟨n1, Cost.bind_stop hstop hc1, fun r hr => ?_⟩
    rw [rest?_bind_stop hstop] at hr
    obtain ⟨h1, h1'⟩ := hb1 r hr
    have := Nat.mul_le_mul_left K h1
    have e2 : (2 * K + 2) * bs.length = 2 * (K * bs.length) + 2 * bs.length := by
      rw [Nat.add_mul, Nat.mul_assoc]
    have e3 : (2 * K + 2) * r.length = 2 * (K * r.length) + 2 * r.length := by
      rw [Nat.add_mul, Nat.mul_assoc]
    refine ⟨h1, ?_⟩
    omega
  | panic =>
    have hstop : ∀ a r, m bs ≠ .ok a r := by intro a r h; rw [hmb] at h; cases h
    refine ⟨n1, Cost.bind_stop hstop hc1, fun r hr => ?_⟩
    rw [rest?_bind_stop hstop, hmb] at hr
    cases hr

end Lin'

theorem Lin'.monoC {K c c' : Nat} {m : Dec α} (h : Lin' K c m) (hc : c ≤ c') : Lin' K c' m :=
  h.mono (Nat.le_refl _) hc

theorem Lin'.bindL {K c1 N : Nat} {m : Dec α} {f : α → Dec β} (hm : Lin' K c1 m) (hle : c1 ≤ N)
    (hf : ∀ a, Lin' K (N - c1) (f a)) : Lin' K N (m >>= f) :=
  (Lin'.bind hm hf).monoC (by omega)

/-- a leaf at slope `K`: an accessor (`LinC`, needs `1 ≤ K` in context) or a hypothesis. -/
macro "linkleaf" : tactic =>
  `(tactic| first
      | exact Lin'.of_linC (by linleaf) (by omega)
      | assumption | solve_by_elim -exfalso -symm (maxDepth := 2))

/-- discharge `Lin' K N m` for straight-line code around already-analysed parts. -/
macro "link" : tactic =>
  `(tactic| repeat' (first
      | exact Lin'.pure _ _ _ | exact Lin'.fail _ _ _ | exact Lin'.panic _ _
      | exact Lin'.monoC (by linkleaf) (by omega)
      | refine Lin'.bindL (by linkleaf) (by omega) (fun _ => ?_)
      | apply Lin'.ite | split | dsimp only))

theorem Lin.of_linC {c K : Nat} {m : Dec α} (h : LinC c m) (hK : 1 ≤ K) (hc : c ≤ K) : Lin K m :=
  (Lin'.of_linC h hK).mono (Nat.le_refl _) hc

end Dec
end Minicbor
