/-
  What an `Attributes` map "knows", as a set of atomic facts, and the key monotonicity lemma:
  a successful `try_insert` adds exactly the facts of the inserted value — nothing is lost,
  nothing is changed, whatever absorbs whatever.  Consequence (Thm/Attrs.lean): the meaning of an
  ACCEPTED field definition is a function of the set of items written, not of their order.
-/
import Minicbor.Lemmas.AttrsInv

namespace Minicbor.Attrs

inductive Fact
  | enc (p : Path) | isNil (p : Path) | dec (p : Path) | nil (p : Path) | modu (p : Path) | hasNil | cborLen (p : Path)
  | index (b : Bool) (i : Nat) | tag (t : Nat) | skip | encoding (e : Enc) | indexOnly | transparent
  deriving DecidableEq

def CC.facts : CC → List Fact
  | .enc e n => .enc e :: (n.map Fact.isNil).toList
  | .dec d m => .dec d :: (m.map Fact.nil).toList
  | .both e n d m => .enc e :: .dec d :: ((n.map Fact.isNil).toList ++ (m.map Fact.nil).toList)
  | .module p b => .modu p :: (if b then [.hasNil] else [])

def Cl.facts (c : Cl) : List Fact :=
  (c.codec.map CC.facts).getD [] ++ (c.isNil.map Fact.isNil).toList ++ (c.nil.map Fact.nil).toList
    ++ (if c.hasNil then [.hasNil] else []) ++ (c.cborLen.map Fact.cborLen).toList

/-- (type-parameter and context bounds carry no fact: they do not influence what a field means) -/
def Rs.facts (r : Rs) : List Fact :=
  (r.encoding.map Fact.encoding).toList ++ (r.index.map fun p => Fact.index p.1 p.2).toList
    ++ (if r.indexOnly then [.indexOnly] else []) ++ (if r.transparent then [.transparent] else [])
    ++ (r.tag.map Fact.tag).toList ++ (if r.skip then [.skip] else [])

def A.facts (a : A) : List Fact := a.cl.facts ++ a.rs.facts

def Val.facts : Val → List Fact
  | .codec c => c.facts
  | .isNil z => [.isNil z]
  | .nil z => [.nil z]
  | .hasNil => [.hasNil]
  | .cborLen p => [.cborLen p]
  | .encoding e => [.encoding e]
  | .index b i => [.index b i]
  | .indexOnly => [.indexOnly]
  | .transparent => [.transparent]
  | .tag t => [.tag t]
  | .skip => [.skip]
  | .typeParam _ => []
  | .contextBound _ => []

set_option hygiene false in
macro "split_cl3" : tactic => `(tactic|
  (rcases codec with _ | ⟨e0, _ | n0⟩ | ⟨d0, _ | m0⟩ | ⟨e0, _ | n0, d0, _ | m0⟩ | ⟨p0, _ | _⟩ <;>
   cases nil <;> cases isNil <;> cases hasNil <;> cases cborLen))

set_option hygiene false in
macro "fin_facts" : tactic => `(tactic|
  (simp [insertCl, CC.isModule] at h <;> subst h <;> intro f <;> simp [Cl.facts, CC.facts, Val.facts] <;> (try grind)))

set_option maxHeartbeats 4000000 in
theorem insertCl_facts_isNil (c c' : Cl) (z : Path) (h : insertCl c (.isNil z) = .ok c') :
    ∀ f, f ∈ c'.facts ↔ (f ∈ c.facts ∨ f ∈ (Val.isNil z).facts) := by
  obtain ⟨codec, nil, isNil, hasNil, cborLen⟩ := c
  split_cl3 <;> fin_facts

set_option maxHeartbeats 4000000 in
theorem insertCl_facts_nil (c c' : Cl) (z : Path) (h : insertCl c (.nil z) = .ok c') :
    ∀ f, f ∈ c'.facts ↔ (f ∈ c.facts ∨ f ∈ (Val.nil z).facts) := by
  obtain ⟨codec, nil, isNil, hasNil, cborLen⟩ := c
  split_cl3 <;> fin_facts

set_option maxHeartbeats 4000000 in
theorem insertCl_facts_hasNil (c c' : Cl) (h : insertCl c .hasNil = .ok c') :
    ∀ f, f ∈ c'.facts ↔ (f ∈ c.facts ∨ f ∈ Val.hasNil.facts) := by
  obtain ⟨codec, nil, isNil, hasNil, cborLen⟩ := c
  split_cl3 <;> fin_facts

set_option maxHeartbeats 4000000 in
theorem insertCl_facts_cborLen (c c' : Cl) (q : Path) (h : insertCl c (.cborLen q) = .ok c') :
    ∀ f, f ∈ c'.facts ↔ (f ∈ c.facts ∨ f ∈ (Val.cborLen q).facts) := by
  obtain ⟨codec, nil, isNil, hasNil, cborLen⟩ := c
  split_cl3 <;> fin_facts

set_option maxHeartbeats 8000000 in
theorem insertCl_facts_codec (c c' : Cl) (cc : CC) (h : insertCl c (.codec cc) = .ok c') :
    ∀ f, f ∈ c'.facts ↔ (f ∈ c.facts ∨ f ∈ (Val.codec cc).facts) := by
  obtain ⟨codec, nil, isNil, hasNil, cborLen⟩ := c
  rcases cc with ⟨e, _ | n⟩ | ⟨d, _ | m⟩ | ⟨e, _ | n, d, _ | m⟩ | ⟨p, _ | _⟩
  all_goals (split_cl3 <;> fin_facts)

/-- the codec cluster: a successful insertion adds exactly the facts of the value. -/
theorem insertCl_facts (c c' : Cl) (v : Val) (hk : isCluster v.kind = true) (h : insertCl c v = .ok c') :
    ∀ f, f ∈ c'.facts ↔ (f ∈ c.facts ∨ f ∈ v.facts) := by
  cases v <;> simp [isCluster, Val.kind] at hk
  · exact insertCl_facts_codec c c' _ h
  · exact insertCl_facts_nil c c' _ h
  · exact insertCl_facts_isNil c c' _ h
  · exact insertCl_facts_hasNil c c' h
  · exact insertCl_facts_cborLen c c' _ h

/-- the independent kinds: likewise (bounds carry no fact). -/
theorem insertRs_facts (r r' : Rs) (v : Val) (hk : isCluster v.kind = false) (h : insertRs r v = .ok r') :
    ∀ f, f ∈ r'.facts ↔ (f ∈ r.facts ∨ f ∈ v.facts) := by
  obtain ⟨encoding, index, indexOnly, transparent, typeParam, contextBound, tag, skip⟩ := r
  cases v <;> simp [isCluster, Val.kind] at hk
  · cases encoding <;> simp [insertRs] at h; subst h; intro f; simp [Rs.facts, Val.facts]; grind
  · cases index <;> simp [insertRs] at h; subst h; intro f; simp [Rs.facts, Val.facts]; grind
  · cases indexOnly <;> simp [insertRs] at h; subst h; intro f; simp [Rs.facts, Val.facts]; grind
  · cases transparent <;> simp [insertRs] at h; subst h; intro f; simp [Rs.facts, Val.facts]; grind
  · rename_i p
    cases typeParam with
    | none => simp [insertRs] at h; subst h; intro f; simp [Rs.facts, Val.facts]
    | some cb =>
      simp only [insertRs] at h
      cases hm : TP.merge cb p with
      | error e => rw [hm] at h; cases h
      | ok t => rw [hm] at h; cases h; intro f; simp [Rs.facts, Val.facts]
  · cases contextBound <;> simp [insertRs] at h <;> subst h <;> intro f <;> simp [Rs.facts, Val.facts]
  · cases tag <;> simp [insertRs] at h; subst h; intro f; simp [Rs.facts, Val.facts]; grind
  · cases skip <;> simp [insertRs] at h; subst h; intro f; simp [Rs.facts, Val.facts]; grind

/-- **monotonicity of `try_insert`**: success adds exactly the facts of the value. -/
theorem tryInsert_facts (l : Level) (a a' : A) (v : Val) (h : tryInsert l a v = .ok a') :
    ∀ f, f ∈ a'.facts ↔ (f ∈ a.facts ∨ f ∈ v.facts) := by
  unfold tryInsert at h
  split at h
  · cases h
  · split at h
    · rename_i hc
      cases h2 : insertCl a.cl v with
      | error e => rw [h2] at h; cases h
      | ok c =>
        rw [h2] at h; cases h
        intro f
        have := insertCl_facts a.cl c v hc h2 f
        simp only [A.facts, List.mem_append, this]; grind
    · rename_i hc
      cases h2 : insertRs a.rs v with
      | error e => rw [h2] at h; cases h
      | ok r =>
        rw [h2] at h; cases h
        intro f
        have := insertRs_facts a.rs r v (by simpa using hc) h2 f
        simp only [A.facts, List.mem_append, this]; grind

def factsOfVals (vs : List Val) : List Fact := vs.flatMap Val.facts

theorem insertAll_facts (l : Level) : ∀ (vs : List Val) (a a' : A), insertAll l a vs = .ok a' →
    ∀ f, f ∈ a'.facts ↔ (f ∈ a.facts ∨ f ∈ factsOfVals vs)
  | [], a, a', h => by simp [insertAll] at h; subst h; intro f; simp [factsOfVals]
  | v :: vs, a, a', h => by
    simp only [insertAll] at h
    cases h1 : tryInsert l a v with
    | error e => rw [h1] at h; cases h
    | ok a1 =>
      rw [h1] at h
      intro f
      have s1 := tryInsert_facts l a a1 v h1 f
      have s2 := insertAll_facts l vs a1 a' h f
      simp only [factsOfVals, List.flatMap_cons, List.mem_append] at s2 ⊢
      rw [s2, s1]; grind

/-- the facts an item states (those of the value it parses to). -/
def Item.facts (it : Item) : List Fact :=
  match it.toVal with
  | .ok v => v.facts
  | .error _ => []

def factsOfItems (its : List Item) : List Fact := its.flatMap Item.facts

theorem insertItems_facts (l : Level) : ∀ (its : List Item) (a a' : A), insertItems l a its = .ok a' →
    ∀ f, f ∈ a'.facts ↔ (f ∈ a.facts ∨ f ∈ factsOfItems its)
  | [], a, a', h => by simp [insertItems] at h; subst h; intro f; simp [factsOfItems]
  | it :: its, a, a', h => by
    simp only [insertItems] at h
    cases h0 : it.toVal with
    | error e => rw [h0] at h; cases h
    | ok v =>
      rw [h0] at h; simp only at h
      cases h1 : tryInsert l a v with
      | error e => rw [h1] at h; cases h
      | ok a1 =>
        rw [h1] at h
        intro f
        have s1 := tryInsert_facts l a a1 v h1 f
        have s2 := insertItems_facts l its a1 a' h f
        simp only [factsOfItems, List.flatMap_cons, List.mem_append, Item.facts, h0] at s2 ⊢
        rw [s2, s1]; grind

/-- the items an attribute contributes. -/
def Attr.items : Attr → List Item
  | .n i => [.n i]
  | .b i => [.b i]
  | .cbor its => its
  | .other => []

theorem empty_facts : ({} : A).facts = [] := rfl

/-- the map parsed from one attribute knows exactly what its items state. -/
theorem ofAttr_facts (l : Level) (att : Attr) (m : A) (h : ofAttr l att = .ok m) :
    ∀ f, f ∈ m.facts ↔ f ∈ factsOfItems att.items := by
  cases att with
  | n i =>
    have : insertItems l {} [Item.n i] = .ok m := by
      simp only [ofAttr] at h
      simp only [insertItems, Item.toVal]
      cases h1 : parseIdx false i with
      | error e => rw [h1] at h; cases h
      | ok v => rw [h1] at h; simp only [h]
    intro f; have := insertItems_facts l _ _ _ this f; simpa [empty_facts, Attr.items] using this
  | b i =>
    have : insertItems l {} [Item.b i] = .ok m := by
      simp only [ofAttr] at h
      simp only [insertItems, Item.toVal]
      cases h1 : parseIdx true i with
      | error e => rw [h1] at h; cases h
      | ok v => rw [h1] at h; simp only [h]
    intro f; have := insertItems_facts l _ _ _ this f; simpa [empty_facts, Attr.items] using this
  | cbor its =>
    intro f; have := insertItems_facts l its {} m h f; simpa [empty_facts, Attr.items] using this
  | other => simp [ofAttr] at h; subst h; intro f; simp [empty_facts, Attr.items, factsOfItems]

/-- the facts of a map are those of its entries. -/
theorem entries_facts (a : A) : ∀ f, f ∈ factsOfVals a.entries ↔ f ∈ a.facts := by
  intro f
  simp only [factsOfVals, List.mem_flatMap]
  constructor
  · rintro ⟨v, hv, hf⟩
    rw [mem_entries] at hv
    obtain ⟨⟨codec, nil, isNil, hasNil, cborLen⟩, ⟨encoding, index, indexOnly, transparent, typeParam, contextBound, tag, skip⟩⟩ := a
    cases v <;> simp only [A.codec, A.encoding, A.index, A.indexOnly, A.transparent, A.typeParam,
      A.nil, A.isNil, A.hasNil, A.contextBound, A.cborLen, A.tag, A.skip] at hv <;> subst hv <;>
      simp [Val.facts] at hf <;> simp [A.facts, Cl.facts, Rs.facts, hf]
  · intro hf
    obtain ⟨⟨codec, nil, isNil, hasNil, cborLen⟩, ⟨encoding, index, indexOnly, transparent, typeParam, contextBound, tag, skip⟩⟩ := a
    simp only [A.facts, Cl.facts, Rs.facts, List.mem_append] at hf
    rcases hf with ((((h | h) | h) | h) | h) | (((((h | h) | h) | h) | h) | h)
    · cases codec with
      | none => simp at h
      | some c => exact ⟨.codec c, by simp [mem_entries, A.codec], by simpa [Val.facts] using h⟩
    · cases isNil with
      | none => simp at h
      | some z => exact ⟨.isNil z, by simp [mem_entries, A.isNil], by simpa [Val.facts] using h⟩
    · cases nil with
      | none => simp at h
      | some z => exact ⟨.nil z, by simp [mem_entries, A.nil], by simpa [Val.facts] using h⟩
    · cases hasNil with
      | false => simp at h
      | true => exact ⟨.hasNil, by simp [mem_entries, A.hasNil], by simpa [Val.facts] using h⟩
    · cases cborLen with
      | none => simp at h
      | some z => exact ⟨.cborLen z, by simp [mem_entries, A.cborLen], by simpa [Val.facts] using h⟩
    · cases encoding with
      | none => simp at h
      | some z => exact ⟨.encoding z, by simp [mem_entries, A.encoding], by simpa [Val.facts] using h⟩
    · cases index with
      | none => simp at h
      | some z => exact ⟨.index z.1 z.2, by simp [mem_entries, A.index], by simpa [Val.facts] using h⟩
    · cases indexOnly with
      | false => simp at h
      | true => exact ⟨.indexOnly, by simp [mem_entries, A.indexOnly], by simpa [Val.facts] using h⟩
    · cases transparent with
      | false => simp at h
      | true => exact ⟨.transparent, by simp [mem_entries, A.transparent], by simpa [Val.facts] using h⟩
    · cases tag with
      | none => simp at h
      | some z => exact ⟨.tag z, by simp [mem_entries, A.tag], by simpa [Val.facts] using h⟩
    · cases skip with
      | false => simp at h
      | true => exact ⟨.skip, by simp [mem_entries, A.skip], by simpa [Val.facts] using h⟩

def allItems (attrs : List Attr) : List Item := attrs.flatMap Attr.items

/-- **what the accumulated map knows** after `try_from_iter`'s merging, under ANY iteration order:
    the facts of the start map and everything the attributes' items state. -/
theorem mergeAttrs_facts (ord : Order) (hord : ∀ m : A, (ord m).Perm m.entries) (l : Level) :
    ∀ (attrs : List Attr) (acc a : A), mergeAttrs ord l acc attrs = .ok a →
    ∀ f, f ∈ a.facts ↔ (f ∈ acc.facts ∨ f ∈ factsOfItems (allItems attrs))
  | [], acc, a, h => by simp [mergeAttrs] at h; subst h; intro f; simp [allItems, factsOfItems]
  | att :: rest, acc, a, h => by
    simp only [mergeAttrs] at h
    cases hm : ofAttr l att with
    | error e => rw [hm] at h; cases h
    | ok m =>
      rw [hm] at h; simp only at h
      cases h1 : insertAll l acc (ord m) with
      | error e => rw [h1] at h; cases h
      | ok acc1 =>
        rw [h1] at h
        intro f
        have s1 := insertAll_facts l (ord m) acc acc1 h1 f
        have s2 := mergeAttrs_facts ord hord l rest acc1 a h f
        have s3 := ofAttr_facts l att m hm f
        have s4 := entries_facts m f
        have s5 : f ∈ factsOfVals (ord m) ↔ f ∈ factsOfVals m.entries := by
          simp only [factsOfVals, List.mem_flatMap]
          constructor
          · rintro ⟨v, hv, hf⟩; exact ⟨v, (hord m).mem_iff.1 hv, hf⟩
          · rintro ⟨v, hv, hf⟩; exact ⟨v, (hord m).mem_iff.2 hv, hf⟩
        simp only [allItems, List.flatMap_cons, factsOfItems, List.flatMap_append, List.mem_append] at s2 ⊢
        simp only [factsOfItems] at s3
        rw [s2, s1, s5, s4, s3]; grind

end Minicbor.Attrs
