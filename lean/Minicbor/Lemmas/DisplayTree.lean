/-
  `Shows (toks w) (render w)` for every valid wire tree `w`, by mutual induction over
  `WItem` / `List WItem`, using the abstract sequence lemmas of `DisplayDoc.lean`.
-/
import Minicbor.Lemmas.DisplayDoc

namespace Minicbor
open C11 C19

/-! ### leaves -/

theorem good_plain (t : Token) (ps : List Piece) (hp : Token.plain t = true) (hb : t ≠ Token.brk)
    (hr : t.render = ps) : Good ([t], ps) := by
  refine ⟨?_, t, [], rfl, hb⟩
  subst hr; exact shows_plain t hp

theorem good_uint (w : Width) (n : Nat) : Good ([uintTok w n], [.lit (toString n)]) :=
  good_plain _ _ (by cases w <;> rfl) (by cases w <;> simp [uintTok]) (by cases w <;> rfl)

theorem good_nint (w : Width) (n : Nat) : Good ([nintTok w n], [.lit (toString (-1 - (n : Int)))]) := by
  apply good_plain
  · cases w <;> simp only [nintTok] <;> (try split) <;> rfl
  · cases w <;> simp only [nintTok] <;> (try split) <;> simp
  · cases w <;> simp only [nintTok] <;> (try split) <;> rfl

theorem good_bytes (b : Bytes) : Good ([Token.bytes b], [.lit (hexBytes b)]) :=
  good_plain _ _ rfl (by simp) rfl

theorem good_string (b : Bytes) : Good ([Token.string b], quoted b) :=
  good_plain _ _ rfl (by simp) rfl

theorem good_simple (n : Nat) : Good ([simpleTok n], render (.simple n)) := by
  apply good_plain
  · unfold simpleTok; (repeat' split) <;> rfl
  · unfold simpleTok; (repeat' split) <;> simp
  · unfold simpleTok; simp only [render]
    (repeat' split) <;> first | rfl | omega

/-! ### chunked strings -/

def chunkItems (text : Bool) (cs : List (Width × Bytes)) : List DItem :=
  cs.map fun c => if text then ([Token.string c.2], quoted c.2) else ([Token.bytes c.2], [.lit (hexBytes c.2)])

theorem chunkItems_good (text : Bool) (cs : List (Width × Bytes)) : ∀ x ∈ chunkItems text cs, Good x := by
  intro x hx
  simp only [chunkItems, List.mem_map] at hx
  obtain ⟨c, _, rfl⟩ := hx
  cases text
  · exact good_bytes c.2
  · exact good_string c.2

theorem chunkItems_toks (text : Bool) (cs : List (Width × Bytes)) :
    flatToks (chunkItems text cs) = chunkToks text cs := by
  induction cs with
  | nil => rfl
  | cons c cs ih =>
    obtain ⟨w, b⟩ := c
    have : chunkItems text ((w, b) :: cs) = (if text then ([Token.string b], quoted b) else ([Token.bytes b], [.lit (hexBytes b)])) :: chunkItems text cs := rfl
    rw [this, flatToks_cons, ih]
    cases text <;> rfl

theorem chunkItems_pieces_bytes (cs : List (Width × Bytes)) :
    (chunkItems false cs).map (·.2) = cs.map (fun c => [Piece.lit (hexBytes c.2)]) := by
  simp [chunkItems]

theorem chunkItems_pieces_text (cs : List (Width × Bytes)) :
    (chunkItems true cs).map (·.2) = cs.map (fun c => quoted c.2) := by
  simp [chunkItems]

theorem isBreak_toks (ts : List Token) (it : List TokItem) (t : Token) (r : List Token) (h : ts = t :: r) :
    isBreak (ts.map TokItem.tok ++ it).head? = (t == Token.brk) := by
  subst h
  cases t <;> rfl

/-- an indefinite-length string: `beginBytes` / `beginString`, the chunks, `break`. -/
theorem shows_chunked (text : Bool) (cs : List (Width × Bytes)) :
    Shows ((if text then Token.beginString else Token.beginBytes) :: (chunkToks text cs ++ [Token.brk]))
      (if cs.isEmpty then [.lit (if text then "\"\"_" else "''_")]
       else [.lit "(_ "] ++ commaSep ((chunkItems text cs).map (·.2)) ++ [.lit ")"]) := by
  intro st it out
  cases cs with
  | nil =>
    cases text
    · exact Reach.step' (em := [.lit "''_"]) rfl rfl
    · exact Reach.step' (em := [.lit "\"\"_"]) rfl rfl
  | cons c cs =>
    have hg := chunkItems_good text (c :: cs)
    have hne : ∃ t r, chunkToks text (c :: cs) ++ [Token.brk] = t :: r ∧ t ≠ Token.brk := by
      obtain ⟨w, b⟩ := c
      cases text
      · exact ⟨Token.bytes b, _, rfl, by simp⟩
      · exact ⟨Token.string b, _, rfl, by simp⟩
    obtain ⟨t, r, htr, ht⟩ := hne
    have hb := isBreak_toks _ it t r htr
    have hb' : isBreak ((chunkToks text (c :: cs) ++ [Token.brk]).map TokItem.tok ++ it).head? = false := by
      rw [hb]; simpa using ht
    cases text
    · have h1 : Reach (.N :: st) ((Token.beginBytes :: (chunkToks false (c :: cs) ++ [Token.brk])).map TokItem.tok ++ it) out
          (.B :: st) ((chunkToks false (c :: cs) ++ [Token.brk]).map TokItem.tok ++ it) (out ++ [.lit "(_ "]) := by
        apply Reach.step
        simp only [List.map_cons, List.cons_append, dstep, nstep]
        rw [if_neg (by simpa using hb')]
      have h2 := reach_indef_seq .B _ ")" (fun _ _ => rfl) (chunkItems false (c :: cs)) hg st it (out ++ [.lit "(_ "])
      rw [chunkItems_toks] at h2
      exact (h1.trans h2).out_eq (by simp)
    · have h1 : Reach (.N :: st) ((Token.beginString :: (chunkToks true (c :: cs) ++ [Token.brk])).map TokItem.tok ++ it) out
          (.D :: st) ((chunkToks true (c :: cs) ++ [Token.brk]).map TokItem.tok ++ it) (out ++ [.lit "(_ "]) := by
        apply Reach.step
        simp only [List.map_cons, List.cons_append, dstep, nstep]
        rw [if_neg (by simpa using hb')]
      have h2 := reach_indef_seq .D _ ")" (fun _ _ => rfl) (chunkItems true (c :: cs)) hg st it (out ++ [.lit "(_ "])
      rw [chunkItems_toks] at h2
      exact (h1.trans h2).out_eq (by simp)

/-! ### containers, given their elements -/

def ditems (ws : List WItem) : List DItem := ws.map fun w => (toks w, render w)

theorem ditems_toks (ws : List WItem) : flatToks (ditems ws) = toksL ws := by
  induction ws with
  | nil => rfl
  | cons w ws ih =>
    have : ditems (w :: ws) = (toks w, render w) :: ditems ws := rfl
    rw [this, flatToks_cons, ih]; rfl

theorem ditems_render (ws : List WItem) : (ditems ws).map (·.2) = renderL ws := by
  induction ws with
  | nil => rfl
  | cons w ws ih =>
    have : ditems (w :: ws) = (toks w, render w) :: ditems ws := rfl
    rw [this, List.map_cons, ih]; rfl

theorem ditems_length (ws : List WItem) : (ditems ws).length = ws.length := by simp [ditems]

theorem shows_array (xs : List WItem) (hg : ∀ x ∈ ditems xs, Good x) :
    Shows (Token.array xs.length :: toksL xs) ([.lit "["] ++ commaSep (renderL xs) ++ [.lit "]"]) := by
  intro st it out
  have h1 : Reach (.N :: st) ((Token.array xs.length :: toksL xs).map TokItem.tok ++ it) out
      (.A (some xs.length) :: st) ((toksL xs).map TokItem.tok ++ it) (out ++ [.lit "["]) := Reach.step rfl
  have h2 := reach_def_seq (ditems xs) hg st it (out ++ [.lit "["])
  rw [ditems_toks, ditems_render, ditems_length] at h2
  exact (h1.trans h2).out_eq (by simp)

theorem shows_arrayI (xs : List WItem) (hg : ∀ x ∈ ditems xs, Good x) :
    Shows (Token.beginArray :: (toksL xs ++ [Token.brk])) ([.lit "[_ "] ++ commaSep (renderL xs) ++ [.lit "]"]) := by
  intro st it out
  have h1 : Reach (.N :: st) ((Token.beginArray :: (toksL xs ++ [Token.brk])).map TokItem.tok ++ it) out
      (.A none :: st) ((toksL xs ++ [Token.brk]).map TokItem.tok ++ it) (out ++ [.lit "[_ "]) := Reach.step rfl
  have h2 := reach_indef_seq (.A none) _ "]" (fun _ _ => rfl) (ditems xs) hg st it (out ++ [.lit "[_ "])
  rw [ditems_toks, ditems_render] at h2
  exact (h1.trans h2).out_eq (by simp)

theorem shows_map (kvs : List WItem) (hev : kvs.length % 2 = 0) (hg : ∀ x ∈ ditems kvs, Good x) :
    Shows (Token.map (kvs.length / 2) :: toksL kvs) ([.lit "{"] ++ kvSep (renderL kvs) ++ [.lit "}"]) := by
  intro st it out
  have h1 : Reach (.N :: st) ((Token.map (kvs.length / 2) :: toksL kvs).map TokItem.tok ++ it) out
      (.M (some (kvs.length / 2)) :: st) ((toksL kvs).map TokItem.tok ++ it) (out ++ [.lit "{"]) := Reach.step rfl
  have h2 := reach_def_map (kvs.length / 2) (ditems kvs) (by rw [ditems_length]; omega) hg st it (out ++ [.lit "{"])
  rw [ditems_toks, ditems_render] at h2
  exact (h1.trans h2).out_eq (by simp)

theorem shows_mapI (kvs : List WItem) (hev : kvs.length % 2 = 0) (hg : ∀ x ∈ ditems kvs, Good x) :
    Shows (Token.beginMap :: (toksL kvs ++ [Token.brk])) ([.lit "{_ "] ++ kvSep (renderL kvs) ++ [.lit "}"]) := by
  intro st it out
  have h1 : Reach (.N :: st) ((Token.beginMap :: (toksL kvs ++ [Token.brk])).map TokItem.tok ++ it) out
      (.M none :: st) ((toksL kvs ++ [Token.brk]).map TokItem.tok ++ it) (out ++ [.lit "{_ "]) := Reach.step rfl
  have h2 := reach_indef_map (kvs.length / 2) (ditems kvs) (by rw [ditems_length]; omega) hg st it (out ++ [.lit "{_ "])
  rw [ditems_toks, ditems_render] at h2
  exact (h1.trans h2).out_eq (by simp)

theorem shows_tag (n : Nat) (x : DItem) (hx : Good x) :
    Shows (Token.tag n :: x.1) ([.lit (toString n ++ "(")] ++ x.2 ++ [.lit ")"]) := by
  intro st it out
  have h1 : Reach (.N :: st) ((Token.tag n :: x.1).map TokItem.tok ++ it) out
      (.T :: st) (x.1.map TokItem.tok ++ it) (out ++ [.lit (toString n ++ "(")]) := Reach.step rfl
  have h2 : Reach (.T :: st) (x.1.map TokItem.tok ++ it) (out ++ [.lit (toString n ++ "(")])
      (.N :: .S ")" :: st) (x.1.map TokItem.tok ++ it) (out ++ [.lit (toString n ++ "(")]) :=
    Reach.step' (em := []) rfl (by simp)
  have h3 := hx.1 (.S ")" :: st) it (out ++ [.lit (toString n ++ "(")])
  have h4 := reach_S ")" st it (out ++ [.lit (toString n ++ "(")] ++ x.2)
  exact (((h1.trans h2).trans h3).trans h4).out_eq (by simp)

theorem good_of_shows (t : Token) (r : List Token) (ps : List Piece) (h : Shows (t :: r) ps)
    (ht : t ≠ Token.brk) : Good (t :: r, ps) := ⟨h, t, r, rfl, ht⟩

/-! ### the tree -/

mutual
theorem good_item (w : WItem) (hv : w.valid = true) : Good (toks w, render w) := by
  cases w with
  | uint w n => exact good_uint w n
  | nint w n => exact good_nint w n
  | bytes w b => exact good_bytes b
  | text w b => exact good_string b
  | bytesI cs =>
    have := shows_chunked false cs
    rw [chunkItems_pieces_bytes] at this
    exact good_of_shows _ _ _ (by simpa only [render, toks, Bool.false_eq_true, if_false] using this) (by simp)
  | textI cs =>
    have := shows_chunked true cs
    rw [chunkItems_pieces_text] at this
    exact good_of_shows _ _ _ (by simpa only [render, toks, if_true] using this) (by simp)
  | array w xs =>
    simp only [WItem.valid, Bool.and_eq_true] at hv
    exact good_of_shows _ _ _ (shows_array xs (good_items xs hv.2)) (by simp)
  | arrayI xs =>
    simp only [WItem.valid] at hv
    exact good_of_shows _ _ _ (shows_arrayI xs (good_items xs hv)) (by simp)
  | map w kvs =>
    simp only [WItem.valid, Bool.and_eq_true, beq_iff_eq] at hv
    exact good_of_shows _ _ _ (shows_map kvs hv.1.1 (good_items kvs hv.2)) (by simp)
  | mapI kvs =>
    simp only [WItem.valid, Bool.and_eq_true, beq_iff_eq] at hv
    exact good_of_shows _ _ _ (shows_mapI kvs hv.1 (good_items kvs hv.2)) (by simp)
  | tag w n x =>
    simp only [WItem.valid, Bool.and_eq_true] at hv
    exact good_of_shows _ _ _ (shows_tag n (toks x, render x) (good_item x hv.2)) (by simp)
  | simple n => exact good_simple n
  | f16 b => exact good_plain _ _ rfl (by simp) rfl
  | f32 b => exact good_plain _ _ rfl (by simp) rfl
  | f64 b => exact good_plain _ _ rfl (by simp) rfl
theorem good_items (ws : List WItem) (hv : validAll ws = true) : ∀ x ∈ ditems ws, Good x := by
  cases ws with
  | nil => intro x hx; simp [ditems] at hx
  | cons w ws =>
    simp only [validAll, Bool.and_eq_true] at hv
    intro x hx
    have : ditems (w :: ws) = (toks w, render w) :: ditems ws := rfl
    rw [this, List.mem_cons] at hx
    rcases hx with rfl | hx
    · exact good_item w hv.1
    · exact good_items ws hv.2 x hx
end

end Minicbor

namespace Minicbor
open C11 C19

/-! ### the outer loop on a sequence of good items -/

/-- one round of the outer loop on a good item, with any sufficient fuel. -/
theorem displayInner_item (x : DItem) (hx : Good x) (inner : Nat) (it : List TokItem) (out : List Piece)
    (hin : 6 * (x.1.length + it.length) + 1 < inner) :
    displayInner inner [.N] (x.1.map TokItem.tok ++ it) out = some (out ++ x.2, it, false) := by
  obtain ⟨k, hk⟩ := hx.1 [] it out
  have h1 : displayInner (1 + k) [.N] (x.1.map TokItem.tok ++ it) out = some (out ++ x.2, it, false) := by
    rw [hk 1]; exact displayInner_nil 0 it _
  have hmu := mu_le [.N] (x.1.map TokItem.tok ++ it)
  simp only [List.length_cons, List.length_nil, List.length_append, List.length_map] at hmu
  obtain ⟨o, i, b, h2, _⟩ := displayInner_total inner [.N] (x.1.map TokItem.tok ++ it) out (by omega)
  have e1 := displayInner_mono _ _ _ _ _ h1 inner
  have e2 := displayInner_mono _ _ _ _ _ h2 (1 + k)
  rw [show 1 + k + inner = inner + (1 + k) by omega, e2] at e1
  rw [h2, e1]

theorem displayOuter_cons (fuel inner : Nat) (x : TokItem) (it : List TokItem) (out : List Piece) :
    displayOuter (fuel + 1) inner (x :: it) out =
      match displayInner inner [.N] (x :: it) out with
      | none => none
      | some (out', _, true) => some out'
      | some (out', it', false) => displayOuter fuel inner it' out' := by
  conv => lhs; unfold displayOuter
  rfl

theorem displayOuter_nil (fuel inner : Nat) (out : List Piece) :
    displayOuter (fuel + 1) inner [] out = some out := by
  unfold displayOuter; rfl

theorem good_length (xs : List DItem) (hg : ∀ x ∈ xs, Good x) : xs.length ≤ (flatToks xs).length := by
  induction xs with
  | nil => simp
  | cons a l ih =>
    rw [flatToks_cons, List.length_append, List.length_cons]
    obtain ⟨_, t, r, htr, _⟩ := hg a (by simp)
    have := ih (fun y hy => hg y (by simp [hy]))
    rw [htr]; simp only [List.length_cons]; omega

theorem displayOuter_items (xs : List DItem) (hg : ∀ x ∈ xs, Good x) (fuel inner : Nat) (out : List Piece)
    (hf : xs.length < fuel) (hin : 6 * (flatToks xs).length + 1 < inner) :
    displayOuter fuel inner ((flatToks xs).map TokItem.tok) out = some (out ++ (xs.map (·.2)).flatten) := by
  induction xs generalizing fuel out with
  | nil =>
    cases fuel with
    | zero => simp at hf
    | succ f => simp [flatToks, displayOuter_nil]
  | cons x xs ih =>
    cases fuel with
    | zero => simp at hf
    | succ f =>
      have hx := hg x (by simp)
      obtain ⟨t, r, htr, _⟩ := hx.2
      rw [flatToks_cons, List.length_append] at hin
      have h1 := displayInner_item x hx inner ((flatToks xs).map TokItem.tok) out
        (by simp only [List.length_map]; omega)
      rw [flatToks_cons, List.map_append]
      have hne : x.1.map TokItem.tok ++ (flatToks xs).map TokItem.tok
          = TokItem.tok t :: (r.map TokItem.tok ++ (flatToks xs).map TokItem.tok) := by rw [htr]; rfl
      rw [hne, displayOuter_cons, ← hne, h1]
      simp only []
      rw [ih (fun y hy => hg y (by simp [hy])) f (out ++ x.2) (by simp only [List.length_cons] at hf; omega) (by omega)]
      simp

end Minicbor
