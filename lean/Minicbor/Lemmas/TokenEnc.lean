/-
  Re-encoding the tokens of a valid wire tree: every token of `C11.toks w` is written by
  `Token::encode` as the preferred head of the same value, so the token list of `w` encodes to
  `encW (canon w)`.
-/
import Minicbor.Lemmas.TokenSpec
import Minicbor.Lemmas.TokenHalf
import Minicbor.Lemmas.Head
import Minicbor.Thm.C03

namespace Minicbor
open C11

theorem encodeTokens_append (a b : List Token) :
    encodeTokens (a ++ b) = encodeTokens a ++ encodeTokens b := by
  induction a with
  | nil => rfl
  | cons t ts ih => simp [encodeTokens, ih]

theorem encodeTokens_singleton (t : Token) : encodeTokens [t] = t.enc := by
  simp [encodeTokens]

namespace C11

theorem enc_uintTok (w : Width) (n : Nat) (h : w.fits n = true) :
    (uintTok w n).enc = headW 0 (prefWidth n) n := by
  cases w <;> simp only [Width.fits, decide_eq_true_eq] at h <;> simp only [uintTok, Token.enc]
  · exact C03.u8_pref n (by omega)
  · exact C03.u8_pref n h
  · exact C03.u16_pref n h
  · exact C03.u32_pref n h
  · exact C03.u64_pref n h

theorem intItem_neg (n : Nat) : C03.intItem (-1 - (n : Int)) = .nint n := by
  unfold C03.intItem
  rw [if_neg (by omega)]
  congr 1; omega

theorem enc_nintTok (w : Width) (n : Nat) (h : w.fits n = true) :
    (nintTok w n).enc = headW 1 (prefWidth n) n := by
  have e : ∀ x : Int, x = -1 - (n : Int) → encPref (C03.intItem x) = headW 1 (prefWidth n) n := by
    intro x hx; subst hx; rw [intItem_neg]; rfl
  cases w <;> simp only [Width.fits, decide_eq_true_eq] at h <;> simp only [nintTok]
  · simp only [Token.enc]
    rw [C03.i8_pref _ (by omega)]; exact e _ rfl
  · split <;> simp only [Token.enc]
    · rw [C03.i8_pref _ (by omega)]; exact e _ rfl
    · rw [C03.i16_pref _ (by omega)]; exact e _ rfl
  · split <;> simp only [Token.enc]
    · rw [C03.i16_pref _ (by omega)]; exact e _ rfl
    · rw [C03.i32_pref _ (by omega)]; exact e _ rfl
  · split <;> simp only [Token.enc]
    · rw [C03.i32_pref _ (by omega)]; exact e _ rfl
    · rw [C03.i64_pref _ (by omega)]; exact e _ rfl
  · split <;> simp only [Token.enc]
    · rw [C03.i64_pref _ (by omega)]; exact e _ rfl
    · simp only [IntKind.enc]
      rw [if_neg (by omega)]
      have : (-1 - (-1 - (n : Int))).toNat = n := by omega
      rw [this, C03.int_pref true n h]; rfl

theorem enc_bytesTok (b : Bytes) (h : b.length < 18446744073709551616) :
    (Token.bytes b).enc = headW 2 (prefWidth b.length) b.length ++ b := by
  simp only [Token.enc]; rw [C03.bytes_pref b h]; rfl

theorem enc_stringTok (b : Bytes) (h : b.length < 18446744073709551616) :
    (Token.string b).enc = headW 3 (prefWidth b.length) b.length ++ b := by
  simp only [Token.enc]; rw [C03.str_pref b h]; rfl

theorem enc_arrayTok (n : Nat) (h : n < 18446744073709551616) :
    (Token.array n).enc = headW 4 (prefWidth n) n := by
  simp only [Token.enc]; rw [C03.array_pref n h]; rfl

theorem enc_mapTok (n : Nat) (h : n < 18446744073709551616) :
    (Token.map n).enc = headW 5 (prefWidth n) n := by
  simp only [Token.enc]; rw [C03.map_pref n h]; rfl

theorem enc_tagTok (n : Nat) (h : n < 18446744073709551616) :
    (Token.tag n).enc = headW 6 (prefWidth n) n := by
  simp only [Token.enc]; rw [C03.tag_pref n h]; rfl

theorem enc_simpleTok (n : Nat) (h : (WItem.simple n).Valid) :
    (simpleTok n).enc = encW (.simple n) := by
  simp only [WItem.Valid, WItem.valid, Bool.or_eq_true, Bool.and_eq_true, decide_eq_true_eq] at h
  unfold simpleTok
  split
  · subst_vars; rfl
  · split
    · subst_vars; rfl
    · split
      · subst_vars; rfl
      · split
        · subst_vars; rfl
        · simp only [Token.enc]
          exact (C03.simple_pref_partial n (by omega) (by omega)).1

theorem enc_f16Tok (b : Nat) (h : b < 65536) :
    (Token.f16 (f16ToF32 b)).enc = encW (.f16 (quiet16 b)) := by
  simp only [Token.enc, Enc.f16, encW, half_roundtrip b h]; rfl

theorem fits_lt64 {w : Width} {n : Nat} (h : w.fits n = true) : n < 18446744073709551616 := by
  have := Width.fits_lt w n h; omega

theorem enc_chunkToks_bytes (cs : List (Width × Bytes)) (hv : chunksValid false cs = true) :
    encodeTokens (chunkToks false cs) = encChunks 2 (canonChunks cs) := by
  induction cs with
  | nil => rfl
  | cons c cs ih =>
    obtain ⟨w, b⟩ := c
    simp only [chunksValid, Bool.and_eq_true] at hv
    simp only [chunkToks, canonChunks, encChunks, encodeTokens, ih hv.2, Bool.false_eq_true, if_false]
    rw [enc_bytesTok b (fits_lt64 hv.1.1)]

theorem enc_chunkToks_text (cs : List (Width × Bytes)) (hv : chunksValid true cs = true) :
    encodeTokens (chunkToks true cs) = encChunks 3 (canonChunks cs) := by
  induction cs with
  | nil => rfl
  | cons c cs ih =>
    obtain ⟨w, b⟩ := c
    simp only [chunksValid, Bool.and_eq_true] at hv
    simp only [chunkToks, canonChunks, encChunks, encodeTokens, ih hv.2, if_true]
    rw [enc_stringTok b (fits_lt64 hv.1.1)]

theorem canonL_length (xs : List WItem) : (canonL xs).length = xs.length := by
  induction xs with
  | nil => rfl
  | cons x xs ih => simp [canonL, ih]

mutual
theorem enc_toks (w : WItem) (hv : w.valid = true) : encodeTokens (toks w) = encW (canon w) := by
  cases w with
  | uint w n =>
    simp only [WItem.valid] at hv
    simp only [toks, canon, encW, encodeTokens_singleton, enc_uintTok w n hv]
  | nint w n =>
    simp only [WItem.valid] at hv
    simp only [toks, canon, encW, encodeTokens_singleton, enc_nintTok w n hv]
  | bytes w b =>
    simp only [WItem.valid] at hv
    simp only [toks, canon, encW, encodeTokens_singleton, enc_bytesTok b (fits_lt64 hv)]
  | text w b =>
    simp only [WItem.valid, Bool.and_eq_true] at hv
    simp only [toks, canon, encW, encodeTokens_singleton, enc_stringTok b (fits_lt64 hv.1)]
  | bytesI cs =>
    simp only [WItem.valid] at hv
    simp only [toks, canon, encW, encodeTokens, encodeTokens_append, enc_chunkToks_bytes cs hv]
    rfl
  | textI cs =>
    simp only [WItem.valid] at hv
    simp only [toks, canon, encW, encodeTokens, encodeTokens_append, enc_chunkToks_text cs hv]
    rfl
  | array w xs =>
    simp only [WItem.valid, Bool.and_eq_true] at hv
    simp only [toks, canon, encW, encodeTokens, canonL_length, enc_toksL xs hv.2,
      enc_arrayTok _ (fits_lt64 hv.1)]
  | arrayI xs =>
    simp only [WItem.valid] at hv
    simp only [toks, canon, encW, encodeTokens, encodeTokens_append, enc_toksL xs hv]
    rfl
  | map w kvs =>
    simp only [WItem.valid, Bool.and_eq_true] at hv
    simp only [toks, canon, encW, encodeTokens, canonL_length, enc_toksL kvs hv.2,
      enc_mapTok _ (fits_lt64 hv.1.2)]
  | mapI kvs =>
    simp only [WItem.valid, Bool.and_eq_true] at hv
    simp only [toks, canon, encW, encodeTokens, encodeTokens_append, enc_toksL kvs hv.2]
    rfl
  | tag w n x =>
    simp only [WItem.valid, Bool.and_eq_true] at hv
    simp only [toks, canon, encW, encodeTokens, enc_toks x hv.2, enc_tagTok _ (fits_lt64 hv.1)]
  | simple n =>
    simp only [toks, canon, encodeTokens_singleton, enc_simpleTok n hv]
  | f16 b =>
    simp only [WItem.valid, decide_eq_true_eq] at hv
    simp only [toks, canon, encodeTokens_singleton, enc_f16Tok b hv]
  | f32 b => simp only [toks, canon, encodeTokens_singleton]; rfl
  | f64 b => simp only [toks, canon, encodeTokens_singleton]; rfl
theorem enc_toksL (ws : List WItem) (hv : validAll ws = true) :
    encodeTokens (toksL ws) = encWs (canonL ws) := by
  cases ws with
  | nil => rfl
  | cons x xs =>
    simp only [validAll, Bool.and_eq_true] at hv
    simp only [toksL, canonL, encWs, encodeTokens_append, enc_toks x hv.1, enc_toksL xs hv.2]
end

/-! ### preferred trees are fixed by `canon` -/

theorem canonChunks_of_preferred (cs : List (Width × Bytes)) (h : chunksPreferred cs = true) :
    canonChunks cs = cs := by
  induction cs with
  | nil => rfl
  | cons c cs ih =>
    obtain ⟨w, b⟩ := c
    simp only [chunksPreferred, Bool.and_eq_true, beq_iff_eq] at h
    simp only [canonChunks, ih h.2, ← h.1]

mutual
theorem canon_of_preferred (w : WItem) (h : preferred w = true) : canon w = w := by
  cases w with
  | uint w n => simp only [preferred, beq_iff_eq] at h; simp only [canon, ← h]
  | nint w n => simp only [preferred, beq_iff_eq] at h; simp only [canon, ← h]
  | bytes w b => simp only [preferred, beq_iff_eq] at h; simp only [canon, ← h]
  | text w b => simp only [preferred, beq_iff_eq] at h; simp only [canon, ← h]
  | bytesI cs => simp only [preferred] at h; simp only [canon, canonChunks_of_preferred cs h]
  | textI cs => simp only [preferred] at h; simp only [canon, canonChunks_of_preferred cs h]
  | array w xs =>
    simp only [preferred, Bool.and_eq_true, beq_iff_eq] at h
    simp only [canon, canonL_of_preferred xs h.2, ← h.1]
  | arrayI xs => simp only [preferred] at h; simp only [canon, canonL_of_preferred xs h]
  | map w kvs =>
    simp only [preferred, Bool.and_eq_true, beq_iff_eq] at h
    simp only [canon, canonL_of_preferred kvs h.2, ← h.1]
  | mapI kvs => simp only [preferred] at h; simp only [canon, canonL_of_preferred kvs h]
  | tag w n x =>
    simp only [preferred, Bool.and_eq_true, beq_iff_eq] at h
    simp only [canon, canon_of_preferred x h.2, ← h.1]
  | simple n => rfl
  | f16 b => simp only [preferred, beq_iff_eq] at h; simp only [canon, h]
  | f32 b => rfl
  | f64 b => rfl
theorem canonL_of_preferred (ws : List WItem) (h : preferredL ws = true) : canonL ws = ws := by
  cases ws with
  | nil => rfl
  | cons x xs =>
    simp only [preferredL, Bool.and_eq_true] at h
    simp only [canonL, canon_of_preferred x h.1, canonL_of_preferred xs h.2]
end

end C11
end Minicbor
