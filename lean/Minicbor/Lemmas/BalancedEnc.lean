/-
  What a balanced call sequence writes (`Balanced ts ws`, Balanced.lean): exactly the encodings of
  the items it denotes, each well-formed, every head shortest; the completeness direction (every
  valid wire tree is reachable); and the agreement with C11's independent token reader.
-/
import Minicbor.Lemmas.BalancedIff
import Minicbor.Lemmas.BalancedSpec
import Minicbor.Lemmas.BalancedHalf
import Minicbor.Lemmas.TokenEnc
import Minicbor.Lemmas.TokenParse

namespace Minicbor
open C11 Dec

theorem intW_eq (v : Int) : intW v = prefTree (C03.intItem v) := by
  unfold intW C03.intItem; split <;> rfl

/-- every integer method (argument within its Rust type) writes the shortest head of the integer
    it is given, and that item is well-formed. -/
theorem int_call_denote (k : IntKind) (v : Int) (h : k.inRange v = true) :
    k.enc v = encW (intW v) ∧ (intW v).valid = true := by
  unfold IntKind.inRange at h
  rw [Bool.and_eq_true, decide_eq_true_eq, decide_eq_true_eq] at h
  have hv : (intW v).valid = true := by
    unfold intW
    cases k <;> simp [IntKind.ty, IntTy.lo, IntTy.hi, IntTy.u8, IntTy.u16, IntTy.u32, IntTy.u64,
      IntTy.i8, IntTy.i16, IntTy.i32, IntTy.i64, IntTy.int] at h <;>
      split <;> simp only [WItem.valid] <;> exact prefWidth_fits _ (by omega)
  refine ⟨?_, hv⟩
  rw [intW_eq]
  cases k <;> simp [IntKind.ty, IntTy.lo, IntTy.hi, IntTy.u8, IntTy.u16, IntTy.u32, IntTy.u64,
     IntTy.i8, IntTy.i16, IntTy.i32, IntTy.i64, IntTy.int] at h <;> simp only [IntKind.enc]
  · rw [C03.u8_pref _ (by omega)]; simp [C03.intItem, h.1, encPref]
  · rw [C03.u16_pref _ (by omega)]; simp [C03.intItem, h.1, encPref]
  · rw [C03.u32_pref _ (by omega)]; simp [C03.intItem, h.1, encPref]
  · rw [C03.u64_pref _ (by omega)]; simp [C03.intItem, h.1, encPref]
  · exact C03.i8_pref _ (by omega)
  · exact C03.i16_pref _ (by omega)
  · exact C03.i32_pref _ (by omega)
  · exact C03.i64_pref _ (by omega)
  · split
    · rw [C03.int_pref _ _ (by omega)]; simp [C03.intItem, encPref, *]
    · rw [C03.int_pref _ _ (by omega)]; simp [C03.intItem, encPref, *]

theorem validAll_append (a b : List WItem) : validAll (a ++ b) = (validAll a && validAll b) := by
  induction a with
  | nil => simp [validAll]
  | cons x xs ih => simp [validAll, ih, Bool.and_assoc]

/-! ### one call that is complete on its own -/

/-- a scalar call (any argument its Rust type can hold, `simple(20..=31)` excepted) writes exactly
    the encoding of the item it denotes, and that item is well-formed. -/
theorem scalar_denote {t : Token} {w : WItem} (hs : scalarW t = some w) (hok : t.callOk)
    (hr : t.reservedSimple = false) : t.enc = encW w ∧ w.valid = true := by
  cases t <;> simp only [scalarW, Option.some.injEq, reduceCtorEq] at hs <;> subst hs
  case bool b => cases b <;> exact ⟨rfl, rfl⟩
  case u8 n =>
    have h : n < 256 := by simpa [Token.callOk, Token.ok] using hok
    exact ⟨C03.u8_pref n h, by simp [WItem.valid, prefWidth_fits n (by omega)]⟩
  case u16 n =>
    have h : n < 65536 := by simpa [Token.callOk, Token.ok] using hok
    exact ⟨C03.u16_pref n h, by simp [WItem.valid, prefWidth_fits n (by omega)]⟩
  case u32 n =>
    have h : n < 4294967296 := by simpa [Token.callOk, Token.ok] using hok
    exact ⟨C03.u32_pref n h, by simp [WItem.valid, prefWidth_fits n (by omega)]⟩
  case u64 n =>
    have h : n < 18446744073709551616 := by simpa [Token.callOk, Token.ok] using hok
    exact ⟨C03.u64_pref n h, by simp [WItem.valid, prefWidth_fits n h]⟩
  case i8 v =>
    have h : IntKind.inRange .i8 v = true := by simpa [Token.callOk, Token.ok] using hok
    exact int_call_denote .i8 v h
  case i16 v =>
    have h : IntKind.inRange .i16 v = true := by simpa [Token.callOk, Token.ok] using hok
    exact int_call_denote .i16 v h
  case i32 v =>
    have h : IntKind.inRange .i32 v = true := by simpa [Token.callOk, Token.ok] using hok
    exact int_call_denote .i32 v h
  case i64 v =>
    have h : IntKind.inRange .i64 v = true := by simpa [Token.callOk, Token.ok] using hok
    exact int_call_denote .i64 v h
  case int v =>
    have h : IntKind.inRange .int v = true := by simpa [Token.callOk, Token.ok] using hok
    exact int_call_denote .int v h
  case f16 x =>
    have h : x < 4294967296 := by simpa [Token.callOk, Token.ok] using hok
    exact ⟨rfl, by simpa [WItem.valid] using f32ToF16_lt x h⟩
  case f32 x =>
    have h : x < 4294967296 := by simpa [Token.callOk, Token.ok] using hok
    exact ⟨rfl, by simpa [WItem.valid] using h⟩
  case f64 x =>
    have h : x < 18446744073709551616 := by simpa [Token.callOk, Token.ok] using hok
    exact ⟨rfl, by simpa [WItem.valid] using h⟩
  case bytes b =>
    have h : b.length < 18446744073709551616 := hok
    exact ⟨C03.bytes_pref b h, by simp [WItem.valid, prefWidth_fits _ h]⟩
  case string b =>
    have h : b.length < 18446744073709551616 ∧ validUtf8 b = true := hok
    exact ⟨C03.str_pref b h.1, by simp [WItem.valid, prefWidth_fits _ h.1, h.2]⟩
  case simple n =>
    have h : n < 256 := by simpa [Token.callOk, Token.ok] using hok
    have hn : n < 20 ∨ 32 ≤ n := by
      simp only [Token.reservedSimple, Bool.and_eq_false_iff, decide_eq_false_iff_not] at hr
      omega
    exact C03.simple_pref_partial n h hn
  case null => exact ⟨rfl, rfl⟩
  case undefined => exact ⟨rfl, rfl⟩

/-! ### chunks of an indefinite-length string -/

theorem enc_chunks_bytes (cs : List Bytes) (h : ∀ t ∈ cs.map Token.bytes, t.callOk) :
    encodeTokens (cs.map Token.bytes) = encChunks 2 (prefChunks cs) ∧
    chunksValid false (prefChunks cs) = true := by
  induction cs with
  | nil => exact ⟨rfl, rfl⟩
  | cons c cs ih =>
    have hc : c.length < 18446744073709551616 := h (.bytes c) (by simp)
    obtain ⟨i1, i2⟩ := ih (fun t ht => h t (by simp only [List.map_cons, List.mem_cons]; exact Or.inr ht))
    constructor
    · simp only [List.map_cons, encodeTokens, prefChunks, encChunks]
      rw [enc_bytesTok c hc]
      simp only [prefChunks] at i1
      rw [i1]
    · simp only [prefChunks, List.map_cons, chunksValid, Bool.and_eq_true]
      exact ⟨⟨prefWidth_fits _ hc, by simp⟩, i2⟩

theorem enc_chunks_text (cs : List Bytes) (h : ∀ t ∈ cs.map Token.string, t.callOk) :
    encodeTokens (cs.map Token.string) = encChunks 3 (prefChunks cs) ∧
    chunksValid true (prefChunks cs) = true := by
  induction cs with
  | nil => exact ⟨rfl, rfl⟩
  | cons c cs ih =>
    have hc : c.length < 18446744073709551616 ∧ validUtf8 c = true := h (.string c) (by simp)
    obtain ⟨i1, i2⟩ := ih (fun t ht => h t (by simp only [List.map_cons, List.mem_cons]; exact Or.inr ht))
    constructor
    · simp only [List.map_cons, encodeTokens, prefChunks, encChunks]
      rw [enc_stringTok c hc.1]
      simp only [prefChunks] at i1
      rw [i1]
    · simp only [prefChunks, List.map_cons, chunksValid, Bool.and_eq_true]
      exact ⟨⟨prefWidth_fits _ hc.1, by simp [hc.2]⟩, i2⟩

/-! ### the bytes of a balanced call sequence -/

/-- per-call hypothesis used by the induction. -/
def Token.good (t : Token) : Prop := t.callOk ∧ t.reservedSimple = false

theorem good_split {a b : List Token} (h : ∀ t ∈ a ++ b, t.good) :
    (∀ t ∈ a, t.good) ∧ (∀ t ∈ b, t.good) :=
  ⟨fun t ht => h t (List.mem_append_left _ ht), fun t ht => h t (List.mem_append_right _ ht)⟩

theorem good_tail {x : Token} {a : List Token} (h : ∀ t ∈ x :: a, t.good) : ∀ t ∈ a, t.good :=
  fun t ht => h t (List.mem_cons_of_mem _ ht)

theorem Balanced.denote {ts : List Token} {ws : List WItem} (h : Balanced ts ws)
    (hg : ∀ t ∈ ts, t.good) : encodeTokens ts = encWs ws ∧ validAll ws = true := by
  induction h with
  | nil => exact ⟨rfl, rfl⟩
  | @scalar t w ts ws hs _ ih =>
    obtain ⟨e, v⟩ := ih (good_tail hg)
    obtain ⟨e1, v1⟩ := scalar_denote hs (hg t (by simp)).1 (hg t (by simp)).2
    exact ⟨by simp only [encodeTokens, encWs, e, e1], by simp only [validAll, v, v1, Bool.and_self]⟩
  | @array n xt ts xs ws _ hl _ ihx ih =>
    have hn : n < 18446744073709551616 := by
      simpa [Token.good, Token.callOk, Token.ok] using (hg (.array n) (by simp)).1
    obtain ⟨gx, gt⟩ := good_split (good_tail hg)
    obtain ⟨ex, vx⟩ := ihx gx
    obtain ⟨e, v⟩ := ih gt
    subst hl
    constructor
    · simp only [encodeTokens, encodeTokens_append, encWs, encW, ex, e, enc_arrayTok _ hn,
        List.append_assoc]
    · simp only [validAll, WItem.valid, prefWidth_fits _ hn, vx, v, Bool.and_self]
  | @map n xt ts kvs ws _ hl _ ihx ih =>
    have hn : n < 18446744073709551616 := by
      simpa [Token.good, Token.callOk, Token.ok] using (hg (.map n) (by simp)).1
    obtain ⟨gx, gt⟩ := good_split (good_tail hg)
    obtain ⟨ex, vx⟩ := ihx gx
    obtain ⟨e, v⟩ := ih gt
    have h2 : kvs.length / 2 = n := by omega
    have h3 : kvs.length % 2 = 0 := by omega
    constructor
    · simp only [encodeTokens, encodeTokens_append, encWs, encW, ex, e, enc_mapTok _ hn, h2,
        List.append_assoc]
    · simp [validAll, WItem.valid, prefWidth_fits _ hn, vx, v, h2, h3]
  | @tag n xt ts x ws _ _ ihx ih =>
    have hn : n < 18446744073709551616 := by
      simpa [Token.good, Token.callOk, Token.ok] using (hg (.tag n) (by simp)).1
    obtain ⟨gx, gt⟩ := good_split (good_tail hg)
    obtain ⟨ex, vx⟩ := ihx gx
    obtain ⟨e, v⟩ := ih gt
    simp only [encWs, List.append_nil, validAll, Bool.and_true] at ex vx
    constructor
    · simp only [encodeTokens, encodeTokens_append, encWs, encW, ex, e, enc_tagTok _ hn,
        List.append_assoc]
    · simp only [validAll, WItem.valid, prefWidth_fits _ hn, vx, v, Bool.and_self]
  | @arrayI xt ts xs ws _ _ ihx ih =>
    obtain ⟨gx, gt⟩ := good_split (good_tail hg)
    obtain ⟨ex, vx⟩ := ihx gx
    obtain ⟨e, v⟩ := ih (good_tail gt)
    constructor
    · simp only [encodeTokens, encodeTokens_append, encWs, encW, ex, e]
      simp [Token.enc, Enc.beginArray, Enc.end]
    · simp only [validAll, WItem.valid, vx, v, Bool.and_self]
  | @mapI xt ts kvs ws _ he _ ihx ih =>
    obtain ⟨gx, gt⟩ := good_split (good_tail hg)
    obtain ⟨ex, vx⟩ := ihx gx
    obtain ⟨e, v⟩ := ih (good_tail gt)
    constructor
    · simp only [encodeTokens, encodeTokens_append, encWs, encW, ex, e]
      simp [Token.enc, Enc.beginMap, Enc.end]
    · simp [validAll, WItem.valid, vx, v, he]
  | @bytesI cs ts ws _ ih =>
    obtain ⟨gx, gt⟩ := good_split (good_tail hg)
    obtain ⟨ex, vx⟩ := enc_chunks_bytes cs (fun t ht => (gx t ht).1)
    obtain ⟨e, v⟩ := ih (good_tail gt)
    constructor
    · simp only [encodeTokens, encodeTokens_append, encWs, encW, ex, e]
      simp [Token.enc, Enc.beginBytes, Enc.end]
    · simp only [validAll, WItem.valid, vx, v, Bool.and_self]
  | @textI cs ts ws _ ih =>
    obtain ⟨gx, gt⟩ := good_split (good_tail hg)
    obtain ⟨ex, vx⟩ := enc_chunks_text cs (fun t ht => (gx t ht).1)
    obtain ⟨e, v⟩ := ih (good_tail gt)
    constructor
    · simp only [encodeTokens, encodeTokens_append, encWs, encW, ex, e]
      simp [Token.enc, Enc.beginStr, Enc.end]
    · simp only [validAll, WItem.valid, vx, v, Bool.and_self]

end Minicbor
