/-
  C02 infrastructure, part 9: typed decoding takes at most `workK t * (consumed + 1)` primitive
  steps, where `workK t` depends only on the type (it doubles per nesting level of containers —
  a crude but input-independent constant).
-/
import Minicbor.Lemmas.TotalWorkLoops

namespace Minicbor

mutual
/-- the type-dependent work factor. -/
def Ty.workK : Ty → Nat
  | .opt t => 2 * t.workK + 100
  | .seq t => 2 * t.workK + 100
  | .arr _ t => 2 * t.workK + 100
  | .tagged _ t => 2 * t.workK + 100
  | .map k v => 4 * (k.workK + v.workK) + 100
  | .tup ts => 2 * Ty.workKs ts + 100
  | .enum ts => 2 * Ty.workKs ts + 100
  | .fields ts => 2 * Ty.workKs ts + 100
  | .int _ => 100 | .bool => 100 | .char => 100 | .f32 => 100 | .f64 => 100 | .str => 100 | .bytes => 100
  | .barr _ => 100 | .cstr => 100 | .unit => 100 | .skipUnit => 100 | .nz _ => 100 | .tag => 100
  | .duration => 100 | .systime => 100
def Ty.workKs : List Ty → Nat
  | [] => 42
  | t :: ts => t.workK + Ty.workKs ts
end

theorem Ty.workKs_ge (ts : List Ty) : 42 ≤ Ty.workKs ts := by
  induction ts with
  | nil => simp [Ty.workKs]
  | cons t ts ih => simp [Ty.workKs]; omega

namespace Dec

mutual
theorem decodeT_lin : (t : Ty) → Lin t.workK (decodeT t)
  | .int k => by
    unfold Minicbor.decodeT Ty.workK; have := LinC.intAcc; link
  | .bool => by
    unfold Minicbor.decodeT Ty.workK; have := LinC.bool; link
  | .char => by
    unfold Minicbor.decodeT Ty.workK; have := LinC.char; link
  | .f32 => by
    unfold Minicbor.decodeT Ty.workK; have := LinC.f32; link
  | .f64 => by
    unfold Minicbor.decodeT Ty.workK; have := LinC.f64; link
  | .str => by
    unfold Minicbor.decodeT Ty.workK; have := LinC.str; link
  | .bytes => by
    unfold Minicbor.decodeT Ty.workK; have := LinC.bytes; link
  | .barr n => by
    unfold Minicbor.decodeT Ty.workK; have := LinC.bytes; link
  | .cstr => by
    unfold Minicbor.decodeT Ty.workK; have := LinC.bytes; link
  | .unit => by
    unfold Minicbor.decodeT Ty.workK; have := LinC.array; link
  | .skipUnit => by
    unfold Minicbor.decodeT Ty.workK
    have : Lin' 100 42 (Dec.skip true) := (Lin.skip true).mono (by omega) (by omega)
    link
  | .opt t => by
    have ih := decodeT_lin t
    unfold Minicbor.decodeT Ty.workK
    have h1 : Lin' (2 * t.workK + 100) t.workK (decodeT t) := ih.mono (by omega) (by omega)
    have h2 : Lin' (2 * t.workK + 100) 42 (Dec.skip true) := (Lin.skip true).mono (by omega) (by omega)
    have := LinC.datatype
    link
  | .seq t => by
    have ih := decodeT_lin t
    have hk : 1 ≤ t.workK := by cases t <;> simp [Ty.workK] <;> omega
    unfold Minicbor.decodeT Ty.workK
    exact ((Lin.arrayIter ih (Consumes.decodeT t) hk).map _).mono (by omega) (by omega)
  | .arr n t => by
    have ih := decodeT_lin t
    have hk : 1 ≤ t.workK := by cases t <;> simp [Ty.workK] <;> omega
    unfold Minicbor.decodeT Ty.workK
    exact ((Lin.arrayN ih (Consumes.decodeT t) hk n).map _).mono (by omega) (by omega)
  | .tup ts => by
    have ih := decoders_lin ts
    unfold Minicbor.decodeT Ty.workK
    have h1 : Lin' (2 * Ty.workKs ts + 100) (2 * Ty.workKs ts + 2) (Dec.seqAll (decoders ts)) :=
      (Lin.seqAll ih (Consumes.decoders ts)).mono (by omega) (by omega)
    have := LinC.array
    link
  | .map k v => by
    have ihk := decodeT_lin k
    have ihv := decodeT_lin v
    have hk : 1 ≤ k.workK := by cases k <;> simp [Ty.workK] <;> omega
    unfold Minicbor.decodeT Ty.workK
    have h := Lin.mapIter (K := k.workK + v.workK) (ihk.mono (by omega) (by omega)) (ihv.mono (by omega) (by omega))
      (Consumes.decodeT k) ((Consumes.decodeT v).mono (Nat.zero_le _)) (by omega)
    exact (h.map _).mono (by omega) (by omega)
  | .nz k => by
    unfold Minicbor.decodeT Ty.workK; have := LinC.intAcc; link
  | .tag => by
    unfold Minicbor.decodeT Ty.workK; have := LinC.tag; link
  | .tagged n t => by
    have ih := decodeT_lin t
    unfold Minicbor.decodeT Ty.workK
    have h1 : Lin' (2 * t.workK + 100) t.workK (decodeT t) := ih.mono (by omega) (by omega)
    have := LinC.tag
    link
  | .enum ts => by
    have ih := decoders_lin ts
    unfold Minicbor.decodeT Ty.workK
    have h1 : ∀ i, Lin' (2 * Ty.workKs ts + 100) (Ty.workKs ts) (Dec.pickVariant (decoders ts) i) :=
      fun i => (Lin.pickVariant ih i).mono (by omega) (by omega)
    have := LinC.array; have := LinC.intAcc
    link
  | .fields ts => by
    have ih := decoders_lin ts
    unfold Minicbor.decodeT Ty.workK
    exact ((Lin.fieldsDec ih (Consumes.decoders ts) (Ty.workKs_ge ts)).map _).mono (by omega) (by omega)
  | .duration => by
    unfold Minicbor.decodeT Ty.workK; exact (Lin.decodeDuration _).mono (by omega) (by omega)
  | .systime => by
    unfold Minicbor.decodeT Ty.workK; exact (Lin.decodeDuration _).mono (by omega) (by omega)
theorem decoders_lin : (ts : List Ty) → ∀ m ∈ decoders ts, Lin (Ty.workKs ts) m
  | [] => by intro m hm; simp [decoders] at hm
  | t :: ts => by
    intro m hm
    unfold Ty.workKs
    rcases mem_decoders_cons hm with rfl | hm
    · exact (decodeT_lin t).mono (by omega) (by omega)
    · exact (decoders_lin ts m hm).mono (by omega) (by omega)
end

end Dec
end Minicbor
