/-
  The round-trip induction for the built-in codecs (C01), over successful runs of `encodeT`.
-/
import Minicbor.Lemmas.TypesStart
import Minicbor.Lemmas.TypesPred

set_option linter.unusedSimpArgs false

namespace Minicbor
open Dec

/-! ### sizes: every encoding is non-empty, element counts are bounded by the byte count -/

theorem typeLen_length_pos (t x : Nat) : 1 ≤ (Enc.typeLen t x).length := by
  unfold Enc.typeLen; (repeat' split) <;> simp

theorem pos_append_left {a b : Bytes} (h : 1 ≤ a.length) : 1 ≤ (a ++ b).length := by
  rw [List.length_append]; omega

theorem intEnc_length_pos (k : IntKind) (v : Int) : 1 ≤ (k.enc v).length := by
  have := startOk_intEnc k v
  cases h : k.enc v with
  | nil => rw [h] at this; simp [startOk] at this
  | cons => simp

theorem enc_sizes :
    (∀ t v bs, encodeT t v = some bs → 1 ≤ bs.length) ∧
    (∀ k v kvs bs, encodeMap k v kvs = some bs → kvs.length ≤ bs.length) ∧
    (∀ ts vs bs, encodeTup ts vs = some bs → ts.length = vs.length ∧ vs.length ≤ bs.length) ∧
    (∀ t vs bs, encodeList t vs = some bs → vs.length ≤ bs.length) := by
  have hT := typeLen_length_pos
  apply encodeT_ok_induct
    (P1 := fun _ _ bs => 1 ≤ bs.length) (P2 := fun _ _ kvs bs => kvs.length ≤ bs.length)
    (P3 := fun ts vs bs => ts.length = vs.length ∧ vs.length ≤ bs.length)
    (P4 := fun _ vs bs => vs.length ≤ bs.length)
  case int => intro k v _; exact intEnc_length_pos k v
  case nz => intro k v _ _; exact intEnc_length_pos k v
  case optSome => intros; assumption
  case bool => intro b; cases b <;> decide
  case char => intro v _ _; exact intEnc_length_pos .u32 v
  case mapNil | tupNil | listNil => intros; simp
  case mapCons => intros; simp only [List.length_append, List.length_cons]; omega
  case tupCons => intros; simp only [List.length_append, List.length_cons]; omega
  case listCons => intros; simp only [List.length_append, List.length_cons]; omega
  case f32 | f64 => intros; simp [Enc.f32, Enc.f64]
  case optNone => intros; decide
  case unit | skipUnit | tag => intros; exact hT _ _
  case str | bytes | barr | cstr | seq | arr | tup | map | tagged | fields =>
    intros; exact pos_append_left (hT _ _)
  case «enum» | duration | systime => intros; exact pos_append_left (pos_append_left (hT _ _))

/-! ### the element loops -/

/-- the entry decoder of `map_iter_with` -/
def Dec.pairDec (mk mv : Dec α) : Dec (List α) := do let k ← mk; let v ← mv; pure [k, v]

theorem mapIter_def (mk mv : Dec α) (n : Nat) (bs : Bytes) (h : Dec.map bs = .ok (some n) rest) :
    mapIter mk mv bs = (do let xs ← repeatN (pairDec mk mv) n; pure xs.flatten) rest := by
  simp only [mapIter, Dec.bind_run, h]
  rfl

theorem decoders_get (ts : List Ty) (i : Nat) (t : Ty) (h : ts[i]? = some t) :
    (decoders ts)[i]? = some (decodeT t) := by
  induction ts generalizing i with
  | nil => simp at h
  | cons x xs ih =>
    cases i with
    | zero => simp at h; subst h; simp [decoders]
    | succ j => simp at h; simp [decoders, ih j h]

theorem decoders_length (ts : List Ty) : (decoders ts).length = ts.length := by
  induction ts with
  | nil => rfl
  | cons x xs ih => simp [decoders, ih]

theorem datatype_null (rest : Bytes) :
    datatype (Enc.null ++ rest) = .ok .null (Enc.null ++ rest) := rfl

def U64 : Nat := 18446744073709551616

theorem Ty.noOptOptNode_opt (t : Ty) : Ty.noOptOptNode (.opt t) = true ↔ ∀ t', t ≠ .opt t' := by
  cases t <;> simp [Ty.noOptOptNode]

/-- `Duration` / `SystemTime`: `[secs, nanos]` through `decode_fields!`, then the overflow checks. -/
theorem duration_rt (sys : Bool) (s n : Int) (rest : Bytes) (hs0 : 0 ≤ s) (hs1 : s ≤ 18446744073709551615)
    (hn0 : 0 ≤ n) (hn1 : n < 1000000000) (hsys : sys = true → s ≤ 9223372036854775807) :
    decodeDuration sys (Enc.secsNanos s n ++ rest) = .ok (.list [.int s, .int n]) rest := by
  have ha := array_enc 2 (Enc.u64 s.toNat ++ (Enc.u32 n.toNat ++ rest)) (by decide)
  have h1 := intAcc_u64 s.toNat (Enc.u32 n.toNat ++ rest) (by omega)
  have h2 := intAcc_u32 n.toNat rest (by omega)
  have e1 : n.toNat / NANOS_PER_SEC = 0 := by unfold NANOS_PER_SEC; omega
  have e2 : n.toNat % NANOS_PER_SEC = n.toNat := by unfold NANOS_PER_SEC; omega
  have e3 : ¬ s.toNat > 18446744073709551615 := by omega
  have e4 : ¬ (sys = true ∧ s.toNat > 9223372036854775807) := by
    intro ⟨h, h'⟩; have := hsys h; omega
  simp [decodeDuration, Enc.secsNanos, fieldsDec, fieldsDef, repeatN, Dec.bind_run, List.append_assoc, ha, h1, h2,
    e1, e2, e3, e4, Int.toNat_of_nonneg hs0, Int.toNat_of_nonneg hn0]
  have e5 : ¬ (sys = true ∧ 9223372036854775807 < s) := by
    intro ⟨h, h'⟩; have := hsys h; omega
  have e6 : max s 0 + max n 0 / (NANOS_PER_SEC : Int) = s := by unfold NANOS_PER_SEC; omega
  have e7 : max n 0 % (NANOS_PER_SEC : Int) = n := by unfold NANOS_PER_SEC; omega
  rw [if_neg e5, e6, e7]; rfl

/-! ### the induction -/

theorem roundtrip_all :
    (∀ t v bs, encodeT t v = some bs → t.WF = true → t.NoOptOpt = true → bs.length < U64 →
      ∀ rest, decodeT t (bs ++ rest) = .ok v rest) ∧
    (∀ k v kvs bs, encodeMap k v kvs = some bs → k.WF = true → v.WF = true → k.NoOptOpt = true →
      v.NoOptOpt = true → bs.length < U64 →
      ∀ rest, ∃ xs, repeatN (pairDec (decodeT k) (decodeT v)) (kvs.length / 2) (bs ++ rest) = .ok xs rest
        ∧ xs.flatten = kvs) ∧
    (∀ ts vs bs, encodeTup ts vs = some bs → Ty.allL Ty.wfNode ts = true →
      Ty.allL Ty.noOptOptNode ts = true → bs.length < U64 →
      ∀ rest, seqAll (decoders ts) (bs ++ rest) = .ok vs rest ∧
        fieldsDef (decoders ts) ts.length (bs ++ rest) = .ok vs rest) ∧
    (∀ t vs bs, encodeList t vs = some bs → t.WF = true → t.NoOptOpt = true → bs.length < U64 →
      ∀ rest, repeatN (decodeT t) vs.length (bs ++ rest) = .ok vs rest) := by
  obtain ⟨sz1, sz2, sz3, sz4⟩ := enc_sizes
  apply encodeT_ok_induct
  case int => intro k v h _ _ _ rest; simp [decodeT, Dec.bind_run, intAcc_enc k v rest h]
  case bool => intro b _ _ _ rest; simp [decodeT, Dec.bind_run, bool_enc]
  case char =>
    intro v h0 hs _ _ _ rest
    simp [decodeT, Dec.bind_run, char_enc _ rest hs, Int.toNat_of_nonneg h0]
  case f32 => intro b h _ _ _ rest; simp [decodeT, Dec.bind_run, f32_enc b rest h]
  case f64 => intro b h _ _ _ rest; simp [decodeT, Dec.bind_run, f64_enc b rest h]
  case str =>
    intro b hu _ _ hl rest
    have hb : b.length < 18446744073709551616 := by
      simp only [Enc.str, List.length_append, U64] at hl; omega
    simp [decodeT, Dec.bind_run, str_enc b rest hb hu]
  case bytes =>
    intro b _ _ hl rest
    have hb : b.length < 18446744073709551616 := by
      simp only [Enc.bytes, List.length_append, U64] at hl; omega
    simp [decodeT, Dec.bind_run, bytes_enc b rest hb]
  case barr =>
    intro b _ _ hl rest
    have hb : b.length < 18446744073709551616 := by
      simp only [Enc.bytes, List.length_append, U64] at hl; omega
    simp [decodeT, Dec.bind_run, bytes_enc b rest hb]
  case cstr =>
    intro b h0 _ _ hl rest
    have hb : (b ++ [0]).length < 18446744073709551616 := by
      simp only [Enc.bytes, List.length_append, U64] at hl ⊢; omega
    have h0' : ∀ x ∈ b, ¬ x = 0 := by simpa using h0
    simp [decodeT, Dec.bind_run, bytes_enc (b ++ [0]) rest hb]
    rw [if_pos h0']; rfl
  case unit => intro _ _ _ rest; simp [decodeT, Dec.bind_run, array_enc 0 rest (by decide)]
  case skipUnit => intro _ _ _ rest; simp [decodeT, Dec.bind_run, skip_emptyArray rest]
  case optNone => intro t _ _ _ rest; simp [decodeT, Dec.bind_run, datatype_null, skip_null rest]
  case optSome =>
    intro t v bs henc ih hwf hno hl rest
    simp only [Ty.WF, Ty.NoOptOpt, Ty.all, Ty.wfNode, Bool.and_eq_true, Bool.true_and,
      Ty.noOptOptNode_opt] at hwf hno
    obtain ⟨ty, hty, hnn⟩ := datatype_startOk bs rest (encodeT_startOk t v bs henc hno.1)
    simp [decodeT, Dec.bind_run, hty, hnn, ih hwf hno.2 hl rest]
  case seq =>
    intro t vs b henc ih hwf hno hl rest
    simp only [Ty.WF, Ty.NoOptOpt, Ty.all, Ty.wfNode, Ty.noOptOptNode, Bool.and_eq_true, Bool.true_and] at hwf hno
    have h1 := sz4 _ _ _ henc
    simp only [List.length_append, U64] at hl
    have ha := array_enc vs.length (b ++ rest) (by omega)
    simp [decodeT, arrayIter, Dec.bind_run, ha, ih hwf hno (by simp only [U64]; omega) rest]
  case arr =>
    intro t vs b henc ih hwf hno hl rest
    simp only [Ty.WF, Ty.NoOptOpt, Ty.all, Ty.wfNode, Ty.noOptOptNode, Bool.and_eq_true, Bool.true_and] at hwf hno
    have h1 := sz4 _ _ _ henc
    simp only [List.length_append, U64] at hl
    have ha := array_enc vs.length (b ++ rest) (by omega)
    simp [decodeT, arrayN, Dec.bind_run, ha, ih hwf hno (by simp only [U64]; omega) rest]
  case tup =>
    intro ts vs b henc ih hwf hno hl rest
    simp only [Ty.WF, Ty.NoOptOpt, Ty.all, Ty.wfNode, Ty.noOptOptNode, Bool.and_eq_true, Bool.true_and] at hwf hno
    have h1 := sz3 _ _ _ henc
    simp only [List.length_append, U64] at hl
    have ha := array_enc ts.length (b ++ rest) (by omega)
    simp [decodeT, Dec.bind_run, ha, (ih hwf hno (by simp only [U64]; omega) rest).1]
  case fields =>
    intro ts vs b henc ih hwf hno hl rest
    simp only [Ty.WF, Ty.NoOptOpt, Ty.all, Ty.wfNode, Ty.noOptOptNode, Bool.and_eq_true, Bool.true_and] at hwf hno
    have h1 := sz3 _ _ _ henc
    simp only [List.length_append, U64] at hl
    have ha := array_enc ts.length (b ++ rest) (by omega)
    simp [decodeT, fieldsDec, Dec.bind_run, ha, (ih hwf hno (by simp only [U64]; omega) rest).2]
  case map =>
    intro k v kvs b henc ih hwf hno hl rest
    simp only [Ty.WF, Ty.NoOptOpt, Ty.all, Ty.wfNode, Ty.noOptOptNode, Bool.and_eq_true, Bool.true_and] at hwf hno
    have h1 := sz2 _ _ _ _ henc
    simp only [List.length_append, U64] at hl
    have ha := map_enc (kvs.length / 2) (b ++ rest) (by omega)
    obtain ⟨xs, hxs, hfl⟩ := ih hwf.1 hwf.2 hno.1 hno.2 (by simp only [U64]; omega) rest
    rw [List.append_assoc]
    simp [decodeT, mapIter_def _ _ _ _ ha, Dec.bind_run, hxs, hfl]
  case nz =>
    intro k v h hz _ _ _ rest
    simp [decodeT, Dec.bind_run, intAcc_enc k v rest h, hz]
  case tag =>
    intro v h0 h1 _ _ _ rest
    simp [decodeT, Dec.bind_run, tag_enc v.toNat rest (by omega), Int.toNat_of_nonneg h0]
  case tagged =>
    intro n t v b henc ih hwf hno hl rest
    simp only [Ty.WF, Ty.NoOptOpt, Ty.all, Ty.wfNode, Ty.noOptOptNode, Bool.and_eq_true, Bool.true_and,
      decide_eq_true_eq] at hwf hno
    simp only [List.length_append, U64] at hl
    simp [decodeT, Dec.bind_run, tag_enc n (b ++ rest) hwf.1, ih hwf.2 hno (by simp only [U64]; omega) rest]
  case «enum» =>
    intro ts i t v b hi henc ih hwf hno hl rest
    simp only [Ty.WF, Ty.NoOptOpt, Ty.all, Ty.wfNode, Ty.noOptOptNode, Bool.and_eq_true, Bool.true_and,
      decide_eq_true_eq] at hwf hno
    simp only [List.length_append, U64] at hl
    have hlt : i < ts.length := by
      rcases Nat.lt_or_ge i ts.length with h | h
      · exact h
      · rw [List.getElem?_eq_none h] at hi; cases hi
    have ha := array_enc 2 (Enc.u32 i ++ (b ++ rest)) (by decide)
    have hu := intAcc_u32 i (b ++ rest) (by omega)
    have hwt := Ty.allL_get _ _ _ _ hwf.2 hi
    have hnt := Ty.allL_get _ _ _ _ hno hi
    simp [decodeT, Dec.bind_run, ha, hu, pickVariant, decoders_get ts i t hi,
      ih hwt hnt (by simp only [U64]; omega) rest]
  case duration =>
    intro s n hs0 hs1 hn0 hn1 _ _ _ rest
    exact duration_rt false s n rest hs0 (by omega) hn0 hn1 (by simp)
  case systime =>
    intro s n hs0 hs1 hn0 hn1 _ _ _ rest
    exact duration_rt true s n rest hs0 (by omega) hn0 hn1 (by simp; omega)
  case mapNil => intro k v _ _ _ _ _ rest; exact ⟨[], by simp [repeatN], rfl⟩
  case mapCons =>
    intro k v x y kvs a b c ha hb hc iha ihb ihc hwk hwv hnk hnv hl rest
    simp only [List.length_append, U64] at hl
    obtain ⟨xs, hxs, hfl⟩ := ihc hwk hwv hnk hnv (by simp only [U64]; omega) rest
    refine ⟨[x, y] :: xs, ?_, by simp [hfl]⟩
    have e : (kvs.length + 1 + 1) / 2 = kvs.length / 2 + 1 := by omega
    have h1 := iha hwk hnk (by simp only [U64]; omega) (b ++ (c ++ rest))
    have h2 := ihb hwv hnv (by simp only [U64]; omega) (c ++ rest)
    have hp : pairDec (decodeT k) (decodeT v) (a ++ (b ++ (c ++ rest))) = .ok [x, y] (c ++ rest) := by
      simp [pairDec, Dec.bind_run, h1, h2]
    simp [e, repeatN, Dec.bind_run, List.append_assoc, hp, hxs]
  case tupNil => intro _ _ _ rest; simp [seqAll, fieldsDef, decoders, repeatN, Dec.bind_run]
  case tupCons =>
    intro t ts v vs a b ha hb iha ihb hw hn hl rest
    simp only [Ty.allL, Bool.and_eq_true] at hw hn
    simp only [List.length_append, U64] at hl
    have h1 := iha hw.1 hn.1 (by simp only [U64]; omega) (b ++ rest)
    have h2 := ihb hw.2 hn.2 (by simp only [U64]; omega) rest
    simp [seqAll, fieldsDef, decoders, Dec.bind_run, List.append_assoc, h1, h2.1, h2.2]
  case listNil => intro t _ _ _ rest; simp [repeatN]
  case listCons =>
    intro t v vs a b ha hb iha ihb hw hn hl rest
    simp only [List.length_append, U64] at hl
    have h1 := iha hw hn (by simp only [U64]; omega) (b ++ rest)
    have h2 := ihb hw hn (by simp only [U64]; omega) rest
    simp [repeatN, Dec.bind_run, List.append_assoc, h1, h2]

end Minicbor
