/-
  `Ext m`: a successful run of `m` does not depend on what follows the bytes it consumed:
  if `m bs = ok a r` then `m (bs ++ q) = ok a (r ++ q)` for every `q`.  Holds for every
  accessor used by `skip` (fuelled loops: also monotone in the fuel), hence for `skip`
  itself.  Consequence: if `skip` is exact on an input it cannot succeed on a strict prefix.
-/
import Minicbor.Skip
import Minicbor.Lemmas.SkipLocal

namespace Minicbor.Dec

def Ext (m : Dec α) : Prop :=
  ∀ bs a r q, m bs = .ok a r → m (bs ++ q) = .ok a (r ++ q)

namespace Ext

theorem pure (a : α) : Ext (Pure.pure a : Dec α) := by
  intro bs a' r q h; cases h; rfl

theorem fail (e : Err) : Ext (Dec.fail e : Dec α) := by
  intro bs a r q h; cases h

theorem panic : Ext (Dec.panic : Dec α) := by
  intro bs a r q h; cases h

theorem read : Ext Dec.read := by
  intro bs a r q h
  cases bs with
  | nil => cases h
  | cons b bs => cases h; rfl

theorem current : Ext Dec.current := by
  intro bs a r q h
  cases bs with
  | nil => cases h
  | cons b bs => cases h; rfl

theorem peek : Ext Dec.peek := by
  intro bs a r q h
  match bs with
  | [] => cases h
  | [_] => cases h
  | _ :: _ :: _ => cases h; rfl

theorem readSlice (n : Nat) : Ext (Dec.readSlice n) := by
  intro bs a r q h
  unfold Dec.readSlice at h ⊢
  split at h
  · rename_i hn
    cases h
    have : n ≤ bs.length + q.length := by omega
    simp [this, List.take_append_of_le_length hn, List.drop_append_of_le_length hn]
  · cases h

theorem bind {m : Dec α} {f : α → Dec β} (hm : Ext m) (hf : ∀ a, Ext (f a)) : Ext (m >>= f) := by
  intro bs b r q h
  rw [Dec.bind_run] at h ⊢
  cases hmb : m bs with
  | ok a r' =>
    rw [hmb] at h
    rw [hm bs a r' q hmb]
    exact hf a r' b r q h
  | err e r' => rw [hmb] at h; cases h
  | panic => rw [hmb] at h; cases h

theorem ite {c : Prop} [Decidable c] {a b : Dec α} (ha : Ext a) (hb : Ext b) :
    Ext (if c then a else b) := by
  split <;> assumption

end Ext

/-- discharge `Ext` goals for straight-line code built from the primitives. -/
macro "ext_dec" : tactic =>
  `(tactic| repeat' (first
      | exact Ext.pure _ | exact Ext.fail _ | exact Ext.panic | exact Ext.read | exact Ext.current
      | exact Ext.peek | exact Ext.readSlice _
      | assumption
      | apply Ext.ite | apply Ext.bind | intro _))

theorem Ext.typeOf (b : UInt8) : Ext (Dec.typeOf b) := by
  unfold Dec.typeOf
  ext_dec

theorem Ext.typeMismatch (b : UInt8) : Ext (Dec.typeMismatch b : Dec α) := by
  intro bs a r q h
  exact absurd h (by
    intro h
    have := Consumes.typeMismatch (α := α) b (bs.length + 1) bs a r h
    omega)

theorem Ext.unsigned (b : UInt8) : Ext (Dec.unsigned b) := by
  unfold Dec.unsigned
  have := @Ext.typeMismatch Nat b
  ext_dec

theorem Ext.tryAs (v m : Nat) : Ext (Dec.tryAs v m) := by
  unfold Dec.tryAs; ext_dec

theorem Ext.u64ToUsize (n : Nat) : Ext (Dec.u64ToUsize n) := by
  unfold Dec.u64ToUsize; ext_dec

theorem Ext.intAcc (t : IntTy) : Ext (Dec.intAcc t) := by
  unfold Dec.intAcc
  have h1 := Ext.unsigned
  have h2 := Ext.tryAs
  have h3 := @Ext.typeMismatch Int
  repeat' (first
      | exact Ext.pure _ | exact Ext.read | exact h1 _ | exact h2 _ _ | exact h3 _
      | apply Ext.ite | apply Ext.bind | intro _)

theorem Ext.bytes : Ext Dec.bytes := by
  unfold Dec.bytes
  have h1 := Ext.unsigned
  have h2 := Ext.u64ToUsize
  have h3 := @Ext.typeMismatch Bytes
  repeat' (first
      | exact Ext.read | exact Ext.readSlice _ | exact h1 _ | exact h2 _ | exact h3 _
      | apply Ext.ite | apply Ext.bind | intro _)

theorem Ext.str : Ext Dec.str := by
  unfold Dec.str
  have h1 := Ext.unsigned
  have h2 := Ext.u64ToUsize
  have h3 := @Ext.typeMismatch Bytes
  repeat' (first
      | exact Ext.read | exact Ext.readSlice _ | exact h1 _ | exact h2 _ | exact h3 _
      | exact Ext.pure _ | exact Ext.fail _
      | apply Ext.ite | apply Ext.bind | intro _)

theorem Ext.chunk (text : Bool) : Ext (if text then Dec.str else Dec.bytes) := by
  cases text
  · exact Ext.bytes
  · exact Ext.str

theorem Ext.container (maj : Nat) : Ext (Dec.container maj) := by
  unfold Dec.container
  have h1 := Ext.unsigned
  have h3 := @Ext.typeMismatch (Option Nat)
  repeat' (first
      | exact Ext.read | exact h1 _ | exact h3 _ | exact Ext.pure _
      | apply Ext.ite | apply Ext.bind | intro _)

/-- pointwise version of `Ext.bind`, for code whose continuation is not `Ext` as a whole. -/
theorem bind_ext {m : Dec α} {f g : α → Dec β} {bs r q : Bytes} {b : β} (hm : Ext m)
    (h : (m >>= f) bs = .ok b r)
    (hf : ∀ a r', m bs = .ok a r' → f a r' = .ok b r → g a (r' ++ q) = .ok b (r ++ q)) :
    (m >>= g) (bs ++ q) = .ok b (r ++ q) := by
  rw [Dec.bind_run] at h ⊢
  cases hmb : m bs with
  | ok a r' =>
    rw [hmb] at h
    rw [hm bs a r' q hmb]
    exact hf a r' hmb h
  | err e r' => rw [hmb] at h; cases h
  | panic => rw [hmb] at h; cases h

/-- the chunk loop: stable under extension of the input and under more fuel. -/
theorem chunkLoop_ext (text : Bool) (f f' : Nat) (bs r q : Bytes) (cs : List Bytes)
    (h : Dec.chunkLoop text f bs = .ok cs r) (hf : f ≤ f') :
    Dec.chunkLoop text f' (bs ++ q) = .ok cs (r ++ q) := by
  induction f generalizing f' bs cs with
  | zero => unfold Dec.chunkLoop at h; cases h
  | succ f ih =>
    cases f' with
    | zero => omega
    | succ f' =>
      unfold Dec.chunkLoop at h ⊢
      refine bind_ext Ext.current h ?_
      intro b r' hb hk
      have hr : r' = bs := by
        cases bs with
        | nil => cases hb
        | cons b' bs' => cases hb; rfl
      subst hr
      split at hk
      · rename_i hff
        simp only [hff, if_true]
        exact Ext.bind Ext.read (fun _ => Ext.pure _) _ _ _ q hk
      · rename_i hff
        simp only [hff]
        refine bind_ext (Ext.chunk text) hk ?_
        intro c r'' hc hk2
        rw [Dec.bind_run] at hk2 ⊢
        cases hl : Dec.chunkLoop text f r'' with
        | ok cs' r3 =>
          rw [hl] at hk2
          cases hk2
          rw [ih _ _ _ hl (by omega)]
          rfl
        | err e r3 => rw [hl] at hk2; cases hk2
        | panic => rw [hl] at hk2; cases hk2

theorem Ext.chunkLoopAll (text : Bool) :
    Ext (Dec.remaining >>= fun r => Dec.chunkLoop text (r.length + 1)) := by
  intro bs cs r q h
  simp only [Dec.bind_run, Dec.remaining] at h ⊢
  exact chunkLoop_ext text _ _ _ _ _ _ h (by simp)

theorem Ext.stringIter (text : Bool) : Ext (Dec.stringIter text) := by
  unfold Dec.stringIter
  have h1 := Ext.unsigned
  have h2 := Ext.u64ToUsize
  have h3 := @Ext.typeMismatch (List Bytes)
  have h4 := Ext.chunkLoopAll text
  repeat' (first
      | exact Ext.read | exact Ext.readSlice _ | exact h1 _ | exact h2 _ | exact h3 _ | exact h4
      | exact Ext.pure _ | exact Ext.fail _
      | apply Ext.ite | apply Ext.bind | intro _)

theorem Ext.skipString (text : Bool) : Ext (Dec.skipString text) := by
  unfold Dec.skipString
  exact Ext.bind (Ext.stringIter text) (fun _ => Ext.pure _)

theorem Ext.skipIndefinite (alloc : Bool) (s : SkipSt) : Ext (Dec.skipIndefinite alloc s) := by
  unfold Dec.skipIndefinite
  ext_dec

theorem Ext.skipArm (alloc : Bool) (s : SkipSt) : Ext (Dec.skipArm alloc s) := by
  unfold Dec.skipArm
  apply Ext.bind Ext.current
  intro b
  have h1 := Ext.intAcc
  have h2 := Ext.skipString
  have h3 := Ext.container
  have h4 := Ext.unsigned
  have h5 := Ext.skipIndefinite alloc
  have h6 := @Ext.typeMismatch SkipArm
  repeat' (first
      | exact h6 _
      | apply Ext.ite
      | (apply Ext.bind (h1 _); intro _; exact Ext.pure _)
      | (apply Ext.bind (h2 _); intro _; exact Ext.pure _)
      | (apply Ext.bind Ext.read; intro _))
  · unfold Dec.array; apply Ext.bind (h3 _); intro o
    split
    · split <;> exact Ext.pure _
    · exact Ext.pure _
    · exact Ext.bind (h5 _) (fun _ => Ext.pure _)
  · unfold Dec.map; apply Ext.bind (h3 _); intro o
    split
    · split <;> exact Ext.pure _
    · exact Ext.pure _
    · exact Ext.bind (h5 _) (fun _ => Ext.pure _)
  · exact Ext.bind (h4 _) (fun _ => Ext.pure _)
  · exact Ext.bind (h4 _) (fun _ => Ext.pure _)
  · split <;> exact Ext.pure _
  · exact Ext.pure _

theorem Ext.skipPost (alloc : Bool) (s : SkipSt) : Ext (Dec.skipPost alloc s) := by
  unfold Dec.skipPost
  split
  · split
    · exact Ext.panic
    all_goals exact Ext.pure _
  · exact Ext.pure _

/-- the skip loop: stable under extension of the input and under more fuel. -/
theorem skipLoop_ext (alloc : Bool) (f f' : Nat) (s : SkipSt) (bs r q : Bytes)
    (h : Dec.skipLoop alloc f s bs = .ok () r) (hf : f ≤ f') :
    Dec.skipLoop alloc f' s (bs ++ q) = .ok () (r ++ q) := by
  induction f generalizing f' s bs with
  | zero => unfold Dec.skipLoop at h; cases h
  | succ f ih =>
    cases f' with
    | zero => omega
    | succ f' =>
      unfold Dec.skipLoop at h ⊢
      split at h
      · rename_i hrun
        simp only [hrun, if_true]
        cases h; rfl
      · rename_i hrun
        simp only [hrun]
        refine bind_ext (Ext.skipArm alloc s) h ?_
        intro a r' ha hk
        cases a with
        | cont s' => exact ih _ _ _ hk (by omega)
        | next s' =>
          simp only [] at hk ⊢
          refine bind_ext (Ext.skipPost alloc s') hk ?_
          intro o r'' ho hk2
          cases o with
          | none => cases hk2; rfl
          | some s'' => exact ih _ _ _ hk2 (by omega)

/-- a successful `skip` does not depend on the bytes after the skipped item. -/
theorem Ext.skip (alloc : Bool) : Ext (Dec.skip alloc) := by
  intro bs a r q h
  unfold Dec.skip at h ⊢
  simp only [Dec.bind_run, Dec.remaining] at h ⊢
  exact skipLoop_ext alloc _ _ _ _ _ _ h (by simp)

end Minicbor.Dec
