/-
  The diagnostic printer as a one-step transition function.  `dstep e st it` is what one
  iteration of the inner `while let Some(elt) = stack.pop()` loop does after popping `e`:
  either continue with a new stack / iterator and some emitted pieces, or write a message and
  `return` from `fmt`.  `displayInner_succ` ties it to the model's `displayInner`, which is the
  iteration of `dstep` under a fuel.
-/
import Minicbor.Token

namespace Minicbor

inductive DStep where
  | cont (st : List E) (it : List TokItem) (emit : List Piece)
  | stop (emit : List Piece)

/-- the `E::N` arm when the iterator yields token `t`. -/
def nstep (t : Token) (st : List E) (it' : List TokItem) : DStep :=
  match t with
  | .array n => .cont (.A (some n) :: st) it' [.lit "["]
  | .map n => .cont (.M (some n) :: st) it' [.lit "{"]
  | .beginArray => .cont (.A none :: st) it' [.lit "[_ "]
  | .beginMap => .cont (.M none :: st) it' [.lit "{_ "]
  | .beginBytes =>
      if isBreak it'.head? then .cont st it'.tail [.lit "''_"]
      else .cont (.B :: st) it' [.lit "(_ "]
  | .beginString =>
      if isBreak it'.head? then .cont st it'.tail [.lit "\"\"_"]
      else .cont (.D :: st) it' [.lit "(_ "]
  | .tag n => .cont (.T :: st) it' [.lit s!"{n}("]
  | t => .cont st it' t.render

/-- the arms for the four indefinite-length markers: close on `break`, complain when the tokens
    are exhausted, otherwise schedule another element. -/
def indefStep (msg close : String) (more : List E) (st : List E) (it : List TokItem) : DStep :=
  match it with
  | [] => .stop [.lit msg]
  | .tok .brk :: it' => .cont st it' [.lit close]
  | _ => .cont (more ++ st) it []

def dstep (e : E) (st : List E) (it : List TokItem) : DStep :=
  match e with
  | .N =>
    match it with
    | .tok t :: it' => nstep t st it'
    | .err e :: _ => .stop [.lit " !!! decoding error: ", .errmsg e]
    | [] => .stop [.lit " !!! decoding error: ", .errmsg .eoi]
  | .S s => .cont st it [.lit s]
  | .X s =>
    match it with
    | .tok .brk :: _ | [] => .cont st it []
    | .tok _ :: _ => .cont st it [.lit s]
    | .err e :: _ => .stop [.lit " !!! decoding error: ", .errmsg e]
  | .T => .cont (.N :: .S ")" :: st) it []
  | .A (some 0) => .cont st it [.lit "]"]
  | .A (some 1) => .cont (.N :: .A (some 0) :: st) it []
  | .A (some (n + 2)) => .cont (.N :: .S ", " :: .A (some (n + 1)) :: st) it []
  | .A none => indefStep " !!! indefinite array not closed" "]" [.N, .X ", ", .A none] st it
  | .M (some 0) => .cont st it [.lit "}"]
  | .M (some 1) => .cont (.N :: .S ": " :: .N :: .M (some 0) :: st) it []
  | .M (some (n + 2)) => .cont (.N :: .S ": " :: .N :: .S ", " :: .M (some (n + 1)) :: st) it []
  | .M none => indefStep " !!! indefinite map not closed" "}" [.N, .S ": ", .N, .X ", ", .M none] st it
  | .B => indefStep " !!! indefinite byte string not closed" ")" [.N, .X ", ", .B] st it
  | .D => indefStep " !!! indefinite string not closed" ")" [.N, .X ", ", .D] st it

/-- what `displayInner` does with the outcome of a step. -/
def dnext (fuel : Nat) (out : List Piece) : DStep → Option (List Piece × List TokItem × Bool)
  | .cont st it em => displayInner fuel st it (out ++ em)
  | .stop em => some (out ++ em, [], true)

theorem displayInner_zero (st : List E) (it : List TokItem) (out : List Piece) :
    displayInner 0 st it out = none := by
  unfold displayInner; rfl

theorem displayInner_nil (fuel : Nat) (it : List TokItem) (out : List Piece) :
    displayInner (fuel + 1) [] it out = some (out, it, false) := by
  unfold displayInner; rfl

/-- **`displayInner` is the iteration of `dstep`.** -/
theorem displayInner_succ (fuel : Nat) (e : E) (st : List E) (it : List TokItem) (out : List Piece) :
    displayInner (fuel + 1) (e :: st) it out = dnext fuel out (dstep e st it) := by
  have indef : ∀ (msg close : String) (more : List E) (it : List TokItem),
      dnext fuel out (indefStep msg close more st it) =
      (match it with
       | [] => some (out ++ [.lit msg], [], true)
       | .tok .brk :: it' => displayInner fuel st it' (out ++ [.lit close])
       | _ => displayInner fuel (more ++ st) it out) := by
    intro msg close more it
    unfold indefStep
    split <;> simp [dnext]
  cases e with
  | N =>
    cases it with
    | nil => conv => lhs; unfold displayInner
             rfl
    | cons x it' =>
      cases x with
      | err e => conv => lhs; unfold displayInner
                 rfl
      | tok t =>
        cases t <;> (conv => lhs; unfold displayInner) <;> simp only [dstep, nstep, dnext] <;>
          (try split) <;> simp [dnext]
  | S s => conv => lhs; unfold displayInner
           rfl
  | X s =>
    cases it with
    | nil => conv => lhs; unfold displayInner
             simp [dstep, dnext]
    | cons x it' =>
      cases x with
      | err e => conv => lhs; unfold displayInner
                 rfl
      | tok t => cases t <;> (conv => lhs; unfold displayInner) <;> simp [dstep, dnext]
  | T => conv => lhs; unfold displayInner
         simp [dstep, dnext]
  | A n =>
    cases n with
    | none =>
      simp only [dstep, indef]
      conv => lhs; unfold displayInner
      rfl
    | some n =>
      match n with
      | 0 => conv => lhs; unfold displayInner
             rfl
      | 1 => conv => lhs; unfold displayInner
             simp [dstep, dnext]
      | n + 2 => conv => lhs; unfold displayInner
                 simp [dstep, dnext]
  | M n =>
    cases n with
    | none =>
      simp only [dstep, indef]
      conv => lhs; unfold displayInner
      rfl
    | some n =>
      match n with
      | 0 => conv => lhs; unfold displayInner
             rfl
      | 1 => conv => lhs; unfold displayInner
             simp [dstep, dnext]
      | n + 2 => conv => lhs; unfold displayInner
                 simp [dstep, dnext]
  | B =>
    simp only [dstep, indef]
    conv => lhs; unfold displayInner
    rfl
  | D =>
    simp only [dstep, indef]
    conv => lhs; unfold displayInner
    rfl

end Minicbor
