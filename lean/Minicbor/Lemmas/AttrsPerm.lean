/-
  From pairwise commutation to "the iteration order of the per-attribute HashMap is irrelevant".
-/
import Minicbor.Lemmas.AttrsSwap

namespace Minicbor.Attrs

def two (l : Level) (a : A) (v w : Val) : Except Err A :=
  match tryInsert l a v with
  | .error e => .error e
  | .ok a' => tryInsert l a' w

theorem Bad.symm {v w : Val} (h : Bad v w) : Bad w v := by
  cases v with
  | codec c => cases c <;> cases w <;> simp_all [Bad]
  | isNil z => cases w with
    | codec c => cases c <;> simp_all [Bad]
    | _ => simp_all [Bad]
  | nil z => cases w with
    | codec c => cases c <;> simp_all [Bad]
    | _ => simp_all [Bad]
  | _ => cases w <;> simp_all [Bad]

/-- the relation under which two entries may be inserted in either order. -/
def Indep (v w : Val) : Prop := v.kind ≠ w.kind ∧ ¬ Bad v w

theorem Indep.symm {v w : Val} (h : Indep v w) : Indep w v := ⟨fun e => h.1 e.symm, fun b => h.2 b.symm⟩

theorem tryInsert_cl (l : Level) (a : A) (v : Val) (hal : allowed l v.kind = true) (hc : isCluster v.kind = true) :
    tryInsert l a v = (match insertCl a.cl v with | .error e => .error e | .ok c => .ok { a with cl := c }) := by
  simp only [tryInsert, hal, hc, Bool.not_true, Bool.false_eq_true, if_false, if_true]
  cases insertCl a.cl v <;> rfl

theorem tryInsert_rs (l : Level) (a : A) (v : Val) (hal : allowed l v.kind = true) (hc : isCluster v.kind = false) :
    tryInsert l a v = (match insertRs a.rs v with | .error e => .error e | .ok r => .ok { a with rs := r }) := by
  simp only [tryInsert, hal, hc, Bool.not_true, Bool.false_eq_true, if_false]
  cases insertRs a.rs v <;> rfl

theorem tryInsert_not_allowed (l : Level) (a : A) (v : Val) (hal : allowed l v.kind = false) :
    tryInsert l a v = .error .notSupportedOnLevel := by
  simp [tryInsert, hal]

/-- **`try_insert` commutes** on independent values, at every level, from every map. -/
theorem swap (l : Level) (a : A) (v w : Val) (h : Indep v w) : Eqv (two l a v w) (two l a w v) := by
  unfold two
  cases hv : allowed l v.kind
  · -- v is rejected on this level: both orders fail
    rw [tryInsert_not_allowed l a v hv]
    cases hw' : tryInsert l a w with
    | error e => exact Eqv.err _ _
    | ok a' => simp only [tryInsert_not_allowed l a' v hv]; exact Eqv.err _ _
  cases hw : allowed l w.kind
  · rw [tryInsert_not_allowed l a w hw]
    cases hv' : tryInsert l a v with
    | error e => exact Eqv.err _ _
    | ok a' => simp only [tryInsert_not_allowed l a' w hw]; exact Eqv.err _ _
  cases cv : isCluster v.kind <;> cases cw : isCluster w.kind
  · -- both independent kinds
    have := swapRs a.rs v w cv cw h.1
    simp only [twoRs] at this
    rw [tryInsert_rs l a v hv cv, tryInsert_rs l a w hw cw]
    cases h1 : insertRs a.rs v <;> cases h2 : insertRs a.rs w <;> simp only [h1, h2] at this ⊢
    · exact Eqv.err _ _
    · rename_i e r2
      rw [tryInsert_rs l _ v hv cv]
      rcases this with ⟨e1, e2, -, h4⟩ | ⟨x, h3, -⟩
      · simp only [h4]; exact Eqv.err _ _
      · cases h3
    · rename_i r1 e
      rw [tryInsert_rs l _ w hw cw]
      rcases this with ⟨e1, e2, h3, -⟩ | ⟨x, -, h4⟩
      · simp only [h3]; exact Eqv.err _ _
      · cases h4
    · rename_i r1 r2
      rw [tryInsert_rs l _ w hw cw, tryInsert_rs l _ v hv cv]
      rcases this with ⟨e1, e2, h3, h4⟩ | ⟨x, h3, h4⟩
      · simp only [h3, h4]; exact Eqv.err _ _
      · simp only [h3, h4]; exact Eqv.ok _
  · -- v independent, w cluster: they touch different halves of the map
    rw [tryInsert_rs l a v hv cv, tryInsert_cl l a w hw cw]
    cases h1 : insertRs a.rs v <;> cases h2 : insertCl a.cl w <;> simp only
    · exact Eqv.err _ _
    · rw [tryInsert_rs l _ v hv cv]; simp only [h1]; exact Eqv.err _ _
    · rw [tryInsert_cl l _ w hw cw]; simp only [h2]; exact Eqv.err _ _
    · rw [tryInsert_cl l _ w hw cw, tryInsert_rs l _ v hv cv]; simp only [h1, h2]; exact Eqv.ok _
  · rw [tryInsert_cl l a v hv cv, tryInsert_rs l a w hw cw]
    cases h1 : insertCl a.cl v <;> cases h2 : insertRs a.rs w <;> simp only
    · exact Eqv.err _ _
    · rw [tryInsert_cl l _ v hv cv]; simp only [h1]; exact Eqv.err _ _
    · rw [tryInsert_rs l _ w hw cw]; simp only [h2]; exact Eqv.err _ _
    · rw [tryInsert_rs l _ w hw cw, tryInsert_cl l _ v hv cv]; simp only [h1, h2]; exact Eqv.ok _
  · -- both in the codec cluster
    have := swapCl a.cl v w cv cw h.1 h.2
    simp only [twoCl] at this
    rw [tryInsert_cl l a v hv cv, tryInsert_cl l a w hw cw]
    cases h1 : insertCl a.cl v <;> cases h2 : insertCl a.cl w <;> simp only [h1, h2] at this ⊢
    · exact Eqv.err _ _
    · rw [tryInsert_cl l _ v hv cv]
      rcases this with ⟨e1, e2, -, h4⟩ | ⟨x, h3, -⟩
      · simp only [h4]; exact Eqv.err _ _
      · cases h3
    · rw [tryInsert_cl l _ w hw cw]
      rcases this with ⟨e1, e2, h3, -⟩ | ⟨x, -, h4⟩
      · simp only [h3]; exact Eqv.err _ _
      · cases h4
    · rw [tryInsert_cl l _ w hw cw, tryInsert_cl l _ v hv cv]
      rcases this with ⟨e1, e2, h3, h4⟩ | ⟨x, h3, h4⟩
      · simp only [h3, h4]; exact Eqv.err _ _
      · simp only [h3, h4]; exact Eqv.ok _

theorem insertAll_cons (l : Level) (a : A) (v : Val) (L : List Val) :
    insertAll l a (v :: L) = (match tryInsert l a v with | .error e => .error e | .ok a' => insertAll l a' L) := rfl

theorem insertAll_two (l : Level) (a : A) (v w : Val) (L : List Val) :
    insertAll l a (v :: w :: L) = (match two l a v w with | .error e => .error e | .ok a' => insertAll l a' L) := by
  simp only [insertAll_cons, two]
  cases tryInsert l a v <;> rfl

/-- **any permutation of pairwise independent values inserts to the same map** (or fails alike). -/
theorem insertAll_perm (l : Level) {L L' : List Val} (hp : L.Perm L') :
    L.Pairwise Indep → ∀ a, Eqv (insertAll l a L) (insertAll l a L') := by
  induction hp with
  | nil => intro _ a; exact Eqv.refl _
  | cons x _ ih =>
    intro hpw a
    have hpw' := (List.pairwise_cons.1 hpw).2
    simp only [insertAll_cons]
    cases tryInsert l a x with
    | error e => exact Eqv.err _ _
    | ok a' => exact ih hpw' a'
  | swap x y L =>
    intro hpw a
    have h1 := List.pairwise_cons.1 hpw
    have hyx : Indep y x := h1.1 x (by simp)
    rw [insertAll_two, insertAll_two]
    rcases swap l a y x hyx with ⟨e1, e2, h3, h4⟩ | ⟨b, h3, h4⟩
    · simp only [h3, h4]; exact Eqv.err _ _
    · simp only [h3, h4]; exact Eqv.refl _
  | trans h1 _ ih1 ih2 =>
    intro hpw a
    have hpw2 := (h1.pairwise_iff (fun h => Indep.symm h)).1 hpw
    exact (ih1 hpw a).trans (ih2 hpw2 a)

end Minicbor.Attrs
