/-
  Helper lemmas: what each accessor does on a head `headW maj w n ++ rest`.
-/
import Minicbor.Lemmas.Head
import Minicbor.Lemmas.NoPanic

namespace Minicbor
open Dec

theorem headByte_toNat (maj : Nat) (w : Width) (n : Nat) (hm : maj < 8) (h : w.fits n = true) :
    (u8 (maj * 32 + w.ai n)).toNat = maj * 32 + w.ai n := by
  have := Width.ai_le w n h
  rw [u8_toNat_mod]; omega

theorem majorOf_head (maj : Nat) (w : Width) (n : Nat) (hm : maj < 8) (h : w.fits n = true) :
    majorOf (u8 (maj * 32 + w.ai n)) = maj * 32 := by
  have := Width.ai_le w n h
  unfold majorOf; rw [headByte_toNat maj w n hm h]; omega

theorem infoOf_head (maj : Nat) (w : Width) (n : Nat) (hm : maj < 8) (h : w.fits n = true) :
    infoOf (u8 (maj * 32 + w.ai n)) = u8 (w.ai n) := by
  have := Width.ai_le w n h
  unfold infoOf; rw [headByte_toNat maj w n hm h]
  congr 1; omega

theorem infoOf_head_ne31 (maj : Nat) (w : Width) (n : Nat) (hm : maj < 8) (h : w.fits n = true) :
    (infoOf (u8 (maj * 32 + w.ai n)) == 31) = false := by
  have := Width.ai_le w n h
  rw [infoOf_head maj w n hm h]
  have h1 : (u8 (w.ai n)).toNat = w.ai n := by rw [u8_toNat_mod]; omega
  have : u8 (w.ai n) ≠ 31 := by
    intro hc
    have := congrArg UInt8.toNat hc
    rw [h1] at this
    have h31 : (31 : UInt8).toNat = 31 := rfl
    omega
  simpa using this

/-- reading the argument of a head of major type `maj` (after the initial byte has been consumed
    and `infoOf` applied). -/
theorem unsigned_info_head (maj : Nat) (w : Width) (n : Nat) (rest : Bytes) (hm : maj < 8)
    (h : w.fits n = true) :
    unsigned (infoOf (u8 (maj * 32 + w.ai n))) (be w.bytes n ++ rest) = .ok n rest := by
  rw [infoOf_head maj w n hm h]; exact unsigned_head w n rest h

/-! the same facts with the major-type byte `M = maj * 32` as a literal (simp-normal form) -/

theorem headByte_toNat' (M : Nat) (w : Width) (n : Nat) (hM : M % 32 = 0) (hlt : M < 256)
    (h : w.fits n = true) : (u8 (M + w.ai n)).toNat = M + w.ai n := by
  have := Width.ai_le w n h
  rw [u8_toNat_mod]; omega

theorem majorOf_head' (M : Nat) (w : Width) (n : Nat) (hM : M % 32 = 0) (hlt : M < 256)
    (h : w.fits n = true) : majorOf (u8 (M + w.ai n)) = M := by
  have := Width.ai_le w n h
  unfold majorOf; rw [headByte_toNat' M w n hM hlt h]; omega

theorem infoOf_head' (M : Nat) (w : Width) (n : Nat) (hM : M % 32 = 0) (hlt : M < 256)
    (h : w.fits n = true) : infoOf (u8 (M + w.ai n)) = u8 (w.ai n) := by
  have := Width.ai_le w n h
  unfold infoOf; rw [headByte_toNat' M w n hM hlt h]
  congr 1; omega

theorem infoOf_head_ne31' (M : Nat) (w : Width) (n : Nat) (hM : M % 32 = 0) (hlt : M < 256)
    (h : w.fits n = true) : infoOf (u8 (M + w.ai n)) ≠ 31 := by
  have := Width.ai_le w n h
  rw [infoOf_head' M w n hM hlt h]
  have h1 : (u8 (w.ai n)).toNat = w.ai n := by rw [u8_toNat_mod]; omega
  intro hc
  have := congrArg UInt8.toNat hc
  rw [h1] at this
  have h31 : (31 : UInt8).toNat = 31 := rfl
  omega

theorem unsigned_info_head' (M : Nat) (w : Width) (n : Nat) (rest : Bytes) (hM : M % 32 = 0)
    (hlt : M < 256) (h : w.fits n = true) :
    unsigned (infoOf (u8 (M + w.ai n))) (be w.bytes n ++ rest) = .ok n rest := by
  rw [infoOf_head' M w n hM hlt h]; exact unsigned_head w n rest h

theorem u8_31 : u8 31 = 31 := rfl

/-- `type_mismatch` never produces a value. -/
theorem typeMismatch_not_ok (b : UInt8) (bs : Bytes) (v : α) (r : Bytes) :
    (typeMismatch b : Dec α) bs ≠ .ok v r := by
  unfold typeMismatch
  rw [Dec.bind_run]
  cases typeOf b bs <;> simp

theorem typeMismatch_is_err (b : UInt8) (bs : Bytes) :
    ∃ e r, (typeMismatch b : Dec α) bs = .err e r := by
  have hp := NoPanic.typeMismatch (α := α) b bs
  cases h : (typeMismatch b : Dec α) bs with
  | ok v r => exact absurd h (typeMismatch_not_ok b bs v r)
  | err e r => exact ⟨e, r, rfl⟩
  | panic => exact absurd h hp

end Minicbor
