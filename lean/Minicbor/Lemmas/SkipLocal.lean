/-
  Local (input-independent) facts about `Decoder::skip`, for ARBITRARY bytes:
  * `Consumes m k`: whenever `m` succeeds it has consumed at least `k` bytes,
  * the chunk loop of indefinite strings and the skip loop never exhaust their fuel,
  * `*n -= 1` is never executed on a `Some(0)` (the `panic` arm of `skipPost` is dead),
  hence `skip` never panics (`Dec.skip_ne_panic`).
-/
import Minicbor.Skip
import Minicbor.Lemmas.NoPanic

namespace Minicbor.Dec

/-- whenever `m` succeeds, the remaining input is shorter by at least `k` bytes. -/
def Consumes (m : Dec α) (k : Nat) : Prop :=
  ∀ bs a r, m bs = .ok a r → r.length + k ≤ bs.length

namespace Consumes

theorem mono {m : Dec α} {j k : Nat} (h : Consumes m k) (hjk : j ≤ k) : Consumes m j := by
  intro bs a r e; have := h bs a r e; omega

theorem pure (a : α) : Consumes (Pure.pure a : Dec α) 0 := by
  intro bs a' r e; cases e; simp

theorem fail (e : Err) (k : Nat) : Consumes (Dec.fail e : Dec α) k := by
  intro bs a r h; cases h

theorem panic (k : Nat) : Consumes (Dec.panic : Dec α) k := by
  intro bs a r h; cases h

theorem read : Consumes Dec.read 1 := by
  intro bs a r h
  cases bs with
  | nil => cases h
  | cons b bs => cases h; simp

theorem current : Consumes Dec.current 0 := by
  intro bs a r h
  cases bs with
  | nil => cases h
  | cons b bs => cases h; simp

theorem peek : Consumes Dec.peek 0 := by
  intro bs a r h
  match bs with
  | [] => cases h
  | [_] => cases h
  | _ :: _ :: _ => cases h; simp

theorem remaining : Consumes Dec.remaining 0 := by
  intro bs a r h; cases h; simp

theorem readSlice (n : Nat) : Consumes (Dec.readSlice n) 0 := by
  intro bs a r h
  unfold Dec.readSlice at h
  split at h
  · cases h; simp
  · cases h

theorem bind {m : Dec α} {f : α → Dec β} {j k : Nat} (hm : Consumes m j)
    (hf : ∀ a, Consumes (f a) k) : Consumes (m >>= f) (j + k) := by
  intro bs b r h
  rw [Dec.bind_run] at h
  cases hmb : m bs with
  | ok a r' =>
    rw [hmb] at h
    have h1 := hm bs a r' hmb
    have h2 := hf a r' b r h
    omega
  | err e r' => rw [hmb] at h; cases h
  | panic => rw [hmb] at h; cases h

/-- `read` first, then anything that does not give bytes back. -/
theorem read_bind {f : UInt8 → Dec β} (hf : ∀ a, Consumes (f a) 0) : Consumes (Dec.read >>= f) 1 :=
  bind read hf

theorem bind0 {m : Dec α} {f : α → Dec β} (hm : Consumes m 0)
    (hf : ∀ a, Consumes (f a) 0) : Consumes (m >>= f) 0 := bind hm hf

theorem ite {c : Prop} [Decidable c] {a b : Dec α} {k : Nat} (ha : Consumes a k) (hb : Consumes b k) :
    Consumes (if c then a else b) k := by
  split <;> assumption

end Consumes

/-- discharge `Consumes _ 0` goals for straight-line code built from the primitives. -/
macro "consumes0" : tactic =>
  `(tactic| repeat' (first
      | exact Consumes.pure _ | exact Consumes.fail _ _ | exact Consumes.panic _
      | exact Consumes.mono Consumes.read (Nat.zero_le _)
      | exact Consumes.current | exact Consumes.peek | exact Consumes.remaining
      | exact Consumes.readSlice _
      | assumption
      | apply Consumes.ite | apply Consumes.bind0 | intro _))

theorem Consumes.typeOf (b : UInt8) : Consumes (Dec.typeOf b) 0 := by
  unfold Dec.typeOf
  consumes0

theorem Consumes.typeMismatch (b : UInt8) (k : Nat) : Consumes (Dec.typeMismatch b : Dec α) k := by
  intro bs a r h
  unfold Dec.typeMismatch at h
  rw [Dec.bind_run] at h
  cases ht : Dec.typeOf b bs with
  | ok t r' => rw [ht] at h; cases h
  | err e r' => rw [ht] at h; cases h
  | panic => rw [ht] at h; cases h

theorem Consumes.unsigned (b : UInt8) : Consumes (Dec.unsigned b) 0 := by
  unfold Dec.unsigned
  have := @Consumes.typeMismatch Nat b 0
  consumes0

theorem Consumes.tryAs (v m : Nat) : Consumes (Dec.tryAs v m) 0 := by
  unfold Dec.tryAs; consumes0

theorem Consumes.u64ToUsize (n : Nat) : Consumes (Dec.u64ToUsize n) 0 := by
  unfold Dec.u64ToUsize; consumes0

theorem NoPanic.u64ToUsize (n : Nat) : NoPanic (Dec.u64ToUsize n) := by
  unfold Dec.u64ToUsize; nopanic

/-- every integer accessor reads the initial byte. -/
theorem Consumes.intAcc (t : IntTy) : Consumes (Dec.intAcc t) 1 := by
  unfold Dec.intAcc
  apply Consumes.read_bind
  intro b
  have h1 := Consumes.unsigned
  have h2 := Consumes.tryAs
  have h3 := fun b => @Consumes.typeMismatch Int b 0
  repeat' (first
      | exact Consumes.pure _ | exact h1 _ | exact h2 _ _ | exact h3 _
      | apply Consumes.ite | apply Consumes.bind0 | intro _)

theorem Consumes.bytes : Consumes Dec.bytes 1 := by
  unfold Dec.bytes
  apply Consumes.read_bind
  intro b
  have h1 := Consumes.unsigned
  have h2 := Consumes.u64ToUsize
  have h3 := fun b => @Consumes.typeMismatch Bytes b 0
  repeat' (first
      | exact Consumes.readSlice _ | exact h1 _ | exact h2 _ | exact h3 _
      | apply Consumes.ite | apply Consumes.bind0 | intro _)

theorem Consumes.str : Consumes Dec.str 1 := by
  unfold Dec.str
  apply Consumes.read_bind
  intro b
  have h1 := Consumes.unsigned
  have h2 := Consumes.u64ToUsize
  have h3 := fun b => @Consumes.typeMismatch Bytes b 0
  repeat' (first
      | exact Consumes.readSlice _ | exact h1 _ | exact h2 _ | exact h3 _
      | exact Consumes.pure _ | exact Consumes.fail _ _
      | apply Consumes.ite | apply Consumes.bind0 | intro _)

theorem NoPanic.bytes : NoPanic Dec.bytes := by
  unfold Dec.bytes
  have h1 := NoPanic.unsigned
  have h2 := NoPanic.u64ToUsize
  have h3 := @NoPanic.typeMismatch Bytes
  repeat' (first
      | exact NoPanic.read | exact NoPanic.readSlice _ | exact h1 _ | exact h2 _ | exact h3 _
      | apply NoPanic.ite | apply NoPanic.bind | intro _)

theorem NoPanic.str : NoPanic Dec.str := by
  unfold Dec.str
  have h1 := NoPanic.unsigned
  have h2 := NoPanic.u64ToUsize
  have h3 := @NoPanic.typeMismatch Bytes
  repeat' (first
      | exact NoPanic.read | exact NoPanic.readSlice _ | exact h1 _ | exact h2 _ | exact h3 _
      | exact NoPanic.pure _ | exact NoPanic.fail _
      | apply NoPanic.ite | apply NoPanic.bind | intro _)

theorem Consumes.chunk (text : Bool) : Consumes (if text then Dec.str else Dec.bytes) 1 := by
  cases text
  · exact Consumes.bytes
  · exact Consumes.str

theorem NoPanic.chunk (text : Bool) : NoPanic (if text then Dec.str else Dec.bytes) := by
  cases text
  · exact NoPanic.bytes
  · exact NoPanic.str

theorem Consumes.chunkLoop (text : Bool) (fuel : Nat) : Consumes (Dec.chunkLoop text fuel) 0 := by
  induction fuel with
  | zero => unfold Dec.chunkLoop; exact Consumes.panic _
  | succ f ih =>
    unfold Dec.chunkLoop
    have h1 := Consumes.mono (Consumes.chunk text) (Nat.zero_le 1)
    repeat' (first
      | exact Consumes.pure _ | exact Consumes.current | exact ih | exact h1
      | exact Consumes.mono Consumes.read (Nat.zero_le _)
      | apply Consumes.ite | apply Consumes.bind0 | intro _)

/-- pointwise version of `NoPanic.bind`. -/
theorem bind_ne_panic {m : Dec α} {f : α → Dec β} {bs : Bytes} (hm : m bs ≠ .panic)
    (hf : ∀ a r, m bs = .ok a r → f a r ≠ .panic) : (m >>= f) bs ≠ .panic := by
  rw [Dec.bind_run]
  cases hmb : m bs with
  | ok a r => exact hf a r hmb
  | err e r => simp
  | panic => exact absurd hmb hm

/-- fuel adequacy of the chunk loop: with more fuel than remaining bytes it never runs dry. -/
theorem chunkLoop_ne_panic (text : Bool) (fuel : Nat) (bs : Bytes) (h : bs.length < fuel) :
    Dec.chunkLoop text fuel bs ≠ .panic := by
  induction fuel generalizing bs with
  | zero => omega
  | succ f ih =>
    unfold Dec.chunkLoop
    apply bind_ne_panic (NoPanic.current _)
    intro b r hb
    have hr : r = bs := by
      cases bs with
      | nil => cases hb
      | cons b' bs' => cases hb; rfl
    subst hr
    split
    · apply bind_ne_panic (NoPanic.read _)
      intro _ _ _; simp
    · apply bind_ne_panic (NoPanic.chunk text _)
      intro c r' hc
      have hlen := Consumes.chunk text r c r' hc
      apply bind_ne_panic (ih r' (by omega))
      intro _ _ _; simp

theorem Consumes.stringIter (text : Bool) : Consumes (Dec.stringIter text) 1 := by
  unfold Dec.stringIter
  apply Consumes.read_bind
  intro b
  have h1 := Consumes.unsigned
  have h2 := Consumes.u64ToUsize
  have h3 := fun b => @Consumes.typeMismatch (List Bytes) b 0
  have h4 := Consumes.chunkLoop text
  repeat' (first
      | exact Consumes.readSlice _ | exact Consumes.remaining | exact h1 _ | exact h2 _ | exact h3 _ | exact h4 _
      | exact Consumes.pure _ | exact Consumes.fail _ _
      | apply Consumes.ite | apply Consumes.bind0 | intro _)

theorem NoPanic.stringIter (text : Bool) : NoPanic (Dec.stringIter text) := by
  unfold Dec.stringIter
  have h1 := NoPanic.unsigned
  have h2 := NoPanic.u64ToUsize
  have h3 := @NoPanic.typeMismatch (List Bytes)
  have h4 : NoPanic (Dec.remaining >>= fun r => Dec.chunkLoop text (r.length + 1)) := by
    intro bs h
    simp only [Dec.bind_run, Dec.remaining] at h
    exact chunkLoop_ne_panic text _ bs (by omega) h
  repeat' (first
      | exact NoPanic.read | exact NoPanic.readSlice _ | exact h1 _ | exact h2 _ | exact h3 _ | exact h4
      | exact NoPanic.pure _ | exact NoPanic.fail _
      | apply NoPanic.ite | apply NoPanic.bind | intro _)

theorem Consumes.skipString (text : Bool) : Consumes (Dec.skipString text) 1 := by
  unfold Dec.skipString
  exact Consumes.bind (Consumes.stringIter text) (fun _ => Consumes.pure _)

theorem NoPanic.skipString (text : Bool) : NoPanic (Dec.skipString text) := by
  unfold Dec.skipString
  have := NoPanic.stringIter text
  nopanic

theorem Consumes.container (maj : Nat) : Consumes (Dec.container maj) 1 := by
  unfold Dec.container
  apply Consumes.read_bind
  intro b
  have h1 := Consumes.unsigned
  have h3 := fun b => @Consumes.typeMismatch (Option Nat) b 0
  repeat' (first
      | exact h1 _ | exact h3 _ | exact Consumes.pure _
      | apply Consumes.ite | apply Consumes.bind0 | intro _)

theorem NoPanic.container (maj : Nat) : NoPanic (Dec.container maj) := by
  unfold Dec.container
  have h1 := NoPanic.unsigned
  have h3 := @NoPanic.typeMismatch (Option Nat)
  repeat' (first
      | exact NoPanic.read | exact h1 _ | exact h3 _ | exact NoPanic.pure _
      | apply NoPanic.ite | apply NoPanic.bind | intro _)

theorem Consumes.skipIndefinite (alloc : Bool) (s : SkipSt) : Consumes (Dec.skipIndefinite alloc s) 0 := by
  unfold Dec.skipIndefinite
  consumes0

theorem NoPanic.skipIndefinite (alloc : Bool) (s : SkipSt) : NoPanic (Dec.skipIndefinite alloc s) := by
  unfold Dec.skipIndefinite
  nopanic

/-- every arm of the `match` in `skip` reads at least the initial byte. -/
theorem Consumes.skipArm (alloc : Bool) (s : SkipSt) : Consumes (Dec.skipArm alloc s) 1 := by
  unfold Dec.skipArm
  have hc : Consumes Dec.current 0 := Consumes.current
  refine Consumes.mono (k := 0 + 1) (Consumes.bind hc ?_) (by omega)
  intro b
  have h1 := Consumes.intAcc
  have h2 := Consumes.skipString
  have h3 := Consumes.container
  have h4 := Consumes.unsigned
  have h5 := Consumes.skipIndefinite alloc
  have h6 := fun b => @Consumes.typeMismatch SkipArm b 1
  have e01 : 1 = 1 + 0 := rfl
  repeat' (first
      | exact h6 _
      | apply Consumes.ite
      | (rw [e01]; apply Consumes.bind (h1 _); intro _; exact Consumes.pure _)
      | (rw [e01]; apply Consumes.bind (h2 _); intro _; exact Consumes.pure _)
      | (rw [e01]; apply Consumes.bind Consumes.read; intro _))
  · -- array
    rw [e01]; unfold Dec.array; apply Consumes.bind (h3 _); intro o
    split
    · split <;> exact Consumes.pure _
    · exact Consumes.pure _
    · exact Consumes.bind0 (h5 _) (fun _ => Consumes.pure _)
  · -- map
    rw [e01]; unfold Dec.map; apply Consumes.bind (h3 _); intro o
    split
    · split <;> exact Consumes.pure _
    · exact Consumes.pure _
    · exact Consumes.bind0 (h5 _) (fun _ => Consumes.pure _)
  · exact Consumes.bind0 (h4 _) (fun _ => Consumes.pure _)
  · exact Consumes.bind0 (h4 _) (fun _ => Consumes.pure _)
  · split <;> exact Consumes.pure _
  · exact Consumes.pure _

theorem NoPanic.skipArm (alloc : Bool) (s : SkipSt) : NoPanic (Dec.skipArm alloc s) := by
  unfold Dec.skipArm
  apply NoPanic.bind NoPanic.current
  intro b
  have h1 := NoPanic.intAcc
  have h2 := NoPanic.skipString
  have h3 := NoPanic.container
  have h4 := NoPanic.unsigned
  have h5 := NoPanic.skipIndefinite alloc
  have h6 := @NoPanic.typeMismatch SkipArm
  repeat' (first
      | exact h6 _
      | apply NoPanic.ite
      | (apply NoPanic.bind (h1 _); intro _; exact NoPanic.pure _)
      | (apply NoPanic.bind (h2 _); intro _; exact NoPanic.pure _)
      | (apply NoPanic.bind NoPanic.read; intro _))
  · unfold Dec.array; apply NoPanic.bind (h3 _); intro o
    split
    · split <;> exact NoPanic.pure _
    · exact NoPanic.pure _
    · exact NoPanic.bind (h5 _) (fun _ => NoPanic.pure _)
  · unfold Dec.map; apply NoPanic.bind (h3 _); intro o
    split
    · split <;> exact NoPanic.pure _
    · exact NoPanic.pure _
    · exact NoPanic.bind (h5 _) (fun _ => NoPanic.pure _)
  · exact NoPanic.bind (h4 _) (fun _ => NoPanic.pure _)
  · exact NoPanic.bind (h4 _) (fun _ => NoPanic.pure _)
  · split <;> exact NoPanic.pure _
  · exact NoPanic.pure _

/-- `while let Some(Some(0)) = stack.last() { pop }` never leaves a `Some(0)` on top. -/
theorem popZeros_ne_zero (st r : List (Option Nat)) : Dec.popZeros st ≠ some 0 :: r := by
  induction st with
  | nil => simp [Dec.popZeros]
  | cons x st ih =>
    match x with
    | some 0 => simpa [Dec.popZeros] using ih
    | some (k + 1) => simp [Dec.popZeros]
    | none => simp [Dec.popZeros]

/-- the `*n -= 1` after the `match` never underflows. -/
theorem NoPanic.skipPost (alloc : Bool) (s : SkipSt) : NoPanic (Dec.skipPost alloc s) := by
  unfold Dec.skipPost
  split
  · split
    · rename_i h; exact absurd h (popZeros_ne_zero _ _)
    all_goals exact NoPanic.pure _
  · exact NoPanic.pure _

theorem Consumes.skipPost (alloc : Bool) (s : SkipSt) : Consumes (Dec.skipPost alloc s) 0 := by
  unfold Dec.skipPost
  split
  · split
    · exact Consumes.panic _
    all_goals exact Consumes.pure _
  · exact Consumes.pure _

/-- fuel adequacy of the skip loop on arbitrary input: every iteration that does not end the
    loop consumes at least one byte, so more fuel than remaining bytes is never exhausted. -/
theorem skipLoop_ne_panic (alloc : Bool) (fuel : Nat) (s : SkipSt) (bs : Bytes)
    (h : bs.length < fuel) : Dec.skipLoop alloc fuel s bs ≠ .panic := by
  induction fuel generalizing s bs with
  | zero => omega
  | succ f ih =>
    unfold Dec.skipLoop
    split
    · simp
    · apply bind_ne_panic (NoPanic.skipArm alloc s _)
      intro a r ha
      have hlen := Consumes.skipArm alloc s bs a r ha
      cases a with
      | cont s' => exact ih s' r (by omega)
      | next s' =>
        apply bind_ne_panic (NoPanic.skipPost alloc s' _)
        intro o r' ho
        have hlen' := Consumes.skipPost alloc s' r o r' ho
        cases o with
        | none => simp
        | some s'' => exact ih s'' r' (by omega)

/-- `Decoder::skip` (either build) never panics, on arbitrary bytes: no `*n -= 1` underflow,
    no other panicking operation, and the model's loop fuel is never exhausted. -/
theorem skip_ne_panic (alloc : Bool) (bs : Bytes) : Dec.skip alloc bs ≠ .panic := by
  unfold Dec.skip
  simp only [Dec.bind_run, Dec.remaining]
  exact skipLoop_ne_panic alloc _ _ bs (by omega)

theorem NoPanic.skip (alloc : Bool) : NoPanic (Dec.skip alloc) := skip_ne_panic alloc

end Minicbor.Dec
