/-
  The no-alloc build of `Decoder::skip` (counting only).
  * On ARBITRARY bytes it runs in lockstep with the alloc build until it either finishes in
    the same way or gives up with the documented `message` error (`skip_lock`); hence whenever
    it returns `ok`, the alloc build returns the same (`noalloc_refines`).
  * On a valid tree with no indefinite array/map inside a definite one it is exact
    (`skip_noalloc_encW`): pure counting, by induction on the tree.
-/
import Minicbor.Lemmas.SkipExact
import Minicbor.Lemmas.SkipView
import Minicbor.Lemmas.SkipLocal
import Minicbor.Parse

namespace Minicbor
open Dec

/-! ### lockstep with the alloc build on arbitrary bytes -/

/-- invariant of the no-alloc build's states (also of the alloc build's while counting). -/
structure NA (s : SkipSt) : Prop where
  st : s.stack = []
  nr : s.nr ≤ U64MAX

theorem satAdd_le (a b : Nat) : satAdd a b ≤ U64MAX := by
  unfold satAdd; split <;> omega

theorem postSt_false (s : SkipSt) : postSt false s = { s with nr := s.nr - 1 } := by
  simp [postSt]

theorem postSt_nil_eq (s : SkipSt) (h : s.stack = []) : postSt true s = postSt false s := by
  obtain ⟨nr, ir, st⟩ := s
  simp at h; subst h
  by_cases hc : SkipSt.counting ⟨nr, ir, []⟩ = true
  · simp [postSt, hc]
  · have hc' : SkipSt.counting ⟨nr, ir, []⟩ = false := by simpa using hc
    obtain ⟨h1, h2⟩ := (not_counting_iff _).1 hc'
    simp at h1 h2; subst h1 h2
    simp [postSt, counting_mk, postStack, popZeros]

theorem NA.post {s : SkipSt} (h : NA s) : NA (postSt false s) := by
  rw [postSt_false]; exact ⟨h.st, by have := h.nr; simp; omega⟩

/-- one token: same effect in both builds, or the no-alloc build gives up. -/
theorem tokStep_lock (s : SkipSt) (h : NA s) (hc : s.counting = true) (t : Tok) :
    (tokStep false s t = tokStep true s t ∧ ∀ s', tokStep false s t = some s' → NA s')
      ∨ tokStep false s t = none := by
  obtain ⟨nr, ir, st⟩ := s
  have hst := h.st; simp at hst; subst hst
  have hnr := h.nr; simp at hnr
  cases t with
  | item =>
    left
    refine ⟨by simp [tokStep, postSt_nil_eq], ?_⟩
    intro s' hs; simp [tokStep] at hs; subst hs; exact h.post
  | defn n =>
    left
    have e : defSt true ⟨nr, ir, []⟩ n = defSt false ⟨nr, ir, []⟩ n := by
      by_cases hn : n = 0
      · subst hn
        simp [defSt, skipDefinite, satAdd, hnr]
      · simp [defSt, hn, skipDefinite, hc]
    have hna : NA (defSt false ⟨nr, ir, []⟩ n) := by
      simp only [defSt, skipDefinite, Bool.false_eq_true, and_false, if_false, Bool.false_and]
      exact ⟨rfl, satAdd_le _ _⟩
    refine ⟨by simp only [tokStep]; rw [e, postSt_nil_eq _ hna.st], ?_⟩
    intro s' hs; simp [tokStep] at hs; subst hs; exact hna.post
  | indef =>
    by_cases h2 : nr < 2
    · left
      have e1 : indefSt false ⟨nr, ir, []⟩ = some ⟨nr, satAdd ir 1, []⟩ := by simp [indefSt, h2]
      have e2 : indefSt true ⟨nr, ir, []⟩ = some ⟨nr, satAdd ir 1, []⟩ := by simp [indefSt, hc, h2]
      have hna : NA ⟨nr, satAdd ir 1, []⟩ := ⟨rfl, hnr⟩
      refine ⟨by simp only [tokStep, e1, e2, Option.map]; rw [postSt_nil_eq _ hna.st], ?_⟩
      intro s' hs; simp [tokStep, e1] at hs; subst hs; exact hna.post
    · right
      simp [tokStep, indefSt, h2]
  | brk =>
    left
    have e : brkSt true ⟨nr, ir, []⟩ = brkSt false ⟨nr, ir, []⟩ := by simp [brkSt, hc]
    have hna : NA (brkSt false ⟨nr, ir, []⟩) := by
      simp only [brkSt, Bool.false_and, Bool.false_eq_true, if_false]
      exact ⟨rfl, hnr⟩
    refine ⟨by simp only [tokStep]; rw [e, postSt_nil_eq _ hna.st], ?_⟩
    intro s' hs; simp [tokStep] at hs; subst hs; exact hna.post
  | tag =>
    left
    refine ⟨rfl, ?_⟩
    intro s' hs; simp [tokStep] at hs; subst hs; exact h

theorem indefSt_true_isSome (s : SkipSt) : ∃ s', indefSt true s = some s' := by
  unfold indefSt
  split
  · exact ⟨_, rfl⟩
  · split
    · exact ⟨_, rfl⟩
    · exact ⟨_, rfl⟩

/-- reading a token consumes at least one byte. -/
theorem armTok_consumes : Consumes armTok 1 := by
  intro bs t r ht
  have harm : skipArm true SkipSt.init bs = applyTok true SkipSt.init t r := by
    rw [skipArm_eq, Dec.bind_run, ht]
  have : ∃ a, applyTok true SkipSt.init t r = .ok a r := by
    cases t with
    | indef =>
      obtain ⟨s', hs⟩ := indefSt_true_isSome SkipSt.init
      exact ⟨.next s', by simp [applyTok, hs]⟩
    | _ => exact ⟨_, rfl⟩
  obtain ⟨a, ha⟩ := this
  rw [ha] at harm
  exact Consumes.skipArm true SkipSt.init bs a r harm

theorem running_false_iff (s : SkipSt) (h : s.stack = []) :
    skipRunning false s = skipRunning true s := by
  simp [skipRunning, h]

theorem running_counting (s : SkipSt) (h : skipRunning false s = true) : s.counting = true := by
  obtain ⟨nr, ir, st⟩ := s
  simp [skipRunning] at h
  simp [counting_mk]; omega

/-- with enough fuel (as `skip` provides) the no-alloc loop computes the same as the alloc
    loop, or gives up with the `message` error — on arbitrary bytes. -/
theorem skipLoop_lock (f : Nat) (s : SkipSt) (bs : Bytes) (h : NA s) (hf : bs.length + 1 ≤ f) :
    skipLoop false (f + 1) s bs = skipLoop true (f + 1) s bs
      ∨ ∃ r, skipLoop false (f + 1) s bs = .err .message r := by
  induction f generalizing s bs with
  | zero => omega
  | succ f ih =>
    by_cases hrun : skipRunning false s = true
    · have hrun' : skipRunning true s = true := by rw [← running_false_iff s h.st]; exact hrun
      rw [loop_tok false s bs f hrun, loop_tok true s bs f hrun']
      cases ht : armTok bs with
      | ok t r =>
        have hlen := armTok_consumes bs t r ht
        simp only []
        rcases tokStep_lock s h (running_counting s hrun) t with ⟨he, hna⟩ | hn
        · rw [← he]
          cases hs : tokStep false s t with
          | none => left; rfl
          | some s' => exact ih s' r (hna s' hs) (by omega)
        · rw [hn]
          exact Or.inr ⟨r, rfl⟩
      | err e r => left; rfl
      | panic => left; rfl
    · have hrun0 : skipRunning false s = false := by simpa using hrun
      have hrun' : skipRunning true s = false := by rw [← running_false_iff s h.st]; exact hrun0
      left
      rw [skipLoop_done _ _ _ _ hrun0, skipLoop_done _ _ _ _ hrun']

theorem NA.init : NA SkipSt.init := ⟨rfl, by simp [SkipSt.init, U64MAX]⟩

/-- **lockstep** of the two builds on arbitrary bytes. -/
theorem Dec.skip_lock (bs : Bytes) :
    Dec.skip false bs = Dec.skip true bs ∨ ∃ r, Dec.skip false bs = .err .message r := by
  unfold Dec.skip
  simp only [Dec.bind_run, Dec.remaining]
  exact skipLoop_lock (bs.length + 1) SkipSt.init bs NA.init (by omega)

/-! ### exactness of the no-alloc build on supported trees (pure counting) -/

theorem running_false_mk (nr ir : Nat) (st : List (Option Nat)) (h : 1 ≤ nr ∨ 1 ≤ ir) :
    skipRunning false ⟨nr, ir, st⟩ = true := by
  simp [skipRunning]; omega

/-- a single-token item in the no-alloc build. -/
theorem leaf_steps_na (bs : Bytes) (hpos : 1 ≤ bs.length)
    (harm : ∀ s rest, skipArm false s (bs ++ rest) = .ok (.next s) rest)
    (nr ir : Nat) (st : List (Option Nat)) (rest : Bytes) (hl : 1 ≤ nr ∨ 1 ≤ ir) :
    ∃ k, k ≤ bs.length ∧ SkipSteps false k ⟨nr, ir, st⟩ (bs ++ rest) ⟨nr - 1, ir, st⟩ rest := by
  refine ⟨1, hpos, ?_⟩
  have := SkipSteps.next (running_false_mk nr ir st hl) (harm ⟨nr, ir, st⟩ rest)
  rwa [postSt_false] at this

theorem defSt_false (nr ir : Nat) (st : List (Option Nat)) (n : Nat) (h : nr + n ≤ U64MAX) :
    postSt false (defSt false ⟨nr, ir, st⟩ n) = ⟨nr + n - 1, ir, st⟩ := by
  simp [defSt, skipDefinite, postSt_false, satAdd_eq nr n h]

theorem brkSt_false (nr ir : Nat) (st : List (Option Nat)) :
    postSt false (brkSt false ⟨nr, ir, st⟩) = ⟨nr - 1, ir - 1, st⟩ := by
  simp [brkSt, postSt_false]

mutual
/-- a tree without indefinite arrays/maps takes one off `nrounds` (saturating). -/
theorem flat_steps : (w : WItem) → w.valid = true → w.hasIndef = false →
    ∀ (nr ir : Nat) (st : List (Option Nat)) (rest : Bytes), (1 ≤ nr ∨ 1 ≤ ir) →
    nr + (encW w).length ≤ U64MAX + 1 →
    ∃ k, k ≤ (encW w).length ∧ SkipSteps false k ⟨nr, ir, st⟩ (encW w ++ rest) ⟨nr - 1, ir, st⟩ rest
  | .uint w n, hv, _, nr, ir, st, rest, hl, _ => by
    simp only [WItem.valid] at hv
    simp only [encW]
    exact leaf_steps_na _ (by simp [headW_length]) (fun s rest => arm_uint false s w n rest hv) nr ir st rest hl
  | .nint w n, hv, _, nr, ir, st, rest, hl, _ => by
    simp only [WItem.valid] at hv
    simp only [encW]
    exact leaf_steps_na _ (by simp [headW_length]) (fun s rest => arm_nint false s w n rest hv) nr ir st rest hl
  | .bytes w b, hv, _, nr, ir, st, rest, hl, _ => by
    simp only [WItem.valid] at hv
    simp only [encW]
    refine leaf_steps_na _ (by simp [headW_length]; omega) (fun s rest => ?_) nr ir st rest hl
    rw [List.append_assoc]; exact arm_bytes false s w b rest hv
  | .text w b, hv, _, nr, ir, st, rest, hl, _ => by
    simp only [WItem.valid, Bool.and_eq_true] at hv
    simp only [encW]
    refine leaf_steps_na _ (by simp [headW_length]; omega) (fun s rest => ?_) nr ir st rest hl
    rw [List.append_assoc]; exact arm_text false s w b rest hv.1 hv.2
  | .bytesI cs, hv, _, nr, ir, st, rest, hl, _ => by
    simp only [WItem.valid] at hv
    simp only [encW]
    refine leaf_steps_na _ (by simp) (fun s rest => ?_) nr ir st rest hl
    simp only [List.cons_append, List.append_assoc, List.nil_append]
    exact arm_bytesI false s cs rest hv
  | .textI cs, hv, _, nr, ir, st, rest, hl, _ => by
    simp only [WItem.valid] at hv
    simp only [encW]
    refine leaf_steps_na _ (by simp) (fun s rest => ?_) nr ir st rest hl
    simp only [List.cons_append, List.append_assoc, List.nil_append]
    exact arm_textI false s cs rest hv
  | .simple n, hv, _, nr, ir, st, rest, hl, _ => by
    simp only [WItem.valid] at hv
    simp only [encW]
    exact leaf_steps_na _ (by split <;> simp) (fun s rest => arm_simple false s n rest hv) nr ir st rest hl
  | .f16 b, _, _, nr, ir, st, rest, hl, _ => by
    simp only [encW]
    refine leaf_steps_na _ (by simp) (fun s rest => ?_) nr ir st rest hl
    exact arm_float false s 2 b rest (Or.inl rfl)
  | .f32 b, _, _, nr, ir, st, rest, hl, _ => by
    simp only [encW]
    refine leaf_steps_na _ (by simp) (fun s rest => ?_) nr ir st rest hl
    exact arm_float false s 4 b rest (Or.inr (Or.inl rfl))
  | .f64 b, _, _, nr, ir, st, rest, hl, _ => by
    simp only [encW]
    refine leaf_steps_na _ (by simp) (fun s rest => ?_) nr ir st rest hl
    exact arm_float false s 8 b rest (Or.inr (Or.inr rfl))
  | .tag w n x, hv, hi, nr, ir, st, rest, hl, hb => by
    simp only [WItem.valid, Bool.and_eq_true] at hv
    simp only [WItem.hasIndef] at hi
    simp only [encW, List.length_append, headW_length] at hb ⊢
    obtain ⟨k, hk, hs⟩ := flat_steps x hv.2 hi nr ir st rest hl (by omega)
    refine ⟨1 + k, by omega, ?_⟩
    rw [List.append_assoc]
    exact SkipSteps.trans (SkipSteps.cont (running_false_mk nr ir st hl) (arm_tag false _ w n _ hv.1)) hs
  | .array w xs, hv, hi, nr, ir, st, rest, hl, hb => by
    simp only [WItem.valid, Bool.and_eq_true] at hv
    simp only [WItem.hasIndef] at hi
    simp only [encW, List.length_append, headW_length] at hb ⊢
    have hge := encWs_length_ge xs
    obtain ⟨k, hk, hs⟩ := flats_steps xs hv.2 hi (nr + xs.length - 1) ir st rest (by omega) (by omega)
    refine ⟨1 + k, by omega, ?_⟩
    rw [List.append_assoc]
    have h1 := SkipSteps.next (running_false_mk nr ir st hl) (arm_array false ⟨nr, ir, st⟩ w _ (encWs xs ++ rest) hv.1)
    rw [defSt_false _ _ _ _ (by omega)] at h1
    have e : nr + xs.length - 1 - xs.length = nr - 1 := by omega
    rw [e] at hs
    exact SkipSteps.trans h1 hs
  | .map w xs, hv, hi, nr, ir, st, rest, hl, hb => by
    simp only [WItem.valid, Bool.and_eq_true, beq_iff_eq] at hv
    simp only [WItem.hasIndef] at hi
    simp only [encW, List.length_append, headW_length] at hb ⊢
    have hge := encWs_length_ge xs
    obtain ⟨k, hk, hs⟩ := flats_steps xs hv.2 hi (nr + xs.length - 1) ir st rest (by omega) (by omega)
    refine ⟨1 + k, by omega, ?_⟩
    rw [List.append_assoc]
    have harm := arm_map false ⟨nr, ir, st⟩ w _ (encWs xs ++ rest) hv.1.2
    rw [satMul2_half _ hv.1.1 (by omega)] at harm
    have h1 := SkipSteps.next (running_false_mk nr ir st hl) harm
    rw [defSt_false _ _ _ _ (by omega)] at h1
    have e : nr + xs.length - 1 - xs.length = nr - 1 := by omega
    rw [e] at hs
    exact SkipSteps.trans h1 hs
  | .arrayI _, _, hi, _, _, _, _, _, _ => by simp [WItem.hasIndef] at hi
  | .mapI _, _, hi, _, _, _, _, _, _ => by simp [WItem.hasIndef] at hi

theorem flats_steps : (xs : List WItem) → validAll xs = true → hasIndefs xs = false →
    ∀ (nr ir : Nat) (st : List (Option Nat)) (rest : Bytes), (xs.length ≤ nr ∨ 1 ≤ ir) →
    nr + (encWs xs).length + 1 ≤ U64MAX + 1 + xs.length →
    ∃ k, k ≤ (encWs xs).length ∧
      SkipSteps false k ⟨nr, ir, st⟩ (encWs xs ++ rest) ⟨nr - xs.length, ir, st⟩ rest
  | [], _, _, nr, ir, st, rest, _, _ => by
    simp only [encWs, List.length_nil, Nat.sub_zero]
    exact ⟨0, by simp, SkipSteps.refl _ _ _⟩
  | x :: xs, hv, hi, nr, ir, st, rest, hl, hb => by
    simp only [validAll, Bool.and_eq_true] at hv
    simp only [hasIndefs, Bool.or_eq_false_iff] at hi
    simp only [encWs, List.length_append, List.length_cons] at hb hl ⊢
    have hge := encWs_length_ge xs
    have hpos := encW_length_pos x
    obtain ⟨k1, hk1, hs1⟩ := flat_steps x hv.1 hi.1 nr ir st (encWs xs ++ rest) (by omega) (by omega)
    obtain ⟨k2, hk2, hs2⟩ := flats_steps xs hv.2 hi.2 (nr - 1) ir st rest (by omega) (by omega)
    refine ⟨k1 + k2, by omega, ?_⟩
    rw [List.append_assoc]
    have e : nr - 1 - xs.length = nr - (xs.length + 1) := by omega
    rw [e] at hs2
    exact SkipSteps.trans hs1 hs2
end

theorem indefSt_false (nr ir : Nat) (st : List (Option Nat)) (h : nr ≤ 1) (hb : ir + 1 ≤ U64MAX) :
    indefSt false ⟨nr, ir, st⟩ = some ⟨nr, ir + 1, st⟩ := by
  have : nr < 2 := by omega
  simp [indefSt, this, satAdd_eq ir 1 hb]

mutual
/-- a tree with no indefinite array/map inside a definite one, met while at most one item is
    pending (`nrounds ≤ 1`), takes one off `nrounds`. -/
theorem nid_steps : (w : WItem) → w.valid = true → w.indefInDef = false →
    ∀ (nr ir : Nat) (st : List (Option Nat)) (rest : Bytes), (1 ≤ nr ∨ 1 ≤ ir) → nr ≤ 1 →
    ir + (encW w).length ≤ U64MAX →
    ∃ k, k ≤ (encW w).length ∧ SkipSteps false k ⟨nr, ir, st⟩ (encW w ++ rest) ⟨nr - 1, ir, st⟩ rest
  | .tag w n x, hv, hi, nr, ir, st, rest, hl, h1, hb => by
    simp only [WItem.valid, Bool.and_eq_true] at hv
    simp only [WItem.indefInDef] at hi
    simp only [encW, List.length_append, headW_length] at hb ⊢
    obtain ⟨k, hk, hs⟩ := nid_steps x hv.2 hi nr ir st rest hl h1 (by omega)
    refine ⟨1 + k, by omega, ?_⟩
    rw [List.append_assoc]
    exact SkipSteps.trans (SkipSteps.cont (running_false_mk nr ir st hl) (arm_tag false _ w n _ hv.1)) hs
  | .arrayI xs, hv, hi, nr, ir, st, rest, hl, h1, hb => by
    simp only [WItem.valid] at hv
    simp only [WItem.indefInDef] at hi
    simp only [encW, List.length_append, List.length_cons, List.length_nil] at hb ⊢
    obtain ⟨k, hk, hs⟩ := nids_steps xs hv hi (ir + 1) st (0xff :: rest) (by omega) (by omega)
    refine ⟨1 + k + 1, by omega, ?_⟩
    have harm := arm_indef false ⟨nr, ir, st⟩ false (encWs xs ++ 0xff :: rest)
    rw [indefSt_false nr ir st h1 (by omega)] at harm
    have e : (0x9f :: (encWs xs ++ [0xff])) ++ rest = 0x9f :: (encWs xs ++ 0xff :: rest) := by simp
    rw [e]
    have s1 := SkipSteps.next (running_false_mk nr ir st hl) harm
    rw [postSt_false] at s1
    have e0 : nr - 1 = 0 := by omega
    simp only [e0] at s1 ⊢
    have s3 := SkipSteps.next (running_false_mk 0 (ir + 1) st (by omega)) (arm_brk false ⟨0, ir + 1, st⟩ rest)
    rw [brkSt_false] at s3
    exact SkipSteps.trans (SkipSteps.trans s1 hs) s3
  | .mapI xs, hv, hi, nr, ir, st, rest, hl, h1, hb => by
    simp only [WItem.valid, Bool.and_eq_true] at hv
    simp only [WItem.indefInDef] at hi
    simp only [encW, List.length_append, List.length_cons, List.length_nil] at hb ⊢
    obtain ⟨k, hk, hs⟩ := nids_steps xs hv.2 hi (ir + 1) st (0xff :: rest) (by omega) (by omega)
    refine ⟨1 + k + 1, by omega, ?_⟩
    have harm := arm_indef false ⟨nr, ir, st⟩ true (encWs xs ++ 0xff :: rest)
    rw [indefSt_false nr ir st h1 (by omega)] at harm
    have e : (0xbf :: (encWs xs ++ [0xff])) ++ rest = 0xbf :: (encWs xs ++ 0xff :: rest) := by simp
    rw [e]
    have s1 := SkipSteps.next (running_false_mk nr ir st hl) harm
    rw [postSt_false] at s1
    have e0 : nr - 1 = 0 := by omega
    simp only [e0] at s1 ⊢
    have s3 := SkipSteps.next (running_false_mk 0 (ir + 1) st (by omega)) (arm_brk false ⟨0, ir + 1, st⟩ rest)
    rw [brkSt_false] at s3
    exact SkipSteps.trans (SkipSteps.trans s1 hs) s3
  | .array w xs, hv, hi, nr, ir, st, rest, hl, _, hb =>
    flat_steps (.array w xs) hv (by simpa [WItem.hasIndef, WItem.indefInDef] using hi) nr ir st rest hl (by omega)
  | .map w xs, hv, hi, nr, ir, st, rest, hl, _, hb =>
    flat_steps (.map w xs) hv (by simpa [WItem.hasIndef, WItem.indefInDef] using hi) nr ir st rest hl (by omega)
  | .uint w n, hv, _, nr, ir, st, rest, hl, _, hb =>
    flat_steps (.uint w n) hv (by simp [WItem.hasIndef]) nr ir st rest hl (by omega)
  | .nint w n, hv, _, nr, ir, st, rest, hl, _, hb =>
    flat_steps (.nint w n) hv (by simp [WItem.hasIndef]) nr ir st rest hl (by omega)
  | .bytes w b, hv, _, nr, ir, st, rest, hl, _, hb =>
    flat_steps (.bytes w b) hv (by simp [WItem.hasIndef]) nr ir st rest hl (by omega)
  | .text w b, hv, _, nr, ir, st, rest, hl, _, hb =>
    flat_steps (.text w b) hv (by simp [WItem.hasIndef]) nr ir st rest hl (by omega)
  | .bytesI cs, hv, _, nr, ir, st, rest, hl, _, hb =>
    flat_steps (.bytesI cs) hv (by simp [WItem.hasIndef]) nr ir st rest hl (by omega)
  | .textI cs, hv, _, nr, ir, st, rest, hl, _, hb =>
    flat_steps (.textI cs) hv (by simp [WItem.hasIndef]) nr ir st rest hl (by omega)
  | .simple n, hv, _, nr, ir, st, rest, hl, _, hb =>
    flat_steps (.simple n) hv (by simp [WItem.hasIndef]) nr ir st rest hl (by omega)
  | .f16 b, hv, _, nr, ir, st, rest, hl, _, hb =>
    flat_steps (.f16 b) hv (by simp [WItem.hasIndef]) nr ir st rest hl (by omega)
  | .f32 b, hv, _, nr, ir, st, rest, hl, _, hb =>
    flat_steps (.f32 b) hv (by simp [WItem.hasIndef]) nr ir st rest hl (by omega)
  | .f64 b, hv, _, nr, ir, st, rest, hl, _, hb =>
    flat_steps (.f64 b) hv (by simp [WItem.hasIndef]) nr ir st rest hl (by omega)

/-- the elements of an indefinite container: `nrounds` stays 0. -/
theorem nids_steps : (xs : List WItem) → validAll xs = true → indefInDefs xs = false →
    ∀ (ir : Nat) (st : List (Option Nat)) (rest : Bytes), 1 ≤ ir →
    ir + (encWs xs).length ≤ U64MAX →
    ∃ k, k ≤ (encWs xs).length ∧ SkipSteps false k ⟨0, ir, st⟩ (encWs xs ++ rest) ⟨0, ir, st⟩ rest
  | [], _, _, ir, st, rest, _, _ => by
    simp only [encWs]
    exact ⟨0, by simp, SkipSteps.refl _ _ _⟩
  | x :: xs, hv, hi, ir, st, rest, hl, hb => by
    simp only [validAll, Bool.and_eq_true] at hv
    simp only [indefInDefs, Bool.or_eq_false_iff] at hi
    simp only [encWs, List.length_append] at hb ⊢
    obtain ⟨k1, hk1, hs1⟩ := nid_steps x hv.1 hi.1 0 ir st (encWs xs ++ rest) (Or.inr hl) (by omega) (by omega)
    obtain ⟨k2, hk2, hs2⟩ := nids_steps xs hv.2 hi.2 ir st rest hl (by omega)
    refine ⟨k1 + k2, by omega, ?_⟩
    rw [List.append_assoc]
    exact SkipSteps.trans hs1 hs2
end

/-- the no-alloc build is exact on every valid tree that has no indefinite array/map inside
    a definite one. -/
theorem Dec.skip_noalloc_encW (w : WItem) (rest : Bytes) (hv : w.valid = true)
    (hi : w.indefInDef = false) (hlen : (encW w).length ≤ U64MAX) :
    Dec.skip false (encW w ++ rest) = .ok () rest := by
  obtain ⟨k, hk, hs⟩ := nid_steps w hv hi 1 0 [] rest (Or.inl (by omega)) (by omega) (by omega)
  unfold Dec.skip
  simp only [Dec.bind_run, Dec.remaining, List.length_append]
  have e : (encW w).length + rest.length + 2 = ((encW w).length - k + rest.length) + 1 + 1 + k := by omega
  rw [e]
  have := hs ((encW w).length - k + rest.length + 1)
  rw [SkipSt.init, this, skipLoop_done]
  simp [skipRunning]

end Minicbor
