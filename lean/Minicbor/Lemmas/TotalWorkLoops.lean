/-
  C02 infrastructure, part 8: step counts of the loops (strings, skip, the combinators of
  Types.lean).  Pattern: if the element decoder takes at most `K * (consumed + 1)` steps and
  consumes ≥ 1 byte per success, the loop takes at most `(2K + 2) * (consumed + 1)` steps —
  whatever count the input declares.
-/
import Minicbor.Lemmas.TotalWork

namespace Minicbor.Dec

theorem Lin.repeatN {K : Nat} {m : Dec α} (hm : Lin K m) (hc : Consumes m 1) (n : Nat) :
    Lin (2 * K + 2) (Dec.repeatN m n) := by
  induction n with
  | zero => unfold Dec.repeatN; exact Lin'.pure _ _ _
  | succ n ih =>
    unfold Dec.repeatN
    exact (Lin'.consume_then hm hc (fun x => ih.map _)).monoC (by omega)

theorem Lin.untilBreak {K : Nat} {m : Dec α} (hm : Lin K m) (hc : Consumes m 1) (hK : 1 ≤ K) (fuel : Nat) :
    Lin (2 * K + 2) (Dec.untilBreak m fuel) := by
  induction fuel with
  | zero => unfold Dec.untilBreak; exact Lin'.panic _ _
  | succ f ih =>
    unfold Dec.untilBreak
    refine Lin'.bindL (Lin'.of_linC LinC.current (by omega)) (by omega) (fun b => ?_)
    refine Lin'.ite ?_ ?_
    · exact (Lin'.read_then (c := 0) (by omega) (fun _ => Lin'.pure _ _ _)).monoC (by simp)
    · exact (Lin'.consume_then hm hc (fun x => ih.map _)).monoC (by omega)

theorem chunkLoop_eq_untilBreak (text : Bool) (fuel : Nat) :
    Dec.chunkLoop text fuel = Dec.untilBreak (if text then Dec.str else Dec.bytes) fuel := by
  induction fuel with
  | zero => rfl
  | succ f ih => unfold Dec.chunkLoop Dec.untilBreak; rw [ih]

theorem Lin.chunkLoop (text : Bool) (fuel : Nat) : Lin 8 (Dec.chunkLoop text fuel) := by
  rw [chunkLoop_eq_untilBreak]
  exact Lin.untilBreak (K := 3) (Lin.of_linC (LinC.chunk text) (by omega) (by omega)) (Consumes.chunk text)
    (by omega) fuel

theorem Lin.stringIter (text : Bool) : Lin 16 (Dec.stringIter text) := by
  unfold Dec.stringIter
  have h1 := @LinC.typeMismatch (List Bytes); have := LinC.unsigned; have := LinC.u64ToUsize
  have : ∀ f, Lin' 16 8 (Dec.chunkLoop text f) := fun f => (Lin.chunkLoop text f).mono (by omega) (by omega)
  link

theorem Lin.skipString (text : Bool) : Lin 16 (Dec.skipString text) := by
  unfold Dec.skipString
  exact (Lin.stringIter text).map _

/-! ### skip -/

theorem LinC.skipIndefinite (alloc : Bool) (s : SkipSt) : LinC 0 (Dec.skipIndefinite alloc s) := by
  unfold Dec.skipIndefinite; linc

theorem LinC.skipPost (alloc : Bool) (s : SkipSt) : LinC 0 (Dec.skipPost alloc s) := by
  unfold Dec.skipPost; linc

theorem Lin.skipArm (alloc : Bool) (s : SkipSt) : Lin 20 (Dec.skipArm alloc s) := by
  unfold Dec.skipArm
  have := @LinC.typeMismatch SkipArm; have := LinC.unsigned; have := LinC.intAcc
  have := LinC.array; have := LinC.map; have := LinC.skipIndefinite alloc
  have : ∀ text, Lin' 20 16 (Dec.skipString text) := fun text => (Lin.skipString text).mono (by omega) (by omega)
  link

theorem Lin.skipLoop (alloc : Bool) (fuel : Nat) (s : SkipSt) : Lin 42 (Dec.skipLoop alloc fuel s) := by
  induction fuel generalizing s with
  | zero => unfold Dec.skipLoop; exact Lin'.panic _ _
  | succ f ih =>
    unfold Dec.skipLoop
    split
    · exact Lin'.pure _ _ _
    · refine (Lin'.consume_then (K := 20) (Lin.skipArm alloc s) (Consumes.skipArm alloc s) (fun a => ?_)).monoC (by omega)
      split
      · exact ih _
      · have := LinC.skipPost alloc
        have hh : ∀ s, Lin' 42 42 (Dec.skipLoop alloc f s) := ih
        link

/-- `Decoder::skip` takes at most `42 * (consumed + 1)` primitive steps, on any input. -/
theorem Lin.skip (alloc : Bool) : Lin 42 (Dec.skip alloc) := by
  unfold Dec.skip
  have hh : ∀ f s, Lin' 42 42 (Dec.skipLoop alloc f s) := Lin.skipLoop alloc
  link

/-! ### the combinators of Types.lean -/

theorem Lin.arrayIter {K : Nat} {m : Dec α} (hm : Lin K m) (hc : Consumes m 1) (hK : 1 ≤ K) :
    Lin (2 * K + 4) (Dec.arrayIter m) := by
  unfold Dec.arrayIter
  have h1 : ∀ n, Lin' (2 * K + 4) (2 * K + 2) (Dec.repeatN m n) :=
    fun n => (Lin.repeatN hm hc n).mono (by omega) (by omega)
  have h2 : ∀ f, Lin' (2 * K + 4) (2 * K + 2) (Dec.untilBreak m f) :=
    fun f => (Lin.untilBreak hm hc hK f).mono (by omega) (by omega)
  have := LinC.array
  link

theorem Lin.pairOf {K : Nat} {mk mv : Dec α} (hk : Lin K mk) (hv : Lin K mv) : Lin (2 * K) (Dec.pairOf mk mv) := by
  unfold Dec.pairOf
  have : Lin' K (2 * K) (mk >>= fun k => mv >>= fun v => Pure.pure [k, v]) := by link
  exact this.mono (by omega) (by omega)

theorem Lin.mapIter {K : Nat} {mk mv : Dec α} (hk : Lin K mk) (hv : Lin K mv) (hck : Consumes mk 1)
    (hcv : Consumes mv 0) (hK : 1 ≤ K) : Lin (4 * K + 4) (Dec.mapIter mk mv) := by
  rw [mapIter_eq]
  have hp := Lin.pairOf hk hv
  have hc := Consumes.pairOf hck hcv
  have h1 : ∀ n, Lin' (4 * K + 4) (4 * K + 2) (Dec.repeatN (Dec.pairOf mk mv) n) :=
    fun n => (Lin.repeatN hp hc n).mono (by omega) (by omega)
  have h2 : ∀ f, Lin' (4 * K + 4) (4 * K + 2) (Dec.untilBreak (Dec.pairOf mk mv) f) :=
    fun f => (Lin.untilBreak hp hc (by omega) f).mono (by omega) (by omega)
  have := LinC.map
  link

theorem Lin.arrayNIndef {K : Nat} {m : Dec α} (hm : Lin K m) (hc : Consumes m 1) (hK : 1 ≤ K)
    (n fuel k : Nat) : Lin (2 * K + 2) (Dec.arrayNIndef m n fuel k) := by
  induction fuel generalizing k with
  | zero => unfold Dec.arrayNIndef; exact Lin'.panic _ _
  | succ f ih =>
    unfold Dec.arrayNIndef
    refine Lin'.bindL (Lin'.of_linC LinC.current (by omega)) (by omega) (fun b => ?_)
    refine Lin'.ite ?_ ?_
    · refine (Lin'.read_then (c := 0) (by omega) (fun _ => ?_)).monoC (by simp)
      exact Lin'.ite (Lin'.fail _ _ _) (Lin'.pure _ _ _)
    · refine (Lin'.consume_then hm hc (fun x => ?_)).monoC (by omega)
      exact Lin'.ite (Lin'.fail _ _ _) ((ih _).map _)

theorem Lin.arrayN {K : Nat} {m : Dec α} (hm : Lin K m) (hc : Consumes m 1) (hK : 1 ≤ K) (n : Nat) :
    Lin (2 * K + 4) (Dec.arrayN m n) := by
  unfold Dec.arrayN
  have h1 : ∀ n, Lin' (2 * K + 4) (2 * K + 2) (Dec.repeatN m n) :=
    fun n => (Lin.repeatN hm hc n).mono (by omega) (by omega)
  have h2 : ∀ f k, Lin' (2 * K + 4) (2 * K + 2) (Dec.arrayNIndef m n f k) :=
    fun f k => (Lin.arrayNIndef hm hc hK n f k).mono (by omega) (by omega)
  have := LinC.array
  link

theorem Lin.skipUntilBreak (fuel : Nat) : Lin 86 (Dec.skipUntilBreak fuel) := by
  induction fuel with
  | zero => unfold Dec.skipUntilBreak; exact Lin'.panic _ _
  | succ f ih =>
    unfold Dec.skipUntilBreak
    refine Lin'.bindL (Lin'.of_linC LinC.datatype (by omega)) (by omega) (fun ty => ?_)
    refine Lin'.ite ?_ ?_
    · exact (Lin.skip true).mono (by omega) (by omega)
    · exact (Lin'.consume_then (K := 42) (Lin.skip true) (Consumes.skip true) (fun _ => ih)).monoC (by omega)

theorem Lin.seqAll {K : Nat} {ms : List (Dec α)} (h : ∀ m ∈ ms, Lin K m) (hc : ∀ m ∈ ms, Consumes m 1) :
    Lin (2 * K + 2) (Dec.seqAll ms) := by
  induction ms with
  | nil => unfold Dec.seqAll; exact Lin'.pure _ _ _
  | cons m ms ih =>
    unfold Dec.seqAll
    have ih' := ih (fun m' hm' => h m' (List.mem_cons_of_mem _ hm')) (fun m' hm' => hc m' (List.mem_cons_of_mem _ hm'))
    exact (Lin'.consume_then (h m (List.mem_cons_self ..)) (hc m (List.mem_cons_self ..))
      (fun x => ih'.map _)).monoC (by omega)

theorem Lin.fieldsDef {K : Nat} {ms : List (Dec α)} (h : ∀ m ∈ ms, Lin K m) (hc : ∀ m ∈ ms, Consumes m 1)
    (hK : 42 ≤ K) (n : Nat) : Lin (2 * K + 2) (Dec.fieldsDef ms n) := by
  induction ms generalizing n with
  | nil =>
    unfold Dec.fieldsDef
    exact (Lin.repeatN ((Lin.skip true).mono hK hK) (Consumes.skip true) n).map _
  | cons m ms ih =>
    have ih' := ih (fun m' hm' => h m' (List.mem_cons_of_mem _ hm')) (fun m' hm' => hc m' (List.mem_cons_of_mem _ hm'))
    cases n with
    | zero => unfold Dec.fieldsDef; exact Lin'.fail _ _ _
    | succ n =>
      unfold Dec.fieldsDef
      exact (Lin'.consume_then (h m (List.mem_cons_self ..)) (hc m (List.mem_cons_self ..))
        (fun x => (ih' n).map _)).monoC (by omega)

theorem Lin.fieldsIndef {K : Nat} {ms : List (Dec α)} (h : ∀ m ∈ ms, Lin K m) (hc : ∀ m ∈ ms, Consumes m 1)
    (hK : 42 ≤ K) (fuel : Nat) : Lin (2 * K + 2) (Dec.fieldsIndef ms fuel) := by
  induction ms with
  | nil =>
    unfold Dec.fieldsIndef
    exact ((Lin.skipUntilBreak fuel).mono (by omega) (by omega)).map _
  | cons m ms ih =>
    have ih' := ih (fun m' hm' => h m' (List.mem_cons_of_mem _ hm')) (fun m' hm' => hc m' (List.mem_cons_of_mem _ hm'))
    unfold Dec.fieldsIndef
    refine Lin'.bindL (Lin'.of_linC LinC.datatype (by omega)) (by omega) (fun ty => ?_)
    refine Lin'.ite ?_ ?_
    · exact (Lin'.consume_then ((Lin.skip true).mono hK hK) (Consumes.skip true)
        (fun _ => Lin'.fail _ _ _)).monoC (by omega)
    · exact (Lin'.consume_then (h m (List.mem_cons_self ..)) (hc m (List.mem_cons_self ..))
        (fun x => ih'.map _)).monoC (by omega)

theorem Lin.fieldsDec {K : Nat} {ms : List (Dec α)} (h : ∀ m ∈ ms, Lin K m) (hc : ∀ m ∈ ms, Consumes m 1)
    (hK : 42 ≤ K) : Lin (2 * K + 4) (Dec.fieldsDec ms) := by
  unfold Dec.fieldsDec
  have h1 : ∀ n, Lin' (2 * K + 4) (2 * K + 2) (Dec.fieldsDef ms n) :=
    fun n => (Lin.fieldsDef h hc hK n).mono (by omega) (by omega)
  have h2 : ∀ f, Lin' (2 * K + 4) (2 * K + 2) (Dec.fieldsIndef ms f) :=
    fun f => (Lin.fieldsIndef h hc hK f).mono (by omega) (by omega)
  have := LinC.array
  link

theorem Lin.pickVariant {K : Nat} {ms : List (Dec Val)} (h : ∀ m ∈ ms, Lin K m) (i : Nat) :
    Lin K (Dec.pickVariant ms i) := by
  unfold Dec.pickVariant
  split
  · rename_i m hm
    exact (h m (List.mem_of_getElem? hm)).map _
  · exact Lin'.fail _ _ _

theorem Lin.decodeDuration (sys : Bool) : Lin 88 (Dec.decodeDuration sys) := by
  rw [decodeDuration_eq]
  have hf : ∀ m ∈ [Dec.intAcc IntTy.u64, Dec.intAcc IntTy.u32], Lin 42 m := by
    intro m hm; simp at hm
    rcases hm with rfl | rfl <;> exact Lin.of_linC (LinC.intAcc _) (by omega) (by omega)
  have hc : ∀ m ∈ [Dec.intAcc IntTy.u64, Dec.intAcc IntTy.u32], Consumes m 1 := by
    intro m hm; simp at hm
    rcases hm with rfl | rfl <;> exact Consumes.intAcc _
  have h1 := Lin.fieldsDec hf hc (Nat.le_refl _)
  have h2 : ∀ l, Lin' 88 0 (Dec.durOk sys l) := by
    intro l; unfold Dec.durOk; link
  have := Lin'.bind h1 h2
  simpa using this

end Minicbor.Dec
