/-
  The universe of built-in `Encode` / `Decode` / `CborLen` impls (minicbor/src/encode.rs,
  decode.rs, bytes.rs), organised by codec shape: many Rust types share one codec
  (docs/TYPES_PROTOCOL.md maps ≈100 concrete instantiations onto these descriptors).
  `encodeT` recurses structurally on the value, `decodeT` on the type; loops are the
  generic combinators `repeatN` (count-driven, no fuel) and `untilBreak` (local fuel).
-/
import Minicbor.Encoder
import Minicbor.Decoder
import Minicbor.Skip

namespace Minicbor

inductive IntKind where
  | u8 | u16 | u32 | u64 | i8 | i16 | i32 | i64 | int
  deriving DecidableEq, Repr, Inhabited

namespace IntKind
def ty : IntKind → Dec.IntTy
  | u8 => .u8 | u16 => .u16 | u32 => .u32 | u64 => .u64
  | i8 => .i8 | i16 => .i16 | i32 => .i32 | i64 => .i64 | int => .int
def inRange (k : IntKind) (v : Int) : Bool := k.ty.lo ≤ v && v ≤ k.ty.hi
/-- the `Encoder` method the `Encode` impl of this integer type calls. -/
def enc : IntKind → Int → Bytes
  | u8, v => Enc.u8 v.toNat | u16, v => Enc.u16 v.toNat | u32, v => Enc.u32 v.toNat | u64, v => Enc.u64 v.toNat
  | i8, v => Enc.i8 v | i16, v => Enc.i16 v | i32, v => Enc.i32 v | i64, v => Enc.i64 v
  | int, v => if v ≥ 0 then Enc.int false v.toNat else Enc.int true (-1 - v).toNat
/-- `CborLen for u8/u16/u32/u64` on the magnitude. -/
def lenU8 (x : Nat) : Nat := if x ≤ 0x17 then 1 else 2
def lenU16 (x : Nat) : Nat := if x ≤ 0x17 then 1 else if x ≤ 0xff then 2 else 3
def lenU32 (x : Nat) : Nat := if x ≤ 0x17 then 1 else if x ≤ 0xff then 2 else if x ≤ 0xffff then 3 else 5
def lenU64 (x : Nat) : Nat :=
  if x ≤ 0x17 then 1 else if x ≤ 0xff then 2 else if x ≤ 0xffff then 3 else if x ≤ 0xffffffff then 5 else 9
/-- the `CborLen` impl: signed types map to the magnitude `x` or `-1 - x` first. -/
def len (k : IntKind) (v : Int) : Nat :=
  let m := if v ≥ 0 then v.toNat else (-1 - v).toNat
  match k with
  | u8 | i8 => lenU8 m | u16 | i16 => lenU16 m | u32 | i32 => lenU32 m | u64 | i64 | int => lenU64 m
end IntKind

inductive Ty where
  | int (k : IntKind)
  | bool | char | f32 | f64 | str | bytes
  | barr (n : Nat)
  | cstr
  | unit
  | skipUnit                       -- `Bound::Unbounded`: written as `80`, read back with `skip()`
  | opt (t : Ty)
  | seq (t : Ty)
  | arr (n : Nat) (t : Ty)
  | tup (ts : List Ty)
  | map (k v : Ty)
  | nz (k : IntKind)
  | tag
  | tagged (n : Nat) (t : Ty)
  | enum (ts : List Ty)
  | fields (ts : List Ty)
  | duration
  | systime
  deriving Repr, Inhabited

inductive Val where
  | int (v : Int)
  | bool (b : Bool)
  | float (bits : Nat)
  | str (b : Bytes)
  | bytes (b : Bytes)
  | unit
  | none
  | some (v : Val)
  | list (vs : List Val)
  | map (kvs : List Val)           -- flattened entries k₁, v₁, k₂, v₂, …
  | tagged (v : Val)
  | variant (i : Nat) (v : Val)
  deriving Repr, Inhabited

/-! ### encoding -/

def NANOS_PER_SEC : Nat := 1000000000

mutual
/-- the `Encode` impls.  `none` = the value is not a value of that type, or the encoder
    refuses it. -/
def encodeT : Ty → Val → Option Bytes
  | .int k, .int v => if k.inRange v then some (k.enc v) else none
  | .bool, .bool b => some (Enc.bool b)
  | .char, .int v => if v ≥ 0 && isScalar v.toNat then some (Enc.char v.toNat) else none
  | .f32, .float b => if b < 4294967296 then some (Enc.f32 b) else none
  | .f64, .float b => if b < 18446744073709551616 then some (Enc.f64 b) else none
  | .str, .str b => if validUtf8 b then some (Enc.str b) else none
  | .bytes, .bytes b => some (Enc.bytes b)
  | .barr n, .bytes b => if b.length = n then some (Enc.bytes b) else none
  | .cstr, .bytes b => if b.all (· != 0) then some (Enc.bytes (b ++ [0])) else none
  | .unit, .unit => some (Enc.array 0)
  | .skipUnit, .unit => some (Enc.array 0)
  | .opt _, .none => some Enc.null
  | .opt t, .some v => encodeT t v
  | .seq t, .list vs => do let b ← encodeList t vs; some (Enc.array vs.length ++ b)
  | .arr n t, .list vs => if vs.length = n then do let b ← encodeList t vs; some (Enc.array n ++ b) else none
  | .tup ts, .list vs => do let b ← encodeTup ts vs; some (Enc.array ts.length ++ b)
  | .map k v, .map kvs => do let b ← encodeMap k v kvs; some (Enc.map (kvs.length / 2) ++ b)
  | .nz k, .int v => if k.inRange v && v != 0 then some (k.enc v) else none
  | .tag, .int v => if 0 ≤ v && v ≤ 18446744073709551615 then some (Enc.tag v.toNat) else none
  | .tagged n t, .tagged v => do let b ← encodeT t v; some (Enc.tag n ++ b)
  | .enum ts, .variant i v =>
      match ts[i]? with
      | some t => do let b ← encodeT t v; some (Enc.array 2 ++ Enc.u32 i ++ b)
      | none => none
  | .fields ts, .list vs => do let b ← encodeTup ts vs; some (Enc.array ts.length ++ b)
  | .duration, .list [.int s, .int n] =>
      if 0 ≤ s && s ≤ 18446744073709551615 && 0 ≤ n && n < 1000000000
      then some (Enc.array 2 ++ Enc.u64 s.toNat ++ Enc.u32 n.toNat) else none
  | .systime, .list [.int s, .int n] =>
      if 0 ≤ s && s ≤ 9223372036854775807 && 0 ≤ n && n < 1000000000
      then some (Enc.array 2 ++ Enc.u64 s.toNat ++ Enc.u32 n.toNat) else none
  | _, _ => none
def encodeList (t : Ty) : List Val → Option Bytes
  | [] => some []
  | v :: vs => do let a ← encodeT t v; let b ← encodeList t vs; some (a ++ b)
def encodeTup : List Ty → List Val → Option Bytes
  | [], [] => some []
  | t :: ts, v :: vs => do let a ← encodeT t v; let b ← encodeTup ts vs; some (a ++ b)
  | _, _ => none
def encodeMap (k v : Ty) : List Val → Option Bytes
  | [] => some []
  | x :: y :: rest => do
      let a ← encodeT k x; let b ← encodeT v y; let c ← encodeMap k v rest; some (a ++ b ++ c)
  | _ => none
end

/-! ### length -/

mutual
/-- the `CborLen` impls. -/
def lenT : Ty → Val → Nat
  | .int k, .int v => k.len v
  | .bool, _ => 1
  | .char, .int v => IntKind.lenU32 v.toNat
  | .f32, _ => 5
  | .f64, _ => 9
  | .str, .str b => IntKind.lenU64 b.length + b.length
  | .bytes, .bytes b => IntKind.lenU64 b.length + b.length
  | .barr n, .bytes _ => IntKind.lenU64 n + n
  | .cstr, .bytes b => IntKind.lenU64 (b.length + 1) + (b.length + 1)
  | .unit, _ => 1
  | .skipUnit, _ => 1
  | .opt _, .none => 1
  | .opt t, .some v => lenT t v
  | .seq t, .list vs => IntKind.lenU64 vs.length + lenList t vs
  | .arr n t, .list vs => IntKind.lenU64 n + lenList t vs
  | .tup ts, .list vs => 1 + lenTup ts vs
  | .map k v, .map kvs => IntKind.lenU64 (kvs.length / 2) + lenMap k v kvs
  | .nz k, .int v => k.len v
  | .tag, .int v => IntKind.lenU64 v.toNat
  | .tagged n t, .tagged v => IntKind.lenU64 n + lenT t v
  | .enum ts, .variant i v =>
      match ts[i]? with
      | some t => 1 + (1 + lenT t v)
      | none => 0
  | .fields ts, .list vs => 1 + lenTup ts vs
  | .duration, .list [.int s, .int n] => 1 + IntKind.lenU64 s.toNat + IntKind.lenU32 n.toNat
  | .systime, .list [.int s, .int n] => 1 + IntKind.lenU64 s.toNat + IntKind.lenU32 n.toNat
  | _, _ => 0
def lenList (t : Ty) : List Val → Nat
  | [] => 0
  | v :: vs => lenT t v + lenList t vs
def lenTup : List Ty → List Val → Nat
  | t :: ts, v :: vs => lenT t v + lenTup ts vs
  | _, _ => 0
def lenMap (k v : Ty) : List Val → Nat
  | x :: y :: rest => lenT k x + lenT v y + lenMap k v rest
  | _ => 0
end

/-! ### decoding -/

namespace Dec

/-- `for i in 0 .. n { m }` collecting results: stops at the first failure, like the code. -/
def repeatN (m : Dec α) : Nat → Dec (List α)
  | 0 => pure []
  | n + 1 => do let x ← m; let xs ← repeatN m n; pure (x :: xs)

/-- the indefinite-length arm of `ArrayIter` / `MapIter`: until the break byte. -/
def untilBreak (m : Dec α) : Nat → Dec (List α)
  | 0 => panic
  | fuel + 1 => do
    let b ← current
    if b == 0xff then
      let _ ← read
      pure []
    else
      let x ← m
      let xs ← untilBreak m fuel
      pure (x :: xs)

/-- `array_iter_with` drained. -/
def arrayIter (m : Dec α) : Dec (List α) := do
  match (← array) with
  | some n => repeatN m n
  | none => do let r ← remaining; untilBreak m (r.length + 1)

/-- `map_iter_with` drained (entries flattened). -/
def mapIter (mk mv : Dec α) : Dec (List α) := do
  let pair : Dec (List α) := do let k ← mk; let v ← mv; pure [k, v]
  match (← map) with
  | some n => do let xs ← repeatN pair n; pure xs.flatten
  | none => do let r ← remaining; let xs ← untilBreak pair (r.length + 1); pure xs.flatten

/-- indefinite arm of `[T; N]::decode`: decode until break, giving up when an element beyond
    the `n`-th has been decoded (every element is decoded *before* the push that overflows). -/
def arrayNIndef (m : Dec α) (n : Nat) : Nat → Nat → Dec (List α)
  | 0, _ => panic
  | fuel + 1, have_ => do
    let b ← current
    if b == 0xff then
      let _ ← read
      if have_ < n then fail .message else pure []
    else
      let x ← m
      if have_ ≥ n then fail .message
      else
        let xs ← arrayNIndef m n fuel (have_ + 1)
        pure (x :: xs)

/-- `[T; N]::decode`. -/
def arrayN (m : Dec α) (n : Nat) : Dec (List α) := do
  match (← array) with
  | some k =>
    if k ≤ n then do
      let xs ← repeatN m k
      if k < n then fail .message else pure xs
    else do
      let _ ← repeatN m (n + 1)
      fail .message
  | none => do
    let r ← remaining
    arrayNIndef m n (r.length + 1) 0

/-- the `skip()` loop of `decode_fields!` over trailing unknown entries of an indefinite array,
    including the final `skip()` that consumes the break. -/
def skipUntilBreak : Nat → Dec Unit
  | 0 => panic
  | fuel + 1 => do
    let ty ← datatype
    if ty == .break then skip
    else do skip; skipUntilBreak fuel

/-- decode the components in order (tuples). -/
def seqAll : List (Dec α) → Dec (List α)
  | [] => pure []
  | m :: ms => do let v ← m; let vs ← seqAll ms; pure (v :: vs)

/-- `decode_fields!`, definite array of `n` entries: known indices are decoded, further
    entries skipped, and a field that never got its turn is a `missing_value` error. -/
def fieldsDef : List (Dec α) → Nat → Dec (List α)
  | [], n => do let _ ← repeatN skip n; pure []
  | _ :: _, 0 => fail .missing
  | m :: ms, n + 1 => do let v ← m; let vs ← fieldsDef ms n; pure (v :: vs)

/-- `decode_fields!`, indefinite array. -/
def fieldsIndef : List (Dec α) → Nat → Dec (List α)
  | [], fuel => do skipUntilBreak fuel; pure []
  | m :: ms, fuel => do
      let ty ← datatype
      if ty == .break then do skip; fail .missing
      else do let v ← m; let vs ← fieldsIndef ms fuel; pure (v :: vs)

/-- `decode_fields!` -/
def fieldsDec (ms : List (Dec α)) : Dec (List α) := do
  match (← array) with
  | some n => fieldsDef ms n
  | none => do let r ← remaining; fieldsIndef ms (r.length + 1)

/-- `match d.u32()? { 0 => …, 1 => …, n => Err(unknown_variant(n)) }` -/
def pickVariant (ms : List (Dec Val)) (i : Nat) : Dec Val :=
  match ms[i]? with
  | some m => do let v ← m; pure (.variant i v)
  | none => fail .variant

/-- `Duration::decode` (with the overflow check of commit e7da71d) and `SystemTime::decode`. -/
def decodeDuration (sys : Bool) : Dec Val := do
  let u64 : Dec Int := intAcc .u64
  let u32 : Dec Int := intAcc .u32
  match (← fieldsDec [u64, u32]) with
  | [s, n] =>
      let secs := s.toNat + n.toNat / NANOS_PER_SEC
      if secs > 18446744073709551615 then fail .message
      else if sys && secs > 9223372036854775807 then fail .message
      else pure (.list [.int secs, .int (n.toNat % NANOS_PER_SEC)])
  | _ => panic

end Dec

open Dec in
mutual
/-- the `Decode` impls. -/
def decodeT : Ty → Dec Val
  | .int k => do let v ← intAcc k.ty; pure (.int v)
  | .bool => do let b ← Dec.bool; pure (.bool b)
  | .char => do let c ← Dec.char; pure (.int c)
  | .f32 => do let b ← Dec.f32; pure (.float b)
  | .f64 => do let b ← Dec.f64; pure (.float b)
  | .str => do let b ← Dec.str; pure (.str b)
  | .bytes => do let b ← Dec.bytes; pure (.bytes b)
  | .barr n => do
      let b ← Dec.bytes
      if b.length = n then pure (.bytes b) else fail .message
  | .cstr => do
      let b ← Dec.bytes
      -- `CStr::from_bytes_with_nul`: exactly one NUL, at the end
      match b.reverse with
      | z :: revInit => if z == 0 && revInit.all (· != 0) then pure (.bytes revInit.reverse) else fail .message
      | [] => fail .message
  | .unit => do
      let n ← array
      if n == some 0 then pure .unit else fail .message
  | .skipUnit => do skip; pure .unit
  | .opt t => do
      let ty ← datatype
      if ty == .null then do skip; pure .none
      else do let v ← decodeT t; pure (.some v)
  | .seq t => do let vs ← arrayIter (decodeT t); pure (.list vs)
  | .arr n t => do let vs ← arrayN (decodeT t) n; pure (.list vs)
  | .tup ts => do
      let n ← array
      if n != some ts.length then fail .message
      else do let vs ← seqAll (decoders ts); pure (.list vs)
  | .map k v => do let kvs ← mapIter (decodeT k) (decodeT v); pure (.map kvs)
  | .nz k => do
      let v ← intAcc k.ty
      if v == 0 then fail .message else pure (.int v)
  | .tag => do let n ← Dec.tag; pure (.int n)
  | .tagged n t => do
      let g ← Dec.tag
      if g != n then fail .tag
      else do let v ← decodeT t; pure (.tagged v)
  | .enum ts => do
      let n ← array
      if n != some 2 then fail .message
      else do
        let i ← intAcc .u32
        pickVariant (decoders ts) i.toNat
  | .fields ts => do let vs ← fieldsDec (decoders ts); pure (.list vs)
  | .duration => decodeDuration false
  | .systime => decodeDuration true
def decoders : List Ty → List (Dec Val)
  | [] => []
  | t :: ts => decodeT t :: decoders ts
end

end Minicbor
