/-
  `f64 as f32` (IEEE 754 round-to-nearest-even narrowing, the conversion Rust's `as` performs and serde's
  `f32` visitor applies to a `Content::F64`): on bit patterns.  NaN: sign kept, the top 23 payload bits kept,
  quiet bit set (what `cvtsd2ss` does).  Finite: the magnitude `M · 2^(E-1075)` is rounded to the binary32
  grid — 24 significant bits in the normal range, multiples of 2^-149 below it — ties to even; a carry out of
  the mantissa moves into the exponent field by plain addition; beyond the largest finite value: infinity.
-/
import Minicbor.Prelude

namespace Minicbor

/-- round-to-nearest-even of `M / 2^sh`. -/
def rneShift (M sh : Nat) : Nat :=
  if sh == 0 then M
  else
    let q := M / 2 ^ sh
    let r := M % 2 ^ sh
    let half := 2 ^ (sh - 1)
    if r > half || (r == half && q % 2 == 1) then q + 1 else q

def f64ToF32 (x : Nat) : Nat :=
  let s := x / 9223372036854775808
  let e := x / 4503599627370496 % 2048
  let m := x % 4503599627370496
  let sb := s * 2147483648
  if e == 2047 then
    if m == 0 then sb + 0x7F800000
    else sb + 0x7F800000 + (if m / 536870912 ≥ 4194304 then m / 536870912 else m / 536870912 + 4194304)
  else
    let E := if e == 0 then 1 else e
    let M := if e == 0 then m else 4503599627370496 + m
    if E ≥ 897 then
      -- normal range of binary32: keep 24 bits
      let q := rneShift M 29
      let bits := (E - 896) * 8388608 + (q - 8388608)
      if bits ≥ 0x7F800000 then sb + 0x7F800000 else sb + bits
    else
      -- below the normal range: multiples of 2^-149 (the result may round up to the smallest normal)
      sb + rneShift M (926 - E)

end Minicbor
