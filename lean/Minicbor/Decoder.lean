/-
  Model of `minicbor::decode::Decoder` (minicbor/src/decode/decoder.rs) on the remaining
  input.  Every accessor is a `Dec α`; quirks of the code are reproduced (e.g. `type_of`
  peeks at `pos + 1` from wherever the position currently is).
-/
import Minicbor.Prelude
import Minicbor.Utf8
import Minicbor.Float

namespace Minicbor

/-- `minicbor::data::Type` -/
inductive CType where
  | bool | null | undefined
  | u8 | u16 | u32 | u64 | i8 | i16 | i32 | i64 | int
  | f16 | f32 | f64 | simple
  | bytes | bytesIndef | string | stringIndef
  | array | arrayIndef | map | mapIndef | tag | «break»
  | unknown (n : Nat)
  deriving DecidableEq, Repr, Inhabited

def CType.name : CType → String
  | .bool => "bool" | .null => "null" | .undefined => "undefined"
  | .u8 => "u8" | .u16 => "u16" | .u32 => "u32" | .u64 => "u64"
  | .i8 => "i8" | .i16 => "i16" | .i32 => "i32" | .i64 => "i64" | .int => "int"
  | .f16 => "f16" | .f32 => "f32" | .f64 => "f64" | .simple => "simple"
  | .bytes => "bytes" | .bytesIndef => "bytes_indef" | .string => "string" | .stringIndef => "string_indef"
  | .array => "array" | .arrayIndef => "array_indef" | .map => "map" | .mapIndef => "map_indef"
  | .tag => "tag" | .break => "break" | .unknown n => s!"unknown({n})"

namespace Dec

/-- `Decoder::type_of` (the method; it may peek and therefore fail with end-of-input). -/
def typeOf (b : UInt8) : Dec CType :=
  let n := b.toNat
  if n ≤ 0x18 then pure .u8
  else if n == 0x19 then pure .u16
  else if n == 0x1a then pure .u32
  else if n == 0x1b then pure .u64
  else if 0x20 ≤ n && n ≤ 0x37 then pure .i8
  else if n == 0x38 then do let p ← peek; pure (if p.toNat < 0x80 then .i8 else .i16)
  else if n == 0x39 then do let p ← peek; pure (if p.toNat < 0x80 then .i16 else .i32)
  else if n == 0x3a then do let p ← peek; pure (if p.toNat < 0x80 then .i32 else .i64)
  else if n == 0x3b then do let p ← peek; pure (if p.toNat < 0x80 then .i64 else .int)
  else if 0x40 ≤ n && n ≤ 0x5b then pure .bytes
  else if n == 0x5f then pure .bytesIndef
  else if 0x60 ≤ n && n ≤ 0x7b then pure .string
  else if n == 0x7f then pure .stringIndef
  else if 0x80 ≤ n && n ≤ 0x9b then pure .array
  else if n == 0x9f then pure .arrayIndef
  else if 0xa0 ≤ n && n ≤ 0xbb then pure .map
  else if n == 0xbf then pure .mapIndef
  else if 0xc0 ≤ n && n ≤ 0xdb then pure .tag
  else if (0xe0 ≤ n && n ≤ 0xf3) || n == 0xf8 then pure .simple
  else if n == 0xf4 || n == 0xf5 then pure .bool
  else if n == 0xf6 then pure .null
  else if n == 0xf7 then pure .undefined
  else if n == 0xf9 then pure .f16
  else if n == 0xfa then pure .f32
  else if n == 0xfb then pure .f64
  else if n == 0xff then pure .break
  else pure (.unknown n)

/-- `Err(Error::type_mismatch(self.type_of(b)?))` -/
def typeMismatch (b : UInt8) : Dec α := do
  let _ ← typeOf b
  fail .type

/-- `Decoder::unsigned(b, p)`: the argument of a head whose additional info (or, for major
    type 0, whole initial byte) is `b`. -/
def unsigned (b : UInt8) : Dec Nat :=
  let n := b.toNat
  if n ≤ 0x17 then pure n
  else if n == 0x18 then do let x ← read; pure x.toNat
  else if n == 0x19 then do let xs ← readSlice 2; pure (fromBe xs)
  else if n == 0x1a then do let xs ← readSlice 4; pure (fromBe xs)
  else if n == 0x1b then do let xs ← readSlice 8; pure (fromBe xs)
  else typeMismatch b

/-- `try_as`: conversion to a narrower integer type with maximum `max`. -/
def tryAs (v max : Nat) : Dec Nat :=
  if v ≤ max then pure v else fail .overflow

/-- The integer accessors `u8 u16 u32 u64 i8 i16 i32 i64 int`.  `max` is the largest head
    argument accepted (for both signs: `iN::MAX`, `uN::MAX`, or `u64::MAX` for `int`);
    `neg` says whether major type 1 is accepted.  The nine Rust functions differ from this
    one only in omitting range checks that cannot fail. -/
structure IntTy where
  neg : Bool
  max : Nat
  deriving Repr

def IntTy.u8  : IntTy := ⟨false, 255⟩
def IntTy.u16 : IntTy := ⟨false, 65535⟩
def IntTy.u32 : IntTy := ⟨false, 4294967295⟩
def IntTy.u64 : IntTy := ⟨false, 18446744073709551615⟩
def IntTy.i8  : IntTy := ⟨true, 127⟩
def IntTy.i16 : IntTy := ⟨true, 32767⟩
def IntTy.i32 : IntTy := ⟨true, 2147483647⟩
def IntTy.i64 : IntTy := ⟨true, 9223372036854775807⟩
def IntTy.int : IntTy := ⟨true, 18446744073709551615⟩

def IntTy.lo (t : IntTy) : Int := if t.neg then -1 - (t.max : Int) else 0
def IntTy.hi (t : IntTy) : Int := t.max

def intAcc (t : IntTy) : Dec Int := do
  let b ← read
  let n := b.toNat
  if n ≤ 0x1b then
    let v ← unsigned b
    let v ← tryAs v t.max
    pure (v : Int)
  else if t.neg && 0x20 ≤ n && n ≤ 0x3b then
    let v ← unsigned (Minicbor.u8 (n - 0x20))
    let v ← tryAs v t.max
    pure (-1 - (v : Int))
  else typeMismatch b

/-- `Decoder::bool` -/
def bool : Dec Bool := do
  let b ← read
  if b == 0xf4 then pure false
  else if b == 0xf5 then pure true
  else typeMismatch b

/-- `Decoder::f16` (result: the bits of the `f32`) -/
def f16 : Dec Nat := do
  let b ← read
  if b != 0xf9 then typeMismatch b
  else
    let xs ← readSlice 2
    pure (f16ToF32 (fromBe xs))

/-- `Decoder::f32` (bits); `half` = the feature flag. -/
def f32 (half : Bool := true) : Dec Nat := do
  let b ← current
  if half && b == 0xf9 then f16
  else if b == 0xfa then
    let _ ← read
    let xs ← readSlice 4
    pure (fromBe xs)
  else typeMismatch b

/-- `Decoder::f64` (bits) -/
def f64 (half : Bool := true) : Dec Nat := do
  let b ← current
  if half && b == 0xf9 then do let x ← f16; pure (f32ToF64 x)
  else if b == 0xfa then do let x ← f32 half; pure (f32ToF64 x)
  else if b == 0xfb then
    let _ ← read
    let xs ← readSlice 8
    pure (fromBe xs)
  else typeMismatch b

/-- `Decoder::char` (result: the scalar value) -/
def char : Dec Nat := do
  let n ← intAcc .u32
  if isScalar n.toNat then pure n.toNat else fail .char

@[inline] def majorOf (b : UInt8) : Nat := b.toNat / 32 * 32
@[inline] def infoOf (b : UInt8) : UInt8 := Minicbor.u8 (b.toNat % 32)

/-- `u64_to_usize` on a 64-bit target never fails; kept for the shape of the code. -/
def u64ToUsize (n : Nat) : Dec Nat :=
  if n < 18446744073709551616 then pure n else fail .overflow

/-- `Decoder::bytes` -/
def bytes : Dec Bytes := do
  let b ← read
  if majorOf b != 0x40 || infoOf b == 31 then typeMismatch b
  else
    let n ← unsigned (infoOf b)
    let n ← u64ToUsize n
    readSlice n

/-- `Decoder::str` (result: the UTF-8 bytes) -/
def str : Dec Bytes := do
  let b ← read
  if majorOf b != 0x60 || infoOf b == 31 then typeMismatch b
  else
    let n ← unsigned (infoOf b)
    let n ← u64ToUsize n
    let d ← readSlice n
    if validUtf8 d then pure d else fail .utf8

/-- `Decoder::array` / `Decoder::map` / (with `maj = 0xc0`, never indefinite) `tag`. -/
def container (maj : Nat) : Dec (Option Nat) := do
  let b ← read
  if majorOf b != maj then typeMismatch b
  else if infoOf b == 31 then pure none
  else
    let n ← unsigned (infoOf b)
    pure (some n)

def array : Dec (Option Nat) := container 0x80
def map : Dec (Option Nat) := container 0xa0

/-- `Decoder::tag` -/
def tag : Dec Nat := do
  let b ← read
  if majorOf b != 0xc0 then typeMismatch b
  else unsigned (infoOf b)

/-- `Decoder::null` -/
def null : Dec Unit := do
  let b ← read
  if b == 0xf6 then pure () else typeMismatch b

/-- `Decoder::undefined` -/
def undefined : Dec Unit := do
  let b ← read
  if b == 0xf7 then pure () else typeMismatch b

/-- `Decoder::simple` -/
def simple : Dec Nat := do
  let b ← read
  let n := b.toNat
  if 0xe0 ≤ n && n ≤ 0xf3 then pure (n - 0xe0)
  else if n == 0xf8 then do let x ← read; pure x.toNat
  else typeMismatch b

/-- `Decoder::datatype` -/
def datatype : Dec CType := do
  let b ← current
  typeOf b

/-- the chunk loop of `BytesIter` / `StrIter` for an indefinite string: drains the iterator
    (`for v in iter { v?; }`), collecting the chunks.  `fuel` bounds the number of
    iterations; callers pass `remaining.length + 1`, which is never exhausted because each
    successful iteration consumes at least one byte (exhaustion is modelled as `panic`). -/
def chunkLoop (text : Bool) : Nat → Dec (List Bytes)
  | 0 => panic
  | fuel + 1 => do
    let b ← current
    if b == 0xff then
      let _ ← read
      pure []
    else
      let c ← (if text then str else bytes)
      let cs ← chunkLoop text fuel
      pure (c :: cs)

/-- `Decoder::bytes_iter` / `Decoder::str_iter`, drained: the list of chunks. -/
def stringIter (text : Bool) : Dec (List Bytes) := do
  let b ← read
  if majorOf b != (if text then 0x60 else 0x40) then typeMismatch b
  else if infoOf b == 31 then do
    let r ← remaining
    chunkLoop text (r.length + 1)
  else
    let n ← unsigned (infoOf b)
    let n ← u64ToUsize n
    if n == 0 then pure []
    else
      let d ← readSlice n
      if text && !validUtf8 d then fail .utf8 else pure [d]

def bytesIter : Dec (List Bytes) := stringIter false
def strIter : Dec (List Bytes) := stringIter true

end Dec
end Minicbor
