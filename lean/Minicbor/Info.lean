/-
  Model of `minicbor::decode::info::Size` (minicbor/src/decode/info.rs).
-/
import Minicbor.Decoder

namespace Minicbor

inductive Size where
  | head | bytes (n : Nat) | items (n : Nat) | indef
  deriving DecidableEq, Repr

namespace Size

/-- `Size::head(fst)`: the length of the item head, from its first byte. -/
def headLen (fst : UInt8) : Except Err Nat :=
  let info := fst.toNat % 32
  let maj := fst.toNat / 32
  if info ≤ 0x17 then .ok 1
  else if info == 0x18 then .ok 2
  else if info == 0x19 then .ok 3
  else if info == 0x1a then .ok 5
  else if info == 0x1b then .ok 9
  else if info == 0x1f then
    if maj == 2 || maj == 3 || maj == 4 || maj == 5 || maj == 7 then .ok 1 else .error .message
  else .error .message

/-- `Size::tail(head)`: what follows the head.  Runs `Decoder::unsigned` on `head[1..]`. -/
def tail (head : Bytes) : Except Err Size :=
  match head with
  | [] => .error .eoi
  | fst :: rest =>
    let info := Dec.infoOf fst
    let maj := fst.toNat / 32
    if maj == 0 || maj == 1 || maj == 6 || maj == 7 then .ok .head
    else if info == 31 then .ok .indef
    else
      match Dec.unsigned info rest with
      | .ok n _ => .ok (if maj == 2 || maj == 3 then .bytes n else .items n)
      | .err e _ => .error e
      | .panic => .error .custom

end Size
end Minicbor
