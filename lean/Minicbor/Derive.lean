/-
  Model of the three derive macros of `minicbor-derive` (Encode / Decode / CborLen).

  The model starts from the *abstract schema* the macro keeps after parsing
  (`Fields::try_from`, `Variants::try_from`, `Attributes`): the proc-macro front end (syn
  parsing, attribute validation, bound / lifetime generation) is outside the model;
  `accepted` states the validity rules the front end enforces (plus what rustc enforces on the
  expansion) as a decidable predicate on schemas.

  * `FTy` / `Val`      : the field-type universe and its values (a small, closed universe:
                         integers, bool, text, byte strings, `Option`, `Vec`, nested derived
                         structs and enums).  A struct value lists one value per declared
                         field *in declaration order* (the declared position of a field is
                         its position in the list), an enum value names the variant by its
                         position in the declaration.
  * `encTy`            : `#[derive(Encode)]`  — encode.rs as the generated code behaves.
  * `lenTy`            : `#[derive(CborLen)]` — cbor_len.rs, including its defects.
  * `decTy`            : `#[derive(Decode)]`  — decode.rs (slots, both loops for both
                         encodings, tag checks, unknown variants, `nil()`, `missing_value`).
  * `specTy`           : the format *documented* in minicbor-derive/src/lib.rs ("CBOR
                         encoding"), written independently of `encTy` as a function into the
                         RFC 8949 data model (`Item`); `encPref (specTy t v)` is the spec.

  All recursion is structural on the schema (`termination_by structural`), so every
  definition reduces in the kernel (`decide`) and compiles into the driver.
-/
import Minicbor.Prelude
import Minicbor.Wire
import Minicbor.Encoder
import Minicbor.Decoder
import Minicbor.Skip

namespace Minicbor.Derive

/-! ## Schema syntax -/

/-- `#[cbor(array)]` / `#[cbor(map)]` -/
inductive Encoding where
  | array | map
  deriving DecidableEq, Repr, Inhabited

/-- the codec of a field: the default (`Encode`/`Decode` of the type), `with = "minicbor::bytes"`
    (a module *without* `has_nil`), or the custom nil-aware module `nilu` of the generated crate
    (`with = "nilu", has_nil`, equivalently `encode_with`/`is_nil`/`decode_with`/`nil`): a `u32`
    whose value `0` is nil, written as `null`. -/
inductive Codec where
  | dflt | bytes | nilu
  deriving DecidableEq, Repr, Inhabited

inductive Shape where
  | unit | tuple | named
  deriving DecidableEq, Repr, Inhabited

inductive IntK where
  | u8 | u16 | u32 | u64 | i8 | i16 | i32 | i64
  deriving DecidableEq, Repr, Inhabited

/-- `String`, `&'a str`, `Cow<'a, str>` -/
inductive TextK where
  | string | str | cow
  deriving DecidableEq, Repr, Inhabited

/-- `ByteVec`, `&'a ByteSlice` (native byte strings) and `Vec<u8>`, `&'a [u8]`,
    `Cow<'a, [u8]>` (byte strings only through `with = "minicbor::bytes"`). -/
inductive BlobK where
  | byteVec | byteSlice | vecU8 | sliceU8 | cowU8
  deriving DecidableEq, Repr, Inhabited

def BlobK.needsCodec : BlobK → Bool
  | .vecU8 | .sliceU8 | .cowU8 => true
  | _ => false

/-- what the macro keeps of a field besides its type (fields.rs `Field`, attrs.rs). -/
structure FAttr where
  name  : String := ""
  idx   : Nat := 0              -- `#[n(idx)]` / `#[b(idx)]` (unused when `skip`)
  isB   : Bool := false         -- `#[b(..)]`
  tag   : Option Nat := none    -- `#[cbor(tag(..))]`
  codec : Codec := .dflt
  skip  : Bool := false         -- `#[cbor(skip)]`
  deriving DecidableEq, Repr, Inhabited

structure SAttr where
  name  : String := ""
  shape : Shape := .named
  enc   : Option Encoding := none
  tag   : Option Nat := none
  transparent : Bool := false
  deriving DecidableEq, Repr, Inhabited

structure VAttr where
  name  : String := ""
  idx   : Nat := 0
  isB   : Bool := false
  enc   : Option Encoding := none
  tag   : Option Nat := none
  shape : Shape := .unit
  deriving DecidableEq, Repr, Inhabited

structure EAttr where
  name  : String := ""
  enc   : Option Encoding := none
  tag   : Option Nat := none
  indexOnly : Bool := false
  deriving DecidableEq, Repr, Inhabited

/-- field types.  Derived types are nested in place (a schema is a finite tree). -/
inductive FTy where
  | int    (k : IntK)
  | bool
  | text   (k : TextK)
  | blob   (k : BlobK)
  | option (t : FTy)
  | vec    (t : FTy)
  | struct (a : SAttr) (fields : List (FAttr × FTy))
  | enum   (a : EAttr) (variants : List (VAttr × List (FAttr × FTy)))
  deriving Repr, Inhabited

abbrev Fields := List (FAttr × FTy)
abbrev Variants := List (VAttr × Fields)

inductive Val where
  | int    (i : Int)
  | bool   (b : Bool)
  | text   (b : Bytes)          -- the UTF-8 bytes
  | blob   (b : Bytes)
  | none
  | some   (v : Val)
  | list   (vs : List Val)
  | struct (fs : List Val)      -- one value per declared field, declaration order (skipped ones included)
  | enum   (k : Nat) (fs : List Val)   -- `k` = position of the variant in the declaration
  deriving Repr, Inhabited

def FTy.isOption : FTy → Bool
  | .option _ => true
  | _ => false

def Val.isNone : Val → Bool
  | .none => true
  | _ => false

def Val.isZero : Val → Bool
  | .int i => i == 0
  | _ => false

/-! ## Integers -/

def IntK.ty : IntK → Dec.IntTy
  | .u8 => .u8 | .u16 => .u16 | .u32 => .u32 | .u64 => .u64
  | .i8 => .i8 | .i16 => .i16 | .i32 => .i32 | .i64 => .i64

def IntK.inRange (k : IntK) (x : Int) : Bool := decide (k.ty.lo ≤ x) && decide (x ≤ k.ty.hi)

/-- `encode_basic!`: `e.$t(*self)` -/
def IntK.enc : IntK → Int → Bytes
  | .u8, x => Enc.u8 x.toNat | .u16, x => Enc.u16 x.toNat | .u32, x => Enc.u32 x.toNat | .u64, x => Enc.u64 x.toNat
  | .i8, x => Enc.i8 x | .i16, x => Enc.i16 x | .i32, x => Enc.i32 x | .i64, x => Enc.i64 x

/-- `CborLen for u8/u16/u32/u64` (encode.rs:476-515), each with its own match. -/
def u8Len (x : Nat) : Nat := if x ≤ 0x17 then 1 else 2
def u16Len (x : Nat) : Nat := if x ≤ 0x17 then 1 else if x ≤ 0xff then 2 else 3
def u32Len (x : Nat) : Nat := if x ≤ 0x17 then 1 else if x ≤ 0xff then 2 else if x ≤ 0xffff then 3 else 5
def u64Len (x : Nat) : Nat :=
  if x ≤ 0x17 then 1 else if x ≤ 0xff then 2 else if x ≤ 0xffff then 3 else if x ≤ 0xffffffff then 5 else 9

/-- `let x = if *self >= 0 { *self as uN } else { (-1 - self) as uN }` -/
def absArg (x : Int) : Nat := if x ≥ 0 then x.toNat else (-1 - x).toNat

def IntK.len : IntK → Int → Nat
  | .u8, x => u8Len x.toNat | .u16, x => u16Len x.toNat | .u32, x => u32Len x.toNat | .u64, x => u64Len x.toNat
  | .i8, x => u8Len (absArg x) | .i16, x => u16Len (absArg x) | .i32, x => u32Len (absArg x) | .i64, x => u64Len (absArg x)

/-- `(#idx as u32).cbor_len(__ctx777)` in cbor_len.rs (since commit 36d21e9; before, the unsuffixed
    literal `#idx` fell back to `i32` and an index ≥ 2^31 wrapped: finding KD1). -/
def idxLen (idx : Nat) : Nat := u32Len idx

/-- `Tag::new(t).cbor_len` -/
def tagLen : Option Nat → Nat
  | none => 0
  | some t => u64Len t

def tagBytes : Option Nat → Bytes
  | none => []
  | some t => Enc.tag t

def nulls (n : Nat) : Bytes := (List.replicate n Enc.null).flatten

/-! ## What the macro selects per field (encode.rs `is_nil`, decode.rs `nil`, `unknown_var_err`) -/

/-- the `is_nil` the macro selects, applied to the field value. -/
def isNilField (a : FAttr) (t : FTy) (v : Val) : Bool :=
  match a.codec with
  | .dflt  => t.isOption && v.isNone     -- `minicbor::Encode::is_nil`: only `Option` overrides the default `false`
  | .bytes => t.isOption && v.isNone     -- module without `has_nil`: `Option::is_none` if the type is an `Option`, else `|_| false`
  | .nilu  => v.isZero                   -- `nilu::is_nil`

/-- the `nil()` the macro selects. -/
def nilOf (a : FAttr) (t : FTy) : Option Val :=
  match a.codec with
  | .dflt  => if t.isOption then some .none else none   -- `<T as Decode>::nil()`
  | .bytes => if t.isOption then some .none else none   -- `Some(None)` for a syntactic `Option`, else `None`
  | .nilu  => some (.int 0)                             -- `nilu::nil()`

/-- initial content of the field's slot: `Some(None)` for a syntactic `Option`, else `None`. -/
def slotInit (t : FTy) : Option Val := if t.isOption then some .none else none

/-- is an unknown-variant error of the field's decoder turned into "skip and carry on"? -/
def swallows (a : FAttr) (t : FTy) : Bool :=
  match a.codec with
  | .nilu  => (nilOf a t).isSome                    -- `Err(e) if e.is_unknown_variant() && nilu::nil().is_some()`
  | .bytes => t.isOption                            -- only the syntactic-`Option` arm exists
  | .dflt  => t.isOption || (nilOf a t).isSome      -- syntactic `Option`, or guarded by `<T>::nil().is_some()`

/-- a field after the per-field part of the expansion has run. -/
structure Piece (β : Type) where
  idx  : Nat
  tag  : Option Nat
  nil  : Bool
  body : β
  deriving Repr

/-- `fields.sort_unstable_by_key(|f| f.index.val())` (indices are unique). -/
def insertP (p : Piece β) : List (Piece β) → List (Piece β)
  | [] => [p]
  | q :: qs => if p.idx ≤ q.idx then p :: q :: qs else q :: insertP p qs

def sortP : List (Piece β) → List (Piece β)
  | [] => []
  | p :: ps => insertP p (sortP ps)

/-! ## `#[derive(Encode)]` -/

/-- the run-time tests computing `__max_index777` (in index order: the last non-nil wins). -/
def maxIndex (ps : List (Piece β)) : Option Nat :=
  ps.foldl (fun m p => if !p.nil then some p.idx else m) none

/-- the array statements: `if idx <= __i777 { for _ in 0..gaps { null }; tag; encode }` with
    `gaps` computed at expansion time from the previous declared index `k`. -/
def arrStmts (i : Nat) : Bool → Nat → List (Piece Bytes) → Bytes
  | _, _, [] => []
  | first, k, p :: ps =>
    let gaps := if first then p.idx - k else p.idx - k - 1
    (if p.idx ≤ i then nulls gaps ++ tagBytes p.tag ++ p.body else []) ++ arrStmts i false p.idx ps

def frameArray (ps : List (Piece Bytes)) : Bytes :=
  match maxIndex ps with
  | some i => Enc.array (i + 1) ++ arrStmts i true 0 ps
  | none   => Enc.array 0

/-- `__max_fields777`: the number of (non-skipped) fields minus one per nil field. -/
def maxFields (ps : List (Piece β)) : Nat :=
  ps.foldl (fun n p => if p.nil then n - 1 else n) ps.length

def mapStmts : List (Piece Bytes) → Bytes
  | [] => []
  | p :: ps => (if !p.nil then Enc.u32 p.idx ++ tagBytes p.tag ++ p.body else []) ++ mapStmts ps

def frameMap (ps : List (Piece Bytes)) : Bytes :=
  Enc.map (maxFields ps) ++ mapStmts ps

/-- `encode_fields` on the index-sorted fields. -/
def frame (enc : Encoding) (ps : List (Piece Bytes)) : Bytes :=
  match enc with
  | .array => frameArray (sortP ps)
  | .map   => frameMap (sortP ps)

/-- `encode_fn(&field, e, ctx)` for the field's codec. -/
def encWith (c : Codec) (enc : Val → Bytes) (v : Val) : Bytes :=
  match c with
  | .nilu => (match v with
      | .int i => if i == 0 then Enc.null else Enc.u32 i.toNat
      | _ => [])
  | _ => enc v       -- `minicbor::bytes::encode` writes the same bytes as the native byte-string types

/-- `make_transparent_impl`: forward to the single field (its codec applies, its tag does not). -/
def transparentBody : List (Piece Bytes) → Bytes
  | [p] => p.body
  | _ => []

def emptyBody : Encoding → Bytes
  | .array => Enc.array 0
  | .map => Enc.map 0

mutual
def encTy : FTy → Val → Bytes
  | .int k, .int i => k.enc i
  | .bool, .bool b => Enc.bool b
  | .text _, .text b => Enc.str b
  | .blob _, .blob b => Enc.bytes b
  | .option _, .none => Enc.null
  | .option t, .some v => encTy t v
  | .vec t, .list vs => Enc.array vs.length ++ (vs.map (encTy t)).flatten
  | .struct a fs, .struct vs =>
      if a.transparent then transparentBody (encFields fs vs)
      else tagBytes a.tag ++ frame (a.enc.getD .array) (encFields fs vs)
  | .enum a vars, .enum k vs => tagBytes a.tag ++ encVars a vars k vs
  | _, _ => []
termination_by structural t => t
/-- the per-field part, in declaration order; skipped fields produce nothing. -/
def encFields : Fields → List Val → List (Piece Bytes)
  | (a, t) :: fs, v :: vs =>
      if a.skip then encFields fs vs
      else ⟨a.idx, a.tag, isNilField a t v, encWith a.codec (encTy t) v⟩ :: encFields fs vs
  | _, _ => []
termination_by structural fs => fs
/-- the `match self` rows of an enum. -/
def encVars (e : EAttr) : Variants → Nat → List Val → Bytes
  | [], _, _ => []
  | (va, fs) :: _, 0, vs =>
      let enc := va.enc.getD (e.enc.getD .array)
      match va.shape with
      | .unit =>
          if e.indexOnly then Enc.u32 va.idx
          else Enc.array 2 ++ Enc.u32 va.idx ++ tagBytes va.tag ++ emptyBody enc
      | _ => Enc.array 2 ++ Enc.u32 va.idx ++ tagBytes va.tag ++ frame enc (encFields fs vs)
  | _ :: rest, k + 1, vs => encVars e rest k vs
termination_by structural vars => vars
end

/-! ## `#[derive(CborLen)]` -/

/-- array encoding: the running counters `__num777`, `__len777`, `__nil777` (since commit 0196d88
    a nil field adds `tag + cbor_len - 1` to `__nil777`, which the next non-nil field flushes into
    `__len777`; before, a nil field below the highest present index was counted as one byte:
    finding K3). -/
def lenArray (ps : List (Piece Nat)) : Nat :=
  let r := ps.foldl (fun (s : Nat × Nat × Nat) p =>
    if !p.nil then (p.idx + 1, s.2.1 + ((p.idx - s.1) + s.2.2 + tagLen p.tag + p.body), 0)
    else (s.1, s.2.1, s.2.2 + (tagLen p.tag + p.body - 1))) (0, 0, 0)
  u64Len r.1 + r.2.1

/-- map encoding (since commit d85a3d2 the counters mirror the array branch: `__num777` counts the
    non-nil, non-skipped fields, `__len777` sums their entries; before, the header was sized from
    the *declared* field count: finding K2). -/
def lenMapEntries : List (Piece Nat) → Nat
  | [] => 0
  | p :: ps => (if p.nil then 0 else idxLen p.idx + tagLen p.tag + p.body) + lenMapEntries ps

def lenMapCount : List (Piece Nat) → Nat
  | [] => 0
  | p :: ps => (if p.nil then 0 else 1) + lenMapCount ps

def lenMap (ps : List (Piece Nat)) : Nat := u64Len (lenMapCount ps) + lenMapEntries ps

def lenFrame (enc : Encoding) (ps : List (Piece Nat)) : Nat :=
  match enc with
  | .array => lenArray (sortP ps)
  | .map   => lenMap (sortP ps)

def lenWith (c : Codec) (len : Val → Nat) (v : Val) : Nat :=
  match c with
  | .nilu => (match v with
      | .int i => if i == 0 then 1 else u32Len i.toNat
      | _ => 0)
  | _ => len v

def transparentLen : List (Piece Nat) → Nat
  | [p] => p.body
  | _ => 0

def listSum : List Nat → Nat
  | [] => 0
  | x :: xs => x + listSum xs

mutual
def lenTy : FTy → Val → Nat
  | .int k, .int i => k.len i
  | .bool, .bool _ => 1
  | .text _, .text b => u64Len b.length + b.length
  | .blob _, .blob b => u64Len b.length + b.length
  | .option _, .none => 1
  | .option t, .some v => lenTy t v
  | .vec t, .list vs => u64Len vs.length + listSum (vs.map (lenTy t))
  | .struct a fs, .struct vs =>
      if a.transparent then transparentLen (lenFields fs vs)
      else tagLen a.tag + lenFrame (a.enc.getD .array) (lenFields fs vs)
  | .enum a vars, .enum k vs => tagLen a.tag + lenVars a vars k vs
  | _, _ => 0
termination_by structural t => t
def lenFields : Fields → List Val → List (Piece Nat)
  | (a, t) :: fs, v :: vs =>
      if a.skip then lenFields fs vs
      else ⟨a.idx, a.tag, isNilField a t v, lenWith a.codec (lenTy t) v⟩ :: lenFields fs vs
  | _, _ => []
termination_by structural fs => fs
def lenVars (e : EAttr) : Variants → Nat → List Val → Nat
  | [], _, _ => 0
  | (va, fs) :: _, 0, vs =>
      let enc := va.enc.getD (e.enc.getD .array)
      match va.shape with
      | .unit =>
          if e.indexOnly then idxLen va.idx
          else 1 + idxLen va.idx + tagLen va.tag + 1
      | _ => 1 + idxLen va.idx + tagLen va.tag + lenFrame enc (lenFields fs vs)
  | _ :: rest, k + 1, vs => lenVars e rest k vs
termination_by structural vars => vars
end

/-! ## `#[derive(Decode)]` -/

open Dec in
/-- `decode_tag`: `let t = d.tag()?; if #t != t.as_u64() { return Err(tag_mismatch) }` -/
def tagCheck : Option Nat → Dec Unit
  | none => pure ()
  | some t => do
    let x ← Dec.tag
    if x == t then pure () else Dec.fail .tag

/-- what the expansion knows about a field when decoding: attributes, initial slot, `nil()`,
    `Default::default()`, whether an unknown-variant error is swallowed, and `decode_fn`. -/
structure FDec where
  a       : FAttr
  init    : Option Val
  nilV    : Option Val
  dflt    : Val
  swallow : Bool
  dec     : Dec Val

abbrev Slots := List (Option Val)

/-- the F5 repair (commit 34b49ef in /repo, docs/F5-candidate.diff: remember the position where
    the field's item starts and skip the *whole* item on an unknown variant) is in the code; the
    constant is kept so that the pre-repair behaviour stays documented (`false` = the old code,
    which called `skip()` from wherever the failed decode stopped). -/
def f5Fixed : Bool := true

/-- `match decode_fn(d, ctx) { Ok(v) => slot = Some(v), unknown_var_err, Err(e) => return Err(e) }`:
    `some v`: the slot becomes `Some(v)`; `none`: the unknown variant was skipped, the slot
    keeps its content.  `bs0` = the input at the start of the action (`__p779` of the repair);
    before the repair the code called `skip()` from wherever the failed decode stopped. -/
def catchVariant (fd : FDec) (bs0 : Bytes) : Dec (Option Val) := fun bs =>
  match fd.dec bs with
  | .ok v r => .ok (some v) r
  | .err e r =>
      if e == .variant && fd.swallow then
        (do Dec.skip; pure (none : Option Val) : Dec (Option Val)) (if f5Fixed then bs0 else r)
      else .err e r
  | .panic => .panic

/-- the K5 repair (docs/K5-candidate.diff): a *tagged* field whose type has a nil value accepts a bare
    `null` (without the tag) — what an encoder that does not know the field puts at its position —
    and keeps its initial value.  `Type::Null == d.datatype()? && <has nil>`: the condition the macro
    generates for "has nil" is the one of the `unknown_var_err` arm (`swallow`). -/
def bareNull (fd : FDec) : Dec Bool :=
  if fd.a.tag.isSome then do
    let t ← Dec.datatype
    pure (t == .null && fd.swallow)
  else pure false

/-- one field action: (bare `null` for a tagged nil-capable field, else) tag check, then `decode_fn`
    with the `unknown_var_err` arm. -/
def action (fd : FDec) : Dec (Option Val) := fun bs0 =>
  (do let b ← bareNull fd
      if b then do Dec.skip; pure none
      else do tagCheck fd.a.tag; catchVariant fd bs0 : Dec (Option Val)) bs0

/-- `match i { #(#indices => #actions)* _ => __d777.skip()? }` -/
def runAt : List FDec → Slots → Nat → Dec Slots
  | fd :: fds, s :: ss, i =>
      if !fd.a.skip && fd.a.idx == i then do
        let r ← action fd
        pure ((match r with | some v => some v | none => s) :: ss)
      else do
        let ss' ← runAt fds ss i
        pure (s :: ss')
  | _, ss, _ => do Dec.skip; pure ss

/-- `for __i777 in 0 .. __len777` -/
def arrLoopN (fds : List FDec) : Nat → Nat → Slots → Dec Slots
  | 0, _, ss => pure ss
  | n + 1, i, ss => do
    let ss' ← runAt fds ss i
    arrLoopN fds n (i + 1) ss'

/-- `while Type::Break != d.datatype()? { …; i += 1 } d.skip()?` (local fuel). -/
def arrLoopI (fds : List FDec) : Nat → Nat → Slots → Dec Slots
  | 0, _, _ => Dec.panic
  | fuel + 1, i, ss => do
    let t ← Dec.datatype
    if t == .break then do Dec.skip; pure ss
    else do
      let ss' ← runAt fds ss i
      arrLoopI fds fuel (i + 1) ss'

/-- `for _ in 0 .. __len777 { match d.u32()? { … } }` -/
def mapLoopN (fds : List FDec) : Nat → Slots → Dec Slots
  | 0, ss => pure ss
  | n + 1, ss => do
    let k ← Dec.intAcc .u32
    let ss' ← runAt fds ss k.toNat
    mapLoopN fds n ss'

def mapLoopI (fds : List FDec) : Nat → Slots → Dec Slots
  | 0, _ => Dec.panic
  | fuel + 1, ss => do
    let t ← Dec.datatype
    if t == .break then do Dec.skip; pure ss
    else do
      let k ← Dec.intAcc .u32
      let ss' ← runAt fds ss k.toNat
      mapLoopI fds fuel ss'

/-- `gen_statements` -/
def statements (enc : Encoding) (fds : List FDec) : Dec Slots := do
  let ss := fds.map (·.init)
  match enc with
  | .array => do
    match (← Dec.array) with
    | some n => arrLoopN fds n 0 ss
    | none => do
      let r ← Dec.remaining
      arrLoopI fds (r.length + 1) 0 ss
  | .map => do
    match (← Dec.map) with
    | some n => mapLoopN fds n ss
    | none => do
      let r ← Dec.remaining
      mapLoopI fds (r.length + 1) ss

/-- the struct / variant initialiser: slot, else `nil()`, else `missing_value`; skipped fields
    take `Default::default()`.  (Named structs evaluate the fields in index order and tuple
    structs in declaration order; the only observable difference is *which* missing index the
    error names, which the model's error class does not carry.) -/
def slotValue (fd : FDec) (s : Option Val) : Dec Val :=
  if fd.a.skip then pure fd.dflt
  else match s with
    | some x => pure x
    | none => match fd.nilV with
      | some z => pure z
      | none => Dec.fail .missing

def resolve : List FDec → Slots → Dec (List Val)
  | fd :: fds, s :: ss => do
    let v ← slotValue fd s
    let vs ← resolve fds ss
    pure (v :: vs)
  | _, _ => pure []

def fieldsDec (enc : Encoding) (fds : List FDec) : Dec (List Val) := do
  let ss ← statements enc fds
  resolve fds ss

/-- `decode_fn(d, ctx)` for the field's codec. -/
def decWith (c : Codec) (dec : Dec Val) : Dec Val :=
  match c with
  | .nilu => do
      let t ← Dec.datatype
      if t == .null then do Dec.skip; pure (.int 0)
      else do let x ← Dec.intAcc .u32; pure (.int x)
  | _ => dec

/-- `impl Decode for Option<T>` -/
def optionDec (dec : Dec Val) : Dec Val := do
  let t ← Dec.datatype
  if t == .null then do Dec.skip; pure .none
  else do let v ← dec; pure (.some v)

/-- `ArrayIterWithCtx` drained by `decode_sequential!`. -/
def vecLoopN (dec : Dec Val) : Nat → Dec (List Val)
  | 0 => pure []
  | n + 1 => do
    let v ← dec
    let vs ← vecLoopN dec n
    pure (v :: vs)

def vecLoopI (dec : Dec Val) : Nat → Dec (List Val)
  | 0 => Dec.panic
  | fuel + 1 => do
    let b ← Dec.current
    if b == 0xff then do let _ ← Dec.read; pure []
    else do
      let v ← dec
      let vs ← vecLoopI dec fuel
      pure (v :: vs)

def vecDec (dec : Dec Val) : Dec Val := do
  match (← Dec.array) with
  | some n => do let vs ← vecLoopN dec n; pure (.list vs)
  | none => do
    let r ← Dec.remaining
    let vs ← vecLoopI dec (r.length + 1)
    pure (.list vs)

/-- a variant row after the index has been matched. -/
structure VDec where
  a    : VAttr
  body : Dec (List Val)

def findVariant : List VDec → Nat → Nat → Dec Val
  | [], _, _ => Dec.fail .variant            -- `n => Err(Error::unknown_variant(n))`
  | vd :: vds, pos, k =>
      if vd.a.idx == k then do let vs ← vd.body; pure (.enum pos vs)
      else findVariant vds (pos + 1) k

/-- the end of an indefinite-length `[index, body]` wrapper: `if Type::Break != d.datatype()? { error } d.skip()?` -/
def wrapperEnd (indef : Bool) : Dec Unit :=
  if indef then do
    let t ← Dec.datatype
    if t == .break then Dec.skip else Dec.fail .message
  else pure ()

/-- `on_enum`: tag, the two-element wrapper `[index, body]` (definite, or — since the repair of K8 —
    indefinite-length and closed by a break), the variant. -/
def enumDec (e : EAttr) (vds : List VDec) : Dec Val := do
  tagCheck e.tag
  let indef ← (if e.indexOnly then pure false
   else do
     let n ← Dec.array
     match n with
     | some k => if k == 2 then pure false else Dec.fail .message
     | none => pure true : Dec Bool)
  let k ← Dec.intAcc .u32
  let v ← findVariant vds 0 k.toNat
  wrapperEnd indef
  pure v

def transparentDec : List FDec → Dec Val
  | [fd] => do let v ← fd.dec; pure (.struct [v])
  | _ => Dec.fail .message

def structDec (a : SAttr) (fds : List FDec) : Dec Val :=
  if a.transparent then transparentDec fds
  else do
    tagCheck a.tag
    let vs ← fieldsDec (a.enc.getD .array) fds
    pure (.struct vs)

/-- `Default::default()` of a (non-derived) field type. -/
def defaultOf : FTy → Val
  | .int _ => .int 0
  | .bool => .bool false
  | .text _ => .text []
  | .blob _ => .blob []
  | .option _ => .none
  | .vec _ => .list []
  | .struct _ _ => .struct []
  | .enum _ _ => .enum 0 []

mutual
def decTy : FTy → Dec Val
  | .int k => do let x ← Dec.intAcc k.ty; pure (.int x)
  | .bool => do let b ← Dec.bool; pure (.bool b)
  | .text _ => do let b ← Dec.str; pure (.text b)
  | .blob _ => do let b ← Dec.bytes; pure (.blob b)
  | .option t => optionDec (decTy t)
  | .vec t => vecDec (decTy t)
  | .struct a fs => structDec a (decFields fs)
  | .enum a vars => enumDec a (decVars a vars)
termination_by structural t => t
def decFields : Fields → List FDec
  | [] => []
  | (a, t) :: fs =>
      ⟨a, slotInit t, nilOf a t, defaultOf t, swallows a t, decWith a.codec (decTy t)⟩ :: decFields fs
termination_by structural fs => fs
def decVars (e : EAttr) : Variants → List VDec
  | [] => []
  | (va, fs) :: rest =>
      let enc := va.enc.getD (e.enc.getD .array)
      let body : Dec (List Val) :=
        match va.shape with
        | .unit =>
            if e.indexOnly then pure []
            else do tagCheck va.tag; Dec.skip; pure []
        | _ => do tagCheck va.tag; fieldsDec enc (decFields fs)
      ⟨va, body⟩ :: decVars e rest
termination_by structural vars => vars
end

/-! ## The documented format (lib.rs, "CBOR encoding"), as a function into the data model -/

def tagI : Option Nat → Item → Item
  | none, x => x
  | some t, x => .tag t x

def nullI : Item := .simple 22

/-- the highest index of a present (non-absent) field. -/
def maxPresent : List (Piece β) → Option Nat
  | [] => none
  | p :: ps =>
    match maxPresent ps with
    | none => if p.nil then none else some p.idx
    | some m => some (if p.nil then m else max p.idx m)

/-- "represented as a CBOR array. Its index numbers are represented by the position of the
    field value in this array. Any gaps between index numbers are filled with CBOR NULL values
    and `Option`s which are `None` likewise end up as NULLs": position `i` holds the (tagged)
    item of the field with index `i`, or null; the array ends at the highest present index. -/
def specArray (ps : List (Piece Item)) : Item :=
  match maxPresent ps with
  | none => .array []
  | some m => .array ((List.range (m + 1)).map fun i =>
      match ps.find? (fun p => p.idx == i) with
      | some p => tagI p.tag p.body
      | none => nullI)

/-- "a CBOR map with keys corresponding to the numeric index value … Optional fields whose
    value is `None` are not encoded": for every index in ascending order, the entry of the
    present field with that index. -/
def specMap (ps : List (Piece Item)) : Item :=
  match maxPresent ps with
  | none => .map []
  | some m => .map ((List.range (m + 1)).flatMap fun i =>
      match ps.find? (fun p => p.idx == i && !p.nil) with
      | some p => [.uint i, tagI p.tag p.body]
      | none => [])

def specBody (enc : Encoding) (ps : List (Piece Item)) : Item :=
  match enc with
  | .array => specArray ps
  | .map => specMap ps

def intItem (x : Int) : Item := if x ≥ 0 then .uint x.toNat else .nint (-1 - x).toNat

/-- an optional value is *absent* when it is `None` (for the custom codec: when it is nil). -/
def specAbsent (a : FAttr) (v : Val) : Bool :=
  match a.codec with
  | .nilu => v.isZero
  | _ => v.isNone

def specWith (c : Codec) (spec : Val → Item) (v : Val) : Item :=
  match c with
  | .nilu => if v.isZero then nullI else (match v with | .int i => .uint i.toNat | _ => nullI)
  | _ => spec v

def specTransparent : List (Piece Item) → Item
  | [p] => p.body
  | _ => nullI

def specEmpty : Encoding → Item
  | .array => .array []
  | .map => .map []

mutual
def specTy : FTy → Val → Item
  | .int _, .int i => intItem i
  | .bool, .bool b => .simple (if b then 21 else 20)
  | .text _, .text b => .text b
  | .blob _, .blob b => .bytes b
  | .option _, .none => nullI
  | .option t, .some v => specTy t v
  | .vec t, .list vs => .array (vs.map (specTy t))
  | .struct a fs, .struct vs =>
      if a.transparent then specTransparent (specFields fs vs)
      else tagI a.tag (specBody (a.enc.getD .array) (specFields fs vs))
  | .enum a vars, .enum k vs => tagI a.tag (specVars a vars k vs)
  | _, _ => nullI
termination_by structural t => t
def specFields : Fields → List Val → List (Piece Item)
  | (a, t) :: fs, v :: vs =>
      if a.skip then specFields fs vs
      else ⟨a.idx, a.tag, specAbsent a v, specWith a.codec (specTy t) v⟩ :: specFields fs vs
  | _, _ => []
termination_by structural fs => fs
def specVars (e : EAttr) : Variants → Nat → List Val → Item
  | [], _, _ => nullI
  | (va, fs) :: _, 0, vs =>
      let enc := va.enc.getD (e.enc.getD .array)
      if e.indexOnly then .uint va.idx
      else .array [.uint va.idx, tagI va.tag (match va.shape with
        | .unit => specEmpty enc
        | _ => specBody enc (specFields fs vs))]
  | _ :: rest, k + 1, vs => specVars e rest k vs
termination_by structural vars => vars
end

/-- `specEncode`: the documented bytes. -/
def specEncode (t : FTy) (v : Val) : Bytes := encPref (specTy t v)

/-! ## Validity of schemas (`accepted`) and typing of values (`hasTy`) -/

def U32 : Nat := 4294967296
def U64 : Nat := 18446744073709551616

def tagOk : Option Nat → Bool
  | none => true
  | some t => t < U64

def nodupNat : List Nat → Bool
  | [] => true
  | x :: xs => !xs.contains x && nodupNat xs

mutual
/-- does the type mention a lifetime (`&str`, `&ByteSlice`, `&[u8]`, `Cow`, or a derived type
    that does)? -/
def FTy.borrows : FTy → Bool
  | .text .string => false
  | .text _ => true
  | .blob .byteVec => false
  | .blob .vecU8 => false
  | .blob _ => true
  | .option t => t.borrows
  | .vec t => t.borrows
  | .struct _ fs => borrowsFields fs
  | .enum _ vars => borrowsVars vars
  | _ => false
termination_by structural t => t
def borrowsFields : Fields → Bool
  | [] => false
  | (_, t) :: fs => t.borrows || borrowsFields fs
termination_by structural fs => fs
def borrowsVars : Variants → Bool
  | [] => false
  | (_, fs) :: rest => borrowsFields fs || borrowsVars rest
termination_by structural vars => vars
end

/-- lifetimes.rs: `&str`, `&ByteSlice`/`&[u8]` and `Option`s of them borrow implicitly;
    anything else that mentions a lifetime needs `#[b(..)]`. -/
def implicitBorrow : FTy → Bool
  | .text .str => true
  | .blob .byteSlice => true
  | .blob .sliceU8 => true
  | .option (.text .str) => true
  | .option (.blob .byteSlice) => true
  | .option (.blob .sliceU8) => true
  | _ => false

/-- the codec fits the field type (what rustc checks on the expansion). -/
def codecOk (c : Codec) (t : FTy) : Bool :=
  match c, t with
  | .nilu, .int .u32 => true
  | .nilu, _ => false
  | .bytes, .blob _ => true
  | .bytes, .option (.blob _) => true
  | .bytes, _ => false
  | .dflt, .blob k => !k.needsCodec
  | .dflt, .option (.blob k) => !k.needsCodec
  | .dflt, _ => true

def isDerived : FTy → Bool
  | .struct _ _ => true
  | .enum _ _ => true
  | _ => false

/-- the type implements `Default` (no derived types, no borrowed leaves, not `ByteVec`). -/
def hasDefault : FTy → Bool
  | .int _ | .bool | .option _ | .vec _ => true
  | .text .string => true
  | .blob .vecU8 => true
  | _ => false

def fieldAttrOk (a : FAttr) (t : FTy) : Bool :=
  if a.skip then a.tag.isNone && a.codec == .dflt && hasDefault t   -- "`skip` does not allow other attributes"; `Default`
  else a.idx < U32 && tagOk a.tag && codecOk a.codec t && (a.isB || !t.borrows || implicitBorrow t)

def liveIdxs : Fields → List Nat
  | [] => []
  | (a, _) :: fs => if a.skip then liveIdxs fs else a.idx :: liveIdxs fs

/-- the declared type of a field is a byte string (possibly optional): the only place where the
    kinds that need `with = "minicbor::bytes"` may occur. -/
def fieldBlob : FTy → Bool
  | .blob _ => true
  | .option (.blob _) => true
  | _ => false

mutual
def accepted : FTy → Bool
  | .int _ => true
  | .bool => true
  | .text _ => true
  | .blob k => !k.needsCodec        -- below the declared type of a field no codec applies
  | .option t => accepted t
  | .vec t => accepted t
  | .struct a fs =>
      tagOk a.tag && acceptedFields fs && nodupNat (liveIdxs fs)
      && (a.shape != .unit || fs.isEmpty)
      && (!a.transparent || (a.tag.isNone && (match fs with | [(fa, _)] => !fa.skip | _ => false)))
  | .enum a vars =>
      tagOk a.tag && acceptedVars a vars && nodupNat (vars.map (·.1.idx))
      && (!a.indexOnly || a.tag.isNone)
termination_by structural t => t
def acceptedFields : Fields → Bool
  | [] => true
  | (a, t) :: fs => fieldAttrOk a t && (fieldBlob t || accepted t) && acceptedFields fs
termination_by structural fs => fs
def acceptedVars (e : EAttr) : Variants → Bool
  | [] => true
  | (va, fs) :: rest =>
      va.idx < U32 && tagOk va.tag && acceptedFields fs && nodupNat (liveIdxs fs)
      && (va.shape != .unit || fs.isEmpty)
      && (!e.indexOnly || va.shape == .unit)       -- "index_only enums must not have fields"
      && acceptedVars e rest
termination_by structural vars => vars
end

mutual
/-- `v` is a value of type `t` (integers in range, text valid UTF-8, lengths below 2^64). -/
def hasTy : FTy → Val → Bool
  | .int k, .int i => k.inRange i
  | .bool, .bool _ => true
  | .text _, .text b => validUtf8 b && b.length < U64
  | .blob _, .blob b => b.length < U64
  | .option _, .none => true
  | .option t, .some v => hasTy t v
  | .vec t, .list vs => vs.all (hasTy t) && vs.length < U64
  | .struct _ fs, .struct vs => hasFields fs vs
  | .enum _ vars, .enum k vs => hasVars vars k vs
  | _, _ => false
termination_by structural t => t
def hasFields : Fields → List Val → Bool
  | [], [] => true
  | (_, t) :: fs, v :: vs => hasTy t v && hasFields fs vs
  | _, _ => false
termination_by structural fs => fs
def hasVars : Variants → Nat → List Val → Bool
  | [], _, _ => false
  | (_, fs) :: _, 0, vs => hasFields fs vs
  | _ :: rest, k + 1, vs => hasVars rest k vs
termination_by structural vars => vars
end

mutual
/-- the value a decoder reconstructs: skipped fields take their default. -/
def withDefaults : FTy → Val → Val
  | .option t, .some v => .some (withDefaults t v)
  | .vec t, .list vs => .list (vs.map (withDefaults t))
  | .struct _ fs, .struct vs => .struct (defaultsFields fs vs)
  | .enum _ vars, .enum k vs => .enum k (defaultsVars vars k vs)
  | _, v => v
termination_by structural t => t
def defaultsFields : Fields → List Val → List Val
  | (a, t) :: fs, v :: vs => (if a.skip then defaultOf t else withDefaults t v) :: defaultsFields fs vs
  | _, _ => []
termination_by structural fs => fs
def defaultsVars : Variants → Nat → List Val → List Val
  | [], _, _ => []
  | (_, fs) :: _, 0, vs => defaultsFields fs vs
  | _ :: rest, k + 1, vs => defaultsVars rest k vs
termination_by structural vars => vars
end

/-! ## Entry points -/

def deriveEncode (t : FTy) (v : Val) : Bytes := encTy t v
def deriveLen (t : FTy) (v : Val) : Nat := lenTy t v
def deriveDecode (t : FTy) : Dec Val := decTy t

end Minicbor.Derive
