/-
  `ArrayIter` / `ArrayIterWithCtx` / `MapIter` / `MapIterWithCtx` as what they are in the code: a state (the declared
  number of elements still to come, or `none` for an indefinite container; the decoder's remaining input) and a `next`
  function.  Elsewhere the model only uses the *drained* loops (`Dec.arrayIter`, `Dec.mapIter`: what `collect` into a
  `Result<_, _>` does); `Thm/Iter.lean` proves the two views equal, so every theorem about the drained loops (C01, C02,
  C04 …) is a theorem about calling `next` until `None` or the first error.

  The adaptors of `core::iter::Iterator` (`nth`, `skip`, `step_by`, `take`, `last`, `count`) are *defined* by the
  standard library through `next`; `Script` spells those definitions out as transcripts so that the driver can be
  compared with the code driven through the real adaptors (op `aiter`).
-/
import Minicbor.Types

namespace Minicbor

structure IterSt where
  left : Option Nat
  rest : Bytes
  deriving Repr

inductive IterOut (α : Type) where
  | done
  | item (a : α)
  | error (e : Err)
  | panic
  deriving Repr

/-- `Some(T::decode(self.decoder, ctx))`. -/
def iterRun (m : Dec α) (left : Option Nat) (bs : Bytes) : IterOut α × IterSt :=
  match m bs with
  | .ok a r  => (.item a, ⟨left, r⟩)
  | .err e r => (.error e, ⟨left, r⟩)
  | .panic   => (.panic, ⟨left, bs⟩)

/-- `Iterator::next` of the four iterators (`m` = the element decoder, or key-then-value for the maps). -/
def iterNext (m : Dec α) (s : IterSt) : IterOut α × IterSt :=
  match s.left with
  | none =>
    match s.rest with
    | []     => (.error .eoi, s)                                        -- `current()` fails, nothing moves
    | b :: r => if b == 0xff then (.done, ⟨none, r⟩) else iterRun m none s.rest
  | some 0       => (.done, s)
  | some (n + 1) => iterRun m (some n) s.rest

/-- key then value, as `MapIter::next`'s local `pair`. -/
def pairDec (mk : Dec α) (mv : Dec β) : Dec (α × β) := do let k ← mk; let v ← mv; pure (k, v)

/-- `next()` until `None` (the items, where the decoder stands) or the first error. -/
def drain (m : Dec α) : Nat → IterSt → Res (List α)
  | 0, _ => .panic
  | fuel + 1, s =>
    match iterNext m s with
    | (.done, s')    => .ok [] s'.rest
    | (.item a, s')  =>
      (match drain m fuel s' with
       | .ok as r  => .ok (a :: as) r
       | .err e r  => .err e r
       | .panic    => .panic)
    | (.error e, s') => .err e s'.rest
    | (.panic, _)    => .panic

/-- `Decoder::array_iter` / `array_iter_with`: the header, then the iterator. -/
def arrayOpen (bs : Bytes) : Res IterSt :=
  match Dec.array bs with
  | .ok l r  => .ok ⟨l, r⟩ r
  | .err e r => .err e r
  | .panic   => .panic

def mapOpen (bs : Bytes) : Res IterSt :=
  match Dec.map bs with
  | .ok l r  => .ok ⟨l, r⟩ r
  | .err e r => .err e r
  | .panic   => .panic

namespace Script

/-- what a transcript records per `next()` answer that is shown. -/
inductive Ev (α : Type) where
  | item (a : α) | error (e : Err) | none | bar | num (n : Nat) | panic | diverged
  deriving Repr

/-- `while let Some(x) = it.next() { push(x) }`, stopping after the first error shown. -/
def all (m : Dec α) : Nat → IterSt → List (Ev α) × IterSt
  | 0, s => ([.diverged], s)
  | fuel + 1, s =>
    match iterNext m s with
    | (.done, s')    => ([], s')
    | (.item a, s')  => let (evs, s'') := all m fuel s'; (.item a :: evs, s'')
    | (.error e, s') => ([.error e], s')
    | (.panic, s')   => ([.panic], s')

/-- `while let Some(x) = it.next() { show(x) }` carrying on after failed elements, at most `cap` answers. -/
def allx (m : Dec α) : Nat → IterSt → List (Ev α) × IterSt
  | 0, s => ([], s)
  | cap + 1, s =>
    match iterNext m s with
    | (.done, s')    => ([], s')
    | (.item a, s')  => let (evs, s'') := allx m cap s'; (.item a :: evs, s'')
    | (.error e, s') => let (evs, s'') := allx m cap s'; (.error e :: evs, s'')
    | (.panic, s')   => ([.panic], s')

/-- `n` calls of `next()` whose answers are dropped (errors included); stops early at `None`.  Returns whether `None` was met. -/
def advance (m : Dec α) : Nat → IterSt → Bool × IterSt
  | 0, s => (false, s)
  | n + 1, s =>
    match iterNext m s with
    | (.done, s')  => (true, s')
    | (.panic, s') => (true, s')
    | (_, s')      => advance m n s'

/-- one answer as an event; `stop` = the transcript ends here. -/
def ev (o : IterOut α) : Ev α × Bool :=
  match o with
  | .done => (.none, false) | .item a => (.item a, false) | .error e => (.error e, true) | .panic => (.panic, true)

/-- `it.nth(n)` then the rest. -/
def nth (m : Dec α) (fuel n : Nat) (s : IterSt) : List (Ev α) × IterSt :=
  let (hitNone, s1) := advance m n s
  if hitNone then let (evs, s2) := all m fuel s1; (.none :: evs, s2)
  else
    let (o, s2) := iterNext m s1
    let (e, stop) := ev o
    if stop then ([e], s2) else let (evs, s3) := all m fuel s2; (e :: evs, s3)

/-- `it.skip(n)` drained. -/
def skip (m : Dec α) (fuel n : Nat) (s : IterSt) : List (Ev α) × IterSt :=
  let (hitNone, s1) := advance m n s
  if hitNone then ([], s1) else all m fuel s1

/-- `it.step_by(n)` drained: every `n`-th answer is shown, the others dropped whatever they are. -/
def step (m : Dec α) (n : Nat) : Nat → Nat → IterSt → List (Ev α) × IterSt
  | 0, _, s => ([.diverged], s)
  | fuel + 1, i, s =>
    match iterNext m s with
    | (.done, s')  => ([], s')
    | (.panic, s') => ([.panic], s')
    | (o, s') =>
      if i % n == 0 then
        let (e, stop) := ev o
        if stop then ([e], s') else let (evs, s'') := step m n fuel (i + 1) s'; (e :: evs, s'')
      else step m n fuel (i + 1) s'

/-- `it.by_ref().take(n)` drained (at most `n` calls of `next`). -/
def takeN (m : Dec α) : Nat → IterSt → List (Ev α) × IterSt × Bool
  | 0, s => ([], s, false)
  | n + 1, s =>
    match iterNext m s with
    | (.done, s')    => ([], s', false)
    | (.item a, s')  => let (evs, s'', st) := takeN m n s'; (.item a :: evs, s'', st)
    | (.error e, s') => ([.error e], s', true)
    | (.panic, s')   => ([.panic], s', true)

def take (m : Dec α) (fuel n : Nat) (s : IterSt) : List (Ev α) × IterSt :=
  let (evs, s1, stop) := takeN m n s
  if stop then (evs, s1) else let (evs2, s2) := all m fuel s1; (evs ++ .bar :: evs2, s2)

/-- `it.last()` : the last `Some` before the first `None` (errors are items like any other). -/
def last (m : Dec α) : Nat → Option (IterOut α) → IterSt → List (Ev α) × IterSt
  | 0, _, s => ([.diverged], s)
  | fuel + 1, l, s =>
    match iterNext m s with
    | (.done, s')  => ([match l with | some o => (ev o).1 | none => .none], s')
    | (.panic, s') => ([.panic], s')
    | (o, s')      => last m fuel (some o) s'

/-- `it.count()`. -/
def count (m : Dec α) : Nat → Nat → IterSt → List (Ev α) × IterSt
  | 0, _, s => ([.diverged], s)
  | fuel + 1, c, s =>
    match iterNext m s with
    | (.done, s')  => ([.num c], s')
    | (.panic, s') => ([.panic], s')
    | (_, s')      => count m fuel (c + 1) s'

/-- `it.fuse()`: drained, then `n` more calls, which `Fuse` answers itself (the iterators do not implement `FusedIterator`, so the inner
    one is not asked again). -/
def fuse (m : Dec α) (fuel n : Nat) (s : IterSt) : List (Ev α) × IterSt :=
  let (evs, s') := all m fuel s
  match evs.getLast? with
  | some (.error _) => (evs, s')
  | some .panic => (evs, s')
  | some .diverged => (evs, s')
  | _ => (evs ++ List.replicate n .none, s')

end Script

end Minicbor
