/-
  Model of the attribute front end of the derive macros
  (minicbor-derive/src/attrs.rs, attrs/codec.rs, attrs/idx.rs, attrs/typeparam.rs, fields.rs,
  variants.rs and the structural checks at the top of encode.rs / decode.rs / cbor_len.rs).

  The three macros share this front end: it turns the attributes written on a type, a variant or
  a field into an `Attributes` value or rejects the definition.  `syn` (tokenising, literal
  parsing) is not modelled: the input here is the list of attributes as already-recognised items.

  Two facts about the Rust code shape this model:

  * `Attributes` is a `HashMap<Kind, Value>`; here it is a record with one optional slot per kind
    (`A`), which is the same thing with the key type made explicit.  The slots are grouped into the
    five kinds that `try_insert` lets absorb each other (`Cl`: codec, is_nil, nil, has_nil,
    cbor_len) and the eight that only look at their own slot (`Rs`); `try_insert`'s two branches
    ("key present" / "key new") are transcribed per kind in `insertCl` / `insertRs`.
  * `try_from_iter` parses every `#[...]` attribute into an `Attributes` of its own and then moves
    the entries of that map into the accumulated one with `for (k, v) in m.1.into_iter()`, i.e. in
    the **iteration order of a std HashMap, which is randomised per process**.  `fromAttrs` takes
    that order as a parameter (`Order`); `Thm/Attrs.lean` proves the parameter irrelevant.
-/
import Minicbor.Prelude

namespace Minicbor.Attrs

/-- a path as written in an attribute string (`"minicbor::bytes"` = `["minicbor", "bytes"]`). -/
abbrev Path := List String

inductive Level | enum_ | struct_ | variant | field
  deriving DecidableEq, Repr

inductive Enc | array | map
  deriving DecidableEq, Repr

inductive Kind
  | codec | encoding | index | indexOnly | transparent | typeParam | nil | isNil | hasNil
  | contextBound | cborLen | tag | skip
  deriving DecidableEq, Repr

/-- `CustomCodec` (attrs/codec.rs). -/
inductive CC
  | enc (e : Path) (isNil : Option Path)
  | dec (d : Path) (nil : Option Path)
  | both (e : Path) (isNil : Option Path) (d : Path) (nil : Option Path)
  | module (p : Path) (hasNil : Bool)
  deriving DecidableEq, Repr

def CC.isModule : CC → Bool
  | .module _ _ => true
  | _ => false

/-- a type-parameter bound map `ident ↦ bound text` (attrs/typeparam.rs: `HashMap<Ident, TypeParam>`);
    kept as an association list without duplicate keys. -/
abbrev TMap := List (String × String)

/-- `TypeParams`. -/
inductive TP
  | enc (e : TMap)
  | dec (d : TMap)
  | both (e d : TMap)
  deriving DecidableEq, Repr

/-- `Value` without its span. -/
inductive Val
  | codec (c : CC)
  | encoding (e : Enc)
  | index (isB : Bool) (i : Nat)
  | indexOnly
  | transparent
  | typeParam (t : TP)
  | nil (p : Path)
  | isNil (p : Path)
  | hasNil
  | contextBound (bs : List String)
  | cborLen (p : Path)
  | tag (t : Nat)
  | skip
  deriving DecidableEq, Repr

def Val.kind : Val → Kind
  | .codec _ => .codec | .encoding _ => .encoding | .index _ _ => .index | .indexOnly => .indexOnly
  | .transparent => .transparent | .typeParam _ => .typeParam | .nil _ => .nil | .isNil _ => .isNil
  | .hasNil => .hasNil | .contextBound _ => .contextBound | .cborLen _ => .cborLen | .tag _ => .tag
  | .skip => .skip

/-- the errors `syn::Error::new` is called with in the front end. -/
inductive Err
  | notSupportedOnLevel | duplicate | duplicateTypeParam | isNilNeedsEncodeWith | nilNeedsDecodeWith
  | hasNilNeedsWith | tagIndexOnly | tagTransparent | skipAlone | withCborLen | cborLenWith
  | expectedU32 | badTag | unsupported | missingIndex | duplicateIndex | transparentOneField
  | indexOnlyFields
  deriving DecidableEq, Repr

/-- the five kinds whose values absorb each other (`encode_with` / `decode_with` / `with` and their
    satellites `is_nil`, `nil`, `has_nil`, `cbor_len`): the part of the map `try_insert` inspects
    beyond the slot of the key being inserted. -/
structure Cl where
  codec : Option CC := none
  nil : Option Path := none
  isNil : Option Path := none
  hasNil : Bool := false
  cborLen : Option Path := none
  deriving DecidableEq, Repr

/-- the eight kinds that only ever look at their own slot. -/
structure Rs where
  encoding : Option Enc := none
  index : Option (Bool × Nat) := none
  indexOnly : Bool := false
  transparent : Bool := false
  typeParam : Option TP := none
  contextBound : Option (List String) := none
  tag : Option Nat := none
  skip : Bool := false
  deriving DecidableEq, Repr

/-- `Attributes` = `HashMap<Kind, Value>`: one slot per `Kind`, grouped as above. -/
structure A where
  cl : Cl := {}
  rs : Rs := {}
  deriving DecidableEq, Repr

def A.codec (a : A) := a.cl.codec
def A.nil (a : A) := a.cl.nil
def A.isNil (a : A) := a.cl.isNil
def A.hasNil (a : A) := a.cl.hasNil
def A.cborLen (a : A) := a.cl.cborLen
def A.encoding (a : A) := a.rs.encoding
def A.index (a : A) := a.rs.index
def A.indexOnly (a : A) := a.rs.indexOnly
def A.transparent (a : A) := a.rs.transparent
def A.typeParam (a : A) := a.rs.typeParam
def A.contextBound (a : A) := a.rs.contextBound
def A.tag (a : A) := a.rs.tag
def A.skip (a : A) := a.rs.skip

def b2n (b : Bool) : Nat := if b then 1 else 0
def o2n (o : Option α) : Nat := if o.isSome then 1 else 0

/-- `self.1.len()` -/
def A.len (a : A) : Nat :=
  o2n a.codec + o2n a.encoding + o2n a.index + b2n a.indexOnly + b2n a.transparent + o2n a.typeParam
  + o2n a.nil + o2n a.isNil + b2n a.hasNil + o2n a.contextBound + o2n a.cborLen + o2n a.tag + b2n a.skip

def isCluster : Kind → Bool
  | .codec | .nil | .isNil | .hasNil | .cborLen => true
  | _ => false

/-- which kinds `try_insert` admits on which level. -/
def allowed : Level → Kind → Bool
  | .struct_, k => k == .encoding || k == .transparent || k == .contextBound || k == .tag
  | .field, k => k == .typeParam || k == .codec || k == .index || k == .nil || k == .isNil || k == .hasNil
                 || k == .cborLen || k == .tag || k == .skip
  | .enum_, k => k == .encoding || k == .indexOnly || k == .contextBound || k == .tag
  | .variant, k => k == .encoding || k == .index || k == .tag

/-- typeparam.rs `try_merge` on two maps: every key of `b` must be new. -/
def mergeMap (a b : TMap) : Except Err TMap :=
  match b with
  | [] => .ok a
  | (k, v) :: rest =>
    if a.any (·.1 == k) then .error .duplicateTypeParam
    else mergeMap (a ++ [(k, v)]) rest

/-- `TypeParams::try_merge`. -/
def TP.merge : TP → TP → Except Err TP
  | .enc e1, .enc e2 => do let e ← mergeMap e1 e2; pure (.enc e)
  | .dec d1, .dec d2 => do let d ← mergeMap d1 d2; pure (.dec d)
  | .enc e, .dec d => .ok (.both e d)
  | .dec d, .enc e => .ok (.both e d)
  | .enc e1, .both e2 d => do let e ← mergeMap e1 e2; pure (.both e d)
  | .dec d1, .both e d2 => do let d ← mergeMap d1 d2; pure (.both e d)
  | .both e1 d, .enc e2 => do let e ← mergeMap e1 e2; pure (.both e d)
  | .both e d1, .dec d2 => do let d ← mergeMap d1 d2; pure (.both e d)
  | .both e1 d1, .both e2 d2 => do let e ← mergeMap e1 e2; let d ← mergeMap d1 d2; pure (.both e d)

/-- `try_insert` on the eight independent kinds: a present key is an error, except that type
    parameter bounds are merged and context bounds are united. -/
def insertRs (r : Rs) : Val → Except Err Rs
  | .encoding e => if r.encoding.isSome then .error .duplicate else .ok { r with encoding := some e }
  | .index b i => if r.index.isSome then .error .duplicate else .ok { r with index := some (b, i) }
  | .indexOnly => if r.indexOnly then .error .duplicate else .ok { r with indexOnly := true }
  | .transparent => if r.transparent then .error .duplicate else .ok { r with transparent := true }
  | .typeParam p =>
    match r.typeParam with
    | some cb => (match cb.merge p with
        | .error e => .error e
        | .ok t => .ok { r with typeParam := some t })
    | none => .ok { r with typeParam := some p }
  | .contextBound x =>
    match r.contextBound with
    | some cb => .ok { r with contextBound := some (cb ++ x) }
    | none => .ok { r with contextBound := some x }
  | .tag t => if r.tag.isSome then .error .duplicate else .ok { r with tag := some t }
  | .skip => if r.skip then .error .duplicate else .ok { r with skip := true }
  | _ => .ok r          -- (not reached: `tryInsert` sends the other five kinds to `insertCl`)

/-- `try_insert` on the codec cluster.  A present key is an error, except that `encode_with` and
    `decode_with` combine; a new key is absorbed by, or absorbs, what is already there. -/
def insertCl (c : Cl) : Val → Except Err Cl
  | .isNil z =>
    if c.isNil.isSome then .error .duplicate
    else match c.codec with
      | some (.enc e n) => if n.isSome then .error .duplicate else .ok { c with codec := some (.enc e (some z)) }
      | some (.both e n d m) => if n.isSome then .error .duplicate else .ok { c with codec := some (.both e (some z) d m) }
      | _ => .ok { c with isNil := some z }
  | .nil z =>
    if c.nil.isSome then .error .duplicate
    else match c.codec with
      | some (.dec d m) => if m.isSome then .error .duplicate else .ok { c with codec := some (.dec d (some z)) }
      | some (.both e n d m) => if m.isSome then .error .duplicate else .ok { c with codec := some (.both e n d (some z)) }
      | _ => .ok { c with nil := some z }
  | .hasNil =>
    if c.hasNil then .error .duplicate
    else match c.codec with
      | some (.module p b) => if b then .error .duplicate else .ok { c with codec := some (.module p true) }
      | _ => .ok { c with hasNil := true }
  | .cborLen p =>
    if c.cborLen.isSome then .error .duplicate
    else match c.codec with
      | some cc => if cc.isModule then .error .cborLenWith else .ok { c with cborLen := some p }
      | none => .ok { c with cborLen := some p }
  | .codec (.enc e n) =>
    match c.codec with
    | some (.dec d m) => .ok { c with codec := some (.both e n d m) }        -- key present: `encode_with` meets `decode_with`
    | some _ => .error .duplicate
    | none =>
      match c.isNil with
      | some z => if n.isSome then .error .duplicate else .ok { c with isNil := none, codec := some (.enc e (some z)) }
      | none => .ok { c with codec := some (.enc e n) }
  | .codec (.dec d m) =>
    match c.codec with
    | some (.enc e n) => .ok { c with codec := some (.both e n d m) }
    | some _ => .error .duplicate
    | none =>
      match c.nil with
      | some z => if m.isSome then .error .duplicate else .ok { c with nil := none, codec := some (.dec d (some z)) }
      | none => .ok { c with codec := some (.dec d m) }
  | .codec (.both e n d m) =>
    -- (arrives as a fresh value when the map of one attribute, where `encode_with` met `decode_with`, is merged)
    match c.codec with
    | some _ => .error .duplicate
    | none =>
      match c.isNil, c.nil with
      | some z, some y =>
        if n.isSome then .error .duplicate else if m.isSome then .error .duplicate
        else .ok { c with isNil := none, nil := none, codec := some (.both e (some z) d (some y)) }
      | some z, none => if n.isSome then .error .duplicate else .ok { c with isNil := none, codec := some (.both e (some z) d m) }
      | none, some y => if m.isSome then .error .duplicate else .ok { c with nil := none, codec := some (.both e n d (some y)) }
      | none, none => .ok { c with codec := some (.both e n d m) }
  | .codec (.module p b) =>
    match c.codec with
    | some _ => .error .duplicate
    | none =>
      if c.hasNil then
        if b then .error .duplicate
        else if c.cborLen.isSome then .error .withCborLen
        else .ok { c with hasNil := false, codec := some (.module p true) }
      else if c.cborLen.isSome then .error .withCborLen
      else .ok { c with codec := some (.module p b) }
  | _ => .ok c          -- (not reached)

/-- `Attributes::try_insert`: level check, then the slot logic. -/
def tryInsert (l : Level) (a : A) (v : Val) : Except Err A :=
  if !allowed l v.kind then .error .notSupportedOnLevel
  else if isCluster v.kind then
    match insertCl a.cl v with
    | .error e => .error e
    | .ok c => .ok { a with cl := c }
  else
    match insertRs a.rs v with
    | .error e => .error e
    | .ok r => .ok { a with rs := r }

/-! ### parsing one attribute -/

/-- an item of `#[cbor(...)]` as `parse_nested_meta` recognises it (integer literals as numbers). -/
inductive Item
  | indexOnly | transparent | map | array | hasNil | skip
  | encodeWith (p : Path) | isNil (p : Path) | decodeWith (p : Path) | nil (p : Path) | with_ (p : Path)
  | encodeBound (id bound : String) | decodeBound (id bound : String) | bound (id bound : String)
  | contextBound (bs : List String)
  | cborLen (p : Path)
  | n (i : Nat) | b (i : Nat) | tag (t : Nat)
  | unknown
  deriving DecidableEq, Repr

/-- one attribute on an item: `#[n(i)]`, `#[b(i)]`, `#[cbor(items…)]`, or anything else
    (`#[derive]`, `#[doc]`, `#[serde(..)]`, …: ignored). -/
inductive Attr
  | n (i : Nat)
  | b (i : Nat)
  | cbor (items : List Item)
  | other
  deriving Repr

def U32 : Nat := 4294967296
def U64 : Nat := 18446744073709551616

/-- `parse_int`: the literal must be a `u32`. -/
def parseIdx (isB : Bool) (i : Nat) : Except Err Val :=
  if i < U32 then .ok (.index isB i) else .error .expectedU32

def Item.toVal : Item → Except Err Val
  | .indexOnly => .ok .indexOnly
  | .transparent => .ok .transparent
  | .map => .ok (.encoding .map)
  | .array => .ok (.encoding .array)
  | .hasNil => .ok .hasNil
  | .skip => .ok .skip
  | .encodeWith p => .ok (.codec (.enc p none))
  | .isNil p => .ok (.isNil p)
  | .decodeWith p => .ok (.codec (.dec p none))
  | .nil p => .ok (.nil p)
  | .with_ p => .ok (.codec (.module p false))
  | .encodeBound i t => .ok (.typeParam (.enc [(i, t)]))
  | .decodeBound i t => .ok (.typeParam (.dec [(i, t)]))
  | .bound i t => .ok (.typeParam (.both [(i, t)] [(i, t)]))
  | .contextBound bs => .ok (.contextBound bs)
  | .cborLen p => .ok (.cborLen p)
  | .n i => parseIdx false i
  | .b i => parseIdx true i
  | .tag t => if t < U64 then .ok (.tag t) else .error .badTag
  | .unknown => .error .unsupported

/-- the items of one `#[cbor(...)]`, inserted in source order into a fresh map. -/
def insertItems (l : Level) : A → List Item → Except Err A
  | a, [] => .ok a
  | a, it :: rest =>
    match it.toVal with
    | .error e => .error e
    | .ok v =>
      match tryInsert l a v with
      | .error e => .error e
      | .ok a' => insertItems l a' rest

/-- `Attributes::try_from(l, a)` -/
def ofAttr (l : Level) : Attr → Except Err A
  | .n i => match parseIdx false i with
      | .error e => .error e
      | .ok v => tryInsert l {} v
  | .b i => match parseIdx true i with
      | .error e => .error e
      | .ok v => tryInsert l {} v
  | .cbor items => insertItems l {} items
  | .other => .ok {}

/-- the content of the map, in the canonical order of the slots. -/
def A.entries (a : A) : List Val :=
  (a.codec.map Val.codec).toList ++ (a.encoding.map Val.encoding).toList
  ++ (a.index.map fun p => Val.index p.1 p.2).toList
  ++ (if a.indexOnly then [Val.indexOnly] else []) ++ (if a.transparent then [Val.transparent] else [])
  ++ (a.typeParam.map Val.typeParam).toList ++ (a.nil.map Val.nil).toList ++ (a.isNil.map Val.isNil).toList
  ++ (if a.hasNil then [Val.hasNil] else []) ++ (a.contextBound.map Val.contextBound).toList
  ++ (a.cborLen.map Val.cborLen).toList ++ (a.tag.map Val.tag).toList ++ (if a.skip then [Val.skip] else [])

def insertAll (l : Level) : A → List Val → Except Err A
  | a, [] => .ok a
  | a, v :: rest =>
    match tryInsert l a v with
    | .error e => .error e
    | .ok a' => insertAll l a' rest

/-- the iteration order of the per-attribute `HashMap`: any function that returns a permutation
    of the entries (validity is the hypothesis `Order.Valid` of the theorems). -/
abbrev Order := A → List Val

def Order.canonical : Order := A.entries

/-- the checks at the end of `try_from_iter`. -/
def finalChecks (a : A) : Except Err A :=
  if a.isNil.isSome then .error .isNilNeedsEncodeWith
  else if a.nil.isSome then .error .nilNeedsDecodeWith
  else if a.hasNil then .error .hasNilNeedsWith
  else if a.tag.isSome && a.indexOnly then .error .tagIndexOnly
  else if a.tag.isSome && a.transparent then .error .tagTransparent
  else if a.skip && a.len > 1 then .error .skipAlone
  else .ok a

def mergeAttrs (ord : Order) (l : Level) : A → List Attr → Except Err A
  | acc, [] => .ok acc
  | acc, att :: rest =>
    match ofAttr l att with
    | .error e => .error e
    | .ok m =>
      match insertAll l acc (ord m) with
      | .error e => .error e
      | .ok acc' => mergeAttrs ord l acc' rest

/-- `Attributes::try_from_iter(l, attrs)` -/
def fromAttrs (ord : Order) (l : Level) (attrs : List Attr) : Except Err A :=
  match mergeAttrs ord l {} attrs with
  | .error e => .error e
  | .ok a => finalChecks a

/-! ### what the code generators read off an `Attributes` -/

def CC.encodePath : CC → Option Path
  | .enc e _ => some e | .both e _ _ _ => some e | .dec _ _ => none | .module p _ => some (p ++ ["encode"])
def CC.decodePath : CC → Option Path
  | .dec d _ => some d | .both _ _ d _ => some d | .enc _ _ => none | .module p _ => some (p ++ ["decode"])
def CC.isNilPath : CC → Option Path
  | .enc _ n => n | .both _ n _ _ => n | .module p true => some (p ++ ["is_nil"]) | _ => none
def CC.nilPath : CC → Option Path
  | .dec _ m => m | .both _ _ _ m => m | .module p true => some (p ++ ["nil"]) | _ => none
def CC.cborLenPath : CC → Option Path
  | .module p _ => some (p ++ ["cbor_len"]) | _ => none

/-- everything the three generators use of a field's attributes: the functions called for the
    value (none = the `Encode` / `Decode` / `CborLen` impl of the field type), the index, the tag. -/
structure FieldSem where
  skip : Bool
  isB : Bool
  idx : Nat
  tag : Option Nat
  encode : Option Path
  isNil : Option Path
  decode : Option Path
  nil : Option Path
  cborLen : Option Path
  deriving DecidableEq, Repr

def A.cborLenFn (a : A) : Option Path :=
  match a.cborLen with
  | some p => some p
  | none => a.codec.bind CC.cborLenPath

/-- fields.rs: a skipped field gets the index `u32::MAX`; any other field needs an index. -/
def fieldSem (a : A) : Except Err FieldSem :=
  if a.skip then
    .ok ⟨true, false, U32 - 1, none, none, none, none, none, none⟩
  else match a.index with
    | none => .error .missingIndex
    | some (b, i) =>
      .ok ⟨false, b, i, a.tag, a.codec.bind CC.encodePath, a.codec.bind CC.isNilPath,
           a.codec.bind CC.decodePath, a.codec.bind CC.nilPath, a.cborLenFn⟩

def nodup : List Nat → Bool
  | [] => true
  | x :: xs => !xs.contains x && nodup xs

/-- `Fields::try_from`: all fields' attributes, then `check_uniq` over the non-skipped ones. -/
def fieldsSem (ord : Order) : List (List Attr) → Except Err (List FieldSem)
  | [] => .ok []
  | f :: fs =>
    match fromAttrs ord .field f with
    | .error e => .error e
    | .ok a =>
      match fieldSem a with
      | .error e => .error e
      | .ok s =>
        match fieldsSem ord fs with
        | .error e => .error e
        | .ok ss => .ok (s :: ss)

def checkUniq (ss : List FieldSem) : Except Err Unit :=
  if nodup ((ss.filter (!·.skip)).map (·.idx)) then .ok () else .error .duplicateIndex

structure StructSem where
  enc : Option Enc
  tag : Option Nat
  transparent : Bool
  fields : List FieldSem
  deriving DecidableEq, Repr

/-- `on_struct` of the three macros up to the point where code generation starts. -/
def structSem (ord : Order) (attrs : List Attr) (fields : List (List Attr)) : Except Err StructSem :=
  match fromAttrs ord .struct_ attrs with
  | .error e => .error e
  | .ok a =>
    match fieldsSem ord fields with
    | .error e => .error e
    | .ok ss =>
      match checkUniq ss with
      | .error e => .error e
      | .ok () =>
        if a.transparent && (ss.filter (!·.skip)).length != 1 then .error .transparentOneField
        else .ok ⟨a.encoding, a.tag, a.transparent, ss⟩

structure VariantSem where
  isB : Bool
  idx : Nat
  enc : Option Enc
  tag : Option Nat
  unit : Bool
  fields : List FieldSem
  deriving DecidableEq, Repr

structure EnumSem where
  enc : Option Enc
  tag : Option Nat
  indexOnly : Bool
  variants : List VariantSem
  deriving DecidableEq, Repr

/-- a variant as written: its attributes, whether it is a unit variant, its fields. -/
structure RawVariant where
  attrs : List Attr
  unit : Bool
  fields : List (List Attr)

/-- `Variants::try_from`: attributes and mandatory index of every variant. -/
def variantHeads (ord : Order) : List RawVariant → Except Err (List A)
  | [] => .ok []
  | v :: vs =>
    match fromAttrs ord .variant v.attrs with
    | .error e => .error e
    | .ok a =>
      if a.index.isNone then .error .missingIndex
      else match variantHeads ord vs with
        | .error e => .error e
        | .ok as => .ok (a :: as)

def variantBodies (ord : Order) (indexOnly : Bool) : List RawVariant → List A → Except Err (List VariantSem)
  | v :: vs, a :: as =>
    match fieldsSem ord v.fields with
    | .error e => .error e
    | .ok ss =>
      match checkUniq ss with
      | .error e => .error e
      | .ok () =>
        if indexOnly && !v.unit then .error .indexOnlyFields
        else match variantBodies ord indexOnly vs as with
          | .error e => .error e
          | .ok rest =>
            let ix := a.index.getD (false, 0)
            .ok (⟨ix.1, ix.2, a.encoding, a.tag, v.unit, ss⟩ :: rest)
  | _, _ => .ok []

/-- `on_enum` up to code generation. -/
def enumSem (ord : Order) (attrs : List Attr) (vars : List RawVariant) : Except Err EnumSem :=
  match fromAttrs ord .enum_ attrs with
  | .error e => .error e
  | .ok a =>
    match variantHeads ord vars with
    | .error e => .error e
    | .ok heads =>
      if !nodup (heads.map fun h => (h.index.getD (false, 0)).2) then .error .duplicateIndex
      else match variantBodies ord a.indexOnly vars heads with
        | .error e => .error e
        | .ok vs => .ok ⟨a.encoding, a.tag, a.indexOnly, vs⟩

end Minicbor.Attrs
