/-
  Model of the `minicbor-io` crate (minicbor-io/src/{reader,writer,async_reader,async_writer}.rs):
  length-delimited CBOR frames over blocking and asynchronous byte streams.

  * the frame grammar (`frame`, `frames`): 4-byte big-endian payload length, then the payload;
  * scripted byte sources / sinks (`Ev`): what each successive `read` / `write` /
    `poll_read` / `poll_write` call of the underlying stream answers;
  * `Reader::read_with` (with std's `Read::read_exact`) and `Writer::write_with` (with std's
    `Write::write_all`), transcribed;
  * `AsyncReader` and `AsyncWriter` as persistent state machines.  The structs hold
    `state`, `buffer`, `max_len` (and the stream); the futures returned by `read` / `write` /
    `sync` hold nothing but borrows (and, for `write`, whether the caller gets the payload
    length or `()` back), so dropping a pending future is the identity on the model state —
    this is exactly the claim the correspondence run validates against the code under
    poll/drop schedules.

  The payload codec is a parameter (`Codec`); the driver and the harness instantiate it with
  `Val` (an unsigned integer, a byte string, or a value whose `Encode` impl fails).
-/
import Minicbor.Prelude
import Minicbor.Encoder
import Minicbor.Decoder

namespace Minicbor.Frame

/-! ## frames -/

/-- one frame: `u32` payload length in network byte order, then the payload. -/
def frame (p : Bytes) : Bytes := be 4 p.length ++ p

/-- the byte stream of a sequence of payloads. -/
def frames : List Bytes → Bytes
  | [] => []
  | p :: ps => frame p ++ frames ps

/-- `vec![0; n]` -/
def zeros (n : Nat) : Bytes := List.replicate n 0

/-- `io::ErrorKind`s that occur. -/
inductive IoKind where
  | unexpectedEof | writeZero | interrupted | wouldBlock | other
  deriving DecidableEq, Repr, Inhabited

/-- `minicbor_io::Error` (classes; the encode error carries no information we print). -/
inductive FErr where
  | io (k : IoKind)
  | decode (e : Err)
  | encode
  | invalidLen
  deriving DecidableEq, Repr, Inhabited

/-- the payload codec: `minicbor::encode_with(val, &mut Vec<u8>)` either appends the payload or
    fails after having appended `partial`; `minicbor::decode_with(&buffer)` decodes one value
    from the start of the buffer (trailing bytes are ignored). -/
structure Codec (α : Type) where
  enc : α → Except Bytes Bytes
  dec : Bytes → Except Err α

/-- `minicbor::decode_with(&self.buffer, ctx).map_err(Error::Decode).map(Some)` -/
def decodeRes (c : Codec α) (p : Bytes) : Except FErr (Option α) :=
  match c.dec p with
  | .ok v => .ok (some v)
  | .error e => .error (.decode e)

/-! ## scripted streams -/

/-- What the underlying stream answers to the next call.
    `io k`  : transfers `min k requested` bytes (for a source: at most what is left in the stream;
              a source with nothing left answers `Ok(0)`);  `k ≥ 1` in well-behaved scripts;
    `zero`  : `Ok(0)` — end of stream for a source, "accepts nothing" for a sink;
    `intr`  : `Err(ErrorKind::Interrupted)`;
    `fail`  : `Err(ErrorKind::Other)` (a transient error);
    `pend`  : `Poll::Pending` for an async stream; `Err(ErrorKind::WouldBlock)` for a blocking one. -/
inductive Ev where
  | io (k : Nat) | zero | intr | fail | pend
  deriving DecidableEq, Repr, Inhabited

/-- a scripted source: the bytes not yet delivered and the script. When the script of a
    *blocking* source is exhausted every call delivers all that is requested; an *async*
    source with an exhausted script stays `Pending`. -/
structure Src where
  bytes : Bytes
  script : List Ev
  deriving Repr

/-- a scripted sink: the bytes received so far and the script (exhausted script: a blocking
    sink accepts everything, an async sink stays `Pending`). -/
structure Snk where
  out : Bytes
  script : List Ev
  deriving Repr

/-! ## blocking reader -/

/-- outcome of a "fill `need` more bytes" loop. -/
inductive Fill where
  | done (got : Bytes)                  -- all bytes arrived
  | short (got : Bytes)                 -- the source answered `Ok(0)` first
  | fail (k : IoKind) (got : Bytes)     -- the source answered an error other than `Interrupted`
  deriving Repr

/-- The loop shared by the length-prefix loop of `Reader::read_with` and `Read::read_exact`:
    call `read(&mut buf[filled ..])` until the buffer is full, retrying on `Interrupted`,
    stopping at `Ok(0)` or any other error.  `acc` = bytes obtained so far. -/
def fill (need : Nat) (acc : Bytes) (bytes : Bytes) : List Ev → Fill × Src
  | [] =>
    if need ≤ bytes.length then (.done (acc ++ bytes.take need), ⟨bytes.drop need, []⟩)
    else (.short (acc ++ bytes), ⟨[], []⟩)
  | ev :: sc =>
    if need = 0 then (.done acc, ⟨bytes, ev :: sc⟩)
    else match ev with
      | .io k =>
        let n := min (min k need) bytes.length
        if n = 0 then (.short acc, ⟨bytes, sc⟩)
        else fill (need - n) (acc ++ bytes.take n) (bytes.drop n) sc
      | .zero => (.short acc, ⟨bytes, sc⟩)
      | .intr => fill need acc bytes sc
      | .fail => (.fail .other acc, ⟨bytes, sc⟩)
      | .pend => (.fail .wouldBlock acc, ⟨bytes, sc⟩)

/-- `minicbor_io::Reader` -/
structure Reader where
  src : Src
  buffer : Bytes
  maxLen : Nat
  deriving Repr

/-- `Reader::read_with` -/
def Reader.read (c : Codec α) (r : Reader) : Except FErr (Option α) × Reader :=
  match fill 4 [] r.src.bytes r.src.script with
  | (.done pre, src) =>
    let len := fromBe pre
    if len > r.maxLen then (.error .invalidLen, { r with src := src })
    else
      -- self.buffer.clear(); self.buffer.resize(len, 0); self.reader.read_exact(&mut self.buffer)?
      match fill len [] src.bytes src.script with
      | (.done p, src') => (decodeRes c p, { r with src := src', buffer := p })
      | (.short got, src') =>
        (.error (.io .unexpectedEof), { r with src := src', buffer := got ++ zeros (len - got.length) })
      | (.fail k got, src') =>
        (.error (.io k), { r with src := src', buffer := got ++ zeros (len - got.length) })
  | (.short [], src) => (.ok none, { r with src := src })
  | (.short _, src) => (.error (.io .unexpectedEof), { r with src := src })
  | (.fail k _, src) => (.error (.io k), { r with src := src })

/-- `n` successive `read` calls. -/
def Reader.readN (c : Codec α) : Nat → Reader → List (Except FErr (Option α)) × Reader
  | 0, r => ([], r)
  | n + 1, r =>
    let (x, r') := r.read c
    let (xs, r'') := Reader.readN c n r'
    (x :: xs, r'')

/-! ## blocking writer -/

inductive Drain where
  | done
  | fail (k : IoKind)
  deriving Repr

/-- `Write::write_all(data)`: call `write` until everything is accepted, retrying on
    `Interrupted`; `Ok(0)` is `WriteZero`. -/
def drain (data : Bytes) (out : Bytes) : List Ev → Drain × Snk
  | [] => (.done, ⟨out ++ data, []⟩)
  | ev :: sc =>
    if data.length = 0 then (.done, ⟨out, ev :: sc⟩)
    else match ev with
      | .io k =>
        let n := min k data.length
        if n = 0 then (.fail .writeZero, ⟨out, sc⟩)
        else drain (data.drop n) (out ++ data.take n) sc
      | .zero => (.fail .writeZero, ⟨out, sc⟩)
      | .intr => drain data out sc
      | .fail => (.fail .other, ⟨out, sc⟩)
      | .pend => (.fail .wouldBlock, ⟨out, sc⟩)

/-- `self.buffer.resize(4, 0u8)` -/
def resize4 (b : Bytes) : Bytes := b.take 4 ++ zeros (4 - b.length)

/-- `minicbor_io::Writer` -/
structure Writer where
  snk : Snk
  buffer : Bytes
  maxLen : Nat
  deriving Repr

/-- `Writer::write_with`.  (The prefix is `(buffer.len() as u32 - 4).to_be_bytes()`; `be 4`
    reduces modulo 2^32 like the release-mode arithmetic does, and the `max_len` check, with
    `max_len` a `u32`, makes the reduction the identity.) -/
def Writer.write (c : Codec α) (w : Writer) (v : α) : Except FErr Nat × Writer :=
  let b4 := resize4 w.buffer
  match c.enc v with
  | .error part => (.error .encode, { w with buffer := b4 ++ part })
  | .ok p =>
    if p.length > w.maxLen then (.error .invalidLen, { w with buffer := b4 ++ p })
    else
      let buf := frame p
      match drain buf w.snk.out w.snk.script with
      | (.done, snk) => (.ok p.length, { w with snk := snk, buffer := buf })
      | (.fail k, snk) => (.error (.io k), { w with snk := snk, buffer := buf })

/-- successive `write` calls, whatever each returns. -/
def Writer.writeAll (c : Codec α) : List α → Writer → List (Except FErr Nat) × Writer
  | [], w => ([], w)
  | v :: vs, w =>
    let (x, w') := w.write c v
    let (xs, w'') := Writer.writeAll c vs w'
    (x :: xs, w'')

/-! ## AsyncReader -/

/-- `Poll<T>` -/
inductive Poll (β : Type) where
  | pending
  | ready (x : β)
  deriving Repr

/-- `async_reader::State`: `ReadLen([u8; 4], u8)` / `ReadVal(usize)`. -/
inductive RState where
  | readLen (buf : Bytes) (o : Nat)
  | readVal (o : Nat)
  deriving Repr, DecidableEq

/-- `State::new()` -/
def RState.new : RState := .readLen (zeros 4) 0

/-- the fields of `AsyncReader` other than the stream. -/
structure ARCore where
  state : RState
  buffer : Bytes
  maxLen : Nat
  deriving Repr

/-- `dst[o .. o + bs.len()].copy_from_slice(bs)` -/
def writeAt (dst : Bytes) (o : Nat) (bs : Bytes) : Bytes :=
  dst.take o ++ bs ++ dst.drop (o + bs.length)

/-- result of running the arms of the `loop` that do not touch the stream. -/
inductive Settle (α : Type) where
  | want (r : ARCore)                                   -- next arm awaits `reader.read(..)`
  | ret (out : Except FErr (Option α)) (r : ARCore)     -- the function returned

/-- the arms `ReadLen(buf, 4)` and `ReadVal(o) if o >= buffer.len()` (at most two in a row). -/
def ARCore.settle (c : Codec α) (r : ARCore) : Settle α :=
  match r.state with
  | .readLen buf o =>
    if 4 ≤ o then
      let len := fromBe buf
      if len > r.maxLen then .ret (.error .invalidLen) r
      else
        let r' : ARCore := { r with buffer := zeros len, state := .readVal 0 }
        if len = 0 then .ret (decodeRes c r'.buffer) { r' with state := .new }
        else .want r'
    else .want r
  | .readVal o =>
    if o ≥ r.buffer.length then .ret (decodeRes c r.buffer) { r with state := .new }
    else .want r

/-- length of the slice handed to `reader.read`. -/
def ARCore.req (r : ARCore) : Nat :=
  match r.state with
  | .readLen _ o => 4 - o
  | .readVal o => r.buffer.length - o

/-- `n = bs.len()` bytes arrived: they are in the slice, and the offset is advanced. -/
def ARCore.absorb (r : ARCore) (bs : Bytes) : ARCore :=
  match r.state with
  | .readLen buf o => { r with state := .readLen (writeAt buf o bs) (o + bs.length) }
  | .readVal o => { r with buffer := writeAt r.buffer o bs, state := .readVal (o + bs.length) }

/-- the `n == 0` branches. -/
def ARCore.eofRes (r : ARCore) : Except FErr (Option α) :=
  match r.state with
  | .readLen _ o => if o = 0 then .ok none else .error (.io .unexpectedEof)
  | .readVal _ => .error (.io .unexpectedEof)

/-- the `loop` from an arm that awaits the stream, one `poll_read` per script event. -/
def pollLoop (c : Codec α) (r : ARCore) (bytes : Bytes) :
    List Ev → Poll (Except FErr (Option α)) × ARCore × Src
  | [] => (.pending, r, ⟨bytes, []⟩)
  | ev :: sc =>
    match ev with
    | .pend => (.pending, r, ⟨bytes, sc⟩)
    | .intr => (.ready (.error (.io .interrupted)), r, ⟨bytes, sc⟩)
    | .fail => (.ready (.error (.io .other)), r, ⟨bytes, sc⟩)
    | .zero => (.ready r.eofRes, r, ⟨bytes, sc⟩)
    | .io k =>
      let n := min (min k r.req) bytes.length
      if n = 0 then (.ready r.eofRes, r, ⟨bytes, sc⟩)
      else
        match (r.absorb (bytes.take n)).settle c with
        | .ret out r' => (.ready out, r', ⟨bytes.drop n, sc⟩)
        | .want r' => pollLoop c r' (bytes.drop n) sc

/-- `AsyncReader` = the fields + the stream. -/
structure AReader where
  core : ARCore
  src : Src
  deriving Repr

def AReader.init (maxLen : Nat) (bytes : Bytes) (script : List Ev) : AReader :=
  ⟨⟨.new, [], maxLen⟩, ⟨bytes, script⟩⟩

/-- one `poll` of a future returned by `AsyncReader::read` — a fresh one or one polled
    before: the future holds no data, it (re-)enters the `loop` on `self.state`. -/
def AReader.poll (c : Codec α) (r : AReader) : Poll (Except FErr (Option α)) × AReader :=
  match r.core.settle c with
  | .ret out core => (.ready out, ⟨core, r.src⟩)
  | .want core =>
    let (p, core', src') := pollLoop c core r.src.bytes r.src.script
    (p, ⟨core', src'⟩)

/-- caller decisions: poll the read future (issuing `read()` if there is none), or drop the
    pending future. -/
inductive RAct where
  | poll | drop
  deriving DecidableEq, Repr

/-- The future returned by `AsyncReader::read`: no fields (only the `&mut self` borrow). -/
structure ReadFut where
  deriving Repr

/-- caller-side system: the reader and the read future currently alive, if any. -/
structure RSys where
  rd : AReader
  fut : Option ReadFut
  deriving Repr

/-- one caller decision; `some p` is what `poll` returned. -/
def RSys.act (c : Codec α) (s : RSys) : RAct → RSys × Option (Poll (Except FErr (Option α)))
  | .poll =>
    let _fut : ReadFut := s.fut.getD {}          -- `self.read()` if no future is alive
    match s.rd.poll c with
    | (.pending, rd) => (⟨rd, some {}⟩, some .pending)
    | (.ready x, rd) => (⟨rd, none⟩, some (.ready x))     -- a completed future is consumed
  | .drop => (⟨s.rd, none⟩, none)

def RSys.run (c : Codec α) : List RAct → RSys → List (Option (Poll (Except FErr (Option α)))) × RSys
  | [], s => ([], s)
  | a :: as, s =>
    let (s', o) := s.act c a
    let (os, s'') := RSys.run c as s'
    (o :: os, s'')

/-- `AsyncReader::set_max_len`: sets the field, nothing else — not the state, not the buffer, which may hold part of a frame in flight
    (that frame was admitted under the old limit and completes). -/
def AReader.setMaxLen (r : AReader) (k : Nat) : AReader := ⟨{ r.core with maxLen := k }, r.src⟩

/-! ## AsyncWriter -/

/-- `async_writer::State` -/
inductive WState where
  | none
  | writeFrom (o : Nat)
  deriving Repr, DecidableEq

/-- the fields of `AsyncWriter` other than the stream. -/
structure AWCore where
  state : WState
  buffer : Bytes
  maxLen : Nat
  deriving Repr

/-- the `loop` of `AsyncWriter::sync`, one `poll_write` per script event. -/
def syncLoop (w : AWCore) (out : Bytes) (script : List Ev) : Poll (Except FErr Unit) × AWCore × Snk :=
  match w.state with
  | .none => (.ready (.ok ()), w, ⟨out, script⟩)
  | .writeFrom o =>
    if o ≥ w.buffer.length then (.ready (.ok ()), { w with state := .none }, ⟨out, script⟩)
    else match script with
      | [] => (.pending, w, ⟨out, []⟩)
      | ev :: sc =>
        match ev with
        | .pend => (.pending, w, ⟨out, sc⟩)
        | .intr => (.ready (.error (.io .interrupted)), w, ⟨out, sc⟩)
        | .fail => (.ready (.error (.io .other)), w, ⟨out, sc⟩)
        | .zero => (.ready (.error (.io .writeZero)), w, ⟨out, sc⟩)
        | .io k =>
          let n := min k (w.buffer.length - o)
          if n = 0 then (.ready (.error (.io .writeZero)), w, ⟨out, sc⟩)
          else syncLoop { w with state := .writeFrom (o + n) } (out ++ (w.buffer.drop o).take n) sc

/-- the synchronous head of `AsyncWriter::write_with` (runs in the first poll, before the
    first `await`): `some e` = returned `Err(e)` before `self.state` was assigned. -/
def AWCore.begin (c : Codec α) (w : AWCore) (v : α) : Option FErr × AWCore :=
  let b4 := resize4 w.buffer
  match c.enc v with
  | .error part => (some .encode, { w with buffer := b4 ++ part })
  | .ok p =>
    if p.length > w.maxLen then (some .invalidLen, { w with buffer := b4 ++ p })
    else (none, { w with buffer := frame p, state := .writeFrom 0 })

/-- a pending future of the writer: which call it belongs to (it holds nothing else). -/
inductive WFut where
  | write | sync
  deriving DecidableEq, Repr

/-- what a completed call returned. -/
inductive WRet where
  | wrote (r : Except FErr Nat)
  | synced (r : Except FErr Unit)
  deriving Repr

structure AWriter where
  core : AWCore
  snk : Snk
  deriving Repr

def AWriter.init (maxLen : Nat) (script : List Ev) : AWriter :=
  ⟨⟨.none, [], maxLen⟩, ⟨[], script⟩⟩

/-- poll a future that is inside `self.sync().await` (every poll of a `sync` future, and every
    poll of a `write` future after its synchronous head). -/
def AWriter.pollSync (w : AWriter) (f : WFut) : Poll WRet × AWriter :=
  let (p, core, snk) := syncLoop w.core w.snk.out w.snk.script
  let w' : AWriter := ⟨core, snk⟩
  match p with
  | .pending => (.pending, w')
  | .ready (.error e) => (.ready (match f with | .write => .wrote (.error e) | .sync => .synced (.error e)), w')
  | .ready (.ok ()) =>
    (.ready (match f with | .write => .wrote (.ok (core.buffer.length - 4)) | .sync => .synced (.ok ())), w')

/-- first poll of `write(v)`. -/
def AWriter.startWrite (c : Codec α) (w : AWriter) (v : α) : Poll WRet × AWriter :=
  match w.core.begin c v with
  | (some e, core) => (.ready (.wrote (.error e)), ⟨core, w.snk⟩)
  | (none, core) => AWriter.pollSync ⟨core, w.snk⟩ .write

/-- `AsyncWriter::set_max_len`: sets the field, nothing else — in particular not the buffer, which may hold a frame in flight. -/
def AWriter.setMaxLen (w : AWriter) (k : Nat) : AWriter := ⟨{ w.core with maxLen := k }, w.snk⟩

theorem AWriter.setMaxLen_keeps (w : AWriter) (k : Nat) :
    (w.setMaxLen k).core.buffer = w.core.buffer ∧ (w.setMaxLen k).core.state = w.core.state ∧ (w.setMaxLen k).snk = w.snk :=
  ⟨rfl, rfl, rfl⟩

/-- caller decisions: call `write(v)` / `sync()` and poll the new future once (dropping a
    pending one first — it borrows the writer mutably), poll the pending future again, drop it. -/
inductive WAct (α : Type) where
  | write (v : α) | sync | poll | drop
  deriving Repr

structure WSys where
  wr : AWriter
  fut : Option WFut
  deriving Repr

def WSys.settleFut (f : WFut) : Poll WRet × AWriter → WSys × Option (Poll WRet)
  | (.pending, wr) => (⟨wr, some f⟩, some .pending)
  | (.ready x, wr) => (⟨wr, none⟩, some (.ready x))

def WSys.act (c : Codec α) (s : WSys) : WAct α → WSys × Option (Poll WRet)
  | .write v => WSys.settleFut .write (s.wr.startWrite c v)
  | .sync => WSys.settleFut .sync (s.wr.pollSync .sync)
  | .poll =>
    match s.fut with
    | none => (s, none)
    | some f => WSys.settleFut f (s.wr.pollSync f)
  | .drop => (⟨s.wr, none⟩, none)

def WSys.run (c : Codec α) : List (WAct α) → WSys → List (Option (Poll WRet)) × WSys
  | [], s => ([], s)
  | a :: as, s =>
    let (s', o) := s.act c a
    let (os, s'') := WSys.run c as s'
    (o :: os, s'')

/-! ## the concrete payload type used by the driver and the harness -/

/-- `hio::V`: `U(u64)`, `B(Vec<u8>)`, `X(partial)` whose `Encode` impl writes `partial`
    to the writer and then fails, and `E` whose `Encode` impl writes nothing (no `Decode` impl accepts the empty payload),
    and `T(u64)` whose `Encode` impl writes one item more than its `Decode` impl reads (a frame may hold more than the value's decoder consumes:
    `minicbor::decode` ignores what follows the item). -/
inductive Val where
  | u (n : Nat)
  | b (bs : Bytes)
  | x (part : Bytes)
  | e                         -- a value whose `Encode` impl writes nothing and succeeds (an empty payload: a frame of four zero bytes)
  | t (n : Nat)               -- a value whose `Encode` impl writes the number and one more item (padding); its `Decode` impl reads the number only
  deriving DecidableEq, Repr, Inhabited

/-- `impl Decode for V`: `match d.datatype()? { U8|U16|U32|U64 => d.u64(), Bytes => d.bytes(), _ => message }` -/
def decVal : Dec Val := do
  let t ← Dec.datatype
  match t with
  | .u8 | .u16 | .u32 | .u64 => do
    let n ← Dec.intAcc .u64
    pure (.u n.toNat)
  | .bytes => do
    let b ← Dec.bytes
    pure (.b b)
  | _ => Dec.fail .message

def valCodec : Codec Val where
  enc
    | .u n => .ok (Enc.u64 n)
    | .b bs => .ok (Enc.bytes bs)
    | .x part => .error part
    | .e => .ok []
    | .t n => .ok (Enc.u64 n ++ [0x00])
  dec p :=
    match decVal p with
    | .ok v _ => .ok v
    | .err e _ => .error e
    | .panic => .error .custom     -- never happens (C14.decVal_noPanic)

end Minicbor.Frame
