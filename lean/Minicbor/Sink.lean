/-
  Model of the sinks of `minicbor::encode::write` (minicbor/src/encode/write.rs) and of the way
  the `Encoder` feeds them (`Encoder::put` → `Write::write_all`, errors mapped to
  `encode::Error::write`, encoder.rs:285-288).

  The buffer of a bounded sink lives inside a *guarded memory* `mem : Bytes`
  (`mem[base, base+cap)` is the buffer, everything around it plays the role of the canary
  bytes the harness puts there).  Writes are modelled by `blit` on the whole memory, at an
  offset computed the way the code computes it, so "never writes outside the buffer" is a
  theorem about the bounds checks of the code and not an artefact of the representation:
  `blit` past the end of the buffer would clobber the canary (or change the memory's length).

  Sinks:
    * `&mut [u8]`                (write.rs:19-32)  all-or-nothing per call, the slice advances
    * `Cursor<&mut [u8]>`        (write.rs:74-83)  position `.1`, all-or-nothing
    * `Cursor<[u8; N]>`          (write.rs:85-94)
    * `Cursor<Box<[u8]>>`        (write.rs:96-106)
    * `Vec<u8>`                  (write.rs:34-42)  infallible
    * `Writer<W: std::io::Write>`(write.rs:137-144) std's default `write_all` loop over a limited
                                  writer accepting at most `step` bytes per `write` call.
  Imports only the prelude.
-/
import Minicbor.Prelude

namespace Minicbor.Sink

/-- outcome of a write: new state, write error (with the state left behind), or a panic. -/
inductive WRes (σ : Type) where
  | ok (s : σ)
  | err (s : σ)
  | panic
  deriving Repr

/-- overwrite `mem[off, off + c.length)` with `c` (`copy_from_slice` through a raw offset).
    If the range does not lie inside `mem` the result is not a same-length memory: an overrun. -/
def blit (mem : Bytes) (off : Nat) (c : Bytes) : Bytes :=
  mem.take off ++ c ++ mem.drop (off + c.length)

/-- `impl Write for &mut [u8]` (write.rs:22-31) on the slice `mem[start, start+len)`:
    the length check, `split_at_mut(buf.len())` (which panics if `buf.len() > len`) and
    `copy_from_slice`.  Returns the memory afterwards. -/
def sliceWriteAll (mem : Bytes) (start len : Nat) (c : Bytes) : WRes Bytes :=
  if len < c.length then .err mem                 -- Err(EndOfSlice)
  else if c.length > len then .panic              -- split_at_mut: mid > len
  else .ok (blit mem start c)

/-- the bounded in-memory sinks. -/
inductive BKind where
  | slice | cursorSlice | cursorArray | cursorBox
  deriving DecidableEq, Repr

/-- state of a bounded sink.  `slice`: the `&mut [u8]` currently is `mem[base+pos, base+cap)`
    (it started as `mem[base, base+cap)` and advanced by `pos`); cursors: `pos` is the field `.1`. -/
structure Buf where
  mem : Bytes
  base : Nat
  cap : Nat
  pos : Nat
  deriving Repr

/-- `write_all` of the four bounded sinks. -/
def Buf.write (k : BKind) (b : Buf) (c : Bytes) : WRes Buf :=
  match k with
  | .slice =>
    match sliceWriteAll b.mem (b.base + b.pos) (b.cap - b.pos) c with
    | .ok m  => .ok { b with mem := m, pos := b.pos + c.length }      -- `*self = suffix`
    | .err _ => .err b
    | .panic => .panic
  | _ =>
    -- `let mut slice = &mut self.0[self.1 ..]` panics if `self.1 > len`
    if b.pos > b.cap then .panic
    else
      match sliceWriteAll b.mem (b.base + b.pos) (b.cap - b.pos) c with
      | .ok m  => .ok { b with mem := m, pos := b.pos + c.length }    -- `self.1 += buf.len()`
      | .err _ => .err b                                              -- `?` / `map_err(EndOfArray)`
      | .panic => .panic

/-- one `write` call of the limited `std::io::Write` the harness wraps in `Writer`: accepts at
    most `step` bytes and never more than still fit. -/
def ioWrite (b : Buf) (step : Nat) (c : Bytes) : Buf × Nat :=
  let n := min (min step (b.cap - b.pos)) c.length
  ({ b with mem := blit b.mem (b.base + b.pos) (c.take n), pos := b.pos + n }, n)

/-- std's default `Write::write_all` (the loop `while !buf.is_empty() { match self.write(buf) {
    Ok(0) => return Err(WriteZero), Ok(n) => buf = &buf[n..], … } }`).  The loop has no count:
    local fuel, exhausted = `panic` (callers pass `c.length + 1`). -/
def ioWriteAll (step : Nat) : Nat → Buf → Bytes → WRes Buf
  | 0, _, _ => .panic
  | fuel + 1, b, c =>
    if c.isEmpty then .ok b
    else
      let r := ioWrite b step c
      if r.2 == 0 then .err r.1
      else ioWriteAll step fuel r.1 (c.drop r.2)

inductive Sink where
  | bounded (k : BKind) (b : Buf)
  | vec (data : Bytes)
  | io (b : Buf) (step : Nat)
  deriving Repr

/-- `Write::write_all`. -/
def Sink.writeAll : Sink → Bytes → WRes Sink
  | .bounded k b, c =>
    match b.write k c with
    | .ok b'  => .ok (.bounded k b')
    | .err b' => .err (.bounded k b')
    | .panic  => .panic
  | .vec d, c => .ok (.vec (d ++ c))                                  -- `extend_from_slice`
  | .io b step, c =>
    match ioWriteAll step (c.length + 1) b c with
    | .ok b'  => .ok (.io b' step)
    | .err b' => .err (.io b' step)
    | .panic  => .panic

/-- the `Encoder` writing the successive `put` chunks of an encoding: the first failing
    `write_all` ends the encoding with `Error::write` (`?`). -/
def Sink.putAll : Sink → List Bytes → WRes Sink
  | s, [] => .ok s
  | s, c :: cs =>
    match s.writeAll c with
    | .ok s'  => Sink.putAll s' cs
    | .err s' => .err s'
    | .panic  => .panic

/-- a raw sequence of `write_all` calls that carries on after failures; the per-call outcomes
    (`true` = `Ok`) and the final state; `none` = some call panicked. -/
def Sink.writeSeq : Sink → List Bytes → Option (Sink × List Bool)
  | s, [] => some (s, [])
  | s, c :: cs =>
    match s.writeAll c with
    | .ok s'  => (Sink.writeSeq s' cs).map fun (t, r) => (t, true :: r)
    | .err s' => (Sink.writeSeq s' cs).map fun (t, r) => (t, false :: r)
    | .panic  => none

/-- a script of `Encoder` calls on ONE sink that carries on after a failed call: each call hands its `put`
    chunks to `write_all` until one fails (`?` inside the method), the next call starts from whatever
    that left behind.  Per-call outcomes (`true` = `Ok`) and the final state; `none` = a panic. -/
def Sink.callSeq : Sink → List (List Bytes) → Option (Sink × List Bool)
  | s, [] => some (s, [])
  | s, ps :: rest =>
    match s.putAll ps with
    | .ok s'  => (Sink.callSeq s' rest).map fun (t, r) => (t, true :: r)
    | .err s' => (Sink.callSeq s' rest).map fun (t, r) => (t, false :: r)
    | .panic  => none

/-- the bytes the sink has accepted so far. -/
def Sink.accepted : Sink → Bytes
  | .bounded _ b => (b.mem.drop b.base).take b.pos
  | .vec d => d
  | .io b _ => (b.mem.drop b.base).take b.pos

/-- `Cursor::position` (for the slice: how far it has advanced; for `Vec`: its length). -/
def Sink.position : Sink → Nat
  | .bounded _ b => b.pos
  | .vec d => d.length
  | .io b _ => b.pos

/-- the guarded memory (`Vec`: its contents). -/
def Sink.memory : Sink → Bytes
  | .bounded _ b => b.mem
  | .vec d => d
  | .io b _ => b.mem

/-- a fresh bounded sink over the buffer `B` with canaries `L`, `R` around it. -/
def freshBuf (L B R : Bytes) : Buf := { mem := L ++ B ++ R, base := L.length, cap := B.length, pos := 0 }

end Minicbor.Sink
