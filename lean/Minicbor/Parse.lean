/-
  Reference parser for RFC 8949 well-formed data items (independent of the `Decoder` model):
  `parse bs` returns the parse tree of the single well-formed item at the start of `bs`
  together with the remaining bytes, or `none` if `bs` does not start with one.
  Plain recursive descent with a local fuel (`2 * length + 2`, never exhausted on a
  well-formed item: `Lemmas/SkipParse.lean`).  Imports nothing outside the model.
-/
import Minicbor.Wire

namespace Minicbor

/-- split off `k` bytes. -/
def takeN (k : Nat) (bs : Bytes) : Option (Bytes × Bytes) :=
  if k ≤ bs.length then some (bs.take k, bs.drop k) else none

/-- the argument of a head with additional information `ai` (`< 28`). -/
def parseArg (ai : Nat) (bs : Bytes) : Option (Width × Nat × Bytes) :=
  if ai < 24 then some (.w0, ai, bs)
  else if ai = 24 then (takeN 1 bs).map fun (x, r) => (.w1, fromBe x, r)
  else if ai = 25 then (takeN 2 bs).map fun (x, r) => (.w2, fromBe x, r)
  else if ai = 26 then (takeN 4 bs).map fun (x, r) => (.w4, fromBe x, r)
  else if ai = 27 then (takeN 8 bs).map fun (x, r) => (.w8, fromBe x, r)
  else none

/-- a definite-length string of major type `maj` (2 or 3) whose initial byte is already split
    into `ai`: width, payload, rest. -/
def parseStr (text : Bool) (ai : Nat) (bs : Bytes) : Option (Width × Bytes × Bytes) :=
  match parseArg ai bs with
  | none => none
  | some (w, n, r) =>
    match takeN n r with
    | none => none
    | some (p, r') => if text && !validUtf8 p then none else some (w, p, r')

/-- the chunks of an indefinite-length string up to and including the break byte. -/
def parseChunks (text : Bool) : Nat → Bytes → Option (List (Width × Bytes) × Bytes)
  | 0, _ => none
  | _ + 1, [] => none
  | f + 1, b :: bs =>
    if b = 0xff then some ([], bs)
    else if b.toNat / 32 = (if text then 3 else 2) then
      match parseStr text (b.toNat % 32) bs with
      | none => none
      | some (w, p, r) =>
        match parseChunks text f r with
        | none => none
        | some (cs, r') => some ((w, p) :: cs, r')
    else none

mutual
/-- one data item. -/
def parseItem : Nat → Bytes → Option (WItem × Bytes)
  | 0, _ => none
  | _ + 1, [] => none
  | f + 1, b :: bs =>
    let maj := b.toNat / 32
    let ai := b.toNat % 32
    if maj = 0 then (parseArg ai bs).map fun (w, n, r) => (.uint w n, r)
    else if maj = 1 then (parseArg ai bs).map fun (w, n, r) => (.nint w n, r)
    else if maj = 2 then
      if ai = 31 then (parseChunks false (bs.length + 1) bs).map fun (cs, r) => (.bytesI cs, r)
      else (parseStr false ai bs).map fun (w, p, r) => (.bytes w p, r)
    else if maj = 3 then
      if ai = 31 then (parseChunks true (bs.length + 1) bs).map fun (cs, r) => (.textI cs, r)
      else (parseStr true ai bs).map fun (w, p, r) => (.text w p, r)
    else if maj = 4 then
      if ai = 31 then (parseBreak f bs).map fun (xs, r) => (.arrayI xs, r)
      else
        match parseArg ai bs with
        | none => none
        | some (w, n, r) => (parseItems f n r).map fun (xs, r') => (.array w xs, r')
    else if maj = 5 then
      if ai = 31 then
        match parseBreak f bs with
        | none => none
        | some (xs, r) => if xs.length % 2 = 0 then some (.mapI xs, r) else none
      else
        match parseArg ai bs with
        | none => none
        | some (w, n, r) => (parseItems f (2 * n) r).map fun (xs, r') => (.map w xs, r')
    else if maj = 6 then
      match parseArg ai bs with
      | none => none
      | some (w, n, r) => (parseItem f r).map fun (x, r') => (.tag w n x, r')
    else
      if ai < 24 then some (.simple ai, bs)
      else if ai = 24 then
        match bs with
        | x :: r => if 32 ≤ x.toNat then some (.simple x.toNat, r) else none
        | [] => none
      else if ai = 25 then (takeN 2 bs).map fun (x, r) => (.f16 (fromBe x), r)
      else if ai = 26 then (takeN 4 bs).map fun (x, r) => (.f32 (fromBe x), r)
      else if ai = 27 then (takeN 8 bs).map fun (x, r) => (.f64 (fromBe x), r)
      else none
/-- exactly `n` data items. -/
def parseItems : Nat → Nat → Bytes → Option (List WItem × Bytes)
  | _, 0, bs => some ([], bs)
  | 0, _ + 1, _ => none
  | f + 1, n + 1, bs =>
    match parseItem f bs with
    | none => none
    | some (x, r) =>
      match parseItems f n r with
      | none => none
      | some (xs, r') => some (x :: xs, r')
/-- data items up to and including the break byte. -/
def parseBreak : Nat → Bytes → Option (List WItem × Bytes)
  | 0, _ => none
  | _ + 1, [] => none
  | f + 1, b :: bs =>
    if b = 0xff then some ([], bs)
    else
      match parseItem f (b :: bs) with
      | none => none
      | some (x, r) =>
        match parseBreak f r with
        | none => none
        | some (xs, r') => some (x :: xs, r')
end

/-- the reference decoder: the parse tree of the well-formed item at the start of `bs`, and the rest. -/
def parse (bs : Bytes) : Option (WItem × Bytes) := parseItem (2 * bs.length + 2) bs

/-! ### which trees the no-alloc build of `skip` supports (statement of C06) -/

mutual
/-- an indefinite-length array or map occurs somewhere in the tree. -/
def WItem.hasIndef : WItem → Bool
  | .arrayI _ => true
  | .mapI _ => true
  | .array _ xs => hasIndefs xs
  | .map _ xs => hasIndefs xs
  | .tag _ _ x => x.hasIndef
  | _ => false
def hasIndefs : List WItem → Bool
  | [] => false
  | x :: xs => x.hasIndef || hasIndefs xs
end

mutual
/-- an indefinite-length array or map occurs somewhere inside a definite-length array or map
    (at any depth, also through tags and further containers; indefinite strings do not count). -/
def WItem.indefInDef : WItem → Bool
  | .array _ xs => hasIndefs xs
  | .map _ xs => hasIndefs xs
  | .arrayI xs => indefInDefs xs
  | .mapI xs => indefInDefs xs
  | .tag _ _ x => x.indefInDef
  | _ => false
def indefInDefs : List WItem → Bool
  | [] => false
  | x :: xs => x.indefInDef || indefInDefs xs
end

end Minicbor
