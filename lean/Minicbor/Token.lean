/-
  Model of `minicbor::data::Token` (encode, decode, cbor_len, Display), of
  `decode::Tokenizer` (token(), the Iterator) and of the diagnostic `Display` of a Tokenizer
  (minicbor/src/data/token.rs, minicbor/src/decode/tokenizer.rs).
-/
import Minicbor.Encoder
import Minicbor.Decoder
import Minicbor.Types

namespace Minicbor

inductive Token where
  | bool (b : Bool)
  | u8 (n : Nat) | u16 (n : Nat) | u32 (n : Nat) | u64 (n : Nat)
  | i8 (v : Int) | i16 (v : Int) | i32 (v : Int) | i64 (v : Int)
  | int (v : Int)
  | f16 (bits32 : Nat)          -- the `f32` the token carries
  | f32 (bits : Nat)
  | f64 (bits : Nat)
  | bytes (b : Bytes)
  | string (b : Bytes)
  | array (n : Nat) | map (n : Nat) | tag (n : Nat) | simple (n : Nat)
  | brk | null | undefined
  | beginBytes | beginString | beginArray | beginMap
  deriving Repr, DecidableEq, Inhabited

namespace Token

/-- `impl Encode for Token` -/
def enc : Token → Bytes
  | bool b => Enc.bool b
  | u8 n => Enc.u8 n | u16 n => Enc.u16 n | u32 n => Enc.u32 n | u64 n => Enc.u64 n
  | i8 v => Enc.i8 v | i16 v => Enc.i16 v | i32 v => Enc.i32 v | i64 v => Enc.i64 v
  | int v => IntKind.enc .int v
  | f16 b => Enc.f16 b | f32 b => Enc.f32 b | f64 b => Enc.f64 b
  | bytes b => Enc.bytes b | string b => Enc.str b
  | array n => Enc.array n | map n => Enc.map n | tag n => Enc.tag n | simple n => Enc.simple n
  | brk => Enc.end | null => Enc.null | undefined => Enc.undefined
  | beginBytes => Enc.beginBytes | beginString => Enc.beginStr
  | beginArray => Enc.beginArray | beginMap => Enc.beginMap

/-- `impl CborLen for Token` (after the repair of commit 6736830). -/
def len : Token → Nat
  | bool _ => 1
  | u8 n => IntKind.lenU8 n | u16 n => IntKind.lenU16 n | u32 n => IntKind.lenU32 n | u64 n => IntKind.lenU64 n
  | i8 v => IntKind.len .i8 v | i16 v => IntKind.len .i16 v | i32 v => IntKind.len .i32 v | i64 v => IntKind.len .i64 v
  | int v => IntKind.len .int v
  | f16 _ => 3 | f32 _ => 5 | f64 _ => 9
  | bytes b => IntKind.lenU64 b.length + b.length
  | string b => IntKind.lenU64 b.length + b.length
  | array n => IntKind.lenU64 n | map n => IntKind.lenU64 n | tag n => IntKind.lenU64 n
  | simple n => if n < 0x14 then 1 else 2
  | brk | null | undefined | beginBytes | beginString | beginArray | beginMap => 1

/-- well-formed token payloads (what the Rust types can hold). -/
def ok : Token → Bool
  | u8 n => n < 256 | u16 n => n < 65536 | u32 n => n < 4294967296 | u64 n => n < 18446744073709551616
  | i8 v => IntKind.inRange .i8 v | i16 v => IntKind.inRange .i16 v | i32 v => IntKind.inRange .i32 v
  | i64 v => IntKind.inRange .i64 v | int v => IntKind.inRange .int v
  | f16 b => b < 4294967296 | f32 b => b < 4294967296 | f64 b => b < 18446744073709551616
  | string b => validUtf8 b
  | array n => n < 18446744073709551616 | map n => n < 18446744073709551616 | tag n => n < 18446744073709551616
  | simple n => n < 256
  | _ => true

end Token

def encodeTokens : List Token → Bytes
  | [] => []
  | t :: ts => t.enc ++ encodeTokens ts

namespace Dec

/-- `skip_byte` (only reached when a current byte exists). -/
def skipByte : Dec Unit := do let _ ← read; pure ()

/-- `impl Decode for Token` -/
def token : Dec Token := do
  let ty ← datatype
  match ty with
  | .bool => do let b ← Dec.bool; pure (.bool b)
  | .u8 => do let v ← intAcc .u8; pure (.u8 v.toNat)
  | .u16 => do let v ← intAcc .u16; pure (.u16 v.toNat)
  | .u32 => do let v ← intAcc .u32; pure (.u32 v.toNat)
  | .u64 => do let v ← intAcc .u64; pure (.u64 v.toNat)
  | .i8 => do let v ← intAcc .i8; pure (.i8 v)
  | .i16 => do let v ← intAcc .i16; pure (.i16 v)
  | .i32 => do let v ← intAcc .i32; pure (.i32 v)
  | .i64 => do let v ← intAcc .i64; pure (.i64 v)
  | .int => do let v ← intAcc .int; pure (.int v)
  | .f16 => do let b ← Dec.f16; pure (.f16 b)
  | .f32 => do let b ← Dec.f32; pure (.f32 b)
  | .f64 => do let b ← Dec.f64; pure (.f64 b)
  | .bytes => do let b ← Dec.bytes; pure (.bytes b)
  | .string => do let b ← Dec.str; pure (.string b)
  | .tag => do let n ← Dec.tag; pure (.tag n)
  | .simple => do let n ← Dec.simple; pure (.simple n)
  | .array => do
      match (← Dec.array) with
      | some n => pure (.array n)
      | none => fail .type
  | .map => do
      match (← Dec.map) with
      | some n => pure (.map n)
      | none => fail .type
  | .bytesIndef => do skipByte; pure .beginBytes
  | .stringIndef => do skipByte; pure .beginString
  | .arrayIndef => do skipByte; pure .beginArray
  | .mapIndef => do skipByte; pure .beginMap
  | .null => do skipByte; pure .null
  | .undefined => do skipByte; pure .undefined
  | .break => do skipByte; pure .brk
  | .unknown _ => fail .type

end Dec

/-- One item produced by the `Tokenizer` iterator. -/
inductive TokItem where
  | tok (t : Token)
  | err (e : Err)
  deriving Repr, DecidableEq

/-- The `Tokenizer` iterator, run to exhaustion: `token()` until end of input; a decoding
    error other than end-of-input is yielded once and drains the decoder (so it is last).
    `fuel` = remaining length + 1 (every token consumes at least one byte). -/
def tokenize : Nat → Bytes → Option (List TokItem)
  | 0, _ => none                      -- fuel exhausted (never happens, see tokenize_fuel)
  | fuel + 1, bs =>
    match Dec.token bs with
    | .ok t rest => (tokenize fuel rest).map (TokItem.tok t :: ·)
    | .err .eoi _ => some []
    | .err e _ => some [.err e]
    | .panic => none

def tokens (bs : Bytes) : Option (List TokItem) := tokenize (bs.length + 1) bs

/-! ### Display -/

/-- a piece of rendered output: literal UTF-8 bytes, or a float whose `{:e}` rendering is
    delegated to Rust's formatter (a parameter of the model). -/
inductive Piece where
  | lit (s : String)
  | raw (b : Bytes)               -- text-string payload, written verbatim
  | flt32 (bits : Nat)
  | flt64 (bits : Nat)
  | errmsg (e : Err)              -- `{e}` of a decode error: class only
  deriving Repr, DecidableEq

def hex2 (b : UInt8) : String :=
  String.ofList [hexDigit (b.toNat / 16), hexDigit (b.toNat % 16)]

/-- `impl Display for Token` -/
def Token.render : Token → List Piece
  | .bool b => [.lit (if b then "true" else "false")]
  | .u8 n | .u16 n | .u32 n | .u64 n => [.lit (toString n)]
  | .i8 v | .i16 v | .i32 v | .i64 v | .int v => [.lit (toString v)]
  | .f16 b => [.flt32 b] | .f32 b => [.flt32 b] | .f64 b => [.flt64 b]
  | .string b => [.lit "\"", .raw b, .lit "\""]
  | .array n => [.lit s!"A[{n}]"]
  | .map n => [.lit s!"M[{n}]"]
  | .tag n => [.lit s!"T({n})"]
  | .simple n => [.lit s!"simple({n})"]
  | .brk => [.lit "]"]
  | .null => [.lit "null"]
  | .undefined => [.lit "undefined"]
  | .beginBytes => [.lit "?B["] | .beginString => [.lit "?S["]
  | .beginArray => [.lit "?A["] | .beginMap => [.lit "?M["]
  | .bytes b => [.lit ("h'" ++ " ".intercalate (b.map hex2) ++ "'")]

/-- control stack element of the diagnostic printer. -/
inductive E where
  | N | T
  | A (n : Option Nat) | M (n : Option Nat)
  | B | D
  | S (s : String) | X (s : String)
  deriving Repr, DecidableEq

def isBreak : Option TokItem → Bool
  | some (.tok .brk) => true
  | _ => false

/-- the inner `while let Some(elt) = stack.pop()` loop; returns the output so far, the
    remaining iterator, and whether `fmt` returned early. -/
def displayInner : Nat → List E → List TokItem → List Piece → Option (List Piece × List TokItem × Bool)
  | 0, _, _, _ => none
  | _ + 1, [], it, out => some (out, it, false)
  | fuel + 1, e :: st, it, out =>
    match e with
    | .N =>
      match it with
      | .tok (.array n) :: it' => displayInner fuel (.A (some n) :: st) it' (out ++ [.lit "["])
      | .tok (.map n) :: it' => displayInner fuel (.M (some n) :: st) it' (out ++ [.lit "{"])
      | .tok .beginArray :: it' => displayInner fuel (.A none :: st) it' (out ++ [.lit "[_ "])
      | .tok .beginMap :: it' => displayInner fuel (.M none :: st) it' (out ++ [.lit "{_ "])
      | .tok .beginBytes :: it' =>
          if isBreak it'.head? then displayInner fuel st it'.tail (out ++ [.lit "''_"])
          else displayInner fuel (.B :: st) it' (out ++ [.lit "(_ "])
      | .tok .beginString :: it' =>
          if isBreak it'.head? then displayInner fuel st it'.tail (out ++ [.lit "\"\"_"])
          else displayInner fuel (.D :: st) it' (out ++ [.lit "(_ "])
      | .tok (.tag n) :: it' => displayInner fuel (.T :: st) it' (out ++ [.lit s!"{n}("])
      | .tok t :: it' => displayInner fuel st it' (out ++ t.render)
      | .err e :: _ => some (out ++ [.lit " !!! decoding error: ", .errmsg e], [], true)
      | [] => some (out ++ [.lit " !!! decoding error: ", .errmsg .eoi], [], true)   -- commit 7258571
    | .S s => displayInner fuel st it (out ++ [.lit s])
    | .X s =>
      match it with
      | .tok .brk :: _ | [] => displayInner fuel st it out
      | .tok _ :: _ => displayInner fuel st it (out ++ [.lit s])
      | .err e :: _ => some (out ++ [.lit " !!! decoding error: ", .errmsg e], [], true)
    | .T => displayInner fuel (.N :: .S ")" :: st) it out
    | .A (some 0) => displayInner fuel st it (out ++ [.lit "]"])
    | .A (some 1) => displayInner fuel (.N :: .A (some 0) :: st) it out
    | .A (some (n + 2)) => displayInner fuel (.N :: .S ", " :: .A (some (n + 1)) :: st) it out
    | .A none =>
      match it with
      | [] => some (out ++ [.lit " !!! indefinite array not closed"], [], true)
      | .tok .brk :: it' => displayInner fuel st it' (out ++ [.lit "]"])
      | _ => displayInner fuel (.N :: .X ", " :: .A none :: st) it out
    | .M (some 0) => displayInner fuel st it (out ++ [.lit "}"])
    | .M (some 1) => displayInner fuel (.N :: .S ": " :: .N :: .M (some 0) :: st) it out
    | .M (some (n + 2)) =>
        displayInner fuel (.N :: .S ": " :: .N :: .S ", " :: .M (some (n + 1)) :: st) it out
    | .M none =>
      match it with
      | [] => some (out ++ [.lit " !!! indefinite map not closed"], [], true)
      | .tok .brk :: it' => displayInner fuel st it' (out ++ [.lit "}"])
      | _ => displayInner fuel (.N :: .S ": " :: .N :: .X ", " :: .M none :: st) it out
    | .B =>
      match it with
      | [] => some (out ++ [.lit " !!! indefinite byte string not closed"], [], true)
      | .tok .brk :: it' => displayInner fuel st it' (out ++ [.lit ")"])
      | _ => displayInner fuel (.N :: .X ", " :: .B :: st) it out
    | .D =>
      match it with
      | [] => some (out ++ [.lit " !!! indefinite string not closed"], [], true)
      | .tok .brk :: it' => displayInner fuel st it' (out ++ [.lit ")"])
      | _ => displayInner fuel (.N :: .X ", " :: .D :: st) it out

/-- the outer `while iter.peek().is_some()` loop. -/
def displayOuter : Nat → Nat → List TokItem → List Piece → Option (List Piece)
  | 0, _, _, _ => none
  | _ + 1, _, [], out => some out
  | fuel + 1, inner, it, out =>
    match displayInner inner [.N] it out with
    | none => none
    | some (out', _, true) => some out'
    | some (out', it', false) => displayOuter fuel inner it' out'

/-- `minicbor::display(bytes).to_string()` as a list of pieces. -/
def display (bs : Bytes) : Option (List Piece) :=
  match tokens bs with
  | none => none
  | some items => displayOuter (items.length + 2) (8 * items.length + 16) items []

end Minicbor
