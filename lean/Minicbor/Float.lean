/-
  IEEE 754 binary16/32/64 on bit patterns (as `Nat`), modelling
  * `half::f16::to_f32` / `half::f16::from_f32` (the crate's portable algorithm),
  * Rust's `f64::from(f32)`,
  and the value semantics against which they are proved exact / correctly rounded.
  The `half` crate and the hardware conversion are *modelled* here; the correspondence
  check compares them exhaustively (2^16) and by blocks (2^32).
-/
import Minicbor.Prelude

namespace Minicbor

/-- `half::f16::from_bits(h).to_f32().to_bits()` -/
def f16ToF32 (h : Nat) : Nat :=
  let s := h / 32768
  let e := h / 1024 % 32
  let m := h % 1024
  if e == 0 && m == 0 then s * 2147483648
  else if e == 31 then
    if m == 0 then s * 2147483648 + 0x7F800000
    else s * 2147483648 + 0x7F800000 + (if m ≥ 512 then m * 8192 else m * 8192 + 0x400000)
  else if e == 0 then
    let l := Nat.log2 m
    s * 2147483648 + (103 + l) * 8388608 + (m * 2 ^ (23 - l) - 8388608)
  else s * 2147483648 + (e + 112) * 8388608 + m * 8192

/-- `half::f16::from_f32(f32::from_bits(x)).to_bits()`: round to nearest, ties to even. -/
def f32ToF16 (x : Nat) : Nat :=
  let s := x / 2147483648
  let e := x / 8388608 % 256
  let m := x % 8388608
  if e == 255 then
    if m == 0 then s * 32768 + 0x7C00
    else
      let q := m / 8192
      s * 32768 + 0x7C00 + (if q / 512 % 2 == 1 then q else q + 512)
  else if e ≥ 143 then s * 32768 + 0x7C00
  else if e ≤ 112 then
    if e < 102 then s * 32768
    else
      let sh := 126 - e
      let man := m + 8388608
      let hm := man / 2 ^ sh
      let rb := 2 ^ (sh - 1)
      if man / rb % 2 == 1 && (man % rb != 0 || man / (2 * rb) % 2 == 1) then s * 32768 + hm + 1
      else s * 32768 + hm
  else
    let base := s * 32768 + (e - 112) * 1024 + m / 8192
    if m / 4096 % 2 == 1 && (m % 4096 != 0 || m / 8192 % 2 == 1) then base + 1 else base

/-- `f64::from(f32::from_bits(x)).to_bits()` (signalling NaNs are quieted, as the hardware does). -/
def f32ToF64 (x : Nat) : Nat :=
  let s := x / 2147483648
  let e := x / 8388608 % 256
  let m := x % 8388608
  let sb := s * 9223372036854775808
  if e == 255 then
    if m == 0 then sb + 0x7FF0000000000000
    else sb + 0x7FF0000000000000 + (if m ≥ 4194304 then m * 536870912 else m * 536870912 + 2251799813685248)
  else if e == 0 then
    if m == 0 then sb
    else
      let l := Nat.log2 m
      sb + (l + 874) * 4503599627370496 + (m * 2 ^ (52 - l) - 4503599627370496)
  else sb + (e + 896) * 4503599627370496 + m * 536870912

/-- What a bit pattern denotes.  Finite magnitudes are in units of 2^-1074 (every finite
    binary16/32/64 value is an integer multiple of it), so values compare exactly in `Nat`. -/
inductive FVal where
  | finite (neg : Bool) (mag : Nat)
  | inf (neg : Bool)
  | nan
  deriving DecidableEq, Repr

def val16 (h : Nat) : FVal :=
  let s := h / 32768 % 2 == 1
  let e := h / 1024 % 32
  let m := h % 1024
  if e == 31 then (if m == 0 then .inf s else .nan)
  else if e == 0 then .finite s (m * 2 ^ 1050)
  else .finite s ((1024 + m) * 2 ^ (e + 1049))

def val32 (x : Nat) : FVal :=
  let s := x / 2147483648 % 2 == 1
  let e := x / 8388608 % 256
  let m := x % 8388608
  if e == 255 then (if m == 0 then .inf s else .nan)
  else if e == 0 then .finite s (m * 2 ^ 925)
  else .finite s ((8388608 + m) * 2 ^ (e + 924))

def val64 (x : Nat) : FVal :=
  let s := x / 9223372036854775808 % 2 == 1
  let e := x / 4503599627370496 % 2048
  let m := x % 4503599627370496
  if e == 2047 then (if m == 0 then .inf s else .nan)
  else if e == 0 then .finite s m
  else .finite s ((4503599627370496 + m) * 2 ^ (e - 1))

def isNan16 (h : Nat) : Bool := h / 1024 % 32 == 31 && h % 1024 != 0
def isNan32 (x : Nat) : Bool := x / 8388608 % 256 == 255 && x % 8388608 != 0
def isNan64 (x : Nat) : Bool := x / 4503599627370496 % 2048 == 2047 && x % 4503599627370496 != 0

end Minicbor
