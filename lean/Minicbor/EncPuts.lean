/-
  The `put` structure of the `Encoder` methods (minicbor/src/encode/encoder.rs): which
  `write_all` calls an encoding is handed to the sink in.  Every method writes a head either
  with one `put(&[..])` (heads of one or two bytes: `put(&[t | x])`, `put(&[t | 24, x])`) or with
  `put(&[initial])?.put(&be_bytes)` (the 3, 5 and 9 byte heads, and f16/f32/f64); `bytes` and
  `str` then `put` the payload (also when it is empty).  The C13 theorems hold for *every* chunk
  list; this one is what the driver uses to predict the state a failed encoding leaves behind.
-/
import Minicbor.Encoder

namespace Minicbor.Enc

/-- the `put` calls for a head whose bytes are `bs`. -/
def putsOfHead (bs : Bytes) : List Bytes :=
  if bs.length ≤ 2 then [bs] else [bs.take 1, bs.drop 1]

theorem putsOfHead_flatten (bs : Bytes) : (putsOfHead bs).flatten = bs := by
  unfold putsOfHead
  split
  · simp
  · simp only [List.flatten_cons, List.flatten_nil, List.append_nil]
    exact List.take_append_drop 1 bs

/-- the `put` calls of `Encoder::bytes` / `Encoder::str` (`t` = `BYTES` / `TEXT`). -/
def putsString (t : Nat) (b : Bytes) : List Bytes := putsOfHead (typeLen t b.length) ++ [b]

theorem putsString_flatten (t : Nat) (b : Bytes) : (putsString t b).flatten = typeLen t b.length ++ b := by
  simp [putsString, putsOfHead_flatten]

theorem putsBytes_flatten (b : Bytes) : (putsString BYTES b).flatten = Enc.bytes b := putsString_flatten _ _
theorem putsStr_flatten (b : Bytes) : (putsString TEXT b).flatten = Enc.str b := putsString_flatten _ _

end Minicbor.Enc
