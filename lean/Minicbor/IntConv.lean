/-
  Model of `minicbor::data::Int` (a sign flag and a `u64`) and of its conversions to and from
  the primitive integer types (minicbor/src/data.rs).
-/
import Minicbor.Prelude

namespace Minicbor

/-- `Int { neg, val }`: denotes `val` or `-1 - val`. -/
structure CInt where
  neg : Bool
  val : Nat
  deriving DecidableEq, Repr

namespace CInt

def denote (c : CInt) : Int := if c.neg then -1 - (c.val : Int) else c.val

def wf (c : CInt) : Prop := c.val < 18446744073709551616

/-- `From<i64>` (and, through it, `From<i8/i16/i32>`). -/
def ofI64 (i : Int) : CInt :=
  if i < 0 then ⟨true, (-1 - i).toNat⟩ else ⟨false, i.toNat⟩

/-- `From<u64>` (and `From<u8/u16/u32>`). -/
def ofU64 (n : Nat) : CInt := ⟨false, n⟩

/-- `TryFrom<u128>` -/
def ofU128 (n : Nat) : Option CInt := if n ≤ 18446744073709551615 then some (ofU64 n) else none

/-- `TryFrom<i128>` -/
def ofI128 (i : Int) : Option CInt :=
  if i < 0 then
    if i < -18446744073709551616 then none else some ⟨true, (-1 - i).toNat⟩
  else if i > 18446744073709551615 then none
  else some ⟨false, i.toNat⟩

/-- `TryFrom<Int> for u64` -/
def toU64 (c : CInt) : Option Nat := if c.neg then none else some c.val
/-- `TryFrom<Int> for u8/u16/u32`: through `u64`, then the narrowing `try_from`. -/
def toUnsigned (max : Nat) (c : CInt) : Option Nat :=
  match toU64 c with
  | some n => if n ≤ max then some n else none
  | none => none
/-- `TryFrom<Int> for u128` -/
def toU128 (c : CInt) : Option Nat := if c.neg then none else some c.val
/-- `TryFrom<Int> for i64` -/
def toI64 (c : CInt) : Option Int :=
  if c.val ≤ 9223372036854775807 then some (if c.neg then -1 - (c.val : Int) else c.val) else none
/-- `TryFrom<Int> for i8/i16/i32`: through `i64`, then the narrowing `try_from`. -/
def toSigned (lo hi : Int) (c : CInt) : Option Int :=
  match toI64 c with
  | some n => if lo ≤ n ∧ n ≤ hi then some n else none
  | none => none
/-- `From<Int> for i128` -/
def toI128 (c : CInt) : Int := if c.neg then -1 - (c.val : Int) else c.val

end CInt
end Minicbor
