/-
  Model of the `minicbor-serde` bridge (minicbor-serde/src/ser.rs, de.rs).

  * `SVal`  : a value of the serde data model *as the bridge's `Serializer` sees it*: the tree of
              `Serializer` calls a `Serialize` impl makes (29 shapes).  `_name` / `_index`
              arguments, which ser.rs ignores, are not part of it.  Declared lengths
              (`serialize_seq(Some n)`, tuple / struct lengths) equal the number of elements that
              follow (what serde's std impls and derive output do; the harness checks it).
  * `ser`   : ser.rs, method by method, on top of the `Enc.*` model of the `Encoder`.
  * `SType` : what a `Deserialize` impl asks of the `Deserializer` (std impls and derive output
              for every enum representation).
  * `de`    : de.rs, method by method, composed with a model of what serde's std / derive
              visitors do with the calls they receive.
  * `Content`, `deAny`, `fromC` : serde's private `Content` buffer as filled by the bridge's
              `deserialize_any`, and `ContentDeserializer` / `ContentRefDeserializer`
              (flatten, internally tagged, untagged, adjacently tagged with content first).

  MODELLED, NOT VERIFIED: serde and serde_derive (1.0.229).  Not modelled at all (the model
  answers `CRes.unmodelled`, printed `unmodelled` by the driver; the streams never go there):
  `Content`-buffered
  types nested inside another `Content` buffer, and structs with `skip_serializing_if` fields
  (`structS`) behind a `Content` buffer or as variants of a non-externally-tagged enum.

  `skipItem` is `Dec.skip true`, the model of `Decoder::skip` from Skip.lean (used for `null`
  and for `IgnoredAny`, i.e. unknown struct fields).
-/
import Minicbor.Prelude
import Minicbor.Utf8
import Minicbor.Float
import Minicbor.Narrow
import Minicbor.Encoder
import Minicbor.Decoder
import Minicbor.Skip

namespace Minicbor.Serde
open Minicbor.Dec (current read datatype intAcc unsigned typeMismatch remaining fail bytesIter strIter infoOf IntTy)

/-! ## values -/

inductive IntKind where
  | u8 | u16 | u32 | u64 | i8 | i16 | i32 | i64
  deriving DecidableEq, Repr, Inhabited

namespace IntKind
def ty : IntKind → IntTy
  | u8 => .u8 | u16 => .u16 | u32 => .u32 | u64 => .u64
  | i8 => .i8 | i16 => .i16 | i32 => .i32 | i64 => .i64
def lo (k : IntKind) : Int := k.ty.lo
def hi (k : IntKind) : Int := k.ty.hi
def name : IntKind → String
  | u8 => "u8" | u16 => "u16" | u32 => "u32" | u64 => "u64"
  | i8 => "i8" | i16 => "i16" | i32 => "i32" | i64 => "i64"
def all : List IntKind := [u8, u16, u32, u64, i8, i16, i32, i64]
end IntKind

/-- `serialize_u8 … serialize_i64`: the `Encoder` method of the same name. -/
def encInt : IntKind → Int → Bytes
  | .u8,  v => Enc.u8 v.toNat
  | .u16, v => Enc.u16 v.toNat
  | .u32, v => Enc.u32 v.toNat
  | .u64, v => Enc.u64 v.toNat
  | .i8,  v => Enc.i8 v
  | .i16, v => Enc.i16 v
  | .i32, v => Enc.i32 v
  | .i64, v => Enc.i64 v

/-- The serde data model as seen by a `Serializer`.  Maps, structs and struct variants carry
    their entries flattened (`k₁, v₁, k₂, v₂, …`); the keys of a struct are `str` values (the
    `&'static str` field names, which ser.rs serialises with `serialize_str`). -/
inductive SVal where
  | bool (b : Bool)
  | int (k : IntKind) (v : Int)
  | f32 (bits : Nat)
  | f64 (bits : Nat)
  | char (c : Nat)
  | str (s : Bytes)
  | bytes (b : Bytes)
  | none
  | some (v : SVal)
  | unit
  | unitStruct
  | unitVariant (var : Bytes)
  | newtypeStruct (v : SVal)
  | newtypeVariant (var : Bytes) (v : SVal)
  | seq (known : Bool) (xs : List SVal)
  | tuple (xs : List SVal)
  | tupleStruct (xs : List SVal)
  | tupleVariant (var : Bytes) (xs : List SVal)
  | map (known : Bool) (kvs : List SVal)
  | struct (kvs : List SVal)
  | structVariant (var : Bytes) (kvs : List SVal)
  deriving Repr, Inhabited

/-! ## ser.rs -/

mutual
/-- `impl Serializer for &mut Serializer<W>` and the seven `SeqSerializer` impls. -/
def ser : SVal → Bytes
  | .bool b => Enc.bool b                                   -- serialize_bool
  | .int k v => encInt k v                                  -- serialize_i8 … serialize_u64
  | .f32 b => Enc.f32 b                                     -- serialize_f32
  | .f64 b => Enc.f64 b                                     -- serialize_f64
  | .char c => Enc.char c                                   -- serialize_char
  | .str s => Enc.str s                                     -- serialize_str
  | .bytes b => Enc.bytes b                                 -- serialize_bytes
  | .none => Enc.null                                       -- serialize_none
  | .some v => ser v                                        -- serialize_some
  | .unit => Enc.array 0                                    -- serialize_unit: encode(()) = array(0)
  | .unitStruct => Enc.array 0                              -- serialize_unit_struct
  | .unitVariant var => Enc.str var                         -- serialize_unit_variant: variant.serialize
  | .newtypeStruct v => ser v                               -- serialize_newtype_struct
  | .newtypeVariant var v => Enc.map 1 ++ (Enc.str var ++ ser v)
  | .seq known xs =>                                        -- serialize_seq + elements + end
      if known then Enc.array xs.length ++ sers xs
      else Enc.beginArray ++ (sers xs ++ Enc.end)
  | .tuple xs => Enc.array xs.length ++ sers xs             -- serialize_tuple
  | .tupleStruct xs => Enc.array xs.length ++ sers xs       -- serialize_tuple_struct
  | .tupleVariant var xs => Enc.map 1 ++ (Enc.str var ++ (Enc.array xs.length ++ sers xs))
  | .map known kvs =>                                       -- serialize_map + keys/values + end
      if known then Enc.map (kvs.length / 2) ++ sers kvs
      else Enc.beginMap ++ (sers kvs ++ Enc.end)
  | .struct kvs => Enc.map (kvs.length / 2) ++ sers kvs     -- serialize_struct + serialize_field*
  | .structVariant var kvs => Enc.map 1 ++ (Enc.str var ++ (Enc.map (kvs.length / 2) ++ sers kvs))
def sers : List SVal → Bytes
  | [] => []
  | x :: xs => ser x ++ sers xs
end

/-! ## loops -/

/-- `n` times `m`, collecting the results. -/
def repeatN (m : Dec α) : Nat → Dec (List α)
  | 0 => pure []
  | n + 1 => do
    let x ← m
    let xs ← repeatN m n
    pure (x :: xs)

/-- `m` until the break byte, which is consumed.  `fuel` bounds the iterations (callers pass
    `remaining.length + 1`; exhausting it is `panic`). -/
def untilBreak (m : Dec α) : Nat → Dec (List α)
  | 0 => Dec.panic
  | fuel + 1 => do
    let b ← current
    if b == 0xff then do
      let _ ← read
      pure []
    else do
      let x ← m
      let xs ← untilBreak m fuel
      pure (x :: xs)

/-- `Decoder::skip` (the `alloc` build, which `std` implies): the faithful state machine of
    Skip.lean. -/
def skipItem : Dec Unit := Dec.skip true

/-! ## de.rs: the access objects -/

/-- `SeqAccess for Seq` driven by a visitor that asks for elements until `None`
    (`Vec`, `Content`): `Some(n)` counts down, `None` stops at (and consumes) the break. -/
def seqAccess (m : Dec α) (len : Option Nat) : Dec (List α) :=
  match len with
  | some n => repeatN m n
  | none => fun bs => untilBreak m (bs.length + 1) bs

/-- one map entry as a two-element list. -/
def pairM (k v : Dec α) : Dec (List α) := do
  let a ← k
  let b ← v
  pure [a, b]

/-- `MapAccess for Seq` driven by `next_entry` until `None`; entries flattened. -/
def mapAccess (k v : Dec α) (len : Option Nat) : Dec (List α) := do
  let es ← seqAccess (pairM k v) len
  pure es.flatten

/-- a loop over the entries of a map with a state (struct visitors): definite maps run the
    step `n` times, indefinite ones until the break. -/
def loopN (step : σ → Dec σ) : Nat → σ → Dec σ
  | 0, s => pure s
  | n + 1, s => do
    let s ← step s
    loopN step n s

def loopI (step : σ → Dec σ) : Nat → σ → Dec σ
  | 0, _ => Dec.panic
  | fuel + 1, s => do
    let b ← current
    if b == 0xff then do
      let _ ← read
      pure s
    else do
      let s ← step s
      loopI step fuel s

def mapLoop (step : σ → Dec σ) (len : Option Nat) (s : σ) : Dec σ :=
  match len with
  | some n => loopN step n s
  | none => fun bs => loopI step (bs.length + 1) s bs

/-- `deserialize_unit`: `decoder.decode::<()>()`, i.e. `Some(0) == array()?`. -/
def deUnit : Dec Unit := do
  let n ← Dec.array
  if n == some 0 then pure () else fail .message

/-- `deserialize_tuple(len, …)` up to the visitor: the header must be a definite array of
    exactly `len` elements. -/
def tupleHeader (len : Nat) : Dec Unit := do
  let n ← Dec.array
  if n == some len then pure () else fail .message

/-- `deserialize_enum` up to `visit_enum`: a definite map must have length 1. -/
def enumHeader : Dec Unit := do
  let t ← datatype
  if t == .map then do
    let m ← Dec.map
    if m == some 1 then pure () else fail .message
  else pure ()

/-! ## serde's `Content` buffer -/

/-- `serde::__private::de::Content`, restricted to the constructors the bridge's
    `deserialize_any` can produce (`Str`/`String` and `Bytes`/`ByteBuf` identified; `Unit`,
    `Some`, `Newtype` and `Char` never arise).  Maps are flattened. -/
inductive Content where
  | bool (b : Bool)
  | int (k : IntKind) (v : Int)
  | f32 (bits : Nat)
  | f64 (bits : Nat)
  | str (s : Bytes)
  | bytes (b : Bytes)
  | none
  | seq (xs : List Content)
  | map (kvs : List Content)
  deriving Repr, Inhabited

/-- `deserialize_any` with `ContentVisitor` (`Content::deserialize`).  `fuel` bounds the nesting
    depth; `deAny` passes the remaining length + 1. -/
def deAnyF : Nat → Dec Content
  | 0 => Dec.panic
  | fuel + 1 => do
    let t ← datatype
    match t with
    | .bool => do let b ← Dec.bool; pure (.bool b)
    | .u8  => do let v ← intAcc .u8;  pure (.int .u8 v)
    | .u16 => do let v ← intAcc .u16; pure (.int .u16 v)
    | .u32 => do let v ← intAcc .u32; pure (.int .u32 v)
    | .u64 => do let v ← intAcc .u64; pure (.int .u64 v)
    | .i8  => do let v ← intAcc .i8;  pure (.int .i8 v)
    | .i16 => do let v ← intAcc .i16; pure (.int .i16 v)
    | .i32 => do let v ← intAcc .i32; pure (.int .i32 v)
    | .i64 => do let v ← intAcc .i64; pure (.int .i64 v)
    | .f32 => do let b ← Dec.f32; pure (.f32 b)
    | .f64 => do let b ← Dec.f64; pure (.f64 b)
    | .f16 => do let b ← Dec.f16; pure (.f32 b)
    | .bytes => do let b ← Dec.bytes; pure (.bytes b)
    | .string => do let s ← Dec.str; pure (.str s)
    | .null => do skipItem; pure .none
    | .array | .arrayIndef => do
      let len ← Dec.array
      let xs ← seqAccess (deAnyF fuel) len
      pure (.seq xs)
    | .map | .mapIndef => do
      let len ← Dec.map
      let kvs ← mapAccess (deAnyF fuel) (deAnyF fuel) len
      pure (.map kvs)
    | .bytesIndef => do let cs ← bytesIter; pure (.bytes cs.flatten)
    | .stringIndef => do let cs ← strIter; pure (.str cs.flatten)
    | _ => fail .type          -- Undefined | Tag | Int | Simple | Break | Unknown

def deAny : Dec Content := fun bs => deAnyF (bs.length + 1) bs

/-- `deserialize_any` with a visitor that has none of the `visit_*` methods the input calls for:
    a scalar or string is consumed and then rejected (serde's default `invalid_type`), of an
    array or map only the header is consumed (`visit_seq` / `visit_map` fail without touching
    the access object). -/
def anyReject : Dec α := do
  let t ← datatype
  match t with
  | .array | .arrayIndef => do let _ ← Dec.array; fail .message
  | .map | .mapIndef => do let _ ← Dec.map; fail .message
  | _ => do let _ ← deAny; fail .message

/-- result of deserialising from a `Content`: every failure there is a serde `custom` error
    (class `message`), so only success / failure matters; `unmodelled` see the header. -/
inductive CRes (α : Type) where
  | ok (a : α)
  | fail
  | unmodelled
  deriving Repr

namespace CRes
@[inline] def bnd (m : CRes α) (f : α → CRes β) : CRes β :=
  match m with
  | .ok a => f a
  | .fail => .fail
  | .unmodelled => .unmodelled
instance : Monad CRes where
  pure := CRes.ok
  bind := CRes.bnd
end CRes

/-! ## types -/

/-- `#[serde(default, skip_serializing_if = "…")]` on a struct field: the field is left out of
    the serialised map when the predicate holds (serde_derive already excludes it from the `len`
    it passes to `serialize_struct`) and takes its `Default` when it is missing on input. -/
inductive SkipIf where
  | never                                 -- no attribute
  | isNone                                -- `Option::is_none` on an `Option<_>` field
  | isEmpty                               -- `Vec::is_empty` on a `Vec<_>` field
  deriving DecidableEq, Repr, Inhabited

/-- the predicate, on the value as the Serializer would see it -/
def SkipIf.holds : SkipIf → SVal → Bool
  | .isNone, .none => true
  | .isEmpty, .seq _ [] => true
  | _, _ => false

/-- `Default::default()` of the field's type, for a missing field -/
def SkipIf.dflt : SkipIf → Option SVal
  | .never => none
  | .isNone => some .none
  | .isEmpty => some (.seq true [])

mutual
/-- What a `Deserialize` impl asks for. -/
inductive SType where
  | bool
  | int (k : IntKind)
  | f32 | f64
  | char
  | str                                   -- String
  | bytes                                 -- a byte-buffer newtype (`deserialize_byte_buf` / `deserialize_bytes`)
  | unit
  | unitStruct
  | option (t : SType)
  | newtype (t : SType)
  | seq (known : Bool) (t : SType)        -- Vec<T> (serialises with a known length) or an unknown-length sequence
  | tuple (ts : List SType)               -- tuples and fixed arrays
  | tupleStruct (ts : List SType)
  | map (known : Bool) (k v : SType)      -- BTreeMap<K, V>
  | struct (names : List Bytes) (ts : List SType)
  /-- a struct some of whose fields carry `#[serde(default, skip_serializing_if = …)]` -/
  | structS (names : List Bytes) (ts : List SType) (skips : List SkipIf)
  | enum (names : List Bytes) (vs : List VShape)            -- externally tagged (the default)
  /-- struct with one `#[serde(flatten)]` member of struct type between `pre` and `post` -/
  | flat (preN : List Bytes) (preT : List SType) (inN : List Bytes) (inT : List SType)
         (postN : List Bytes) (postT : List SType)
  | itag (tag : Bytes) (names : List Bytes) (vs : List VShape)           -- #[serde(tag = "…")]
  | atag (tag content : Bytes) (names : List Bytes) (vs : List VShape)   -- #[serde(tag = "…", content = "…")]
  | untagged (vs : List VShape)                                          -- #[serde(untagged)]
/-- the shape of an enum variant -/
inductive VShape where
  | unit
  | newtype (t : SType)
  | tuple (ts : List SType)
  | struct (names : List Bytes) (ts : List SType)
  | structS (names : List Bytes) (ts : List SType) (skips : List SkipIf)
end

instance : Inhabited SType := ⟨.unit⟩
instance : Inhabited VShape := ⟨.unit⟩

def SType.isOption : SType → Bool
  | .option _ => true
  | _ => false

/-! ## ordered maps -/

/-- `Ord` of the key types used for maps (integers, strings, chars, bools). -/
def lexLt : Bytes → Bytes → Bool
  | [], [] => false
  | [], _ :: _ => true
  | _ :: _, [] => false
  | a :: as, b :: bs => a < b || (a == b && lexLt as bs)

def keyLt : SVal → SVal → Bool
  | .int _ a, .int _ b => a < b
  | .str a, .str b => lexLt a b
  | .char a, .char b => a < b
  | .bool a, .bool b => !a && b
  | _, _ => false

def keyEq : SVal → SVal → Bool
  | .int _ a, .int _ b => a == b
  | .str a, .str b => a == b
  | .char a, .char b => a == b
  | .bool a, .bool b => a == b
  | _, _ => false

/-- `BTreeMap::insert` on the sorted, flattened entry list (a later value replaces an earlier one). -/
def mapInsert (k v : SVal) : List SVal → List SVal
  | k' :: v' :: rest =>
    if keyEq k k' then k :: v :: rest
    else if keyLt k k' then k :: v :: k' :: v' :: rest
    else k' :: v' :: mapInsert k v rest
  | _ => [k, v]

/-- collect decoded entries (in wire order) into a `BTreeMap`. -/
def mkMap : List SVal → List SVal → List SVal
  | acc, k :: v :: rest => mkMap (mapInsert k v acc) rest
  | acc, _ => acc

/-! ## struct visitors (derive output) -/

/-- a field: its name, whether its type is `Option<_>` (a missing field is then `None`,
    `serde::__private::de::missing_field`), how to read its value from the wire and from a
    `Content`. -/
structure FieldDec where
  name : Bytes
  opt : Bool
  dec : Dec SVal
  fromC : Content → CRes SVal

def findField (fs : List FieldDec) (key : Bytes) : Option FieldDec :=
  fs.find? (fun f => f.name == key)

/-- the fields found so far, by name -/
abbrev Found := List (Bytes × SVal)

def Found.has (fd : Found) (key : Bytes) : Bool := fd.any (fun p => p.1 == key)
def Found.get? (fd : Found) (key : Bytes) : Option SVal := (fd.find? (fun p => p.1 == key)).map (·.2)

/-- one iteration of the derived `visit_map` loop: `next_key::<__Field>()` (identifier =
    `deserialize_str`), then the field's value, a duplicate error, or `IgnoredAny` = skip. -/
def structStep (fs : List FieldDec) (fd : Found) : Dec Found := do
  let key ← Dec.str
  match findField fs key with
  | none => do skipItem; pure fd
  | some f =>
    if fd.has key then fail .message
    else do
      let v ← f.dec
      pure (fd ++ [(key, v)])

/-- after the loop: every field present, or `None` for a missing `Option` field. -/
def finishFields : List FieldDec → Found → Option (List SVal)
  | [], _ => some []
  | f :: fs, fd =>
    match (match fd.get? f.name with
           | some v => some v
           | none => if f.opt then some SVal.none else none) with
    | none => none
    | some v =>
      match finishFields fs fd with
      | none => none
      | some rest => some (SVal.str f.name :: v :: rest)

/-- `deserialize_map` + the derived struct visitor's `visit_map`. -/
def deStructBody (fs : List FieldDec) : Dec (List SVal) := do
  let len ← Dec.map
  let fd ← mapLoop (structStep fs) len []
  match finishFields fs fd with
  | some kvs => pure kvs
  | none => fail .message

/-- after the loop, with `skip_serializing_if` fields: a missing field takes its default (or `None`
    for an `Option`); the result is the trace of the rebuilt value, which again leaves out every
    field whose predicate holds. -/
def finishSkip : List FieldDec → List SkipIf → Found → Option (List SVal)
  | [], _, _ => some []
  | f :: fs, sk, fd =>
    let k := sk.headD .never
    match (match fd.get? f.name with
           | some v => some v
           | none => if f.opt then some SVal.none else k.dflt) with
    | none => none
    | some v =>
      match finishSkip fs sk.tail fd with
      | none => none
      | some rest => some (if k.holds v then rest else SVal.str f.name :: v :: rest)

def deStructSBody (fs : List FieldDec) (sk : List SkipIf) : Dec (List SVal) := do
  let len ← Dec.map
  let fd ← mapLoop (structStep fs) len []
  match finishSkip fs sk fd with
  | some kvs => pure kvs
  | none => fail .message

/-! ## deserialising from a `Content` (`ContentDeserializer` = owned, `ContentRefDeserializer`) -/

/-- positional: exactly one content per reader (`visit_seq` of tuple / struct visitors followed
    by `SeqDeserializer::end`). -/
def cAll : List (Content → CRes SVal) → List Content → CRes (List SVal)
  | [], [] => pure []
  | f :: fs, c :: cs => do
    let v ← f c
    let vs ← cAll fs cs
    pure (v :: vs)
  | _, _ => .fail

def cEach (f : Content → CRes SVal) : List Content → CRes (List SVal)
  | [] => pure []
  | c :: cs => do
    let v ← f c
    let vs ← cEach f cs
    pure (v :: vs)

def cPairs (k v : Content → CRes SVal) : List Content → CRes (List SVal)
  | a :: b :: rest => do
    let x ← k a
    let y ← v b
    let zs ← cPairs k v rest
    pure (x :: y :: zs)
  | _ => pure []

/-- `deserialize_identifier` on a `Content` for a field: by name (`Str`, `Bytes`) or by index
    (`U8`, `U64` only); `none` = some other content (an error); `some none` = ignored. -/
def cFieldId (fs : List FieldDec) : Content → Option (Option FieldDec)
  | .str s => some (findField fs s)
  | .bytes b => some (findField fs b)
  | .int .u8 v => some (fs[v.toNat]?)
  | .int .u64 v => some (fs[v.toNat]?)
  | _ => none

/-- the derived struct `visit_map` over a `MapDeserializer`. -/
def cStructLoop (fs : List FieldDec) : List Content → Found → CRes Found
  | k :: v :: rest, fd =>
    match cFieldId fs k with
    | none => .fail
    | some none => cStructLoop fs rest fd
    | some (some f) =>
      if fd.has f.name then .fail
      else do
        let x ← f.fromC v
        cStructLoop fs rest (fd ++ [(f.name, x)])
  | _, fd => pure fd

def cStructMap (fs : List FieldDec) (kvs : List Content) : CRes (List SVal) := do
  let fd ← cStructLoop fs kvs []
  match finishFields fs fd with
  | some r => pure r
  | none => .fail

/-- a struct from a `Content`: a map (by key) or, when the visitor has `visit_seq`, a sequence
    (positional, exact length). -/
def cStruct (fs : List FieldDec) (seqOk : Bool) : Content → CRes (List SVal)
  | .map kvs => cStructMap fs kvs
  | .seq xs =>
    if seqOk then do
      let vs ← cAll (fs.map (·.fromC)) xs
      pure ((fs.zip vs).flatMap (fun p => [SVal.str p.1.name, p.2]))
    else .fail
  | _ => .fail

/-- a variant: its name and how to read it given the optional content next to the name. -/
structure VarDec where
  name : Bytes
  dec : Dec SVal                                  -- from the wire, after the identifier (externally tagged)
  fromC : Option Content → CRes SVal              -- `VariantDeserializer` / `VariantRefDeserializer`

def findVar (vs : List VarDec) (key : Bytes) : Option VarDec :=
  vs.find? (fun v => v.name == key)

/-- variant identifier from a `Content`: name, or index for `U8` / `U64`; unknown = error. -/
def cVarId (vs : List VarDec) : Content → Option VarDec
  | .str s => findVar vs s
  | .bytes b => findVar vs b
  | .int .u8 v => vs[v.toNat]?
  | .int .u64 v => vs[v.toNat]?
  | _ => none

/-- `deserialize_enum` on a `Content`: a string, or a map with exactly one entry. -/
def cEnum (vs : List VarDec) : Content → CRes SVal
  | .str s => match findVar vs s with
    | some v => v.fromC none
    | none => .fail
  | .map [k, c] => match cVarId vs k with
    | some v => v.fromC (some c)
    | none => .fail
  | _ => .fail

/-- a single UTF-8 encoded scalar value (the `char` visitor's `visit_str`). -/
def singleChar : Bytes → Option Nat
  | [a] => if a < 0x80 then some a.toNat else none
  | [a, b] => if 0xC0 ≤ a then some ((a.toNat - 0xC0) * 64 + (b.toNat - 0x80)) else none
  | [a, b, c] => if 0xE0 ≤ a then some ((a.toNat - 0xE0) * 4096 + (b.toNat - 0x80) * 64 + (c.toNat - 0x80)) else none
  | [a, b, c, d] =>
    if 0xF0 ≤ a then some ((a.toNat - 0xF0) * 262144 + (b.toNat - 0x80) * 4096 + (c.toNat - 0x80) * 64 + (d.toNat - 0x80))
    else none
  | _ => none

/-- `f32 as f64` through serde's `num_as_copysign_self` (`(v as f64).copysign(sign of v)`): the
    plain widening, which keeps the sign and the payload of a NaN and quiets a signalling one. -/
def f32AsF64 (b : Nat) : Nat := f32ToF64 b

/-- Rust's `n as f32` / `n as f64` for an unsigned integer: round to nearest, ties to even
    (`mbits` mantissa bits, exponent bias `ebias`); the result is the bit pattern. -/
def natToFloat (mbits ebias : Nat) (n : Nat) : Nat :=
  if n == 0 then 0
  else
    let l := Nat.log2 n
    if l ≤ mbits then (l + ebias) * 2 ^ mbits + (n * 2 ^ (mbits - l) - 2 ^ mbits)
    else
      let sh := l - mbits
      let q := n / 2 ^ sh
      let r := n % 2 ^ sh
      let half := 2 ^ (sh - 1)
      let q' := if r > half || (r == half && q % 2 == 1) then q + 1 else q
      (l + ebias) * 2 ^ mbits + (q' - 2 ^ mbits)

def intToF64 (v : Int) : Nat :=
  if v ≥ 0 then natToFloat 52 1023 v.toNat else 9223372036854775808 + natToFloat 52 1023 (-v).toNat
def intToF32 (v : Int) : Nat :=
  if v ≥ 0 then natToFloat 23 127 v.toNat else 2147483648 + natToFloat 23 127 (-v).toNat

mutual
/-- `T::deserialize(ContentDeserializer::new(c))` (`own = true`) or
    `ContentRefDeserializer` (`own = false`, used by untagged enums). -/
def fromC : SType → Bool → Content → CRes SVal
  | .bool, _, c => match c with
    | .bool b => pure (.bool b)
    | _ => .fail
  | .int k, _, c => match c with                -- serde's integer visitors: checked conversion
    | .int _ v => if k.lo ≤ v && v ≤ k.hi then pure (.int k v) else .fail
    | _ => .fail
  | .f32, _, c => match c with
    | .f32 b => pure (.f32 b)
    | .f64 b => pure (.f32 (f64ToF32 b))        -- serde's `f32` visitor: `v as f32` (round to nearest even; Narrow.lean)
    | .int _ v => pure (.f32 (intToF32 v))      -- the float visitors accept integers (`v as f32`)
    | _ => .fail
  | .f64, _, c => match c with
    | .f64 b => pure (.f64 b)
    | .f32 b => pure (.f64 (f32AsF64 b))
    | .int _ v => pure (.f64 (intToF64 v))
    | _ => .fail
  | .char, _, c => match c with                 -- an integer is *not* accepted (known finding K6)
    | .str s => match singleChar s with
      | some n => pure (.char n)
      | none => .fail
    | _ => .fail
  | .str, _, c => match c with
    | .str s => pure (.str s)
    | .bytes b => if validUtf8 b then pure (.str b) else .fail
    | _ => .fail
  | .bytes, _, c => match c with
    | .bytes b => pure (.bytes b)
    | _ => .fail
  | .unit, own, c => match c with               -- the empty array is *not* accepted (known finding K7)
    | .map [] => if own then pure .unit else .fail
    | _ => .fail
  | .unitStruct, own, c => match c with
    | .map [] => if own then pure .unitStruct else .fail
    | .seq [] => if own then pure .unitStruct else .fail
    | _ => .fail
  | .option t, own, c => match c with
    | .none => pure .none
    | c => do let v ← fromC t own c; pure (.some v)
  | .newtype t, own, c => do let v ← fromC t own c; pure (.newtypeStruct v)
  | .seq known t, own, c => match c with
    | .seq xs => do let vs ← cEach (fromC t own) xs; pure (.seq known vs)
    | _ => .fail
  | .tuple ts, own, c => match c with
    | .seq xs => do let vs ← cAll (fromCs ts own) xs; pure (.tuple vs)
    | _ => .fail
  | .tupleStruct ts, own, c => match c with
    | .seq xs => do let vs ← cAll (fromCs ts own) xs; pure (.tupleStruct vs)
    | _ => .fail
  | .map known k v, own, c => match c with
    | .map kvs => do let es ← cPairs (fromC k own) (fromC v own) kvs; pure (.map known (mkMap [] es))
    | _ => .fail
  | .struct names ts, own, c => do
    let kvs ← cStruct (fieldCs names ts own) true c
    pure (.struct kvs)
  | .structS .., _, _ => .unmodelled
  | .enum names vs, own, c => cEnum (varCs names vs own) c
  | .flat .., _, _ => .unmodelled
  | .itag .., _, _ => .unmodelled
  | .atag .., _, _ => .unmodelled
  | .untagged _, _, _ => .unmodelled
def fromCs : List SType → Bool → List (Content → CRes SVal)
  | [], _ => []
  | t :: ts, own => fromC t own :: fromCs ts own
/-- field readers for the `Content` side (`dec` is not used there). -/
def fieldCs : List Bytes → List SType → Bool → List FieldDec
  | n :: ns, t :: ts, own => ⟨n, t.isOption, fail .custom, fromC t own⟩ :: fieldCs ns ts own
  | _, _, _ => []
def varCs : List Bytes → List VShape → Bool → List VarDec
  | n :: ns, s :: ss, own => ⟨n, fail .custom, varC n s own⟩ :: varCs ns ss own
  | _, _, _ => []
/-- `VariantDeserializer::{unit_variant, newtype_variant_seed, tuple_variant, struct_variant}`. -/
def varC : Bytes → VShape → Bool → Option Content → CRes SVal
  | n, .unit, own, c => match c with
    | none => pure (.unitVariant n)
    | some (.map []) => if own then pure (.unitVariant n) else .fail     -- `()` from the content
    | some _ => .fail
  | n, .newtype t, own, c => match c with
    | some c => do let v ← fromC t own c; pure (.newtypeVariant n v)
    | none => .fail
  | n, .tuple ts, own, c => match c with
    | some (.seq xs) => do let vs ← cAll (fromCs ts own) xs; pure (.tupleVariant n vs)
    | _ => .fail
  | n, .struct names ts, own, c => match c with
    | some c => do let kvs ← cStruct (fieldCs names ts own) true c; pure (.structVariant n kvs)
    | none => .fail
  | _, .structS .., _, _ => .unmodelled
end

/-! ## de.rs composed with the std / derive visitors -/

/-- run a `Content` reader after buffering: a failure is a serde `custom` error raised once the
    item has been consumed. -/
def liftC (r : CRes α) : Dec α :=
  match r with
  | .ok a => pure a
  | .fail => fail .message
  | .unmodelled => fail .custom

/-- the variant identifier: `deserialize_identifier` = `deserialize_str`, then the derived
    `__FieldVisitor::visit_str` (unknown variant = error). -/
def variantId (vs : List VarDec) : Dec VarDec := do
  let s ← Dec.str
  match findVar vs s with
  | some v => pure v
  | none => fail .message

/-- externally tagged enum: `deserialize_enum` + `visit_enum`. -/
def deEnumBody (vs : List VarDec) : Dec SVal := do
  enumHeader
  let v ← variantId vs
  v.dec

/-- the struct visitors reached through `deserialize_any` (untagged / adjacently tagged struct
    variants): a map is visited, anything else is consumed and rejected. -/
def deStructAny (fs : List FieldDec) : Dec (List SVal) := do
  let t ← datatype
  if t == .map || t == .mapIndef then deStructBody fs
  else anyReject

/-- `#[serde(flatten)]`: the derived `visit_map` with the `__other(Content)` fallback, then the
    flattened member from the collected entries (`FlatMapDeserializer::deserialize_struct`). -/
def flatStep (direct : List FieldDec) (st : Found × List Content) : Dec (Found × List Content) := do
  let key ← Dec.str
  match findField direct key with
  | none => do
    let c ← deAny
    pure (st.1, st.2 ++ [Content.str key, c])
  | some f =>
    if st.1.has key then fail .message
    else do
      let v ← f.dec
      pure (st.1 ++ [(key, v)], st.2)

/-- `FlatStructAccess`: only the collected entries whose key is one of the member's fields. -/
def flatTake (inner : List FieldDec) : List Content → List Content
  | Content.str k :: v :: rest =>
    if (findField inner k).isSome then Content.str k :: v :: flatTake inner rest else flatTake inner rest
  | _ :: _ :: rest => flatTake inner rest
  | _ => []

def deFlatBody (pre inner post : List FieldDec) : Dec SVal := do
  let len ← Dec.map
  let st ← mapLoop (flatStep (pre ++ post)) len ([], [])
  match finishFields pre st.1, finishFields post st.1 with
  | some a, some c =>
    let b ← liftC (cStructMap inner (flatTake inner st.2))
    pure (.map false (a ++ b ++ c))
  | _, _ => fail .message

/-- internally tagged: `TaggedContentVisitor::visit_map`. -/
def itagStep (tag : Bytes) (vs : List VarDec) (st : Option VarDec × List Content) :
    Dec (Option VarDec × List Content) := do
  let k ← deAny                                          -- TagOrContentVisitor via deserialize_any
  let isTag := match k with                              -- `visit_str` / `visit_bytes` compare with the tag name
    | .str s => s == tag
    | .bytes b => b == tag
    | _ => false
  if isTag then
    if st.1.isSome then fail .message
    else do
      let v ← variantId vs
      pure (some v, st.2)
  else do
    let c ← deAny
    pure (st.1, st.2 ++ [k, c])

def deItagBody (tag : Bytes) (vs : List VarDec) : Dec SVal := do
  let t ← datatype
  if t == .map || t == .mapIndef then do
    let len ← Dec.map
    let st ← mapLoop (itagStep tag vs) len (none, [])
    match st.1 with
    | none => fail .message
    | some v => liftC (v.fromC (some (.map st.2)))
  else if t == .array || t == .arrayIndef then do
    -- `visit_seq`: the tag is the first element, the rest is buffered as a sequence
    let len ← Dec.array
    match len with
    | some 0 => fail .message
    | some (n + 1) => do
      let v ← variantId vs
      let rest ← repeatN deAny n
      liftC (v.fromC (some (.seq rest)))
    | none => do
      let b ← current
      if b == 0xff then do
        let _ ← read
        fail .message
      else do
        let v ← variantId vs
        let r ← remaining
        let rest ← untilBreak deAny (r.length + 1)
        liftC (v.fromC (some (.seq rest)))
  else anyReject

/-- the tag field of an internally tagged value, prepended to the fields of the variant. -/
def itagKvs (tag n : Bytes) (kvs : List SVal) : List SVal := SVal.str tag :: SVal.str n :: kvs

/-- adjacently tagged: the derived `visit_map` state machine. -/
inductive AdjKey where
  | tag | content
  deriving DecidableEq

/-- `next_relevant_key`: keys other than tag / content are skipped with their values.
    Returns the key kind (or `none` at the end of the map) and the remaining entry count. -/
def adjNextKey (tag content : Bytes) : Nat → Option Nat → Dec (Option AdjKey × Option Nat)
  | 0, _ => Dec.panic
  | fuel + 1, len => do
    let more ← (match len with
      | some 0 => pure false
      | some _ => pure true
      | none => do
        let b ← current
        if b == 0xff then do let _ ← read; pure false else pure true)
    if !more then pure (none, len)
    else do
      let k ← Dec.str                                      -- TagContentOtherFieldVisitor via deserialize_identifier
      if k == tag then pure (some .tag, len)
      else if k == content then pure (some .content, len)
      else do
        skipItem
        adjNextKey tag content fuel (len.map (· - 1))

def adjKey (tag content : Bytes) (len : Option Nat) : Dec (Option AdjKey × Option Nat) := fun bs =>
  adjNextKey tag content ((match len with | some n => n | none => bs.length) + 1) len bs

/-- the tag value: `deserialize_enum` for a unit variant (`AdjacentlyTaggedEnumVariantSeed`). -/
def adjVariant (vs : List VarDec) : Dec VarDec := do
  enumHeader
  variantId vs

/-- a variant of an adjacently tagged enum: `dec` reads the content from the wire, `fromC` from
    a buffered content, `missing` is the value when there is no content entry. -/
structure AdjDec where
  name : Bytes
  dec : Dec (Option SVal)                 -- `none`: a unit variant (re-serialises without a content entry)
  fromC : Content → CRes (Option SVal)
  missing : Option (Option SVal)          -- no content entry: unit variant, or `None` for a newtype `Option`

def findAdj (vs : List AdjDec) (key : Bytes) : Option AdjDec := vs.find? (fun v => v.name == key)

def adjVariantA (vs : List AdjDec) : Dec AdjDec := do
  enumHeader
  let s ← Dec.str
  match findAdj vs s with
  | some v => pure v
  | none => fail .message

def adjResult (tag content name : Bytes) (c : Option SVal) : SVal :=
  match c with
  | some c => .struct [.str tag, .unitVariant name, .str content, c]
  | none => .struct [.str tag, .unitVariant name]

/-- after the value: any further tag / content key is a duplicate. -/
def adjRemaining (tag content : Bytes) (len : Option Nat) (ret : SVal) : Dec SVal := do
  let k ← adjKey tag content len
  match k.1 with
  | none => pure ret
  | some _ => fail .message

def deAtagBody (tag content : Bytes) (vs : List AdjDec) : Dec SVal := do
  let len ← Dec.map
  let k1 ← adjKey tag content len
  match k1.1 with
  | none => fail .message                                     -- missing tag
  | some .tag => do
    let v ← adjVariantA vs
    let len := k1.2.map (· - 1)
    let k2 ← adjKey tag content len
    match k2.1 with
    | some .tag => fail .message
    | some .content => do
      let c ← v.dec
      adjRemaining tag content (k2.2.map (· - 1)) (adjResult tag content v.name c)
    | none =>
      match v.missing with
      | some c => pure (adjResult tag content v.name c)
      | none => fail .message
  | some .content => do
    let c ← deAny
    let len := k1.2.map (· - 1)
    let k2 ← adjKey tag content len
    match k2.1 with
    | some .tag => do
      let v ← adjVariantA vs
      let x ← liftC (v.fromC c)
      adjRemaining tag content (k2.2.map (· - 1)) (adjResult tag content v.name x)
    | some .content => fail .message
    | none => fail .message

/-- untagged: buffer, then the first variant that accepts the content. -/
def firstOk : List (Content → CRes SVal) → Content → CRes SVal
  | [], _ => .fail
  | f :: fs, c =>
    match f c with
    | .ok v => .ok v
    | .fail => firstOk fs c
    | .unmodelled => .unmodelled

/-- internally tagged variants read from the buffered `Content` of the other entries (always
    the owned `ContentDeserializer`); the result carries the tag as first field. -/
def itagC (tag n : Bytes) : VShape → Option Content → CRes SVal
  | .unit, c => match c with                  -- InternallyTaggedUnitVisitor: any map or sequence
    | some (.map _) => pure (.struct [.str tag, .str n])
    | some (.seq _) => pure (.struct [.str tag, .str n])
    | _ => .fail
  | .struct names ts, c => match c with       -- `deserialize_any` with a visitor having visit_map and visit_seq
    | some c => do
      let kvs ← cStruct (fieldCs names ts true) true c
      pure (.struct (itagKvs tag n kvs))
    | none => .fail
  | .newtype t, c => match c with             -- the inner type must serialise as a struct
    | some c => do
      let v ← fromC t true c
      match v with
      | .struct kvs => pure (.struct (itagKvs tag n kvs))
      | _ => .unmodelled
    | none => .fail
  | .tuple _, _ => .unmodelled                -- rejected by serde_derive at compile time
  | .structS .., _ => .unmodelled

def itagDecs (tag : Bytes) : List Bytes → List VShape → List VarDec
  | n :: ns, s :: ss => ⟨n, fail .custom, itagC tag n s⟩ :: itagDecs tag ns ss
  | _, _ => []

/-- untagged variants from the buffered content (`ContentRefDeserializer`). -/
def untaggedC : VShape → Content → CRes SVal
  | .unit, c => match c with                  -- UntaggedUnitVisitor: `visit_unit` / `visit_none`
    | .none => pure .unit
    | _ => .fail
  | .newtype t, c => fromC t false c
  | .tuple ts, c => match c with
    | .seq xs => do let vs ← cAll (fromCs ts false) xs; pure (.tuple vs)
    | _ => .fail
  | .struct names ts, c => do                 -- no `visit_seq` for untagged struct variants
    let kvs ← cStruct (fieldCs names ts false) false c
    pure (.struct kvs)
  | .structS .., _ => .unmodelled

def untaggedCs : List VShape → List (Content → CRes SVal)
  | [] => []
  | s :: ss => untaggedC s :: untaggedCs ss

/-- adjacently tagged unit variant with a content entry: `deserialize_any(UntaggedUnitVisitor)`
    accepts only null. -/
def adjUnitDec : Dec (Option SVal) := do
  let t ← datatype
  if t == .null then do skipItem; pure none
  else anyReject

mutual
/-- `T::deserialize(&mut Deserializer)`. -/
def de : SType → Dec SVal
  | .bool => do let b ← Dec.bool; pure (.bool b)                 -- deserialize_bool
  | .int k => do let v ← intAcc k.ty; pure (.int k v)           -- deserialize_i8 … deserialize_u64
  | .f32 => do let b ← Dec.f32; pure (.f32 b)
  | .f64 => do let b ← Dec.f64; pure (.f64 b)
  | .char => do let c ← Dec.char; pure (.char c)
  | .str => do let s ← Dec.str; pure (.str s)                   -- deserialize_str / deserialize_string
  | .bytes => do let b ← Dec.bytes; pure (.bytes b)             -- deserialize_bytes / deserialize_byte_buf
  | .unit => do deUnit; pure .unit
  | .unitStruct => do deUnit; pure .unitStruct
  | .option t => do                                             -- deserialize_option
    let ty ← datatype
    if ty == .null then do skipItem; pure .none
    else do let v ← de t; pure (.some v)
  | .newtype t => do let v ← de t; pure (.newtypeStruct v)
  | .seq known t => do                                          -- deserialize_seq + VecVisitor
    let len ← Dec.array
    let xs ← seqAccess (de t) len
    pure (.seq known xs)
  | .tuple ts => do                                             -- deserialize_tuple
    tupleHeader ts.length
    let xs ← deAll ts
    pure (.tuple xs)
  | .tupleStruct ts => do
    tupleHeader ts.length
    let xs ← deAll ts
    pure (.tupleStruct xs)
  | .map known k v => do                                        -- deserialize_map + BTreeMap visitor
    let len ← Dec.map
    let es ← mapAccess (de k) (de v) len
    pure (.map known (mkMap [] es))
  | .struct names ts => do                                      -- deserialize_struct = deserialize_map
    let kvs ← deStructBody (fieldDecs names ts)
    pure (.struct kvs)
  | .structS names ts skips => do
    let kvs ← deStructSBody (fieldDecs names ts) skips
    pure (.struct kvs)
  | .enum names vs => deEnumBody (varDecs names vs)
  | .flat preN preT inN inT postN postT =>
    deFlatBody (fieldDecs preN preT) (fieldCs inN inT true) (fieldDecs postN postT)
  | .itag tag names vs => deItagBody tag (itagDecs tag names vs)
  | .atag tag content names vs => deAtagBody tag content (adjDecs names vs)
  | .untagged vs => do
    let c ← deAny
    liftC (firstOk (untaggedCs vs) c)
/-- the elements of a tuple, in order. -/
def deAll : List SType → Dec (List SVal)
  | [] => pure []
  | t :: ts => do
    let x ← de t
    let xs ← deAll ts
    pure (x :: xs)
def fieldDecs : List Bytes → List SType → List FieldDec
  | n :: ns, t :: ts => ⟨n, t.isOption, de t, fromC t true⟩ :: fieldDecs ns ts
  | _, _ => []
def varDecs : List Bytes → List VShape → List VarDec
  | n :: ns, s :: ss => ⟨n, deVar n s, varC n s true⟩ :: varDecs ns ss
  | _, _ => []
/-- `VariantAccess for Enum`: `unit_variant` reads nothing, `newtype_variant_seed` the value,
    `tuple_variant` = `deserialize_tuple`, `struct_variant` = `deserialize_map`. -/
def deVar : Bytes → VShape → Dec SVal
  | n, .unit => pure (.unitVariant n)
  | n, .newtype t => do let v ← de t; pure (.newtypeVariant n v)
  | n, .tuple ts => do
    tupleHeader ts.length
    let xs ← deAll ts
    pure (.tupleVariant n xs)
  | n, .struct names ts => do
    let kvs ← deStructBody (fieldDecs names ts)
    pure (.structVariant n kvs)
  | n, .structS names ts skips => do
    let kvs ← deStructSBody (fieldDecs names ts) skips
    pure (.structVariant n kvs)
def adjDecs : List Bytes → List VShape → List AdjDec
  | n :: ns, s :: ss => adjDec n s :: adjDecs ns ss
  | _, _ => []
/-- adjacently tagged content (`enum_untagged::deserialize_variant` on the deserializer). -/
def adjDec : Bytes → VShape → AdjDec
  | n, .unit =>
    ⟨n, adjUnitDec,
        (fun c => match c with
          | .none => pure none
          | _ => .fail),
        some none⟩
  | n, .newtype t =>
    ⟨n, (do let v ← de t; pure (some v)),
        (fun c => do let v ← fromC t true c; pure (some v)),
        if t.isOption then some (some .none) else none⟩
  | n, .tuple ts =>
    ⟨n, (do tupleHeader ts.length; let xs ← deAll ts; pure (some (.tuple xs))),
        (fun c => match c with
          | .seq xs => do let vs ← cAll (fromCs ts true) xs; pure (some (.tuple vs))
          | _ => .fail),
        none⟩
  | n, .struct names ts =>
    ⟨n, (do let kvs ← deStructAny (fieldDecs names ts); pure (some (.struct kvs))),
        (fun c => do let kvs ← cStruct (fieldCs names ts true) false c; pure (some (.struct kvs))),
        none⟩
  | n, .structS .. => ⟨n, fail .custom, (fun _ => .unmodelled), none⟩
end

/-! ## the native codec on the shared data model (C18)

  `NType`: the types that implement both serde's traits and minicbor's `Encode` / `Decode`
  (minicbor/src/encode.rs, decode.rs).  Values are the same `SVal` trees (`Vec<T>` = a known-length
  sequence, fixed arrays and tuples = tuples, `BTreeMap` = a known-length map). -/

inductive NType where
  | bool
  | int (k : IntKind)
  | f32 | f64
  | char
  | str
  | unit
  | option (t : NType)
  | vec (t : NType)
  | array (n : Nat) (t : NType)
  | tuple (ts : List NType)
  | map (k v : NType)
  deriving Inhabited

mutual
/-- the serde view of a shared type (`[T; N]` deserialises with `deserialize_tuple(N)`). -/
def NType.toS : NType → SType
  | .bool => .bool
  | .int k => .int k
  | .f32 => .f32
  | .f64 => .f64
  | .char => .char
  | .str => .str
  | .unit => .unit
  | .option t => .option t.toS
  | .vec t => .seq true t.toS
  | .array n t => .tuple (List.replicate n t.toS)
  | .tuple ts => .tuple (NType.toSs ts)
  | .map k v => .map true k.toS v.toS
def NType.toSs : List NType → List SType
  | [] => []
  | t :: ts => t.toS :: NType.toSs ts
end

mutual
/-- `impl Encode for T` (encode.rs): `encode_basic!`, `str`/`String`, `()`, `Option`,
    `encode_sequential!`, `[T; N]`, `encode_tuples!`, `BTreeMap`. -/
def natEnc : NType → SVal → Bytes
  | .bool, .bool b => Enc.bool b
  | .int k, .int _ v => encInt k v
  | .f32, .f32 b => Enc.f32 b
  | .f64, .f64 b => Enc.f64 b
  | .char, .char c => Enc.char c
  | .str, .str s => Enc.str s
  | .unit, _ => Enc.array 0
  | .option _, .none => Enc.null
  | .option t, .some v => natEnc t v
  | .vec t, .seq _ xs => Enc.array xs.length ++ natEncEach t xs
  | .array n t, .tuple xs => Enc.array n ++ natEncEach t xs
  | .tuple ts, .tuple xs => Enc.array ts.length ++ natEncAll ts xs
  | .map k v, .map _ kvs => Enc.map (kvs.length / 2) ++ natEncPairs k v kvs
  | _, _ => []
def natEncEach : NType → List SVal → Bytes
  | _, [] => []
  | t, x :: xs => natEnc t x ++ natEncEach t xs
def natEncAll : List NType → List SVal → Bytes
  | t :: ts, x :: xs => natEnc t x ++ natEncAll ts xs
  | _, _ => []
def natEncPairs : NType → NType → List SVal → Bytes
  | k, v, a :: b :: rest => natEnc k a ++ (natEnc v b ++ natEncPairs k v rest)
  | _, _, _ => []
end

/-- `impl Decode for [T; N]`: `array_iter` into an `ArrayVec<T, N>`; a surplus element is
    noticed after it has been decoded, a shortage at the end. -/
def arrLoopN (m : Dec α) (cap : Nat) : Nat → List α → Dec (List α)
  | 0, acc => pure acc
  | n + 1, acc => do
    let x ← m
    if cap ≤ acc.length then fail .message
    else arrLoopN m cap n (acc ++ [x])

def arrLoopI (m : Dec α) (cap : Nat) : Nat → List α → Dec (List α)
  | 0, _ => Dec.panic
  | fuel + 1, acc => do
    let b ← current
    if b == 0xff then do
      let _ ← read
      pure acc
    else do
      let x ← m
      if cap ≤ acc.length then fail .message
      else arrLoopI m cap fuel (acc ++ [x])

def natArray (m : Dec α) (cap : Nat) : Dec (List α) := do
  let len ← Dec.array
  let xs ← (match len with
    | some n => arrLoopN m cap n []
    | none => fun bs => arrLoopI m cap (bs.length + 1) [] bs)
  if xs.length == cap then pure xs else fail .message

mutual
/-- `impl Decode for T` (decode.rs): `decode_basic!`, `String`, `()`, `Option`,
    `decode_sequential!` (`array_iter`), `[T; N]`, `decode_tuples!`, `BTreeMap` (`map_iter`). -/
def natDec : NType → Dec SVal
  | .bool => do let b ← Dec.bool; pure (.bool b)
  | .int k => do let v ← intAcc k.ty; pure (.int k v)
  | .f32 => do let b ← Dec.f32; pure (.f32 b)
  | .f64 => do let b ← Dec.f64; pure (.f64 b)
  | .char => do let c ← Dec.char; pure (.char c)
  | .str => do let s ← Dec.str; pure (.str s)
  | .unit => do deUnit; pure .unit
  | .option t => do
    let ty ← datatype
    if ty == .null then do skipItem; pure .none
    else do let v ← natDec t; pure (.some v)
  | .vec t => do
    let len ← Dec.array
    let xs ← seqAccess (natDec t) len
    pure (.seq true xs)
  | .array n t => do
    let xs ← natArray (natDec t) n
    pure (.tuple xs)
  | .tuple ts => do
    tupleHeader ts.length
    let xs ← natDecAll ts
    pure (.tuple xs)
  | .map k v => do
    let len ← Dec.map
    let es ← mapAccess (natDec k) (natDec v) len
    pure (.map true (mkMap [] es))
def natDecAll : List NType → Dec (List SVal)
  | [] => pure []
  | t :: ts => do
    let x ← natDec t
    let xs ← natDecAll ts
    pure (x :: xs)
end

end Minicbor.Serde
