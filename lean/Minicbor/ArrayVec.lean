/-
  A state-machine model of the bookkeeping of `ArrayVec<T, N>` and of `<[T; N] as Decode>::decode`
  (minicbor/src/decode.rs, `struct ArrayVec` … `impl Decode for [T; N]`).

  SCOPE.  Only the *bookkeeping* is modelled: which slots have been written, the `len` counter,
  which element values get their destructor run (`Drop for ArrayVec` = `drop_in_place` of the
  first `len` slots), which are moved out to the caller (`into_array` reads all `N` slots and
  `mem::forget`s `self`), and which are handed back by a full `push`.  Memory safety of the
  `unsafe` blocks themselves (the pointer casts `*const [MaybeUninit<T>; N] as *const [T; N]`,
  `from_raw_parts_mut`, layout of `MaybeUninit<T>`) is OUTSIDE this model; what the model does
  expose is the obligation those blocks rely on: every slot read as a `T` has been written
  (a `none` in `Outcome.dropped` / `Outcome.array` would be a read of an uninitialised slot).

  Element values are identified by natural numbers (ids).
-/
namespace Minicbor.ArrayVec

/-- `ArrayVec<T, N>`: `cap = N`, `buf[i] = some id` once slot `i` has been written with the
    element `id`, `none` while it is `MaybeUninit::uninit()`. -/
structure AV where
  cap : Nat
  buf : List (Option Nat)
  len : Nat
  deriving Repr, DecidableEq

/-- `ArrayVec::new` -/
def AV.new (n : Nat) : AV := ⟨n, List.replicate n none, 0⟩

/-- `ArrayVec::push`: `Ok(())` (`none`) after writing slot `len`, or `Err(item)` (`some item`)
    when `buffer.get_mut(len)` is `None`. -/
def AV.push (a : AV) (item : Nat) : AV × Option Nat :=
  if a.len < a.cap then (⟨a.cap, a.buf.set a.len (some item), a.len + 1⟩, none)
  else (a, some item)

/-- `Drop for ArrayVec`: the destructors that run — exactly the first `len` slots, each read as
    a `T`. -/
def AV.dropSlots (a : AV) : List (Option Nat) := a.buf.take a.len

/-- `ArrayVec::into_array`: `Ok(array)` = all `N` slots read as `T` and `self` forgotten (its
    `Drop` does NOT run), or `Err(self)`. -/
def AV.intoArray (a : AV) : Except AV (List (Option Nat)) :=
  if a.len = a.cap then .ok a.buf else .error a

/-- what one call of `<[T; N]>::decode` did with the element values it created. -/
structure Outcome where
  /-- `Ok(array)`: the slots moved out to the caller. -/
  array : Option (List (Option Nat))
  /-- destructor runs, in order (`none` = ran on an uninitialised slot). -/
  dropped : List (Option Nat)
  /-- elements that went through `push` (successfully or not). -/
  pushed : List Nat
  deriving Repr, DecidableEq

/-- the `for x in iter { a.push(x?).map_err(..)?; }` loop over the successfully decoded
    elements `ids`: stops at the first rejected push. -/
def pushAll (a : AV) (pushed : List Nat) : List Nat → AV × List Nat × Option Nat
  | [] => (a, pushed, none)
  | id :: ids =>
    match a.push id with
    | (a', none) => pushAll a' (pushed ++ [id]) ids
    | (a', some rej) => (a', pushed ++ [id], some rej)

/-- `<[T; N]>::decode` after `array_iter_with` succeeded: the iterator yields the elements `ids`
    (in order) and then either ends (`iterErr = false`) or yields an `Err` (`iterErr = true`,
    `x?` returns early).  Elements after a rejected push are never decoded. -/
def decodeArr (n : Nat) (ids : List Nat) (iterErr : Bool) : Outcome :=
  match pushAll (AV.new n) [] ids with
  | (a, pushed, some rej) =>
      -- `map_err(|_| ..)` drops the rejected item, `?` returns, `a` goes out of scope
      ⟨none, some rej :: a.dropSlots, pushed⟩
  | (a, pushed, none) =>
      if iterErr then ⟨none, a.dropSlots, pushed⟩          -- `x?` returned; `a` dropped
      else match a.intoArray with
        | .ok arr => ⟨some arr, [], pushed⟩                 -- `forget(self)`: no destructor runs
        | .error a' => ⟨none, a'.dropSlots, pushed⟩         -- `map_err(|_| ..)` drops `self`

end Minicbor.ArrayVec
