/-
  UTF-8 validity as decided by Rust's `core::str::from_utf8` (RFC 3629: no overlong forms,
  no surrogates, nothing above U+10FFFF).  Modelled, validated by the correspondence.
-/
import Minicbor.Prelude

namespace Minicbor

@[inline] def isCont (b : UInt8) : Bool := 0x80 ≤ b && b ≤ 0xBF

def validUtf8 : Bytes → Bool
  | [] => true
  | b0 :: rest =>
    if b0 < 0x80 then validUtf8 rest else
    match rest with
    | [] => false
    | b1 :: r1 =>
      if 0xC2 ≤ b0 && b0 ≤ 0xDF then isCont b1 && validUtf8 r1 else
      match r1 with
      | [] => false
      | b2 :: r2 =>
        if (b0 == 0xE0 && 0xA0 ≤ b1 && b1 ≤ 0xBF && isCont b2)
           || (((0xE1 ≤ b0 && b0 ≤ 0xEC) || b0 == 0xEE || b0 == 0xEF) && isCont b1 && isCont b2)
           || (b0 == 0xED && 0x80 ≤ b1 && b1 ≤ 0x9F && isCont b2)
        then validUtf8 r2 else
        match r2 with
        | [] => false
        | b3 :: r3 =>
          if (b0 == 0xF0 && 0x90 ≤ b1 && b1 ≤ 0xBF && isCont b2 && isCont b3)
             || ((0xF1 ≤ b0 && b0 ≤ 0xF3) && isCont b1 && isCont b2 && isCont b3)
             || (b0 == 0xF4 && 0x80 ≤ b1 && b1 ≤ 0x8F && isCont b2 && isCont b3)
          then validUtf8 r3 else false

/-- UTF-8 encoding of a Unicode scalar value (used for `char` display and test generation). -/
def utf8Encode (c : Nat) : Bytes :=
  if c < 0x80 then [u8 c]
  else if c < 0x800 then [u8 (0xC0 + c / 64), u8 (0x80 + c % 64)]
  else if c < 0x10000 then [u8 (0xE0 + c / 4096), u8 (0x80 + c / 64 % 64), u8 (0x80 + c % 64)]
  else [u8 (0xF0 + c / 262144), u8 (0x80 + c / 4096 % 64), u8 (0x80 + c / 64 % 64), u8 (0x80 + c % 64)]

/-- `char::from_u32` succeeds. -/
def isScalar (n : Nat) : Bool := n < 0xD800 || (0xE000 ≤ n && n < 0x110000)

end Minicbor
