/-
  C03 — Encoder output is well-formed, deterministic, shortest-form CBOR.
  Property theorems only.  `head maj n` is the RFC 8949 preferred (shortest) head and
  `encPref` the preferred definite-length serialisation of a data-model value (Wire.lean).
  This file: every single Encoder method, ArrayIter/MapIter.  `Thm/C03Builtin.lean`: every built-in
  `Encode` impl.  `Thm/C03Ops.lean`: balanced sequences of Encoder calls (`ops_denote`, `ops_denote_single`,
  `ops_shortest`, `ops_reference`, `ops_complete`) — a separate file because the per-head lemmas it reuses
  (`Lemmas/TokenEnc.lean`) import this one.
-/
import Minicbor.Wire
import Minicbor.Encoder

namespace Minicbor.C03

/-- value denoted by a Rust signed integer in the data model. -/
def intItem (x : Int) : Item := if x ≥ 0 then .uint x.toNat else .nint (-1 - x).toNat

theorem u8_pref (x : Nat) (h : x < 256) : Enc.u8 x = encPref (.uint x) := by
  simp only [Enc.u8, encPref, prefTree, encW, headW, prefWidth]
  (repeat' split) <;> simp [Width.ai, Width.bytes, be, u8] <;> omega

theorem u16_pref (x : Nat) (h : x < 65536) : Enc.u16 x = encPref (.uint x) := by
  simp only [Enc.u16, encPref, prefTree, encW, headW, prefWidth]
  (repeat' split) <;> simp [Width.ai, Width.bytes, be, u8] <;> omega

theorem u32_pref (x : Nat) (h : x < 4294967296) : Enc.u32 x = encPref (.uint x) := by
  simp only [Enc.u32, encPref, prefTree, encW, headW, prefWidth]
  (repeat' split) <;> simp [Width.ai, Width.bytes, be, u8] <;> omega

theorem u64_pref (x : Nat) (h : x < 18446744073709551616) : Enc.u64 x = encPref (.uint x) := by
  simp only [Enc.u64, encPref, prefTree, encW, headW, prefWidth]
  (repeat' split) <;> simp [Width.ai, Width.bytes, be, u8] <;> omega


theorem negArms_pref (n : Nat) (h : n < 18446744073709551616) : Enc.negArms n = encPref (.nint n) := by
  simp only [Enc.negArms, Enc.SIGNED, encPref, prefTree, encW, headW, prefWidth]
  (repeat' split) <;> simp [Width.ai, Width.bytes, be, u8] <;> omega

theorem i8_pref (x : Int) (h : -128 ≤ x ∧ x ≤ 127) : Enc.i8 x = encPref (intItem x) := by
  unfold Enc.i8 intItem
  split
  · exact u8_pref _ (by omega)
  · simp only [Enc.SIGNED, encPref, prefTree, encW, headW, prefWidth]
    (repeat' split) <;> simp [Width.ai, Width.bytes, be, u8] <;> omega

theorem i16_pref (x : Int) (h : -32768 ≤ x ∧ x ≤ 32767) : Enc.i16 x = encPref (intItem x) := by
  unfold Enc.i16 intItem
  split
  · exact u16_pref _ (by omega)
  · simp only [Enc.SIGNED, encPref, prefTree, encW, headW, prefWidth]
    (repeat' split) <;> simp [Width.ai, Width.bytes, be, u8] <;> omega

theorem i32_pref (x : Int) (h : -2147483648 ≤ x ∧ x ≤ 2147483647) : Enc.i32 x = encPref (intItem x) := by
  unfold Enc.i32 intItem
  split
  · exact u32_pref _ (by omega)
  · simp only [Enc.SIGNED, encPref, prefTree, encW, headW, prefWidth]
    (repeat' split) <;> simp [Width.ai, Width.bytes, be, u8] <;> omega

theorem i64_pref (x : Int) (h : -9223372036854775808 ≤ x ∧ x ≤ 9223372036854775807) :
    Enc.i64 x = encPref (intItem x) := by
  unfold Enc.i64 intItem
  split
  · exact u64_pref _ (by omega)
  · exact negArms_pref _ (by omega)

/-- `Encoder::int`: `Int` = (neg, val) with `val < 2^64` covers `[-2^64, 2^64 - 1]`. -/
theorem int_pref (neg : Bool) (v : Nat) (h : v < 18446744073709551616) :
    Enc.int neg v = encPref (if neg then .nint v else .uint v) := by
  cases neg
  · simpa [Enc.int] using u64_pref v h
  · simpa [Enc.int] using negArms_pref v h

/-- `type_len` writes the preferred head of major type `maj`. -/
theorem typeLen_pref (maj n : Nat) (_hm : maj < 8) (h : n < 18446744073709551616) :
    Enc.typeLen (maj * 32) n = head maj n := by
  simp only [Enc.typeLen, head, headW, prefWidth]
  (repeat' split) <;> simp [Width.ai, Width.bytes, be, u8] <;> omega

theorem tag_pref (n : Nat) (h : n < 18446744073709551616) : Enc.tag n = head 6 n :=
  typeLen_pref 6 n (by omega) h
theorem array_pref (n : Nat) (h : n < 18446744073709551616) : Enc.array n = head 4 n :=
  typeLen_pref 4 n (by omega) h
theorem map_pref (n : Nat) (h : n < 18446744073709551616) : Enc.map n = head 5 n :=
  typeLen_pref 5 n (by omega) h

theorem bytes_pref (b : Bytes) (h : b.length < 18446744073709551616) :
    Enc.bytes b = encPref (.bytes b) := by
  simp only [Enc.bytes, encPref, prefTree, encW]
  rw [show Enc.BYTES = 2 * 32 from rfl, typeLen_pref 2 _ (by omega) h]; rfl

theorem str_pref (b : Bytes) (h : b.length < 18446744073709551616) :
    Enc.str b = encPref (.text b) := by
  simp only [Enc.str, encPref, prefTree, encW]
  rw [show Enc.TEXT = 3 * 32 from rfl, typeLen_pref 3 _ (by omega) h]; rfl

theorem char_pref (c : Nat) (h : c < 4294967296) : Enc.char c = encPref (.uint c) := u32_pref c h

theorem bool_pref (x : Bool) : Enc.bool x = encPref (.simple (if x then 21 else 20)) := by
  cases x <;> rfl
theorem null_pref : Enc.null = encPref (.simple 22) := rfl
theorem undefined_pref : Enc.undefined = encPref (.simple 23) := rfl
theorem f32_pref (b : Nat) : Enc.f32 b = encPref (.f32 b) := rfl
theorem f64_pref (b : Nat) : Enc.f64 b = encPref (.f64 b) := rfl
theorem f16_pref (b : Nat) : Enc.f16 b = encPref (.f16 (f32ToF16 b)) := rfl

/-- full-strength statement for `Encoder::simple`; false on the code as it is (K1). -/
def simple_statement : Prop := ∀ x, x < 256 → Enc.simple x = encPref (.simple x)

/-- `Encoder::simple` is correct outside 20..=31 … -/
theorem simple_pref_partial (x : Nat) (hx : x < 256) (h : x < 20 ∨ 32 ≤ x) :
    Enc.simple x = encPref (.simple x) ∧ (WItem.simple x).Valid := by
  simp only [Enc.simple, Enc.SIMPLE, encPref, prefTree, encW, WItem.Valid, WItem.valid]
  rcases h with h | h
  · have : x < 24 := by omega
    simp [*]
  · have h1 : ¬ x < 20 := by omega
    have h2 : ¬ x < 24 := by omega
    simp [h1, h2, h, hx]; rfl

/-- … and wrong inside (known finding K1): `simple(20)` writes `f8 14`, which RFC 8949 §3.3
    declares not well-formed; the one-byte form `f4` is the only encoding of simple value 20. -/
theorem simple_counterexample : ¬ simple_statement := by
  intro h
  have := h 20 (by decide)
  revert this
  decide

/-- the bytes of `simple 24..31` are not the encoding of any valid simple item either. -/
theorem simple_reserved_invalid (x : Nat) (h : 24 ≤ x ∧ x < 32) : ¬ (WItem.simple x).Valid := by
  simp [WItem.Valid, WItem.valid]; omega

/-- an array / map written as definite head + the encodings of its elements is the
    preferred serialisation of the array / map of those elements. -/
theorem array_denote (xs : List Item) (h : xs.length < 18446744073709551616) :
    Enc.array xs.length ++ encPrefs xs = encPref (.array xs) := by
  simp only [encPref, encPrefs, prefTree, encW, prefTrees_length]
  rw [array_pref _ h]; rfl

theorem map_denote (kvs : List Item) (h : kvs.length / 2 < 18446744073709551616) :
    Enc.map (kvs.length / 2) ++ encPrefs kvs = encPref (.map kvs) := by
  simp only [encPref, encPrefs, prefTree, encW, prefTrees_length]
  rw [map_pref _ h]; rfl

theorem tag_denote (n : Nat) (x : Item) (h : n < 18446744073709551616) :
    Enc.tag n ++ encPref x = encPref (.tag n x) := by
  simp only [encPref, prefTree, encW]
  rw [tag_pref _ h]; rfl

theorem encWs_eq_flatten (ws : List WItem) : encWs ws = (ws.map encW).flatten := by
  induction ws with
  | nil => rfl
  | cons w ws ih => simp [encWs, ih]

/-- `ArrayIter` / `MapIter`: whatever the size hint, the output is exactly one well-formed
    array / map of the items written — definite with the shortest head when the hint is exact,
    indefinite with a break otherwise. -/
theorem arrayIter_wellformed (exact : Bool) (ws : List WItem) (hv : validAll ws = true)
    (hl : ws.length < 18446744073709551616) :
    ∃ w, w.Valid ∧ Enc.arrayIter exact (ws.map encW) = encW w ∧ value w = .array (values ws) := by
  cases exact
  · refine ⟨.arrayI ws, by simpa [WItem.Valid, WItem.valid] using hv, ?_, by simp [value]⟩
    simp [Enc.arrayIter, Enc.beginArray, Enc.end, encW, encWs_eq_flatten]
  · refine ⟨.array (prefWidth ws.length) ws, ?_, ?_, by simp [value]⟩
    · simp [WItem.Valid, WItem.valid, hv, prefWidth_fits _ hl]
    · simp only [Enc.arrayIter, List.length_map, if_true, encW, encWs_eq_flatten]
      rw [array_pref _ hl]; rfl

theorem mapIter_wellformed (exact : Bool) (kvs : List WItem) (hv : validAll kvs = true)
    (he : kvs.length % 2 = 0) (hl : kvs.length / 2 < 18446744073709551616) :
    ∃ w, w.Valid ∧ Enc.mapIter exact (kvs.map encW) = encW w ∧ value w = .map (values kvs) := by
  cases exact
  · refine ⟨.mapI kvs, by simp [WItem.Valid, WItem.valid, hv, he], ?_, by simp [value]⟩
    simp [Enc.mapIter, Enc.beginMap, Enc.end, encW, encWs_eq_flatten]
  · refine ⟨.map (prefWidth (kvs.length / 2)) kvs, ?_, ?_, by simp [value]⟩
    · simp [WItem.Valid, WItem.valid, hv, he, prefWidth_fits _ hl]
    · simp only [Enc.mapIter, List.length_map, if_true, encW, encWs_eq_flatten]
      rw [map_pref _ hl]; rfl

/-- determinism: the encoder is a function of its arguments (stated for the record; every
    model method is a pure function, so two runs on equal arguments give equal bytes). -/
theorem deterministic (f : α → Bytes) (a b : α) (h : a = b) : f a = f b := by rw [h]

/-- non-vacuity: a value at each width boundary. -/
example : Enc.u64 4294967296 = [0x1b, 0, 0, 0, 1, 0, 0, 0, 0] := by decide
example : Enc.i64 (-4294967297) = [0x3b, 0, 0, 0, 1, 0, 0, 0, 0] := by decide

end Minicbor.C03
