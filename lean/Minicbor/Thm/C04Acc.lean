/-
  C04 — Typed decoding agrees with the RFC 8949 data model on every well-formed encoding.
  Property theorems only.  Part 2: all accessors of `Decoder` as one family (`Acc`,
  Lemmas/C04Acc.lean) against the specification `view` / `consumed` / `after`:

    accessor_sound    matching shape ⇒ exactly the data-model value, position exactly after what was read
    accessor_rejects  a value is returned ONLY on a matching shape, and then it is that value at that position
                      ("an accessor that does not match the shape returns an error, never a different value")
    accessor_ok_iff   both directions in one statement;  accessor_mismatch_err : mismatch ⇒ `err`
    prefix_eoi        every strict prefix of the bytes a matching accessor reads ⇒ end-of-input class
                      ("never success, never another class"), prefix_eoi_any for arbitrary accepted bytes

  Kept out of Thm/C04.lean (Part 1) so that the import closure of that file, which the C01 / C11 /
  C17 lemma files import, stays as it was.  Typed decoding (`decodeT`): Thm/C04Typed.lean.
-/
import Minicbor.Thm.C04
import Minicbor.Thm.C05
import Minicbor.Lemmas.C04Acc

namespace Minicbor.C04
open Dec

/-! ## every accessor against the specification `view`

  `Acc` enumerates the sixteen typed accessors (`int t` = u8 … i64, int; `f32 half` / `f64 half`),
  `Acc.run a : Dec a.Out` is the model action, and (Lemmas/C04Acc.lean, specification side)
  * `view a w : Option a.Out`  — `some v` iff `a` matches the shape of the wire tree `w`, `v` = the
                                 data-model value (`view_value` relates it to `value w`),
  * `consumed a w` / `after a w` — the bytes of `encW w` the accessor reads / leaves
                                 (`array`, `map`, `tag` read the head only); `consumed_after`.
-/

theorem f16_sound (b : Nat) (rest : Bytes) (h : b < 65536) :
    Dec.f16 (encW (.f16 b) ++ rest) = .ok (f16ToF32 b) rest := by
  have hb : fromBe (be 2 b) = b := fromBe_be 2 b (by simpa using h)
  simp [encW, Dec.f16, Dec.bind_run, Dec.readSlice_be, hb]

theorem f32_sound (b : Nat) (rest : Bytes) (h : b < 4294967296) (half : Bool) :
    Dec.f32 half (encW (.f32 b) ++ rest) = .ok b rest := by
  have hb : fromBe (be 4 b) = b := fromBe_be 4 b (by simpa using h)
  simp [encW, Dec.f32, Dec.bind_run, Dec.readSlice_be, hb]

theorem f32_f16_sound (b : Nat) (rest : Bytes) (h : b < 65536) :
    Dec.f32 true (encW (.f16 b) ++ rest) = .ok (f16ToF32 b) rest := by
  have := f16_sound b rest h
  simp only [encW, List.cons_append] at this ⊢
  simp [Dec.f32, Dec.bind_run, this]

theorem f64_sound (b : Nat) (rest : Bytes) (h : b < 18446744073709551616) (half : Bool) :
    Dec.f64 half (encW (.f64 b) ++ rest) = .ok b rest := by
  have hb : fromBe (be 8 b) = b := fromBe_be 8 b (by simpa using h)
  simp [encW, Dec.f64, Dec.bind_run, Dec.readSlice_be, hb]

theorem f64_f32_sound (b : Nat) (rest : Bytes) (h : b < 4294967296) (half : Bool) :
    Dec.f64 half (encW (.f32 b) ++ rest) = .ok (f32ToF64 b) rest := by
  have := f32_sound b rest h half
  simp only [encW, List.cons_append] at this ⊢
  simp [Dec.f64, Dec.bind_run, this]

theorem f64_f16_sound (b : Nat) (rest : Bytes) (h : b < 65536) :
    Dec.f64 true (encW (.f16 b) ++ rest) = .ok (f32ToF64 (f16ToF32 b)) rest := by
  have := f16_sound b rest h
  simp only [encW, List.cons_append] at this ⊢
  simp [Dec.f64, Dec.bind_run, this]

theorem stringIter_def_core (text : Bool) (w : Width) (n : Nat) (b rest : Bytes) (h : w.fits n = true)
    (hn : b.length = n) (hu : text = true → validUtf8 b = true) :
    Dec.stringIter text (headW (if text then 3 else 2) w n ++ b ++ rest) = .ok (oneChunk b) rest := by
  have hl : n < 18446744073709551616 := by have := Width.fits_lt w _ h; omega
  simp only [headW, List.cons_append, List.append_assoc]
  by_cases hb : n = 0
  · have : b = [] := List.eq_nil_of_length_eq_zero (hn.trans hb)
    subst this
    cases text
    · simp [Dec.stringIter, Dec.bind_run, majorOf_head' 64 w _ (by decide) (by decide) h, infoOf_head_ne31' 64 w _ (by decide) (by decide) h,
        unsigned_info_head' 64 w _ _ (by decide) (by decide) h, u64ToUsize, oneChunk, hl]
      simp [hb]
    · simp [Dec.stringIter, Dec.bind_run, majorOf_head' 96 w _ (by decide) (by decide) h, infoOf_head_ne31' 96 w _ (by decide) (by decide) h,
        unsigned_info_head' 96 w _ _ (by decide) (by decide) h, u64ToUsize, oneChunk, hl]
      simp [hb]
  · have hb' : b ≠ [] := by intro e; subst e; simp at hn; omega
    have hrs := Dec.readSlice_append b rest
    rw [hn] at hrs
    cases text
    · simp [Dec.stringIter, Dec.bind_run, majorOf_head' 64 w _ (by decide) (by decide) h, infoOf_head_ne31' 64 w _ (by decide) (by decide) h,
        unsigned_info_head' 64 w _ _ (by decide) (by decide) h, u64ToUsize, hl, oneChunk, hb', hb, hrs]
    · simp [Dec.stringIter, Dec.bind_run, majorOf_head' 96 w _ (by decide) (by decide) h, infoOf_head_ne31' 96 w _ (by decide) (by decide) h,
        unsigned_info_head' 96 w _ _ (by decide) (by decide) h, u64ToUsize, hl, oneChunk, hb', hb, hrs, hu rfl]

theorem stringIter_def_sound (text : Bool) (w : Width) (b rest : Bytes) (h : w.fits b.length = true)
    (hu : text = true → validUtf8 b = true) :
    Dec.stringIter text (headW (if text then 3 else 2) w b.length ++ b ++ rest) = .ok (oneChunk b) rest :=
  stringIter_def_core text w _ b rest h rfl hu

theorem bytesIter_indef_sound (cs : List (Width × Bytes)) (rest : Bytes) (hv : chunksValid false cs = true) :
    Dec.bytesIter (encW (.bytesI cs) ++ rest) = .ok (cs.map (·.2)) rest := by
  simp only [encW, List.cons_append, List.append_assoc]
  have hl := encChunks_length_ge 2 cs
  simp [Dec.bytesIter, Dec.stringIter, Dec.bind_run, majorOf, infoOf, u8_31, Dec.remaining]
  refine chunkLoop_bytes cs rest hv _ ?_
  omega

theorem strIter_indef_sound (cs : List (Width × Bytes)) (rest : Bytes) (hv : chunksValid true cs = true) :
    Dec.strIter (encW (.textI cs) ++ rest) = .ok (cs.map (·.2)) rest := by
  simp only [encW, List.cons_append, List.append_assoc]
  have hl := encChunks_length_ge 3 cs
  simp [Dec.strIter, Dec.stringIter, Dec.bind_run, majorOf, infoOf, u8_31, Dec.remaining]
  refine chunkLoop_text cs rest hv _ ?_
  omega

theorem char_sound (w : Width) (n : Nat) (rest : Bytes) (h : w.fits n = true) (hn : n ≤ 4294967295)
    (hs : isScalar n = true) : Dec.char (headW 0 w n ++ rest) = .ok n rest := by
  have := C05.int_accessor_ok .u32 w false n rest h (by simp) (by simpa [IntTy.u32] using hn)
  simp only [C05.intHead, C05.intVal, Bool.false_eq_true, if_false] at this
  simp [Dec.char, Dec.bind_run, this, hs]

/-- **matching accessor ⇒ the data-model value, position exactly after what was read.** -/
theorem accessor_sound (a : Acc) (w : WItem) (hv : w.Valid) (v : a.Out) (hview : view a w = some v)
    (rest : Bytes) : a.run (consumed a w ++ rest) = .ok v rest := by
  cases a <;> cases w <;> simp only [view] at hview <;> (try (cases hview; done)) <;>
    simp only [WItem.Valid, WItem.valid, Bool.and_eq_true, decide_eq_true_eq] at hv <;>
    simp only [consumed, Acc.run]
  case bool.simple n =>
    by_cases h20 : n = 20
    · subst h20; simp at hview; subst hview; exact bool_sound false rest
    · simp [h20] at hview; obtain ⟨rfl, rfl⟩ := hview; exact bool_sound true rest
  case int.uint t w n =>
    split at hview
    · rename_i hm; cases hview
      have := C05.int_accessor_ok t w false _ rest hv (by simp) hm
      simpa [C05.intHead, C05.intVal, encW] using this
    · cases hview
  case int.nint t w n =>
    split at hview
    · rename_i hm; cases hview
      have := C05.int_accessor_ok t w true _ rest hv (fun _ => hm.1) hm.2
      simpa [C05.intHead, C05.intVal, encW] using this
    · cases hview
  case f16.f16 b => cases hview; exact f16_sound _ rest hv
  case f32.f16 hf b =>
    split at hview
    · rename_i hh; subst hh; cases hview; exact f32_f16_sound _ rest hv
    · cases hview
  case f32.f32 hf b => cases hview; exact f32_sound _ rest hv hf
  case f64.f16 hf b =>
    split at hview
    · rename_i hh; subst hh; cases hview; exact f64_f16_sound _ rest hv
    · cases hview
  case f64.f32 hf b => cases hview; exact f64_f32_sound _ rest hv hf
  case f64.f64 hf b => cases hview; exact f64_sound _ rest hv hf
  case char.uint w n =>
    split at hview
    · rename_i hm; cases hview; exact char_sound w _ rest hv hm.1 hm.2
    · cases hview
  case bytes.bytes w b => cases hview; exact bytes_sound w _ rest hv
  case str.text w b => cases hview; exact str_sound w _ rest hv.1 hv.2
  case bytesIter.bytes w b =>
    cases hview
    have := stringIter_def_sound false w _ rest hv (by simp)
    simpa [encW, Dec.bytesIter] using this
  case bytesIter.bytesI cs => cases hview; exact bytesIter_indef_sound cs rest hv
  case strIter.text w b =>
    cases hview
    have := stringIter_def_sound true w _ rest hv.1 (fun _ => hv.2)
    simpa [encW, Dec.strIter] using this
  case strIter.textI cs => cases hview; exact strIter_indef_sound cs rest hv
  case array.array w xs => cases hview; exact array_sound w _ rest hv.1
  case array.arrayI xs => cases hview; exact array_indef rest
  case map.map w xs => cases hview; exact map_sound w _ rest hv.1.2
  case map.mapI xs => cases hview; exact map_indef rest
  case tag.tag w n x => cases hview; exact tag_sound w _ rest hv.1
  case null.simple n =>
    split at hview
    · rename_i hn; subst hn; exact null_sound rest
    · cases hview
  case undefined.simple n =>
    split at hview
    · rename_i hn; subst hn; exact undefined_sound rest
    · cases hview
  case simple.simple n =>
    simp only [Bool.or_eq_true, Bool.and_eq_true, decide_eq_true_eq] at hv
    split at hview
    · rename_i hn; cases hview; exact simple_sound _ rest (by omega)
    · cases hview

theorem char_reject (w : Width) (n : Nat) (rest : Bytes) (h : w.fits n = true)
    (hn : ¬ (n ≤ 4294967295 ∧ isScalar n = true)) (v : Nat) (r : Bytes) :
    Dec.char (headW 0 w n ++ rest) ≠ .ok v r := by
  by_cases hm : n ≤ 4294967295
  · have := C05.int_accessor_ok .u32 w false n rest h (by simp) (by simpa [IntTy.u32] using hm)
    simp only [C05.intHead, C05.intVal, Bool.false_eq_true, if_false] at this
    have hs : isScalar n = false := by
      cases hsc : isScalar n with
      | false => rfl
      | true => exact absurd ⟨hm, hsc⟩ hn
    simp [Dec.char, Dec.bind_run, this, hs]
  · have := C05.int_accessor_overflow .u32 w false n rest h (by simp) (by simp [IntTy.u32]; omega)
    simp only [C05.intHead, Bool.false_eq_true, if_false] at this
    simp [Dec.char, Dec.bind_run, this]

/-- a non-matching accessor never returns a value. -/
theorem accessor_no_value (a : Acc) (w : WItem) (hv : w.Valid) (hview : view a w = none)
    (rest : Bytes) (v : a.Out) (r : Bytes) : a.run (encW w ++ rest) ≠ .ok v r := by
  intro h
  obtain ⟨b, tl, hbs, hacc⟩ := run_ok_accepts a _ v r h
  obtain ⟨tl', hen, hib⟩ := encW_cons w hv
  rw [hen] at hbs
  simp only [List.cons_append] at hbs
  injection hbs with hb _
  rw [← hb, hib] at hacc
  have hr := ib_range w hv
  cases a <;> cases w <;> simp only [view] at hview <;> (try (cases hview; done)) <;>
    (try simp at hview) <;>
    simp [accepts, ib] at hacc <;> (try simp [ib, ibRange] at hr) <;>
    (first | omega | (split at hacc <;> omega) | skip)
  case bool.simple n =>
    by_cases h20 : n = 20
    · simp [h20] at hview
    · by_cases h21 : n = 21
      · simp [h21] at hview
      · split at hacc <;> omega
  case int.uint t w n =>
    simp only [WItem.Valid, WItem.valid] at hv
    have := C05.int_accessor_overflow t w false n rest hv (by simp) hview
    simp only [C05.intHead, Bool.false_eq_true, if_false] at this
    simp only [Acc.run, encW] at h
    rw [this] at h; cases h
  case int.nint t w n =>
    simp only [WItem.Valid, WItem.valid] at hv
    rcases hacc with hacc | hacc
    · omega
    · have := C05.int_accessor_overflow t w true n rest hv (fun _ => hacc.1) (hview hacc.1)
      simp only [C05.intHead, if_true] at this
      simp only [Acc.run, encW] at h
      rw [this] at h; cases h
  case f32.f16 => simp [hview] at hacc
  case f64.f16 => simp [hview] at hacc
  case char.uint w n =>
    simp only [WItem.Valid, WItem.valid] at hv
    simp only [Acc.run, encW] at h
    exact char_reject w n rest hv (by intro hc; have := hview hc.1; simp [hc.2] at this) _ _ h
  case simple.simple n =>
    simp only [WItem.Valid, WItem.valid, Bool.or_eq_true, Bool.and_eq_true, decide_eq_true_eq] at hv
    split at hacc <;> omega

/-- **A — an accessor that does not match the shape returns an error, never a different value.**
    Whenever an accessor returns a value on a well-formed item (followed by anything), the item has
    a shape the accessor matches, the value is the one the data model assigns, and the position is
    exactly after what the accessor reads. -/
theorem accessor_rejects (a : Acc) (w : WItem) (hv : w.Valid) (rest : Bytes) (v : a.Out) (r : Bytes)
    (h : a.run (encW w ++ rest) = .ok v r) : view a w = some v ∧ r = after a w ++ rest := by
  cases hview : view a w with
  | none => exact absurd h (accessor_no_value a w hv hview rest v r)
  | some v' =>
    have := accessor_sound a w hv v' hview (after a w ++ rest)
    rw [← List.append_assoc, ← consumed_after] at this
    rw [this] at h
    injection h with h1 h2
    exact ⟨by rw [h1], h2.symm⟩

/-- both directions in one statement: success is characterised by `view`. -/
theorem accessor_ok_iff (a : Acc) (w : WItem) (hv : w.Valid) (rest : Bytes) (v : a.Out) (r : Bytes) :
    a.run (encW w ++ rest) = .ok v r ↔ (view a w = some v ∧ r = after a w ++ rest) := by
  constructor
  · exact accessor_rejects a w hv rest v r
  · intro ⟨hview, hr⟩
    have := accessor_sound a w hv v hview (after a w ++ rest)
    rw [← List.append_assoc, ← consumed_after] at this
    rw [this, hr]

/-- a non-matching accessor returns an error (it does not panic either). -/
theorem accessor_mismatch_err (a : Acc) (w : WItem) (hv : w.Valid) (hview : view a w = none) (rest : Bytes) :
    ∃ e r, a.run (encW w ++ rest) = .err e r := by
  cases h : a.run (encW w ++ rest) with
  | ok v r => exact absurd h (accessor_no_value a w hv hview rest v r)
  | err e r => exact ⟨e, r, rfl⟩
  | panic => exact absurd h (Acc.run_noPanic a _)

/-- **B — every strict prefix fails with the end-of-input class** (accessors).  For a matching
    accessor and every strict prefix `p` of the bytes it reads on `encW w`, the accessor reports end
    of input on `p`: never success, never another error class, never a panic. -/
theorem prefix_eoi (a : Acc) (w : WItem) (hv : w.Valid) (hm : Matches a w) (p q : Bytes)
    (hpq : consumed a w = p ++ q) (hq : q ≠ []) : ∃ r, a.run p = .err .eoi r := by
  obtain ⟨v, hview⟩ := Option.isSome_iff_exists.mp hm
  have h := accessor_sound a w hv v hview []
  rw [List.append_nil, hpq] at h
  exact (Acc.run_stable a).prefix_eoi_nil (Acc.run_noPanic a) h hq

/-- the same, phrased with `List.IsPrefix`. -/
theorem prefix_eoi' (a : Acc) (w : WItem) (hv : w.Valid) (hm : Matches a w) (p : Bytes)
    (hp : p <+: consumed a w) (hne : p ≠ consumed a w) : ∃ r, a.run p = .err .eoi r := by
  obtain ⟨q, hq⟩ := hp
  refine prefix_eoi a w hv hm p q hq.symm ?_
  intro e; subst e; simp at hq; exact hne hq

/-- … for the accessors that read the whole item, `consumed a w` is the whole encoding. -/
theorem prefix_eoi_item (a : Acc) (w : WItem) (hv : w.Valid) (hm : Matches a w) (hnil : after a w = [])
    (p q : Bytes) (hpq : encW w = p ++ q) (hq : q ≠ []) : ∃ r, a.run p = .err .eoi r := by
  refine prefix_eoi a w hv hm p q ?_ hq
  have := consumed_after a w
  rw [hnil, List.append_nil] at this
  rw [← this, hpq]

/-- more generally, whatever bytes an accessor succeeds on (well-formed or not): if it has read
    into `q`, it reports end of input on `p` alone. -/
theorem prefix_eoi_any (a : Acc) (p q : Bytes) (v : a.Out) (r : Bytes)
    (h : a.run (p ++ q) = .ok v r) (hr : r.length < q.length) : ∃ r', a.run p = .err .eoi r' :=
  (Acc.run_stable a).prefix_eoi (Acc.run_noPanic a) h hr


/-! ### non-vacuity -/

/-- a two-chunk indefinite text string `(_ "a", "é")`: `str_iter` yields the chunks, `str` (definite
    strings only), `bytes_iter` and `u8` do not match. -/
def sampleText : WItem := .textI [(.w0, [0x61]), (.w1, [0xc3, 0xa9])]

example :
    sampleText.Valid ∧ view .strIter sampleText = some [[0x61], [0xc3, 0xa9]] ∧ view .str sampleText = none ∧
      view .bytesIter sampleText = none ∧ view (.int .u8) sampleText = none ∧
      Dec.strIter (encW sampleText ++ [0x00]) = .ok [[0x61], [0xc3, 0xa9]] [0x00] ∧
      (∃ e r, Dec.str (encW sampleText ++ [0x00]) = .err e r) ∧
      (∃ r, Dec.strIter [0x7f, 0x61, 0x61, 0x78, 0x02, 0xc3] = .err .eoi r) := by
  have hv : sampleText.Valid := by decide
  refine ⟨hv, rfl, rfl, rfl, rfl, ?_, ?_, ?_⟩
  · exact accessor_sound .strIter sampleText hv _ rfl [0x00]
  · exact accessor_mismatch_err .str sampleText hv rfl [0x00]
  · exact prefix_eoi .strIter sampleText hv (by decide) _ [0xa9, 0xff] (by decide) (by decide)

/-- `-500` at width 8 (`3b 00…01f3`): an `i16`, not an `i8` (overflow) and not a `u16` (sign);
    cutting the nine-byte head anywhere gives end-of-input. -/
example :
    let w : WItem := .nint .w8 499
    w.Valid ∧ view (.int .i16) w = some (-500) ∧ view (.int .i8) w = none ∧ view (.int .u16) w = none ∧
      Matches (.int .i16) w ∧ (consumed (.int .i16) w).length = 9 := by
  refine ⟨by decide, by decide, by decide, by decide, by decide, by decide⟩

/-- `tag(2) h''`: `tag()` reads the three-byte head `d9 0002` and leaves the content. -/
example :
    let w : WItem := .tag .w2 2 (.bytes .w0 [])
    w.Valid ∧ view .tag w = some 2 ∧ consumed .tag w = [0xd9, 0x00, 0x02] ∧ after .tag w = [0x40] := by
  refine ⟨by decide, rfl, by decide, by decide⟩

end Minicbor.C04
