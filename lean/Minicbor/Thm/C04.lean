/-
  C04 — Typed decoding agrees with the RFC 8949 data model on every well-formed encoding.
  Property theorems only.  Part 1: the accessors of `Decoder`, on any valid wire tree of the
  matching shape (any head width, definite or indefinite), followed by arbitrary bytes.
-/
import Minicbor.Lemmas.Accessors
import Minicbor.Wire
import Minicbor.Info

namespace Minicbor.C04
open Dec

/-- `bytes()` on a definite byte string of any head width returns the payload. -/
theorem bytes_sound (w : Width) (b rest : Bytes) (h : w.fits b.length = true) :
    Dec.bytes (encW (.bytes w b) ++ rest) = .ok b rest := by
  have hl : b.length < 18446744073709551616 := by have := Width.fits_lt w _ h; omega
  simp only [encW, headW, List.cons_append, List.append_assoc]
  simp [Dec.bytes, Dec.bind_run, majorOf_head' 64 w _ (by decide) (by decide) h, infoOf_head_ne31' 64 w _ (by decide) (by decide) h,
    unsigned_info_head' 64 w _ _ (by decide) (by decide) h, u64ToUsize, Dec.readSlice_append, hl]

/-- `str()` on a definite text string with valid UTF-8 returns the text. -/
theorem str_sound (w : Width) (b rest : Bytes) (h : w.fits b.length = true) (hu : validUtf8 b = true) :
    Dec.str (encW (.text w b) ++ rest) = .ok b rest := by
  have hl : b.length < 18446744073709551616 := by have := Width.fits_lt w _ h; omega
  simp only [encW, headW, List.cons_append, List.append_assoc]
  simp [Dec.str, Dec.bind_run, majorOf_head' 96 w _ (by decide) (by decide) h, infoOf_head_ne31' 96 w _ (by decide) (by decide) h,
    unsigned_info_head' 96 w _ _ (by decide) (by decide) h, u64ToUsize, Dec.readSlice_append, hu, hl]

/-- invalid UTF-8 is rejected, never returned. -/
theorem str_invalid_utf8 (w : Width) (b rest : Bytes) (h : w.fits b.length = true) (hu : validUtf8 b = false) :
    Dec.str (encW (.text w b) ++ rest) = .err .utf8 rest := by
  have hl : b.length < 18446744073709551616 := by have := Width.fits_lt w _ h; omega
  simp only [encW, headW, List.cons_append, List.append_assoc]
  simp [Dec.str, Dec.bind_run, majorOf_head' 96 w _ (by decide) (by decide) h, infoOf_head_ne31' 96 w _ (by decide) (by decide) h,
    unsigned_info_head' 96 w _ _ (by decide) (by decide) h, u64ToUsize, Dec.readSlice_append, hu, hl]

/-- `array()` / `map()` / `tag()` on a definite head return the argument … -/
theorem array_sound (w : Width) (n : Nat) (rest : Bytes) (h : w.fits n = true) :
    Dec.array (headW 4 w n ++ rest) = .ok (some n) rest := by
  simp only [headW, List.cons_append]
  simp [Dec.array, Dec.container, Dec.bind_run, majorOf_head' 128 w _ (by decide) (by decide) h,
    infoOf_head_ne31' 128 w _ (by decide) (by decide) h, unsigned_info_head' 128 w _ _ (by decide) (by decide) h]

theorem map_sound (w : Width) (n : Nat) (rest : Bytes) (h : w.fits n = true) :
    Dec.map (headW 5 w n ++ rest) = .ok (some n) rest := by
  simp only [headW, List.cons_append]
  simp [Dec.map, Dec.container, Dec.bind_run, majorOf_head' 160 w _ (by decide) (by decide) h,
    infoOf_head_ne31' 160 w _ (by decide) (by decide) h, unsigned_info_head' 160 w _ _ (by decide) (by decide) h]

theorem tag_sound (w : Width) (n : Nat) (rest : Bytes) (h : w.fits n = true) :
    Dec.tag (headW 6 w n ++ rest) = .ok n rest := by
  simp only [headW, List.cons_append]
  simp [Dec.tag, Dec.bind_run, majorOf_head' 192 w _ (by decide) (by decide) h, unsigned_info_head' 192 w _ _ (by decide) (by decide) h]

/-- … and on the indefinite marker they report "no length". -/
theorem array_indef (rest : Bytes) : Dec.array (0x9f :: rest) = .ok none rest := by
  simp [Dec.array, Dec.container, Dec.bind_run, majorOf, infoOf, u8_31]
theorem map_indef (rest : Bytes) : Dec.map (0xbf :: rest) = .ok none rest := by
  simp [Dec.map, Dec.container, Dec.bind_run, majorOf, infoOf, u8_31]


/-- `bool()`, `null()`, `undefined()` on the four special simple values. -/
theorem bool_sound (b : Bool) (rest : Bytes) :
    Dec.bool (encW (.simple (if b then 21 else 20)) ++ rest) = .ok b rest := by
  cases b <;> simp [encW, Dec.bool, Dec.bind_run, u8_eq_iff]
theorem null_sound (rest : Bytes) : Dec.null (encW (.simple 22) ++ rest) = .ok () rest := by
  simp [encW, Dec.null, Dec.bind_run, u8_eq_iff]
theorem undefined_sound (rest : Bytes) : Dec.undefined (encW (.simple 23) ++ rest) = .ok () rest := by
  simp [encW, Dec.undefined, Dec.bind_run, u8_eq_iff]

/-- `simple()` on every valid simple value other than false/true/null/undefined. -/
theorem simple_sound (n : Nat) (rest : Bytes) (h : n < 20 ∨ (32 ≤ n ∧ n < 256)) :
    Dec.simple (encW (.simple n) ++ rest) = .ok n rest := by
  rcases h with h | ⟨h1, h2⟩
  · have h24 : n < 24 := by omega
    have e1 : (224 + n) % 256 = 224 + n := by omega
    have e2 : 224 + n ≤ 243 := by omega
    simp [encW, h24, Dec.simple, Dec.bind_run, e1, e2]
  · have h24 : ¬ n < 24 := by omega
    have e1 : n % 256 = n := by omega
    simp [encW, h24, Dec.simple, Dec.bind_run, e1]

/-- one definite chunk inside an indefinite string is read by `bytes()` / `str()`; its first
    byte is not the break byte. -/
theorem chunk_first_ne_break (maj : Nat) (w : Width) (n : Nat) (hm : maj < 7) (h : w.fits n = true) :
    u8 (maj * 32 + w.ai n) ≠ 0xff := by
  have := Width.ai_le w n h
  intro hc
  have h1 := congrArg UInt8.toNat hc
  rw [u8_toNat_mod] at h1
  have : (0xff : UInt8).toNat = 255 := rfl
  omega

/-- the chunk loop over well-formed chunks returns exactly the chunks and stops after the break. -/
theorem chunkLoop_bytes (cs : List (Width × Bytes)) (rest : Bytes) (hv : chunksValid false cs = true)
    (fuel : Nat) (hf : cs.length < fuel) :
    chunkLoop false fuel (encChunks 2 cs ++ 0xff :: rest) = .ok (cs.map (·.2)) rest := by
  induction cs generalizing fuel with
  | nil =>
    cases fuel with
    | zero => omega
    | succ f => simp [chunkLoop, encChunks, Dec.bind_run]
  | cons c cs ih =>
    obtain ⟨w, b⟩ := c
    cases fuel with
    | zero => omega
    | succ f =>
      simp only [chunksValid, Bool.and_eq_true] at hv
      obtain ⟨⟨hfit, _⟩, hrest⟩ := hv
      have hne := chunk_first_ne_break 2 w b.length (by omega) hfit
      have hb := bytes_sound w b (encChunks 2 cs ++ 0xff :: rest) hfit
      simp only [encW, headW, List.cons_append, List.append_assoc] at hb
      simp only [encChunks, headW, List.cons_append, List.append_assoc, chunkLoop]
      have hne' : ¬ (u8 (64 + w.ai b.length) = 255) := by simpa using hne
      simp only [Nat.reduceMul] at hb
      simp [Dec.bind_run, hne', hb, ih hrest f (by simpa using hf)]

theorem chunkLoop_text (cs : List (Width × Bytes)) (rest : Bytes) (hv : chunksValid true cs = true)
    (fuel : Nat) (hf : cs.length < fuel) :
    chunkLoop true fuel (encChunks 3 cs ++ 0xff :: rest) = .ok (cs.map (·.2)) rest := by
  induction cs generalizing fuel with
  | nil =>
    cases fuel with
    | zero => omega
    | succ f => simp [chunkLoop, encChunks, Dec.bind_run]
  | cons c cs ih =>
    obtain ⟨w, b⟩ := c
    cases fuel with
    | zero => omega
    | succ f =>
      simp only [chunksValid, Bool.and_eq_true, Bool.not_true, Bool.false_or] at hv
      obtain ⟨⟨hfit, hu⟩, hrest⟩ := hv
      have hne := chunk_first_ne_break 3 w b.length (by omega) hfit
      have hb := str_sound w b (encChunks 3 cs ++ 0xff :: rest) hfit hu
      simp only [encW, headW, List.cons_append, List.append_assoc] at hb
      simp only [encChunks, headW, List.cons_append, List.append_assoc, chunkLoop]
      have hne' : ¬ (u8 (96 + w.ai b.length) = 255) := by simpa using hne
      simp only [Nat.reduceMul] at hb
      simp [Dec.bind_run, hne', hb, ih hrest f (by simpa using hf)]

theorem encChunks_length_ge (maj : Nat) (cs : List (Width × Bytes)) : cs.length ≤ (encChunks maj cs).length := by
  induction cs with
  | nil => simp [encChunks]
  | cons c cs ih => obtain ⟨w, b⟩ := c; simp [encChunks, headW]; omega

theorem joinChunks_eq (cs : List (Width × Bytes)) : joinChunks cs = (cs.map (·.2)).flatten := by
  induction cs with
  | nil => rfl
  | cons c cs ih => obtain ⟨w, b⟩ := c; simp [joinChunks, ih]

/-- **chunks concatenate to the whole**: the byte-string iterator on an indefinite-length byte
    string yields the chunks, whose concatenation is the data-model value of the item. -/
theorem bytes_iter_indef (cs : List (Width × Bytes)) (rest : Bytes) (hv : (WItem.bytesI cs).Valid) :
    ∃ chunks, Dec.bytesIter (encW (.bytesI cs) ++ rest) = .ok chunks rest ∧
      value (.bytesI cs) = .bytes chunks.flatten := by
  refine ⟨cs.map (·.2), ?_, ?_⟩
  · simp only [WItem.Valid, WItem.valid] at hv
    simp only [encW, List.cons_append, List.append_assoc, List.singleton_append]
    have hl := encChunks_length_ge 2 cs
    simp [Dec.bytesIter, Dec.stringIter, Dec.bind_run, majorOf, infoOf, u8_31, Dec.remaining]
    refine chunkLoop_bytes cs rest hv _ ?_
    omega
  · simp only [value, joinChunks_eq]

theorem str_iter_indef (cs : List (Width × Bytes)) (rest : Bytes) (hv : (WItem.textI cs).Valid) :
    ∃ chunks, Dec.strIter (encW (.textI cs) ++ rest) = .ok chunks rest ∧
      value (.textI cs) = .text chunks.flatten := by
  refine ⟨cs.map (·.2), ?_, ?_⟩
  · simp only [WItem.Valid, WItem.valid] at hv
    simp only [encW, List.cons_append, List.append_assoc, List.singleton_append]
    have hl := encChunks_length_ge 3 cs
    simp [Dec.strIter, Dec.stringIter, Dec.bind_run, majorOf, infoOf, u8_31, Dec.remaining]
    refine chunkLoop_text cs rest hv _ ?_
    omega
  · simp only [value, joinChunks_eq]


/-! ### size introspection (`decode::info::Size`) -/

/-- `Size::head` on the first byte of any definite head gives the head length … -/
theorem size_head_sound (maj : Nat) (w : Width) (n : Nat) (hm : maj < 8) (h : w.fits n = true) :
    Size.headLen (u8 (maj * 32 + w.ai n)) = .ok (headW maj w n).length := by
  have hb := headByte_toNat maj w n hm h
  have hai := Width.ai_le w n h
  simp only [Size.headLen, hb, headW, List.length_cons, be_length]
  have e1 : (maj * 32 + w.ai n) % 32 = w.ai n := by omega
  rw [e1]
  cases w <;> simp [Width.ai, Width.bytes, Width.fits] at * <;> omega

/-- … and `Size::tail` on the head classifies the item and returns its length / count. -/
theorem size_tail_sound (maj : Nat) (w : Width) (n : Nat) (hm : maj < 8) (h : w.fits n = true) :
    Size.tail (headW maj w n) =
      .ok (if maj = 2 ∨ maj = 3 then .bytes n else if maj = 4 ∨ maj = 5 then .items n else .head) := by
  have hb := headByte_toNat maj w n hm h
  have hai := Width.ai_le w n h
  have hmaj : (maj * 32 + w.ai n) / 32 = maj := by omega
  have hne := infoOf_head_ne31 maj w n hm h
  have hu := unsigned_info_head maj w n [] hm h
  simp only [List.append_nil] at hu
  simp only [Size.tail, headW, hb, hmaj]
  have : maj = 0 ∨ maj = 1 ∨ maj = 2 ∨ maj = 3 ∨ maj = 4 ∨ maj = 5 ∨ maj = 6 ∨ maj = 7 := by omega
  rcases this with rfl | rfl | rfl | rfl | rfl | rfl | rfl | rfl <;> simp [hne, hu]

end Minicbor.C04
