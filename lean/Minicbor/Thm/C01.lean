/-
  C01 — Value round-trip for every built-in codec type.  Property theorems only.
  (placeholder: a concrete evaluation; the general theorems are being added)
-/
import Minicbor.Types

namespace Minicbor.C01

/-- a concrete nested value round-trips (a test, not the general claim). -/
theorem roundtrip_example :
    (encodeT (.seq (.opt (.int .u8))) (.list [.some (.int 1), .none, .some (.int 200)])).map
      (fun bs => match decodeT (.seq (.opt (.int .u8))) (bs ++ [0x01]) with
        | .ok _ r => r | _ => []) = some [0x01] := by
  decide

end Minicbor.C01
