/-
  C01 — Value round-trip for every built-in codec type.  Property theorems only.

  `encodeT` / `decodeT` (Types.lean) are the models of the built-in `Encode` / `Decode` impls,
  one `Ty` constructor per codec shape (docs/TYPES_PROTOCOL.md maps ≈100 concrete Rust
  instantiations onto them); the correspondence check ties them to the real impls.

  Side conditions of `roundtrip`, all decidable:
  * `t.WF`        — the type-level constants fit their Rust types (`Tagged<N, _>`: `N < 2^64`; the
                    `u32` variant index of `[index, payload]` enums).  True of every Rust type.
  * `t.NoOptOpt`  — no `Option` directly inside an `Option` anywhere in the type: the property's
                    stated exclusion.  `optopt_lossy` shows the exclusion is necessary.
  * `bs.length < 2^64` — the encoding fits in the address space (it bounds every length that is
                    written into a head).  True of every `Vec<u8>`.
  The decoder does not normalise anything the encoder accepts (`Duration` nanos are `< 10^9`
  already, floats are read back bit for bit), so `canon` of the design is the identity and the
  decoded value is `v` itself.  Unordered collections are modelled as the list of elements in
  iteration order: reading back the same list is in particular multiset equality.
-/
import Minicbor.Lemmas.TypesRoundtrip

namespace Minicbor.C01

/-- **C01.**  For every built-in codec type `t` and every value `v` the encoder accepts: decoding
    the produced bytes — followed by anything — as the same type succeeds, returns `v`
    (floats bitwise: `Val.float` carries the bit pattern, NaN payloads included) and stops exactly
    where the encoding ends. -/
theorem roundtrip (t : Ty) (v : Val) (bs rest : Bytes)
    (hwf : t.WF = true) (hno : t.NoOptOpt = true)
    (henc : encodeT t v = some bs) (hlen : bs.length < 2 ^ 64) :
    decodeT t (bs ++ rest) = .ok v rest :=
  roundtrip_all.1 t v bs henc hwf hno (by simpa [U64] using hlen) rest

/-- decoding the encoding alone consumes all of it. -/
theorem roundtrip_exact (t : Ty) (v : Val) (bs : Bytes)
    (hwf : t.WF = true) (hno : t.NoOptOpt = true)
    (henc : encodeT t v = some bs) (hlen : bs.length < 2 ^ 64) :
    decodeT t bs = .ok v [] := by
  simpa using roundtrip t v bs [] hwf hno henc hlen

/-- **position**: the decoder consumes exactly the bytes that were produced
    (`Decoder::position()` afterwards = input length − remaining = `bs.length`). -/
theorem roundtrip_position (t : Ty) (v : Val) (bs rest : Bytes)
    (hwf : t.WF = true) (hno : t.NoOptOpt = true)
    (henc : encodeT t v = some bs) (hlen : bs.length < 2 ^ 64) :
    ∃ r, decodeT t (bs ++ rest) = .ok v r ∧ (bs ++ rest).length - r.length = bs.length :=
  ⟨rest, roundtrip t v bs rest hwf hno henc hlen, by simp⟩

/-- the sequence / tuple / map loops, for use by other properties: `n` encoded elements are read
    back by the count-driven loop. -/
theorem roundtrip_list (t : Ty) (vs : List Val) (bs rest : Bytes)
    (hwf : t.WF = true) (hno : t.NoOptOpt = true)
    (henc : encodeList t vs = some bs) (hlen : bs.length < 2 ^ 64) :
    Dec.repeatN (decodeT t) vs.length (bs ++ rest) = .ok vs rest :=
  roundtrip_all.2.2.2 t vs bs henc hwf hno (by simpa [U64] using hlen) rest

/-- the exclusion is necessary: `Some(None) : Option<Option<u8>>` is written as `f6` and read back
    as `None`. -/
theorem optopt_lossy :
    encodeT (.opt (.opt (.int .u8))) (.some .none) = some [0xf6] ∧
    decodeT (.opt (.opt (.int .u8))) [0xf6] = .ok .none [] ∧
    (Ty.opt (.opt (.int .u8))).NoOptOpt = false :=
  ⟨by decide, rfl, by decide⟩

/-- … for every payload type: `Some(None) : Option<Option<T>>` always reads back as `None`. -/
theorem optopt_lossy_general (t : Ty) (rest : Bytes) :
    encodeT (.opt (.opt t)) (.some .none) = some Enc.null ∧
    decodeT (.opt (.opt t)) (Enc.null ++ rest) = .ok .none rest := by
  refine ⟨by simp [encodeT], ?_⟩
  rw [decodeT]
  simp [Dec.bind_run, datatype_null, skip_null rest]

/-- the value space is not artificially narrowed: a nested
    `BTreeMap<String, Vec<Option<(u8, Tagged<5, &str>)>>>` value satisfies every hypothesis. -/
example :
    let t : Ty := .map .str (.seq (.opt (.tup [.int .u8, .tagged 5 .str])))
    let v : Val := .map [.str [0x61], .list [.some (.list [.int 200, .tagged (.str [0x62, 0x63])]), .none],
                         .str [0xc3, 0xa9], .list []]
    t.WF = true ∧ t.NoOptOpt = true ∧
      ∃ bs, encodeT t v = some bs ∧ bs.length < 2 ^ 64 ∧ decodeT t (bs ++ [0xff]) = .ok v [0xff] := by
  refine ⟨by decide, by decide, [0xa2, 0x61, 0x61, 0x82, 0x82, 0x18, 0xc8, 0xc5, 0x62, 0x62, 0x63, 0xf6,
    0x62, 0xc3, 0xa9, 0x80], by decide, by decide, ?_⟩
  exact roundtrip _ _ _ _ (by decide) (by decide) (by decide) (by decide)

end Minicbor.C01
