/-
  Bridge between the two derive models: the attribute front end (Attrs.lean: what is written) and
  the schema model of the generated code (Derive.lean: `FAttr`, `Codec`), for exactly the
  spellings the correspondence generator (verifkit/derivegen.py, `Emitter.field_attrs`) writes.
  Every schema field of the generated corpus is spelled in one of these ways, so the bytes / values
  the C07–C10 streams compare are those of the schema the front end really produces.
-/
import Minicbor.Thm.Attrs
import Minicbor.Derive

namespace Minicbor.Attrs

def bytesMod : Path := ["minicbor", "bytes"]
def niluMod : Path := ["crate", "nilu"]

/-- the codec class of the schema model that a front-end meaning denotes (none: a combination of
    functions the schema model does not have). -/
def codecClass (f : FieldSem) : Option Derive.Codec :=
  if f.encode = none ∧ f.isNil = none ∧ f.decode = none ∧ f.nil = none ∧ f.cborLen = none then some .dflt
  else if f.encode = some (bytesMod ++ ["encode"]) ∧ f.isNil = none ∧ f.decode = some (bytesMod ++ ["decode"]) ∧ f.nil = none
          ∧ f.cborLen = some (bytesMod ++ ["cbor_len"]) then some .bytes
  else if f.encode = some (niluMod ++ ["encode"]) ∧ f.isNil = some (niluMod ++ ["is_nil"]) ∧ f.decode = some (niluMod ++ ["decode"])
          ∧ f.nil = some (niluMod ++ ["nil"]) ∧ f.cborLen = some (niluMod ++ ["cbor_len"]) then some .nilu
  else none

def toFAttr (f : FieldSem) : Option Derive.FAttr :=
  (codecClass f).map fun c => { idx := f.idx, isB := f.isB, tag := f.tag, codec := c, skip := f.skip }

def schemaOf (attrs : List Attr) : Except Err (Option Derive.FAttr) :=
  match fieldMeaning attrs with
  | .error e => .error e
  | .ok f => .ok (toFAttr f)

def idxAttr (isB : Bool) (i : Nat) : Attr := if isB then .b i else .n i
def idxItem (isB : Bool) (i : Nat) : Item := if isB then .b i else .n i
def tagItems (t : Option Nat) : List Item := (t.map Item.tag).toList

macro "eval_bridge" : tactic => `(tactic|
  simp [*, schemaOf, toFAttr, codecClass, bytesMod, niluMod, idxAttr, idxItem, tagItems, fieldMeaning, fromAttrs, mergeAttrs, ofAttr, insertItems, Item.toVal, parseIdx, tryInsert, allowed, Val.kind, isCluster,
      insertCl, insertRs, insertAll, Order.canonical, A.entries, A.codec, A.encoding, A.index, A.indexOnly, A.transparent, A.typeParam,
      A.nil, A.isNil, A.hasNil, A.contextBound, A.cborLen, A.tag, A.skip, finalChecks, A.len, o2n, b2n, fieldSem, CC.isModule,
      CC.encodePath, CC.decodePath, CC.isNilPath, CC.nilPath, CC.cborLenPath, A.cborLenFn, U32, U64])

/-- default codec, styles 0/1 (`#[n(i)]` + optional `#[cbor(tag(t))]`) and 2/3 (`#[cbor(n(i), tag(t))]`). -/
theorem bridge_default (isB : Bool) (i : Nat) (hi : i < 4294967296) (t : Option Nat) (ht : ∀ x, t = some x → x < 18446744073709551616) :
    schemaOf ([idxAttr isB i] ++ (if (tagItems t).isEmpty then [] else [.cbor (tagItems t)])) = .ok (some { idx := i, isB := isB, tag := t, codec := .dflt }) ∧
    schemaOf [.cbor (idxItem isB i :: tagItems t)] = .ok (some { idx := i, isB := isB, tag := t, codec := .dflt }) := by
  cases isB <;> cases t with
  | none => constructor <;> eval_bridge
  | some x => have := ht x rfl; constructor <;> eval_bridge

/-- `with = "minicbor::bytes"` and its three-function spelling. -/
theorem bridge_bytes (isB : Bool) (i : Nat) (hi : i < 4294967296) (t : Option Nat) (ht : ∀ x, t = some x → x < 18446744073709551616) :
    schemaOf [idxAttr isB i, .cbor (tagItems t ++ [.with_ bytesMod])] = .ok (some { idx := i, isB := isB, tag := t, codec := .bytes }) ∧
    schemaOf [idxAttr isB i, .cbor (tagItems t ++ [.encodeWith (bytesMod ++ ["encode"]), .decodeWith (bytesMod ++ ["decode"]), .cborLen (bytesMod ++ ["cbor_len"])])]
      = .ok (some { idx := i, isB := isB, tag := t, codec := .bytes }) ∧
    schemaOf [.cbor (idxItem isB i :: tagItems t ++ [.with_ bytesMod])] = .ok (some { idx := i, isB := isB, tag := t, codec := .bytes }) := by
  cases isB <;> cases t with
  | none => refine ⟨?_, ?_, ?_⟩ <;> eval_bridge
  | some x => have := ht x rfl; refine ⟨?_, ?_, ?_⟩ <;> eval_bridge

/-- the nil-aware codec: `with = "crate::nilu", has_nil` and the five-function spelling in the generator's order. -/
theorem bridge_nilu (isB : Bool) (i : Nat) (hi : i < 4294967296) (t : Option Nat) (ht : ∀ x, t = some x → x < 18446744073709551616) :
    schemaOf [idxAttr isB i, .cbor (tagItems t ++ [.with_ niluMod, .hasNil])] = .ok (some { idx := i, isB := isB, tag := t, codec := .nilu }) ∧
    schemaOf [idxAttr isB i, .cbor (tagItems t ++ [.encodeWith (niluMod ++ ["encode"]), .isNil (niluMod ++ ["is_nil"]), .decodeWith (niluMod ++ ["decode"]),
                                                    .nil (niluMod ++ ["nil"]), .cborLen (niluMod ++ ["cbor_len"])])]
      = .ok (some { idx := i, isB := isB, tag := t, codec := .nilu }) := by
  cases isB <;> cases t with
  | none => refine ⟨?_, ?_⟩ <;> eval_bridge
  | some x => have := ht x rfl; refine ⟨?_, ?_⟩ <;> eval_bridge

/-- `#[cbor(skip)]`: the schema's skipped field (its index and tag are never read). -/
theorem bridge_skip : schemaOf [.cbor [.skip]] = .ok (some { idx := 4294967295, skip := true }) := by
  eval_bridge

/-- a combination outside the schema model is recognised as such (no silent mapping). -/
theorem bridge_outside (e : Path) (h : e ≠ bytesMod ++ ["encode"]) (h' : e ≠ niluMod ++ ["encode"]) :
    schemaOf [.n 0, .cbor [.encodeWith e]] = .ok none := by
  eval_bridge

end Minicbor.Attrs
