/-
  C02 — Decoding untrusted bytes is total: no panic, no hang (every local loop fuel is
  adequate), the position stays inside the buffer and only moves forward, and what is built
  (values, chunks, tokens) is paid for by consumed input bytes, whatever lengths the input
  declares.  Property theorems only; the proofs live in Lemmas/Total*.lean.

  Every theorem is about ARBITRARY remaining input `bs : Bytes` (no well-formedness assumption).
  Conventions of the model (DESIGN.md §3): every Rust operation that could panic is an explicit
  `Res.panic`; loops without a count take a local fuel and exhausting it is `Res.panic`, so
  `NoPanic` includes "the fuel always suffices" = termination with ≤ remaining+1 iterations.

  How the clauses of the property map to theorems:
  * never panics ............ `no_panic_accessors`, `no_panic_decodeT`, `no_panic_token(s)`,
                              `no_panic_iterators`; sensitivity to the F1 repair:
                              `no_panic_counterexample_prefix_duration`
  * no hang / work .......... `fuel_adequate`, `fuel_adequate_fields` (each fuelled loop runs at most
                              `remaining + 1` iterations), `fuel_irrelevant` (the fuel changes no result),
                              `work_indep_of_declared_count` / `repeatN_ok_count` (count-driven loops are
                              cut off by the input, not by the declared count), `decodeT_consumes`
                              (≥ 1 byte per decoded element); and with an explicit step count
                              (`Dec.Cost`, an upper-bound semantics over the model's own program text):
                              `work_linear_accessors`, `work_linear_skip` (≤ 42·(consumed+1) steps),
                              `work_linear_decodeT` (≤ workK t·(consumed+1), `workK t` type-dependent),
                              `work_linear_tokens` (≤ 7·len + 6).  `skip`'s stack bound is C06
                              (`skip_stack_le_consumed`).
  * position ................ `suffix_*` (`Dec.Suffix`), `pos_in_bounds`, `pos_monotone`, `pos_token`,
                              `pos_skip`, `pos_stuck_past_end*`
  * memory .................. `alloc_linear_decodeT`, `alloc_linear_stringIter`, `alloc_linear_bytes`,
                              `alloc_linear_tokens`
  * dropped exactly once .... `arrayvec_drops_once`, `arrayvec_each_once` (bookkeeping model of
                              `ArrayVec<T, N>` in Minicbor/ArrayVec.lean; memory safety of the
                              `unsafe` blocks themselves is outside the model)
  Not modelled anywhere (hence no theorem here): `decode::info::Size` introspection; `probe` and
  `set_position` are `drop`/re-run in the driver, covered by `pos_stuck_past_end` for p ≥ len.
-/
import Minicbor.Lemmas.TotalTok
import Minicbor.Lemmas.TotalWorkTok
import Minicbor.Lemmas.TotalArrayVec

namespace Minicbor.C02
open Dec

/-- `P` holds for every accessor of `Decoder` (decoder.rs) and for `skip` in both builds. -/
structure Accessors (P : ∀ {α : Type}, Dec α → Prop) : Prop where
  bool      : P Dec.bool
  int       : ∀ t, P (Dec.intAcc t)        -- u8 u16 u32 u64 i8 i16 i32 i64 int
  f16       : P Dec.f16
  f32       : ∀ half, P (Dec.f32 half)
  f64       : ∀ half, P (Dec.f64 half)
  char      : P Dec.char
  bytes     : P Dec.bytes
  str       : P Dec.str
  bytesIter : P Dec.bytesIter              -- drained
  strIter   : P Dec.strIter                -- drained
  array     : P Dec.array
  map       : P Dec.map
  tag       : P Dec.tag
  null      : P Dec.null
  undefined : P Dec.undefined
  simple    : P Dec.simple
  datatype  : P Dec.datatype
  skip      : ∀ alloc, P (Dec.skip alloc)  -- `alloc` and no-`alloc` build

/-- the remaining input after a call, whatever the outcome (`none` = panic). -/
def restOf : Res α → Option Bytes
  | .ok _ r => some r
  | .err _ r => some r
  | .panic => none

/-! ## no panic -/

/-- no accessor panics on any input (for `bytes_iter`/`str_iter`/`skip` this includes: the loop
    fuel `remaining + 1` / `remaining + 2` is never exhausted). -/
theorem no_panic_accessors : Accessors @NoPanic :=
  { bool := NoPanic.bool, int := NoPanic.intAcc, f16 := NoPanic.f16, f32 := NoPanic.f32, f64 := NoPanic.f64
    char := NoPanic.char, bytes := NoPanic.bytes, str := NoPanic.str
    bytesIter := NoPanic.bytesIter, strIter := NoPanic.strIter
    array := NoPanic.array, map := NoPanic.map, tag := NoPanic.tag, null := NoPanic.null
    undefined := NoPanic.undefined, simple := NoPanic.simple, datatype := NoPanic.datatype
    skip := NoPanic.skip }

/-- the internal head-argument reader (`Decoder::unsigned`) and `type_of` never panic either. -/
theorem no_panic_unsigned (b : UInt8) : NoPanic (Dec.unsigned b) ∧ NoPanic (Dec.typeOf b) :=
  ⟨NoPanic.unsigned b, NoPanic.typeOf b⟩

/-- spelled out: for every byte string the call returns `ok` or `err`. -/
theorem no_panic_accessors_pointwise (bs : Bytes) :
    Dec.bool bs ≠ .panic ∧ (∀ t, Dec.intAcc t bs ≠ .panic) ∧ Dec.bytes bs ≠ .panic ∧ Dec.str bs ≠ .panic ∧
    Dec.bytesIter bs ≠ .panic ∧ Dec.strIter bs ≠ .panic ∧ Dec.datatype bs ≠ .panic ∧
    Dec.skip true bs ≠ .panic ∧ Dec.skip false bs ≠ .panic :=
  ⟨NoPanic.bool bs, fun t => NoPanic.intAcc t bs, NoPanic.bytes bs, NoPanic.str bs, NoPanic.bytesIter bs,
   NoPanic.strIter bs, NoPanic.datatype bs, NoPanic.skip true bs, NoPanic.skip false bs⟩

/-- `decode::<T>` never panics, for every type descriptor `t` (arbitrarily nested) and every
    input.  Covers the `Duration`/`SystemTime` carry (commit e7da71d: checked, a decode error),
    the dead `| _ => panic` arm after `decode_fields!`, and the adequacy of the local fuel of every
    indefinite-length loop met on the way. -/
theorem no_panic_decodeT (t : Ty) : NoPanic (decodeT t) := decodeT_noPanic t

theorem no_panic_decodeT_pointwise (t : Ty) (bs : Bytes) : decodeT t bs ≠ .panic := decodeT_noPanic t bs

/-- what makes the fuels adequate: a successful decode of any type consumes at least one byte. -/
theorem decodeT_consumes (t : Ty) (bs : Bytes) (v : Val) (r : Bytes) (h : decodeT t bs = .ok v r) :
    r.length + 1 ≤ bs.length := Consumes.decodeT t bs v r h

/-- fuel adequacy, generically: for ANY element decoder that never panics and consumes at least
    one byte per success, each fuelled loop with fuel > remaining never runs dry.  (These are the
    termination statements: at most `remaining + 1` iterations.) -/
theorem fuel_adequate {α : Type} {m : Dec α} (hm : NoPanic m) (hc : Consumes m 1) (bs : Bytes) (fuel : Nat)
    (h : bs.length < fuel) :
    Dec.untilBreak m fuel bs ≠ .panic ∧ (∀ n k, Dec.arrayNIndef m n fuel k bs ≠ .panic) ∧
    Dec.skipUntilBreak fuel bs ≠ .panic ∧ (∀ text, Dec.chunkLoop text fuel bs ≠ .panic) ∧
    (∀ alloc s, Dec.skipLoop alloc fuel s bs ≠ .panic) ∧ tokenize fuel bs ≠ none :=
  ⟨untilBreak_ne_panic hm hc fuel bs h, fun n k => arrayNIndef_ne_panic hm hc n fuel k bs h,
   skipUntilBreak_ne_panic fuel bs h, fun text => chunkLoop_ne_panic text fuel bs h,
   fun alloc s => skipLoop_ne_panic alloc fuel s bs h, tokenize_ne_none fuel bs h⟩

/-- the fuel is only a proof device: every fuelled loop returns the same result for ANY fuel above
    the remaining length, so the model's choice (`remaining + 1`, `+ 2` for `skip`) influences no
    outcome, and each loop body runs at most `remaining + 1` times. -/
theorem fuel_irrelevant {α : Type} {m : Dec α} (hc : Consumes m 1) (bs : Bytes) (f1 f2 : Nat)
    (h1 : bs.length < f1) (h2 : bs.length < f2) :
    Dec.untilBreak m f1 bs = Dec.untilBreak m f2 bs ∧
    (∀ n k, Dec.arrayNIndef m n f1 k bs = Dec.arrayNIndef m n f2 k bs) ∧
    Dec.skipUntilBreak f1 bs = Dec.skipUntilBreak f2 bs ∧
    (∀ text, Dec.chunkLoop text f1 bs = Dec.chunkLoop text f2 bs) ∧
    (∀ alloc s, Dec.skipLoop alloc f1 s bs = Dec.skipLoop alloc f2 s bs) ∧
    tokenize f1 bs = tokenize f2 bs :=
  ⟨untilBreak_fuel hc f1 f2 bs h1 h2, fun n k => arrayNIndef_fuel hc n f1 f2 k bs h1 h2,
   skipUntilBreak_fuel f1 f2 bs h1 h2, fun text => chunkLoop_fuel text f1 f2 bs h1 h2,
   fun alloc s => skipLoop_fuel alloc f1 f2 s bs h1 h2, tokenize_fuel f1 f2 bs h1 h2⟩

theorem fuel_adequate_fields {α : Type} {ms : List (Dec α)} (h : ∀ m ∈ ms, NoPanic m)
    (hs : ∀ m ∈ ms, Consumes m 0) (bs : Bytes) (fuel : Nat) (hf : bs.length < fuel) :
    Dec.fieldsIndef ms fuel bs ≠ .panic := fieldsIndef_ne_panic h hs fuel bs hf

/-- the iterator combinators over an arbitrary well-behaved element decoder never panic. -/
theorem no_panic_iterators {α : Type} {m : Dec α} (hm : NoPanic m) (hc : Consumes m 1) :
    NoPanic (Dec.arrayIter m) ∧ NoPanic (Dec.mapIter m m) ∧ ∀ n, NoPanic (Dec.arrayN m n) :=
  ⟨NoPanic.arrayIter hm hc, NoPanic.mapIter hm hm hc (hc.mono (Nat.zero_le _)), NoPanic.arrayN hm hc⟩

/-- the no-panic theorem is sensitive to the repair of finding F1: the pre-fix `Duration::decode`
    (`Duration::new` unchecked) panics on `82 1b ff×8 1a 3b9aca00`. -/
theorem no_panic_counterexample_prefix_duration :
    decodeDurationPreFix [0x82, 0x1b, 0xff, 0xff, 0xff, 0xff, 0xff, 0xff, 0xff, 0xff, 0x1a, 0x3b, 0x9a, 0xca, 0x00]
      = .panic := by
  have : restOf (decodeDurationPreFix
      [0x82, 0x1b, 0xff, 0xff, 0xff, 0xff, 0xff, 0xff, 0xff, 0xff, 0x1a, 0x3b, 0x9a, 0xca, 0x00]) = none := by decide
  revert this
  cases decodeDurationPreFix [0x82, 0x1b, 0xff, 0xff, 0xff, 0xff, 0xff, 0xff, 0xff, 0xff, 0x1a, 0x3b, 0x9a, 0xca, 0x00] <;>
    simp [restOf]

/-- `Token::decode` never panics; the `Tokenizer` iterator always terminates (`none` = fuel
    exhausted or panic). -/
theorem no_panic_token : NoPanic Dec.token := NoPanic.token

theorem no_panic_tokens (bs : Bytes) : tokens bs ≠ none :=
  tokenize_ne_none _ bs (Nat.lt_succ_self _)

/-! ## position in bounds, forward only -/

/-- after ANY outcome the remaining input is a suffix of the remaining input before. -/
theorem suffix_accessors : Accessors @Suffix :=
  { bool := Suffix.bool, int := Suffix.intAcc, f16 := Suffix.f16, f32 := Suffix.f32, f64 := Suffix.f64
    char := Suffix.char, bytes := Suffix.bytes, str := Suffix.str
    bytesIter := Suffix.bytesIter, strIter := Suffix.strIter
    array := Suffix.array, map := Suffix.map, tag := Suffix.tag, null := Suffix.null
    undefined := Suffix.undefined, simple := Suffix.simple, datatype := Suffix.datatype
    skip := Suffix.skip }

/-- the iterator combinators over any element decoder that respects the buffer. -/
theorem suffix_iterators {α : Type} {m : Dec α} (hm : Suffix m) :
    Suffix (Dec.arrayIter m) ∧ Suffix (Dec.mapIter m m) ∧ ∀ n, Suffix (Dec.arrayN m n) :=
  ⟨Suffix.arrayIter hm, Suffix.mapIter hm hm, Suffix.arrayN hm⟩

theorem suffix_decodeT (t : Ty) : Suffix (decodeT t) := decodeT_suffix t
theorem suffix_token : Suffix Dec.token := Suffix.token


/-- `Decoder::position()` when the decoder over `input` has `rest` left. -/
def posOf (input rest : Bytes) : Nat := input.length - rest.length

/-- In terms of positions: a decoder over `input`, standing at `posOf input bs` (so `bs` is the
    tail of `input` from there), after running a `Suffix` action stands at a position that is
    (a) a real position of the buffer (`r` is still a tail of `input`), (b) `≤ input.length`,
    (c) `≥` the position before. -/
theorem pos_of_suffix {α : Type} {m : Dec α} (hm : Suffix m) (input bs r : Bytes) (hbs : bs <:+ input)
    (h : restOf (m bs) = some r) :
    r <:+ input ∧ posOf input r ≤ input.length ∧ posOf input bs ≤ posOf input r := by
  have hr : r <:+ bs := by
    cases hmb : m bs with
    | ok a r' => rw [hmb] at h; cases h; exact (hm bs).1 a r hmb
    | err e r' => rw [hmb] at h; cases h; exact (hm bs).2 e r hmb
    | panic => rw [hmb] at h; cases h
  have h1 := hr.length_le
  have h2 := hbs.length_le
  exact ⟨hr.trans hbs, Nat.sub_le _ _, by unfold posOf; omega⟩

/-- the position never leaves the buffer … -/
theorem pos_in_bounds (t : Ty) (input bs r : Bytes) (hbs : bs <:+ input) (h : restOf (decodeT t bs) = some r) :
    r <:+ input ∧ posOf input r ≤ input.length :=
  let ⟨a, b, _⟩ := pos_of_suffix (decodeT_suffix t) input bs r hbs h; ⟨a, b⟩

/-- … and never moves backwards (also when decoding fails part-way). -/
theorem pos_monotone (t : Ty) (input bs r : Bytes) (hbs : bs <:+ input) (h : restOf (decodeT t bs) = some r) :
    posOf input bs ≤ posOf input r :=
  (pos_of_suffix (decodeT_suffix t) input bs r hbs h).2.2

/-- the same for `Token::decode` and, via `suffix_accessors`, for every accessor and `skip`. -/
theorem pos_token (input bs r : Bytes) (hbs : bs <:+ input) (h : restOf (Dec.token bs) = some r) :
    r <:+ input ∧ posOf input r ≤ input.length ∧ posOf input bs ≤ posOf input r :=
  pos_of_suffix Suffix.token input bs r hbs h

theorem pos_skip (alloc : Bool) (input bs r : Bytes) (hbs : bs <:+ input)
    (h : restOf (Dec.skip alloc bs) = some r) :
    r <:+ input ∧ posOf input r ≤ input.length ∧ posOf input bs ≤ posOf input r :=
  pos_of_suffix (Suffix.skip alloc) input bs r hbs h

/-! ## at or past the end -/

/-- on the empty remaining input — what the real decoder sees at any position `≥ len`, e.g. after
    an arbitrary `set_position` — every accessor reports end-of-input and does not move. -/
theorem pos_stuck_past_end_accessors : Accessors @EoiNil :=
  { bool := EoiNil.bool, int := EoiNil.intAcc, f16 := EoiNil.f16, f32 := EoiNil.f32, f64 := EoiNil.f64
    char := EoiNil.char, bytes := EoiNil.bytes, str := EoiNil.str
    bytesIter := EoiNil.bytesIter, strIter := EoiNil.strIter
    array := EoiNil.array, map := EoiNil.map, tag := EoiNil.tag, null := EoiNil.null
    undefined := EoiNil.undefined, simple := EoiNil.simple, datatype := EoiNil.datatype
    skip := EoiNil.skip }

theorem pos_stuck_past_end_decodeT (t : Ty) : decodeT t [] = .err .eoi [] := decodeT_eoiNil t

theorem pos_stuck_past_end_token : Dec.token [] = .err .eoi [] ∧ tokens [] = some [] :=
  ⟨EoiNil.token, rfl⟩

/-- with `set_position(p)` modelled as `input.drop p` (as the driver does): any `p ≥ len`. -/
theorem pos_stuck_past_end (t : Ty) (input : Bytes) (p : Nat) (hp : input.length ≤ p) :
    decodeT t (input.drop p) = .err .eoi [] ∧ Dec.token (input.drop p) = .err .eoi [] ∧
    Dec.skip true (input.drop p) = .err .eoi [] ∧ Dec.datatype (input.drop p) = .err .eoi [] := by
  rw [List.drop_eq_nil_of_le hp]
  exact ⟨decodeT_eoiNil t, EoiNil.token, EoiNil.skip true, EoiNil.datatype⟩

/-! ## allocation / work bounded by the input, whatever lengths are declared -/

/-- **alloc_linear** for typed decoding: the decoded value (one unit per node plus string
    payloads, `Val.size`) is never larger than the bytes consumed.  Declared lengths cannot blow
    memory: collections grow per decoded element, each element costs ≥ 1 input byte. -/
theorem alloc_linear_decodeT (t : Ty) (bs : Bytes) (v : Val) (r : Bytes) (h : decodeT t bs = .ok v r) :
    v.size + r.length ≤ bs.length := by
  have := decodeT_sized t bs v r h; omega

/-- the chunks collected by a drained `bytes_iter` / `str_iter`. -/
theorem alloc_linear_stringIter (text : Bool) (bs : Bytes) (cs : List Bytes) (r : Bytes)
    (h : Dec.stringIter text bs = .ok cs r) :
    listSz (fun c : Bytes => 1 + c.length) cs + r.length ≤ bs.length := by
  have := Sized.stringIter text bs cs r h; omega

/-- a byte/text string borrowed by `bytes()` / `str()` lies inside the input. -/
theorem alloc_linear_bytes (bs d r : Bytes) :
    (Dec.bytes bs = .ok d r → 1 + d.length + r.length ≤ bs.length) ∧
    (Dec.str bs = .ok d r → 1 + d.length + r.length ≤ bs.length) :=
  ⟨fun h => by have := Sized.bytes bs d r h; simp only at this; omega,
   fun h => by have := Sized.str bs d r h; simp only at this; omega⟩

/-- the tokenizer: at most one item per input byte, total payload at most the input. -/
theorem alloc_linear_tokens (bs : Bytes) (items : List TokItem) (h : tokens bs = some items) :
    listSz TokItem.size items ≤ bs.length ∧ items.length ≤ bs.length := by
  have h1 := tokenize_size _ bs items h
  exact ⟨h1, Nat.le_trans (length_le_listSz _ TokItem.size_pos items) h1⟩

/-- **work_linear**, count-driven loops: a definite-length loop whose (possibly hostile) declared
    count exceeds the remaining input behaves exactly like the loop with count `remaining + 1` —
    it fails within the first `remaining + 1` iterations; the declared count is irrelevant. -/
theorem work_indep_of_declared_count {α : Type} {m : Dec α} (hc : Consumes m 1) (bs : Bytes) (n : Nat)
    (h : bs.length < n) : Dec.repeatN m n bs = Dec.repeatN m (bs.length + 1) bs :=
  repeatN_cutoff hc bs n (bs.length + 1) h (Nat.lt_succ_self _)

/-- … and such a loop cannot succeed. -/
theorem repeatN_ok_count {α : Type} {m : Dec α} (hc : Consumes m 1) (bs : Bytes) (n : Nat) (l : List α)
    (r : Bytes) (h : Dec.repeatN m n bs = .ok l r) : n + r.length ≤ bs.length :=
  repeatN_ok_le hc bs n l r h

/-! ### work_linear with an explicit step count

`Dec.Cost m bs n` (Lemmas/TotalWork.lean): evaluating `m` on `bs` along the model's own program
text performs `n` primitive decoder operations (`current`/`read`/`peek` = 1, `read_slice(k)` =
`1 + k` on success — charging the bytes handed out covers UTF-8 validation and copies —, bind =
sum of what actually ran).  `Dec.Lin K m`: on every input there is such an `n` with
`n ≤ K * (consumed + 1)`, and the position does not move back. -/

/-- every accessor, both iterators drained, and `skip` (both builds): at most
    `42 * (consumed + 1)` primitive steps on any input. -/
theorem work_linear_accessors : Accessors (fun {α} (m : Dec α) => Lin 42 m) :=
  { bool := .of_linC LinC.bool (by omega) (by omega), int := fun t => .of_linC (LinC.intAcc t) (by omega) (by omega)
    f16 := .of_linC LinC.f16 (by omega) (by omega), f32 := fun h => .of_linC (LinC.f32 h) (by omega) (by omega)
    f64 := fun h => .of_linC (LinC.f64 h) (by omega) (by omega), char := .of_linC LinC.char (by omega) (by omega)
    bytes := .of_linC LinC.bytes (by omega) (by omega), str := .of_linC LinC.str (by omega) (by omega)
    bytesIter := (Lin.stringIter false).mono (by omega) (by omega)
    strIter := (Lin.stringIter true).mono (by omega) (by omega)
    array := .of_linC LinC.array (by omega) (by omega), map := .of_linC LinC.map (by omega) (by omega)
    tag := .of_linC LinC.tag (by omega) (by omega), null := .of_linC LinC.null (by omega) (by omega)
    undefined := .of_linC LinC.undefined (by omega) (by omega), simple := .of_linC LinC.simple (by omega) (by omega)
    datatype := .of_linC LinC.datatype (by omega) (by omega), skip := Lin.skip }

/-- **work_linear** for typed decoding: for every type `t` there is a constant `t.workK`
    (depending on the type only: it doubles per container nesting level) such that on EVERY
    input `decode::<t>` — succeeding or failing — performs at most `workK t * (consumed + 1)`
    primitive steps.  In particular the work is independent of every length the input declares. -/
theorem work_linear_decodeT (t : Ty) (bs : Bytes) :
    ∃ n, Cost (decodeT t) bs n ∧ ∀ r, (decodeT t bs).rest? = some r →
      r.length ≤ bs.length ∧ n ≤ t.workK * (bs.length - r.length + 1) :=
  (decodeT_lin t).bound bs

/-- the same for `skip`, spelled out. -/
theorem work_linear_skip (alloc : Bool) (bs : Bytes) :
    ∃ n, Cost (Dec.skip alloc) bs n ∧ ∀ r, (Dec.skip alloc bs).rest? = some r →
      r.length ≤ bs.length ∧ n ≤ 42 * (bs.length - r.length + 1) :=
  (Lin.skip alloc).bound bs

/-- the tokenizer run to exhaustion: the `token()` calls together take at most `7 * len + 6`
    primitive steps. -/
theorem work_linear_tokens (bs : Bytes) : ∃ n, TokenizeCost (bs.length + 1) bs n ∧ n ≤ 7 * bs.length + 6 :=
  tokenize_work _ bs (Nat.lt_succ_self _)

/-- the step count is not vacuous: `null()` on `f6` is one `read`; on the empty input it is
    also one (failing) `read`. -/
example : Cost Dec.null [0xf6] 1 ∧ Cost Dec.null [] 1 := by
  unfold Dec.null
  constructor
  · exact Cost.bind_ok (n1 := 1) (n2 := 0) (a := 0xf6) (r := []) rfl (Cost.read _) (Cost.pure _ _)
  · exact Cost.bind_stop (by intro a r h; cases h) (Cost.read _)

/-! ## ArrayVec: every pushed element is moved out or dropped exactly once -/

open ArrayVec in
/-- For every run of `<[T; N]>::decode` (the iterator yields the elements `ids`, then ends or
    fails): the elements that went through `push` are the first `min (N+1) k` ones, and the
    multiset of (destructor runs ++ slots moved out in the result array) is exactly the multiset
    of pushed elements — so each is dropped or moved out exactly once, never both, never leaked,
    and no uninitialised slot (`none`) is ever dropped or moved out.  The array is returned iff
    exactly `N` elements arrived and the iterator did not fail; then nothing is dropped.  A
    rejected `N+1`-th element is dropped once (by the `map_err` closure). -/
theorem arrayvec_drops_once (n : Nat) (ids : List Nat) (iterErr : Bool) :
    let o := decodeArr n ids iterErr
    o.pushed = ids.take (n + 1) ∧
    (o.dropped ++ (o.array.getD [])).Perm (o.pushed.map some) ∧
    (o.array.isSome ↔ (ids.length = n ∧ iterErr = false)) ∧
    (o.array.isSome → o.dropped = [] ∧ o.array = some (ids.map some)) :=
  arrayvec_ledger n ids iterErr

open ArrayVec in
/-- with distinct element identities: each pushed element has exactly one fate, every other
    value none. -/
theorem arrayvec_each_once (n : Nat) (ids : List Nat) (iterErr : Bool) (hnd : ids.Nodup) (id : Nat) :
    let o := decodeArr n ids iterErr
    (o.dropped ++ (o.array.getD [])).count (some id) = (if id ∈ ids.take (n + 1) then 1 else 0) ∧
    none ∉ o.dropped ++ (o.array.getD []) :=
  arrayvec_count n ids iterErr hnd id

/-! ## non-vacuity: concrete hostile inputs -/

/-- outcome class and remaining input of a result (to compare by `decide`). -/
def outcome : Res α → Option (Option Err × Bytes)
  | .ok _ r => some (none, r)
  | .err e r => some (some e, r)
  | .panic => none

/-- an array header declaring 2^64-1 elements, nothing behind it: `Vec<u8>` decoding fails with
    end-of-input after consuming the header (no allocation proportional to the count). -/
example : outcome (decodeT (.seq (.int .u8)) [0x9b, 0xff, 0xff, 0xff, 0xff, 0xff, 0xff, 0xff, 0xff])
    = some (some .eoi, []) := by decide

/-- the two pinned hostile-length tests of the crate (`7b ff×8`, `5b ff×8`). -/
example : outcome (decodeT .str [0x7b, 0xff, 0xff, 0xff, 0xff, 0xff, 0xff, 0xff, 0xff]) = some (some .eoi, []) ∧
    outcome (decodeT .bytes [0x5b, 0xff, 0xff, 0xff, 0xff, 0xff, 0xff, 0xff, 0xff]) = some (some .eoi, []) := by
  decide

/-- finding F1 (`82 1b ff×8 1a 3b9aca00` as `Duration`): with the checked carry it is a decode
    error; the un-fixed code (`Duration::new`) panicked here. -/
example : outcome (decodeT .duration
    [0x82, 0x1b, 0xff, 0xff, 0xff, 0xff, 0xff, 0xff, 0xff, 0xff, 0x1a, 0x3b, 0x9a, 0xca, 0x00])
    = some (some .message, []) := by decide

/-- the theorems are not vacuous on the success side either. -/
example : decodeT (.seq (.int .u8)) [0x82, 0x01, 0x02, 0x03] = .ok (.list [.int 1, .int 2]) [0x03] := by rfl
example : tokens [0x9b, 0xff, 0xff, 0xff, 0xff, 0xff, 0xff, 0xff, 0xff] = some [.tok (.array 18446744073709551615)] := by
  rfl
example : outcome (Dec.skip true [0x9f, 0x9f, 0x9f]) = some (some .eoi, []) := by decide

open ArrayVec in
example : decodeArr 2 [10, 11, 12, 13] false = ⟨none, [some 12, some 10, some 11], [10, 11, 12]⟩ ∧
    decodeArr 2 [10, 11] false = ⟨some [some 10, some 11], [], [10, 11]⟩ ∧
    decodeArr 2 [10] false = ⟨none, [some 10], [10]⟩ ∧
    decodeArr 2 [10, 11] true = ⟨none, [some 10, some 11], [10, 11]⟩ := by decide

end Minicbor.C02
