/-
  C04 — typed decoding (`decodeT`, the built-in `Decode` impls) agrees with the RFC 8949 data model
  on every well-formed encoding of an item, in ANY framing.  Property theorems only.

  `interp t w` (Lemmas/C04Interp.lean, specification side) says which wire trees `w` — any head
  width, definite or indefinite — a type `t` accepts and which value the data model assigns.

    typed_sound      interp t w = some v  ⇒  decodeT t (encW w ++ rest) = ok v rest     (value AND exact position)
    typed_rejects    interp t w = none    ⇒  decodeT t (encW w ++ rest) is not a success ("never a different value")
    typed_ok_iff     decodeT t (encW w ++ rest) = ok v r  ⇔  interp t w = some v ∧ r = rest

  for EVERY type descriptor without a bare `data::Tag` (`Ty.NoBareTag`: that impl reads a tag HEAD, which is
  not a data item — it is covered as the accessor `tag` in Thm/C04Acc.lean), every valid `w` whose
  encoding fits in a slice (`FitsSlice`, as in C06: `skip` is involved), and every `rest`.
  No `WF` / `NoOptOpt` side condition is needed on this side (decoding `Option<Option<T>>` is
  perfectly deterministic; only its round trip is lossy).

    typed_mismatch_err          … and then the outcome is an error (no panic: C02)
    typed_prefix_eoi_reframed   every strict prefix of ANY accepted framing fails with the end-of-input class
-/
import Minicbor.Lemmas.C04Spec3
import Minicbor.Lemmas.TypesItem
import Minicbor.Thm.C01
import Minicbor.Thm.C03Builtin
import Minicbor.Thm.C04Typed

namespace Minicbor.C04
open Dec

theorem Spec.congr {α : Type} {m : Dec α} {f f' : WItem → Option α} (h : Spec m f) (e : ∀ w, f w = f' w) : Spec m f' :=
  fun w rest hv hf => (h w rest hv hf).congr (e w)

mutual
theorem interp_spec : (t : Ty) → t.NoBareTag = true → Spec (decodeT t) (interp t)
  | .int k, _ => Spec.map Val.int (Spec.int k.ty)
  | .bool, _ => Spec.map Val.bool Spec.bool
  | .char, _ => Spec.map (fun c => Val.int (c : Nat)) Spec.char
  | .f32, _ => Spec.map Val.float (Spec.f32 true)
  | .f64, _ => Spec.map Val.float (Spec.f64 true)
  | .str, _ => Spec.map Val.str Spec.str
  | .bytes, _ => Spec.map Val.bytes Spec.bytes
  | .barr n, _ => Spec.barr n
  | .cstr, _ => Spec.cstr
  | .unit, _ => Spec.unit
  | .skipUnit, _ => Spec.skipUnit
  | .nz k, _ => Spec.nz k.ty
  | .duration, _ => Spec.duration false
  | .systime, _ => Spec.duration true
  | .tag, h => by simp [Ty.NoBareTag, Ty.all, Ty.noBareTagNode] at h
  | .opt t, h => Spec.opt (interp_spec t (by simpa [Ty.NoBareTag, Ty.all, Ty.noBareTagNode] using h))
  | .tagged n t, h => Spec.tagged (interp_spec t (by simpa [Ty.NoBareTag, Ty.all, Ty.noBareTagNode] using h)) n
  | .seq t, h => by
    have ih := interp_spec t (by simpa [Ty.NoBareTag, Ty.all, Ty.noBareTagNode] using h)
    refine (Spec.map Val.list (Spec.arrayIter ih)).congr (fun w => ?_)
    simp only [interp]; cases elems w <;> rfl
  | .arr n t, h => by
    have ih := interp_spec t (by simpa [Ty.NoBareTag, Ty.all, Ty.noBareTagNode] using h)
    refine (Spec.map Val.list (Spec.arrayN ih n)).congr (fun w => ?_)
    simp only [interp]
    cases elems w with
    | none => rfl
    | some xs => simp only [Option.bind_some]; split <;> rfl
  | .map k v, h => by
    have hh : k.NoBareTag = true ∧ v.NoBareTag = true := by
      simpa [Ty.NoBareTag, Ty.all, Ty.noBareTagNode] using h
    refine (Spec.map Val.map (Spec.mapIter (interp_spec k hh.1) (interp_spec v hh.2))).congr (fun w => ?_)
    simp only [interp]; cases entries w <;> rfl
  | .tup ts, h =>
    Spec.tup (interps_spec ts (by simpa [Ty.NoBareTag, Ty.all, Ty.noBareTagNode] using h)) Val.list ts.length
      (decoders_length ts).symm
  | .enum ts, h => Spec.enum (interps_spec ts (by simpa [Ty.NoBareTag, Ty.all, Ty.noBareTagNode] using h))
  | .fields ts, h => by
    have ih := interps_spec ts (by simpa [Ty.NoBareTag, Ty.all, Ty.noBareTagNode] using h)
    refine (Spec.map Val.list (Spec.fieldsDec ih)).congr (fun w => ?_)
    simp only [interp]; cases elems w <;> rfl
theorem interps_spec : (ts : List Ty) → Ty.allL Ty.noBareTagNode ts = true → SpecL (decoders ts) (interps ts)
  | [], _ => .nil
  | t :: ts, h => by
    simp only [Ty.allL, Bool.and_eq_true] at h
    exact .cons (interp_spec t h.1) (interps_spec ts h.2)
end

/-- the encoding fits in a Rust slice (`len ≤ isize::MAX < 2^64`), as in `C06.FitsSlice`: wherever
    `skip()` is involved (`Option` on null, `Bound::Unbounded`, trailing `decode_fields!` entries) its
    saturating `u64` counters could otherwise clip on a model list that no slice can hold. -/
abbrev FitsSlice (w : WItem) : Prop := (encW w).length < 2 ^ 64

/-- **C — typed decoding of any framing: value and position.**  If the data model assigns `v` to the
    well-formed item `w` at type `t` (`interp`, any head widths, definite or indefinite as the type
    allows), decoding `encW w` followed by anything returns exactly `v` and stops exactly at the end of
    the item. -/
theorem typed_sound (t : Ty) (w : WItem) (v : Val) (rest : Bytes) (hnb : t.NoBareTag = true)
    (hv : w.Valid) (hfit : FitsSlice w) (h : interp t w = some v) :
    decodeT t (encW w ++ rest) = .ok v rest := by
  have := interp_spec t hnb w rest hv hfit
  rwa [h] at this

/-- **… and a type that does not match the shape never returns a value.** -/
theorem typed_rejects (t : Ty) (w : WItem) (rest : Bytes) (hnb : t.NoBareTag = true)
    (hv : w.Valid) (hfit : FitsSlice w) (h : interp t w = none) (v : Val) (r : Bytes) :
    decodeT t (encW w ++ rest) ≠ .ok v r := by
  have := interp_spec t hnb w rest hv hfit
  rw [h] at this
  exact this v r

/-- both halves as one characterisation of success. -/
theorem typed_ok_iff (t : Ty) (w : WItem) (rest : Bytes) (hnb : t.NoBareTag = true)
    (hv : w.Valid) (hfit : FitsSlice w) (v : Val) (r : Bytes) :
    decodeT t (encW w ++ rest) = .ok v r ↔ (interp t w = some v ∧ r = rest) := by
  constructor
  · intro h
    cases hi : interp t w with
    | none => exact absurd h (typed_rejects t w rest hnb hv hfit hi v r)
    | some v' =>
      rw [typed_sound t w v' rest hnb hv hfit hi] at h
      injection h with h1 h2
      exact ⟨by rw [h1], h2.symm⟩
  · intro ⟨hi, hr⟩
    rw [hr]; exact typed_sound t w v rest hnb hv hfit hi

/-- a type that does not match the shape returns an error (it does not panic either, C02). -/
theorem typed_mismatch_err (t : Ty) (w : WItem) (rest : Bytes) (hnb : t.NoBareTag = true)
    (hv : w.Valid) (hfit : FitsSlice w) (h : interp t w = none) :
    ∃ e r, decodeT t (encW w ++ rest) = .err e r := by
  cases hd : decodeT t (encW w ++ rest) with
  | ok v r => exact absurd hd (typed_rejects t w rest hnb hv hfit h v r)
  | err e r => exact ⟨e, r, rfl⟩
  | panic => exact absurd hd (decodeT_noPanic t _)

/-- **B for re-framings.**  Every strict prefix of ANY well-formed encoding that a type accepts — wider
    heads, indefinite lengths, whatever `interp` allows — fails with the end-of-input class: never
    success, never another class. -/
theorem typed_prefix_eoi_reframed (t : Ty) (w : WItem) (v : Val) (hnb : t.NoBareTag = true)
    (hv : w.Valid) (hfit : FitsSlice w) (h : interp t w = some v) (p q : Bytes)
    (hpq : encW w = p ++ q) (hq : q ≠ []) : ∃ r, decodeT t p = .err .eoi r := by
  have hd := typed_sound t w v [] hnb hv hfit h
  rw [List.append_nil, hpq] at hd
  exact typed_prefix_eoi_any t p q v [] hd (by cases q with | nil => exact absurd rfl hq | cons _ _ => simp)

/-- the excluded impl, `data::Tag`: it succeeds exactly on tagged items, returns the tag number and
    leaves the tagged content unread — a head reader, not an item decoder. -/
theorem typed_bare_tag (w : WItem) (rest : Bytes) (hv : w.Valid) (v : Val) (r : Bytes) :
    decodeT .tag (encW w ++ rest) = .ok v r ↔
      ∃ n, view .tag w = some n ∧ v = .int (n : Nat) ∧ r = after .tag w ++ rest := by
  have e : decodeT .tag = (Dec.tag >>= fun n => pure (Val.int (n : Nat))) := by
    unfold decodeT; rfl
  rw [e]
  constructor
  · intro h
    obtain ⟨n, r', h1, h2⟩ := bind_ok h
    obtain ⟨hview, hr⟩ := accessor_rejects .tag w hv rest n r' h1
    cases h2
    exact ⟨n, hview, rfl, hr⟩
  · intro ⟨n, hview, hvv, hr⟩
    have := (accessor_ok_iff .tag w hv rest n _).mpr ⟨hview, rfl⟩
    simp only [Acc.run] at this
    rw [Dec.bind_run, this, hvv, hr]; rfl

/-- the statement over the WHOLE universe of built-in types … -/
def typed_sound_statement : Prop :=
  ∀ (t : Ty) (w : WItem) (rest : Bytes), w.Valid → FitsSlice w →
    (∀ v, interp t w = some v → decodeT t (encW w ++ rest) = .ok v rest) ∧
    (interp t w = none → ∀ v r, decodeT t (encW w ++ rest) ≠ .ok v r)

/-- … holds for every type without a bare `data::Tag` … -/
theorem typed_sound_partial (t : Ty) (hnb : t.NoBareTag = true) (w : WItem) (rest : Bytes)
    (hv : w.Valid) (hfit : FitsSlice w) :
    (∀ v, interp t w = some v → decodeT t (encW w ++ rest) = .ok v rest) ∧
    (interp t w = none → ∀ v r, decodeT t (encW w ++ rest) ≠ .ok v r) :=
  ⟨fun v h => typed_sound t w v rest hnb hv hfit h, fun h v r => typed_rejects t w rest hnb hv hfit h v r⟩

/-- … and the exclusion is necessary: `Tag::decode` on `c1 00` (`1(0)`) "succeeds" after the head,
    in the middle of the item (see `typed_bare_tag`; C03's K9 is the encoder side of the same fact). -/
theorem typed_sound_statement_needs_exclusion : ¬ typed_sound_statement := by
  intro h
  have := (h .tag (.tag .w0 1 (.uint .w0 0)) [] (by decide) (by decide)).2 rfl (.int 1) [0x00]
  exact this rfl

/-- **the specification agrees with the encoder**: what a built-in `Encode` impl writes for `v` is a
    valid preferred-form item which `interp` maps back to `v` (cross-check of `interp` against
    `encodeT`, via C03.builtin_pref and C01.roundtrip). -/
theorem interp_of_encode (t : Ty) (v : Val) (bs : Bytes)
    (hwf : t.WF = true) (hno : t.NoOptOpt = true) (hnb : t.NoBareTag = true)
    (henc : encodeT t v = some bs) (hlen : bs.length < 2 ^ 64) :
    ∃ w : WItem, w.Valid ∧ bs = encW w ∧ interp t w = some v := by
  obtain ⟨i, _, hb, hv⟩ := C03.builtin_pref t v bs hwf hnb henc hlen
  refine ⟨prefTree i, hv, hb, ?_⟩
  have hr := C01.roundtrip t v bs [] hwf hno henc hlen
  have hfit : FitsSlice (prefTree i) := by unfold FitsSlice; rw [← show bs = encW (prefTree i) from hb]; exact hlen
  rw [show bs = encW (prefTree i) from hb] at hr
  exact ((typed_ok_iff t (prefTree i) [] hnb hv hfit v []).mp hr).1

/-! ### non-vacuity -/

/-- `BTreeMap<String, Vec<Option<(u8, Tagged<5, &str>)>>>` … -/
def sampleTy : Ty := .map .str (.seq (.opt (.tup [.int .u8, .tagged 5 .str])))

/-- … re-framed: indefinite map, a one-byte-length key, an indefinite array holding a tuple with a
    two-byte array head, `200` at width 8, tag 5 at width 4, a null, and an empty array with an
    eight-byte head. -/
def sampleWire : WItem :=
  .mapI [.text .w1 [0x61],
         .arrayI [.array .w2 [.uint .w8 200, .tag .w4 5 (.text .w0 [0x62, 0x63])], .simple 22],
         .text .w0 [0xc3, 0xa9],
         .array .w8 []]

def sampleVal : Val :=
  .map [.str [0x61], .list [.some (.list [.int 200, .tagged (.str [0x62, 0x63])]), .none],
        .str [0xc3, 0xa9], .list []]

example : sampleTy.NoBareTag = true ∧ sampleWire.Valid ∧ FitsSlice sampleWire ∧
    interp sampleTy sampleWire = some sampleVal ∧ (encW sampleWire).length = 40 ∧
    decodeT sampleTy (encW sampleWire ++ [0xff]) = .ok sampleVal [0xff] := by
  refine ⟨by decide, by decide, by decide, rfl, by decide, ?_⟩
  exact typed_sound sampleTy sampleWire sampleVal [0xff] (by decide) (by decide) (by decide) rfl

/-- cut anywhere, the re-framed sample reports end of input (here: inside the 8-byte head of `200`). -/
example : ∃ r, decodeT sampleTy ((encW sampleWire).take 12) = .err .eoi r :=
  typed_prefix_eoi_reframed sampleTy sampleWire sampleVal (by decide) (by decide) (by decide) rfl _
    ((encW sampleWire).drop 12) (List.take_append_drop 12 _).symm (by decide)

/-- the same tree with the inner text as an indefinite-length string is NOT accepted (`&str`
    demands a definite string): no value is returned. -/
example :
    let w : WItem := .mapI [.text .w1 [0x61], .arrayI [.array .w2 [.uint .w8 200, .tag .w4 5 (.textI [(.w0, [0x62, 0x63])])]]]
    w.Valid ∧ interp sampleTy w = none := ⟨by decide, rfl⟩

end Minicbor.C04
