/-
  C10 — Derived codecs are forward and backward compatible as documented.
  Property theorems only (helper lemmas: Lemmas/DeriveCompat.lean).

  Vocabulary (Compat.lean): `compatTy lenient w r` — "a reader of version `r` reads what a writer
  of version `w` wrote" (directional; `lenient` = the position is the declared type of an
  optional field, the only place where the writer's enum may have variants unknown to the
  reader); `project w r v` — the value the documentation promises the reader; `benign w r v` —
  excludes the one situation in which the code as it is breaks the promise (K5).
-/
import Minicbor.Compat
import Minicbor.Thm.C09

namespace Minicbor.C10
open Minicbor.Derive

/-! ## The documented compatible edits -/

/-- a field the documentation calls optional (`Option<_>`, or a nil-aware codec). -/
abbrev Optional (a : FAttr) (t : FTy) : Prop := optionalField a t = true

/-- One documented compatible edit, `CompatStep lenient old new` (lib.rs:28-45, 73-83).
    `lenient` = the edited type is the declared type of an optional field.  The edits act on the
    head of a declaration list (declaration order is irrelevant: C08.derive_encode_reorder_irrelevant)
    and anywhere below through the congruence constructors. -/
inductive CompatStep : Bool → FTy → FTy → Prop where
  /-- "Renaming every identifier" (and the `n`/`b` choice). -/
  | rename (l : Bool) (t t' : FTy) : C08.anonymize t = C08.anonymize t' → CompatStep l t t'
  /-- "Adding optional fields" to a struct, at a new or a gap index. -/
  | addField (l : Bool) (a : SAttr) (fs : Fields) (fa : FAttr) (ft : FTy) :
      a.transparent = false → fa.skip = false → Optional fa ft → fa.idx ∉ liveIdxs fs →
      CompatStep l (.struct a fs) (.struct a ((fa, ft) :: fs))
  /-- "newer software can stop producing optional values": dropping an optional field. -/
  | dropField (l : Bool) (a : SAttr) (fs : Fields) (fa : FAttr) (ft : FTy) :
      a.transparent = false → fa.skip = false → Optional fa ft → fa.idx ∉ liveIdxs fs →
      CompatStep l (.struct a ((fa, ft) :: fs)) (.struct a fs)
  /-- "Adding more variants to [an enum] iff [it] is only decoded as part of [an optional field]". -/
  | addVariant (e : EAttr) (vars : Variants) (va : VAttr) (fs : Fields) :
      va.idx ∉ vars.map (·.1.idx) → CompatStep true (.enum e vars) (.enum e ((va, fs) :: vars))
  /-- "turn a unit variant into a struct or tuple variant if all fields are optional". -/
  | unitToFields (l : Bool) (e : EAttr) (va : VAttr) (sh : Shape) (fs : Fields) (vars : Variants) :
      va.shape = .unit → sh ≠ .unit → allOptional fs = true → e.indexOnly = false →
      CompatStep l (.enum e ((va, []) :: vars)) (.enum e (({ va with shape := sh }, fs) :: vars))
  /-- an edit of a field type of a struct (`l'` = that field is optional). -/
  | inField (l : Bool) (a : SAttr) (fa : FAttr) (t t' : FTy) (fs : Fields) :
      a.transparent = false → fa.skip = false → CompatStep (optionalField fa t) t t' → optionalField fa t = optionalField fa t' →
      CompatStep l (.struct a ((fa, t) :: fs)) (.struct a ((fa, t') :: fs))
  | inOption (l : Bool) (t t' : FTy) : CompatStep l t t' → CompatStep l (.option t) (.option t')
  | inVec (l : Bool) (t t' : FTy) : CompatStep false t t' → CompatStep l (.vec t) (.vec t')

/-! ## Counterexamples on the model (the code as it is) -/

def k5Writer : FTy := .struct {} [({ idx := 0 }, .int .u8), ({ idx := 2 }, .int .u8)]
def k5Reader : FTy := .struct {} [({ idx := 0 }, .int .u8), ({ idx := 1, tag := some 5 }, .option (.int .u8)), ({ idx := 2 }, .int .u8)]

/-- the full-strength statement of the property (false on the code as it is: K5). -/
def compat_decode_statement : Prop :=
  ∀ (w r : FTy) (v : Derive.Val) (rest : Bytes), accepted w = true → accepted r = true → compatible w r = true →
    hasTy w v = true → C09.noClash w v = true →
    ∀ pv, project w r v = .ok pv → deriveDecode r (deriveEncode w v ++ rest) = .ok pv rest

/-- K5: a tagged optional field added at a gap index (array encoding) rejects the bare `null` the
    older writer put there: `83 01 f6 02` read by the newer struct is a type error, although the
    two versions are related by the documented edit "add an optional field". -/
theorem compat_counterexample_K5 :
    accepted k5Writer = true ∧ accepted k5Reader = true ∧ compatible k5Writer k5Reader = true ∧
    compatible k5Reader k5Writer = true ∧
    deriveEncode k5Writer (.struct [.int 1, .int 2]) = [0x83, 0x01, 0xf6, 0x02] ∧
    project k5Writer k5Reader (.struct [.int 1, .int 2]) = .ok (.struct [.int 1, .none, .int 2]) ∧
    deriveDecode k5Reader [0x83, 0x01, 0xf6, 0x02] = .err .type [0x02] := by
  refine ⟨by rfl, by rfl, by rfl, by rfl, by rfl, by rfl, by rfl⟩

theorem compat_decode_statement_false : ¬ compat_decode_statement := by
  intro h
  have := h k5Writer k5Reader (.struct [.int 1, .int 2]) [] (by rfl) (by rfl) (by rfl) (by rfl) (by rfl)
    (.struct [.int 1, .none, .int 2]) (by rfl)
  have e : deriveDecode k5Reader (deriveEncode k5Writer (.struct [.int 1, .int 2]) ++ []) = .err .type [0x02] := by rfl
  rw [e] at this
  cases this

/-- `benign` excludes exactly that: false on the K5 witness, true on the same pair when the new
    field carries no tag, or when the writer's array ends before the new field's index — and there
    the decoder delivers the projection. -/
theorem k5_benign_excludes :
    benign k5Writer k5Reader (.struct [.int 1, .int 2]) = false ∧
    (let r' : FTy := .struct {} [({ idx := 0 }, .int .u8), ({ idx := 1 }, .option (.int .u8)), ({ idx := 2 }, .int .u8)]
     benign k5Writer r' (.struct [.int 1, .int 2]) = true ∧
     deriveDecode r' (deriveEncode k5Writer (.struct [.int 1, .int 2])) = .ok (.struct [.int 1, .none, .int 2]) []) ∧
    (let r'' : FTy := .struct {} [({ idx := 0 }, .int .u8), ({ idx := 2 }, .int .u8), ({ idx := 5, tag := some 5 }, .option (.int .u8))]
     benign k5Writer r'' (.struct [.int 1, .int 2]) = true ∧
     deriveDecode r'' (deriveEncode k5Writer (.struct [.int 1, .int 2])) = .ok (.struct [.int 1, .int 2, .none]) []) := by
  refine ⟨by rfl, ⟨by rfl, by rfl⟩, ⟨by rfl, by rfl⟩⟩

/-- F5 (repaired in /repo, 34b49ef): an `index_only` enum in an optional field that meets an
    unknown index becomes `None` and the sibling field survives — `82 05 07`. -/
theorem compat_F5_repaired :
    let io (n : Nat) : FTy := .enum { indexOnly := true } ((List.range n).map fun i => ({ idx := i }, []))
    let old : FTy := .struct {} [({ idx := 0 }, .option (io 2)), ({ idx := 1 }, .int .u8)]
    let new : FTy := .struct {} [({ idx := 0 }, .option (io 6)), ({ idx := 1 }, .int .u8)]
    compatible new old = true ∧
    deriveEncode new (.struct [.some (.enum 5 []), .int 7]) = [0x82, 0x05, 0x07] ∧
    project new old (.struct [.some (.enum 5 []), .int 7]) = .ok (.struct [.none, .int 7]) ∧
    deriveDecode old [0x82, 0x05, 0x07] = .ok (.struct [.none, .int 7]) [] := by
  refine ⟨by rfl, by rfl, by rfl, by rfl⟩

/-- The documented edits do not compose freely: dropping an optional field and later adding
    another optional field *with the same index and another type* are both documented compatible
    edits, but the first and the last version are not compatible — the writer's `Some(5)` at
    index 1 is a type error for the reader expecting a string there.  (The documentation never
    says that a retired index must not be reused; `compatible` is the relation that does hold.) -/
theorem compat_not_transitive :
    let a : FTy := .struct {} [({ idx := 0 }, .int .u8), ({ idx := 1 }, .option (.int .u8))]
    let b : FTy := .struct {} [({ idx := 0 }, .int .u8)]
    let c : FTy := .struct {} [({ idx := 0 }, .int .u8), ({ idx := 1 }, .option (.text .string))]
    compatible a b = true ∧ compatible b a = true ∧ compatible b c = true ∧ compatible c b = true ∧
    compatible a c = false ∧
    deriveDecode c (deriveEncode a (.struct [.int 1, .some (.int 5)])) = .err .type [] := by
  refine ⟨by rfl, by rfl, by rfl, by rfl, by rfl, by rfl⟩

/-! ## Missing mandatory fields are always an error -/

/-- a reader that declares a mandatory field rejects every writer body that is empty (e.g. a
    writer all of whose fields are absent optionals, or a unit struct). -/
theorem compat_missing_mandatory (a : SAttr) (gs : Fields) (gb : FAttr) (gu : FTy) (rest : Bytes)
    (hnt : a.transparent = false) (htag : a.tag = none) (hmem : (gb, gu) ∈ gs) (hlive : gb.skip = false)
    (hmand : nilOf gb gu = none) (hnoopt : gu.isOption = false) :
    deriveDecode (.struct a gs) (emptyBody (a.enc.getD .array) ++ rest) = .err .missing rest :=
  C09.derive_missing_mandatory a gs gb gu rest hnt htag hmem hlive hmand hnoopt

/-- concrete: the reader's mandatory field `#[n(1)]` is unknown to the writer — map and array. -/
theorem compat_missing_mandatory_example :
    let w : FTy := .struct { enc := some .map } [({ idx := 0 }, .int .u8)]
    let r : FTy := .struct { enc := some .map } [({ idx := 0 }, .int .u8), ({ idx := 1 }, .int .u8)]
    compatible w r = false ∧ deriveDecode r (deriveEncode w (.struct [.int 3])) = .err .missing [] := by
  refine ⟨by rfl, by rfl⟩

end Minicbor.C10
