/-
  C10 — Derived codecs are forward and backward compatible as documented.
  Property theorems only (helper lemmas: Lemmas/DeriveCompat.lean).

  Vocabulary (Compat.lean): `compatTy lenient w r` — "a reader of version `r` reads what a writer
  of version `w` wrote" (directional; `lenient` = the position is the declared type of an
  optional field, the only place where the writer's enum may have variants unknown to the
  reader); `project w r v` — the value the documentation promises the reader; `benign w r v` —
  used to exclude the one situation in which the code broke the promise (K5); since the repair it
  is always true (`benign_always`) and the statement is proved in full (`compat_decode_full`).
-/
import Minicbor.Compat
import Minicbor.Thm.C09Round
import Minicbor.Lemmas.DeriveCompat
import Minicbor.Lemmas.DeriveCompat3
import Minicbor.Lemmas.DeriveBenign

namespace Minicbor.C10
open Minicbor.Derive

/-! ## The documented compatible edits -/

/-- a field the documentation calls optional (`Option<_>`, or a nil-aware codec). -/
abbrev Optional (a : FAttr) (t : FTy) : Prop := optionalField a t = true

/-- One documented compatible edit, `CompatStep lenient old new` (lib.rs:28-45, 73-83).
    `lenient` = the edited type is the declared type of an optional field.  The edits act on the
    head of a declaration list (declaration order is irrelevant: C08.derive_encode_reorder_irrelevant)
    and anywhere below through the congruence constructors. -/
inductive CompatStep : Bool → FTy → FTy → Prop where
  /-- "Renaming every identifier" (and the `n`/`b` choice). -/
  | rename (l : Bool) (t t' : FTy) : C08.anonymize t = C08.anonymize t' → CompatStep l t t'
  /-- "Adding optional fields" to a struct, at a new or a gap index. -/
  | addField (l : Bool) (a : SAttr) (fs : Fields) (fa : FAttr) (ft : FTy) :
      a.transparent = false → fa.skip = false → Optional fa ft → fa.idx ∉ liveIdxs fs →
      CompatStep l (.struct a fs) (.struct a ((fa, ft) :: fs))
  /-- "newer software can stop producing optional values": dropping an optional field. -/
  | dropField (l : Bool) (a : SAttr) (fs : Fields) (fa : FAttr) (ft : FTy) :
      a.transparent = false → fa.skip = false → Optional fa ft → fa.idx ∉ liveIdxs fs →
      CompatStep l (.struct a ((fa, ft) :: fs)) (.struct a fs)
  /-- "Adding more variants to [an enum] iff [it] is only decoded as part of [an optional field]". -/
  | addVariant (e : EAttr) (vars : Variants) (va : VAttr) (fs : Fields) :
      va.idx ∉ vars.map (·.1.idx) → CompatStep true (.enum e vars) (.enum e ((va, fs) :: vars))
  /-- "turn a unit variant into a struct or tuple variant if all fields are optional". -/
  | unitToFields (l : Bool) (e : EAttr) (va : VAttr) (sh : Shape) (fs : Fields) (vars : Variants) :
      va.shape = .unit → sh ≠ .unit → allOptional fs = true → e.indexOnly = false →
      CompatStep l (.enum e ((va, []) :: vars)) (.enum e (({ va with shape := sh }, fs) :: vars))
  /-- an edit of a field type of a struct (`l'` = that field is optional). -/
  | inField (l : Bool) (a : SAttr) (fa : FAttr) (t t' : FTy) (fs : Fields) :
      a.transparent = false → fa.skip = false → CompatStep (optionalField fa t) t t' → optionalField fa t = optionalField fa t' →
      CompatStep l (.struct a ((fa, t) :: fs)) (.struct a ((fa, t') :: fs))
  | inOption (l : Bool) (t t' : FTy) : CompatStep l t t' → CompatStep l (.option t) (.option t')
  | inVec (l : Bool) (t t' : FTy) : CompatStep false t t' → CompatStep l (.vec t) (.vec t')

/-! ## Counterexamples on the model (the code as it is) -/

def k5Writer : FTy := .struct {} [({ idx := 0 }, .int .u8), ({ idx := 2 }, .int .u8)]
def k5Reader : FTy := .struct {} [({ idx := 0 }, .int .u8), ({ idx := 1, tag := some 5 }, .option (.int .u8)), ({ idx := 2 }, .int .u8)]

/-- the full-strength statement of the property; the size bound is what every Rust slice satisfies
    (`skip()` counts in `u64`; the model's lists are unbounded).  Proved below: `compat_decode_full`. -/
def compat_decode_statement : Prop :=
  ∀ (w r : FTy) (v : Derive.Val) (rest : Bytes), accepted w = true → accepted r = true → compatible w r = true →
    hasTy w v = true → C09.noClash w v = true → (deriveEncode w v).length < 2 ^ 64 →
    ∀ pv, project w r v = .ok pv → deriveDecode r (deriveEncode w v ++ rest) = .ok pv rest

/-- K5 (repaired in /repo): a tagged optional field added at a gap index (array encoding) used to
    reject the bare `null` the older writer put there (`83 01 f6 02` read by the newer struct was a
    type error, although the two versions are related by the documented edit "add an optional
    field").  The reader now accepts the bare `null` and delivers the projection; the tagged `null`
    its own encoder writes (`c5 f6`) and a tagged value are read as before. -/
theorem compat_K5_repaired :
    accepted k5Writer = true ∧ accepted k5Reader = true ∧ compatible k5Writer k5Reader = true ∧
    compatible k5Reader k5Writer = true ∧
    deriveEncode k5Writer (.struct [.int 1, .int 2]) = [0x83, 0x01, 0xf6, 0x02] ∧
    project k5Writer k5Reader (.struct [.int 1, .int 2]) = .ok (.struct [.int 1, .none, .int 2]) ∧
    deriveDecode k5Reader [0x83, 0x01, 0xf6, 0x02] = .ok (.struct [.int 1, .none, .int 2]) [] ∧
    deriveDecode k5Reader [0x83, 0x01, 0xc5, 0xf6, 0x02] = .ok (.struct [.int 1, .none, .int 2]) [] ∧
    deriveDecode k5Reader [0x83, 0x01, 0xc5, 0x09, 0x02] = .ok (.struct [.int 1, .some (.int 9), .int 2]) [] ∧
    deriveDecode k5Reader [0x83, 0x01, 0xc6, 0x09, 0x02] = .err .tag [0x09, 0x02] := by
  refine ⟨by rfl, by rfl, by rfl, by rfl, by rfl, by rfl, by rfl, by rfl, by rfl, by rfl⟩

/-- a bare `null` is accepted only where the field has a nil value: a tagged *mandatory* field still
    insists on its tag. -/
theorem bare_null_needs_nil :
    let r : FTy := .struct {} [({ idx := 0 }, .int .u8), ({ idx := 1, tag := some 5 }, .int .u8)]
    accepted r = true ∧ deriveDecode r [0x82, 0x01, 0xf6] = .err .type [] := by
  refine ⟨by rfl, by rfl⟩

/-- F5 (repaired in /repo, 34b49ef): an `index_only` enum in an optional field that meets an
    unknown index becomes `None` and the sibling field survives — `82 05 07`. -/
theorem compat_F5_repaired :
    let io (n : Nat) : FTy := .enum { indexOnly := true } ((List.range n).map fun i => ({ idx := i }, []))
    let old : FTy := .struct {} [({ idx := 0 }, .option (io 2)), ({ idx := 1 }, .int .u8)]
    let new : FTy := .struct {} [({ idx := 0 }, .option (io 6)), ({ idx := 1 }, .int .u8)]
    compatible new old = true ∧
    deriveEncode new (.struct [.some (.enum 5 []), .int 7]) = [0x82, 0x05, 0x07] ∧
    project new old (.struct [.some (.enum 5 []), .int 7]) = .ok (.struct [.none, .int 7]) ∧
    deriveDecode old [0x82, 0x05, 0x07] = .ok (.struct [.none, .int 7]) [] := by
  refine ⟨by rfl, by rfl, by rfl, by rfl⟩

/-- The documented edits do not compose freely: dropping an optional field and later adding
    another optional field *with the same index and another type* are both documented compatible
    edits, but the first and the last version are not compatible — the writer's `Some(5)` at
    index 1 is a type error for the reader expecting a string there.  (The documentation never
    says that a retired index must not be reused; `compatible` is the relation that does hold.) -/
theorem compat_not_transitive :
    let a : FTy := .struct {} [({ idx := 0 }, .int .u8), ({ idx := 1 }, .option (.int .u8))]
    let b : FTy := .struct {} [({ idx := 0 }, .int .u8)]
    let c : FTy := .struct {} [({ idx := 0 }, .int .u8), ({ idx := 1 }, .option (.text .string))]
    compatible a b = true ∧ compatible b a = true ∧ compatible b c = true ∧ compatible c b = true ∧
    compatible a c = false ∧
    deriveDecode c (deriveEncode a (.struct [.int 1, .some (.int 5)])) = .err .type [] := by
  refine ⟨by rfl, by rfl, by rfl, by rfl, by rfl, by rfl⟩

/-! ## Missing mandatory fields are always an error -/

/-- a reader that declares a mandatory field rejects every writer body that is empty (e.g. a
    writer all of whose fields are absent optionals, or a unit struct). -/
theorem compat_missing_mandatory (a : SAttr) (gs : Fields) (gb : FAttr) (gu : FTy) (rest : Bytes)
    (hnt : a.transparent = false) (htag : a.tag = none) (hmem : (gb, gu) ∈ gs) (hlive : gb.skip = false)
    (hmand : nilOf gb gu = none) (hnoopt : gu.isOption = false) :
    deriveDecode (.struct a gs) (emptyBody (a.enc.getD .array) ++ rest) = .err .missing rest :=
  C09.derive_missing_mandatory a gs gb gu rest hnt htag hmem hlive hmand hnoopt

/-- concrete: the reader's mandatory field `#[n(1)]` is unknown to the writer — map and array. -/
theorem compat_missing_mandatory_example :
    let w : FTy := .struct { enc := some .map } [({ idx := 0 }, .int .u8)]
    let r : FTy := .struct { enc := some .map } [({ idx := 0 }, .int .u8), ({ idx := 1 }, .int .u8)]
    compatible w r = false ∧ deriveDecode r (deriveEncode w (.struct [.int 3])) = .err .missing [] := by
  refine ⟨by rfl, by rfl⟩

/-! ## Positive theorems (all accepted schemas of the stated shape, all values, unbounded)

`compat_decode_fields` is the engine: the reader's slot loops (both encodings) on a body written
by *any* other version, given what each item on the wire does to the reader (skip, or the
field's action delivering a value / swallowing an unknown variant).  `compat_decode_struct_partial`
instantiates it for versions whose shared fields are declared alike — i.e. for every sequence of
the documented edits "add an optional field" / "drop a field" at the top level of a struct, at
new or gap indices, in array or map encoding, whatever the (nested) field types: shared fields
come back equal, fields unknown to the writer are nil, fields unknown to the reader are ignored
whatever their content.  The K5 situation is excluded by an explicit hypothesis, `skip()` on the
ignored items is the statement of C06.skip_exact.  Edits *inside* a field's type (and the general
statement `compat_decode_statement` restricted by `benign`) rest on the correspondence. -/

/-- the reader's body decoder on a body written by any other version (engine). -/
theorem compat_decode_fields (enc : Encoding) (fs : Fields) (vs : List Derive.Val) (gs : Fields) (rest : Bytes)
    (ρ : Nat → Option Derive.Val)
    (hacc : acceptedFields fs = true) (hnd : (liveIdxs fs).Nodup) (hty : hasFields fs vs = true)
    (hndR : (liveIdxs gs).Nodup)
    (hcell : enc = .array → ∀ m, maxPresent (specFields fs vs) = some m → ∀ i, i ≤ m →
      StepH gs (ρ i) i (encPref (cellAt (specFields fs vs) i)))
    (hentry : enc = .map → ∀ p ∈ encFields fs vs, p.nil = false → StepH gs (ρ p.idx) p.idx (tagBytes p.tag ++ p.body))
    (hopt : ∀ b u, (b, u) ∈ gs → b.skip = false → sigmaF enc fs vs ρ b.idx = none → slotInit u = none →
      (nilOf b u).isSome = true) :
    Derive.fieldsDec enc (decFields gs) (frame enc (encFields fs vs) ++ rest) = .ok (readerVals (sigmaF enc fs vs ρ) gs) rest :=
  fieldsDec_compat enc fs vs gs rest ρ hacc hnd hty hndR hcell hentry hopt

/-- **C10 for structs whose shared fields are declared alike** (`SameHyp`: shared fields have the
    same type, tag and codec; the reader's extra fields are optional and not hit by K5; the
    writer's extra fields are skippable items). -/
theorem compat_decode_struct_partial (a b : SAttr) (fs gs : Fields) (vs : List Derive.Val) (rest : Bytes)
    (haw : accepted (.struct a fs) = true) (har : accepted (.struct b gs) = true)
    (hv : hasTy (.struct a fs) (.struct vs) = true) (hc : C09.noClash (.struct a fs) (.struct vs) = true)
    (hta : a.transparent = false) (htb : b.transparent = false) (htag : a.tag = b.tag)
    (henc : a.enc.getD .array = b.enc.getD .array)
    (H : SameHyp (a.enc.getD .array) fs vs gs) :
    deriveDecode (.struct b gs) (deriveEncode (.struct a fs) (.struct vs) ++ rest)
      = .ok (.struct (expectSame fs vs gs)) rest := by
  simp only [accepted, Bool.and_eq_true] at haw har
  simp only [hasTy] at hv
  simp only [C09.noClash] at hc
  have hrt := C09.fields_roundtrip fs vs haw.1.1.1.2 hv hc
  have hmain := fieldsDec_same (a.enc.getD .array) fs vs gs rest haw.1.1.1.2 (C08.nodupNat_nodup _ haw.1.1.2) hv hrt
    har.1.1.1.2 (C08.nodupNat_nodup _ har.1.1.2) H
  simp only [deriveDecode, deriveEncode, encTy, decTy, structDec, hta, htb, Bool.false_eq_true, if_false, List.append_assoc]
  rw [Dec.bind_run, ← htag, tagCheck_rt _ _ haw.1.1.1.1]
  simp only []
  rw [Dec.bind_run, ← henc, hmain]
  rfl

/-- **adding an optional field** (new or gap index, array or map): the newer reader sees the
    older writer's fields unchanged and the new field as its nil value. -/
theorem compat_add_optional_field (a : SAttr) (fs : Fields) (fa : FAttr) (ft : FTy) (vs : List Derive.Val) (rest : Bytes)
    (haw : accepted (.struct a fs) = true) (har : accepted (.struct a ((fa, ft) :: fs)) = true)
    (hv : hasTy (.struct a fs) (.struct vs) = true) (hc : C09.noClash (.struct a fs) (.struct vs) = true)
    (hta : a.transparent = false) (hlive : fa.skip = false) (hopt : Optional fa ft) :
    deriveDecode (.struct a ((fa, ft) :: fs)) (deriveEncode (.struct a fs) (.struct vs) ++ rest)
      = .ok (.struct (nilVal fa ft :: defaultsFields fs vs)) rest := by
  have haw' := haw
  have har' := har
  simp only [accepted, Bool.and_eq_true] at haw' har'
  have hv' := hv
  simp only [hasTy] at hv'
  have hndW := C08.nodupNat_nodup _ haw'.1.1.2
  have hndR := C08.nodupNat_nodup _ har'.1.1.2
  have hfresh : fa.idx ∉ liveIdxs fs := by
    have : (fa.idx :: liveIdxs fs).Nodup := by simpa [liveIdxs, hlive] using hndR
    exact (List.nodup_cons.1 this).1
  have hnone : lookupVal fs vs fa.idx = none := (lookupVal_none fs vs fa.idx hv').2 hfresh
  have H : SameHyp (a.enc.getD .array) fs vs ((fa, ft) :: fs) := by
    refine ⟨?_, ?_, ?_⟩
    · intro b u hbu hbs a' t' v' hl
      rcases List.mem_cons.1 hbu with e | hbu'
      · cases e; rw [hnone] at hl; cases hl
      · obtain ⟨rfl, rfl⟩ := lookupVal_unique fs vs hndW b u hbu' hbs a' t' v' hl
        exact ⟨rfl, rfl, rfl⟩
    · intro b u hbu hbs hl
      rcases List.mem_cons.1 hbu with e | hbu'
      · cases e; exact hopt
      · have := (lookupVal_none fs vs b.idx hv').1 hl
        exact absurd (mem_liveIdxs fs b u hbu' hbs) this
    · intro p hp hni
      exfalso; apply hni
      have := encFields_idx_live fs vs p hp
      simp [liveIdxs, hlive, this]
  have := compat_decode_struct_partial a a fs ((fa, ft) :: fs) vs rest haw har hv hc hta hta rfl rfl H
  rw [this]
  simp only [expectSame, hlive, Bool.false_eq_true, if_false, hnone]
  rw [expectSame_suffix fs vs fs vs hv' hndW (fun _ _ _ _ h => h)]

/-- **dropping a field / a field unknown to the reader**: the reader that does not know a field
    ignores it whatever its type and content (its item is skipped), all other fields are intact. -/
theorem compat_drop_field (a : SAttr) (fs : Fields) (fa : FAttr) (ft : FTy) (v0 : Derive.Val) (vs : List Derive.Val) (rest : Bytes)
    (haw : accepted (.struct a ((fa, ft) :: fs)) = true) (har : accepted (.struct a fs) = true)
    (hv : hasTy (.struct a ((fa, ft) :: fs)) (.struct (v0 :: vs)) = true)
    (hc : C09.noClash (.struct a ((fa, ft) :: fs)) (.struct (v0 :: vs)) = true)
    (hta : a.transparent = false) (hlive : fa.skip = false)
    (hskip : ∀ r, Dec.skip true (tagBytes fa.tag ++ (encWith fa.codec (encTy ft) v0 ++ r)) = .ok () r) :
    deriveDecode (.struct a fs) (deriveEncode (.struct a ((fa, ft) :: fs)) (.struct (v0 :: vs)) ++ rest)
      = .ok (.struct (defaultsFields fs vs)) rest := by
  have haw' := haw
  have har' := har
  simp only [accepted, Bool.and_eq_true] at haw' har'
  have hv' := hv
  simp only [hasTy, hasFields, Bool.and_eq_true] at hv'
  have hndW := C08.nodupNat_nodup _ haw'.1.1.2
  have hndR := C08.nodupNat_nodup _ har'.1.1.2
  have hfresh : fa.idx ∉ liveIdxs fs := by
    have : (fa.idx :: liveIdxs fs).Nodup := by simpa [liveIdxs, hlive] using hndW
    exact (List.nodup_cons.1 this).1
  have hlk : ∀ i, i ∈ liveIdxs fs → lookupVal ((fa, ft) :: fs) (v0 :: vs) i = lookupVal fs vs i := by
    intro i hi
    have hne : fa.idx ≠ i := by intro e; rw [e] at hfresh; exact hfresh hi
    have hb : (fa.idx == i) = false := by simpa using hne
    simp [lookupVal, hlive, hb]
  have H : SameHyp (a.enc.getD .array) ((fa, ft) :: fs) (v0 :: vs) fs := by
    refine ⟨?_, ?_, ?_⟩
    · intro b u hbu hbs a' t' v' hl
      rw [hlk b.idx (mem_liveIdxs fs b u hbu hbs)] at hl
      obtain ⟨rfl, rfl⟩ := lookupVal_unique fs vs hndR b u hbu hbs a' t' v' hl
      exact ⟨rfl, rfl, rfl⟩
    · intro b u hbu hbs hl
      rw [hlk b.idx (mem_liveIdxs fs b u hbu hbs)] at hl
      have := (lookupVal_none fs vs b.idx hv'.2).1 hl
      exact absurd (mem_liveIdxs fs b u hbu hbs) this
    · intro p hp hni r
      simp only [encFields, hlive, Bool.false_eq_true, if_false, List.mem_cons] at hp
      rcases hp with rfl | hp
      · exact hskip r
      · exfalso; apply hni
        exact encFields_idx_live fs vs p hp
  have := compat_decode_struct_partial a a ((fa, ft) :: fs) fs (v0 :: vs) rest haw har hv hc hta hta rfl rfl H
  rw [this]
  congr 2
  exact expectSame_suffix ((fa, ft) :: fs) (v0 :: vs) fs vs hv'.2 hndR (by
    intro i a' t' v' hl
    have hi : i ∈ liveIdxs fs := by
      have h3 := lookupVal_mem fs vs i a' t' v' hl
      rw [← h3.2.1]; exact mem_liveIdxs fs a' t' (lookupVal_fst_mem fs vs i a' t' v' hl) h3.1
    rw [hlk i hi]; exact hl)

/-- **an unknown variant in an optional field becomes `None`**: the action of a field that
    swallows unknown variants (`Option<Enum>`, nil-aware codec), on an item its decoder rejects
    with an unknown-variant error *anywhere inside*, skips the whole item — regular and
    `index_only` enums alike since the repair of F5 — and reports "keep the slot". -/
theorem compat_unknown_variant_swallowed (b : FAttr) (u : FTy) (X r r' : Bytes)
    (htag : tagOk b.tag = true) (hsw : swallows b u = true)
    (hdec : decWith b.codec (decTy u) (X ++ r) = .err .variant r')
    (hskip : Dec.skip true (tagBytes b.tag ++ (X ++ r)) = .ok () r) :
    action (fdOf b u) (tagBytes b.tag ++ (X ++ r)) = .ok none r :=
  action_swallow b u X r r' htag hsw hdec hskip

/-- … **without disturbing any sibling field**: the slots of all other fields are untouched and
    the decoder stands exactly behind the item. -/
theorem compat_unknown_variant_keeps_siblings (c : Nat) (X r : Bytes) : ∀ (gs : Fields) (ss : Slots),
    (∀ b u, (b, u) ∈ gs → b.skip = false → b.idx = c → action (fdOf b u) (X ++ r) = .ok none r) →
    c ∈ liveIdxs gs → gs.length = ss.length →
    runAt (decFields gs) ss c (X ++ r) = .ok ss r
  | [], _, _, hc, _ => by simp [liveIdxs] at hc
  | (b, u) :: gs, [], _, _, hl => by simp at hl
  | (b, u) :: gs, s :: ss, hact, hc, hl => by
    by_cases hcond : (!b.skip && b.idx == c) = true
    · simp only [Bool.and_eq_true, Bool.not_eq_true', beq_iff_eq] at hcond
      have ha : action ⟨b, slotInit u, nilOf b u, defaultOf u, swallows b u, decWith b.codec (decTy u)⟩ (X ++ r) = .ok none r :=
        hact b u (by simp) hcond.1 hcond.2
      simp only [decFields_cons, runAt, fdOf, hcond.1, hcond.2, Bool.not_false, Bool.true_and, beq_self_eq_true, if_true]
      rw [Dec.bind_run, ha]
      rfl
    · have hcond' : (!b.skip && b.idx == c) = false := by simpa using hcond
      have hc' : c ∈ liveIdxs gs := by
        cases hs : b.skip
        · have : c ∈ b.idx :: liveIdxs gs := by simpa [liveIdxs, hs] using hc
          rcases List.mem_cons.1 this with e | h
          · simp [hs, e] at hcond'
          · exact h
        · simpa [liveIdxs, hs] using hc
      have ih := compat_unknown_variant_keeps_siblings c X r gs ss (fun b' u' hm => hact b' u' (by simp [hm])) hc'
        (by simpa using hl)
      simp only [decFields_cons, runAt, fdOf, hcond', Bool.false_eq_true, if_false]
      rw [Dec.bind_run, ih]
      rfl

/-- an enum decoder reports an unknown variant (here: at top level of the field's type) as an
    unknown-variant error, which is what `compat_unknown_variant_swallowed` consumes. -/
theorem compat_unknown_variant_error (e : EAttr) (us : Variants) (i : Nat) (rest : Bytes) (htag : e.tag = none)
    (hi : i < 4294967296) (hunk : i ∉ us.map (·.1.idx)) :
    decTy (.option (.enum e us)) ((if e.indexOnly then [] else Enc.array 2) ++ (Enc.u32 i ++ rest)) = .err .variant rest := by
  have h := C09.derive_unknown_variant e us i rest htag hi hunk
  have hs : startOk ((if e.indexOnly then [] else Enc.array 2) ++ (Enc.u32 i)) = true := by
    cases e.indexOnly
    · rfl
    · simp only [if_true, List.nil_append]
      unfold Enc.u32
      split
      · have : (Minicbor.u8 i).toNat = i := u8_toNat (by omega)
        simp [startOk, this]; omega
      · split
        · simp [startOk]
        · split <;> simp [startOk]
  obtain ⟨ty, h1, h2⟩ := datatype_startOk _ rest hs
  simp only [List.append_assoc] at h1
  simp only [decTy, optionDec]
  rw [Dec.bind_run, h1]
  simp only [h2, beq_iff_eq, if_false]
  simp only [deriveDecode, decTy] at h
  rw [Dec.bind_run, h]

/-! ## The documented edits are instances of `compatible` (both directions) -/

theorem findVar_of_mem : ∀ (us : Variants) (pos : Nat) (va : VAttr) (fs : Fields), (us.map (·.1.idx)).Nodup → (va, fs) ∈ us →
    ∃ p, findVar us pos va.idx = some (p, va, fs)
  | [], _, _, _, _, h => by simp at h
  | (vb, gs) :: us, pos, va, fs, hnd, h => by
    have hnd' : vb.idx ∉ us.map (·.1.idx) ∧ (us.map (·.1.idx)).Nodup := List.nodup_cons.1 hnd
    rcases List.mem_cons.1 h with e | h'
    · cases e; exact ⟨pos, by simp [findVar]⟩
    · have hne : vb.idx ≠ va.idx := by
        intro e; apply hnd'.1; rw [e]; exact List.mem_map.2 ⟨(va, fs), h', rfl⟩
      have hb : (vb.idx == va.idx) = false := by simpa using hne
      obtain ⟨p, hp⟩ := findVar_of_mem us (pos + 1) va fs hnd'.2 h'
      exact ⟨p, by simp [findVar, hb, hp]⟩

theorem onlyOptional_self (fs : Fields) (hnd : (liveIdxs fs).Nodup) : onlyOptional fs fs = true := by
  simp only [onlyOptional, List.all_eq_true, Bool.or_eq_true]
  intro g hg
  cases hs : g.1.skip
  · left; right
    have := findField_of_mem fs g.1 g.2 hnd hg hs
    simp [this]
  · left; left; rfl

theorem compat_blob_refl (t : FTy) (l : Bool) (hb : fieldBlob t = true) : compatTy l t t = true := by
  cases t with
  | blob k => simp [compatTy]
  | option t' =>
    cases t' with
    | blob k => simp [compatTy]
    | _ => simp [fieldBlob] at hb
  | _ => simp [fieldBlob] at hb

mutual
/-- every accepted version reads itself. -/
theorem compat_refl : ∀ (t : FTy) (l : Bool), accepted t = true → compatTy l t t = true
  | .int _, _, _ => by simp [compatTy]
  | .bool, _, _ => by simp [compatTy]
  | .text _, _, _ => by simp [compatTy]
  | .blob _, _, _ => by simp [compatTy]
  | .option t, l, ha => by simp only [accepted] at ha; simp only [compatTy]; exact compat_refl t l ha
  | .vec t, l, ha => by simp only [accepted] at ha; simp only [compatTy]; exact compat_refl t false ha
  | .struct a fs, l, ha => by
    simp only [accepted, Bool.and_eq_true] at ha
    have hnd := C08.nodupNat_nodup _ ha.1.1.2
    simp only [compatTy, beq_self_eq_true, Bool.true_and]
    cases htr : a.transparent
    · simp only [Bool.false_eq_true, if_false, Bool.and_eq_true]
      exact ⟨compatFields_refl fs fs ha.1.1.1.2 hnd (fun g hg => hg), onlyOptional_self fs hnd⟩
    · simp only [if_true]
      have h1 := ha.2
      simp only [htr, Bool.not_true, Bool.false_or, Bool.and_eq_true] at h1
      match fs, h1, ha with
      | [(fa, ft)], _, ha =>
        simp only [compatOne, beq_self_eq_true, Bool.true_and]
        have := ha.1.1.1.2
        simp only [acceptedFields, Bool.and_eq_true, Bool.or_eq_true] at this
        rcases this.1.2 with hb | hacc
        · exact compat_blob_refl ft false hb
        · exact compat_refl ft false hacc
      | [], h1, _ => simp at h1
      | _ :: _ :: _, h1, _ => simp at h1
  | .enum a vs, l, ha => by
    simp only [accepted, Bool.and_eq_true] at ha
    simp only [compatTy, beq_self_eq_true, Bool.true_and]
    exact compatVars_refl l a vs vs ha.1.1.2 (C08.nodupNat_nodup _ ha.1.2) (fun g hg => hg)
termination_by structural t => t
theorem compatFields_refl : ∀ (fs gs : Fields), acceptedFields fs = true → (liveIdxs gs).Nodup → (∀ g ∈ fs, g ∈ gs) →
    compatFields fs gs = true
  | [], _, _, _, _ => by simp [compatFields]
  | (fa, t) :: fs, gs, ha, hnd, hsub => by
    simp only [acceptedFields, Bool.and_eq_true, Bool.or_eq_true] at ha
    simp only [compatFields, Bool.and_eq_true]
    refine ⟨?_, compatFields_refl fs gs ha.2 hnd (fun g hg => hsub g (by simp [hg]))⟩
    cases hs : fa.skip
    · simp only [Bool.false_eq_true, if_false]
      rw [findField_of_mem gs fa t hnd (hsub _ (by simp)) hs]
      simp only [beq_self_eq_true, Bool.true_and]
      rcases ha.1.2 with hb | hacc
      · exact compat_blob_refl t _ hb
      · exact compat_refl t _ hacc
    · simp
termination_by structural fs => fs
theorem compatVars_refl (l : Bool) (e : EAttr) : ∀ (vs us : Variants), acceptedVars e vs = true →
    (us.map (·.1.idx)).Nodup → (∀ g ∈ vs, g ∈ us) → compatVars l e e vs us = true
  | [], _, _, _, _ => by simp [compatVars]
  | (va, fs) :: rest, us, ha, hnd, hsub => by
    simp only [acceptedVars, Bool.and_eq_true, decide_eq_true_eq] at ha
    obtain ⟨⟨⟨⟨⟨⟨hidx, htag⟩, hacc⟩, hndf⟩, hunit⟩, hio⟩, hrest⟩ := ha
    simp only [compatVars, Bool.and_eq_true]
    refine ⟨?_, compatVars_refl l e rest us hrest hnd (fun g hg => hsub g (by simp [hg]))⟩
    obtain ⟨p, hp⟩ := findVar_of_mem us 0 va fs hnd (hsub _ (by simp))
    rw [hp]
    simp only [beq_self_eq_true, Bool.true_and]
    cases hsh : va.shape
    · rfl
    all_goals
      simp only [Bool.and_eq_true, Bool.true_and]
      exact ⟨compatFields_refl fs fs hacc (C08.nodupNat_nodup _ hndf) (fun g hg => hg), onlyOptional_self fs (C08.nodupNat_nodup _ hndf)⟩
termination_by structural vs => vs
end

theorem compatible_refl (t : FTy) (ha : accepted t = true) : compatible t t = true := compat_refl t false ha

/-- "add an optional field" and "drop an optional field" are `compatible` in both directions. -/
theorem step_compatible_field (l : Bool) (a : SAttr) (fs : Fields) (fa : FAttr) (ft : FTy)
    (hold : accepted (.struct a fs) = true) (hnew : accepted (.struct a ((fa, ft) :: fs)) = true)
    (hta : a.transparent = false) (hlive : fa.skip = false) (hopt : Optional fa ft) :
    compatTy l (.struct a fs) (.struct a ((fa, ft) :: fs)) = true ∧
    compatTy l (.struct a ((fa, ft) :: fs)) (.struct a fs) = true := by
  have hold' := hold
  have hnew' := hnew
  simp only [accepted, Bool.and_eq_true] at hold' hnew'
  have hndO := C08.nodupNat_nodup _ hold'.1.1.2
  have hndN := C08.nodupNat_nodup _ hnew'.1.1.2
  have hfresh : fa.idx ∉ liveIdxs fs := by
    have : (fa.idx :: liveIdxs fs).Nodup := by simpa [liveIdxs, hlive] using hndN
    exact (List.nodup_cons.1 this).1
  have hself := compatFields_refl fs fs hold'.1.1.1.2 hndO (fun g hg => hg)
  have hselfN : compatFields fs ((fa, ft) :: fs) = true :=
    compatFields_refl fs ((fa, ft) :: fs) hold'.1.1.1.2 hndN (fun g hg => by simp [hg])
  constructor
  · -- the newer reader: all old fields are shared; the new field is optional
    simp only [compatTy, hta, beq_self_eq_true, Bool.true_and, Bool.false_eq_true, if_false, Bool.and_eq_true]
    refine ⟨hselfN, ?_⟩
    simp only [onlyOptional, List.all_cons, Bool.and_eq_true, Bool.or_eq_true, List.all_eq_true]
    refine ⟨Or.inr hopt, ?_⟩
    intro g hg
    cases hs : g.1.skip
    · left; right
      simp [findField_of_mem fs g.1 g.2 hndO hg hs]
    · left; left; rfl
  · -- the older reader: the new field is unknown to it and skipped
    simp only [compatTy, hta, beq_self_eq_true, Bool.true_and, Bool.false_eq_true, if_false, Bool.and_eq_true]
    refine ⟨?_, ?_⟩
    · simp only [compatFields, hlive, Bool.false_eq_true, if_false, Bool.and_eq_true]
      refine ⟨?_, hself⟩
      rw [(findField_none fs fa.idx).2 hfresh]
    · simp only [onlyOptional, List.all_eq_true, Bool.or_eq_true]
      intro g hg
      cases hs : g.1.skip
      · left; right
        have hne : fa.idx ≠ g.1.idx := by
          intro e; apply hfresh; rw [e]; exact mem_liveIdxs fs g.1 g.2 hg hs
        have hb : (fa.idx == g.1.idx) = false := by simpa using hne
        simp [findField, hlive, hb, findField_of_mem fs g.1 g.2 hndO hg hs]
      · left; left; rfl

/-- "add a variant to an enum that is only used as an optional field": the newer reader always
    reads the older writer; the older reader reads the newer writer exactly in lenient (optional
    field) position. -/
theorem step_compatible_variant (e : EAttr) (vars : Variants) (va : VAttr) (fs : Fields)
    (hold : accepted (.enum e vars) = true) (hnew : accepted (.enum e ((va, fs) :: vars)) = true) :
    (∀ l, compatTy l (.enum e vars) (.enum e ((va, fs) :: vars)) = true) ∧
    compatTy true (.enum e ((va, fs) :: vars)) (.enum e vars) = true ∧
    compatTy false (.enum e ((va, fs) :: vars)) (.enum e vars) = false := by
  have hold' := hold
  have hnew' := hnew
  simp only [accepted, Bool.and_eq_true] at hold' hnew'
  have hndO := C08.nodupNat_nodup _ hold'.1.2
  have hndN := C08.nodupNat_nodup _ hnew'.1.2
  have hfresh : va.idx ∉ vars.map (·.1.idx) := (List.nodup_cons.1 (by simpa using hndN)).1
  have hnf : findVar vars 0 va.idx = none := by
    have : ∀ (us : Variants) (pos : Nat), va.idx ∉ us.map (·.1.idx) → findVar us pos va.idx = none := by
      intro us
      induction us with
      | nil => intros; rfl
      | cons u us ih =>
        intro pos h
        obtain ⟨ub, ug⟩ := u
        have hne : ub.idx ≠ va.idx := by intro e; apply h; simp [e]
        have hb : (ub.idx == va.idx) = false := by simpa using hne
        simp only [findVar, hb, Bool.false_eq_true, if_false]
        exact ih (pos + 1) (fun hm => h (by simp [hm]))
    exact this vars 0 hfresh
  refine ⟨fun l => ?_, ?_, ?_⟩
  · simp only [compatTy, beq_self_eq_true, Bool.true_and]
    exact compatVars_refl l e vars ((va, fs) :: vars) hold'.1.1.2 hndN (fun g hg => by simp [hg])
  · simp only [compatTy, beq_self_eq_true, Bool.true_and, compatVars, hnf]
    exact compatVars_refl true e vars vars hold'.1.1.2 hndO (fun g hg => hg)
  · simp [compatTy, compatVars, hnf]

/-! ## The general theorem: arbitrary compatible versions, at any nesting depth

`compat_ty` (mutual structural induction over the writer's schema, following the structure of
`compatTy`): for accepted schemas `w`, `r` with `compatTy l w r`, every well-typed value `v` of
`w` outside the `Some(x) = null` exclusion and outside K5 (`benign`), whose encoding fits a slice,
the reader's decoder on the writer's encoding followed by arbitrary bytes delivers the documented
projection and stops exactly at the end of the encoding; where the projection is "unknown
variant" (possible only in lenient position, i.e. in the declared type of an optional field) it
reports an unknown-variant error, which the enclosing optional field turns into its nil value
after skipping the whole item (`body_compat`).  Items the reader does not know are crossed by
`skip()` (C06.skip_exact, the derived encoding being a valid wire tree: `spec_valid`). -/

mutual
theorem compat_ty : ∀ (w r : FTy) (l : Bool) (v : Derive.Val), accepted w = true → accepted r = true →
    compatTy l w r = true → benignP true w r v = true → hasTy w v = true → C09.noClash w v = true →
    (encTy w v).length < 2 ^ 64 → TyC l w r v
  | .int k, r, l, v, _, _, hc, _, hv, _, _ => by
    cases r with
    | int k' => exact tyC_int k k' l v hc hv
    | _ => simp [compatTy] at hc
  | .bool, r, l, v, _, _, hc, _, hv, _, _ => by
    cases r with
    | bool => exact tyC_bool l v hv
    | _ => simp [compatTy] at hc
  | .text k, r, l, v, _, _, hc, _, hv, _, _ => by
    cases r with
    | text k' => exact tyC_text k k' l v hv
    | _ => simp [compatTy] at hc
  | .blob k, r, l, v, _, _, hc, _, hv, _, _ => by
    cases r with
    | blob k' => exact tyC_blob k k' l v hv
    | _ => simp [compatTy] at hc
  | .option w, r, l, v, ha, har, hc, hb, hv, hcl, hlen => by
    cases r with
    | option r' =>
      simp only [accepted] at ha har
      simp only [compatTy] at hc
      cases v with
      | none => exact tyC_option_none l w r'
      | some x =>
        simp only [hasTy] at hv
        simp only [C09.noClash, Bool.and_eq_true] at hcl
        simp only [benignP] at hb
        simp only [encTy] at hlen
        exact tyC_option_some l w r' x hcl.1 (compat_ty w r' l x ha har hc hb hv hcl.2 hlen)
      | _ => simp [hasTy] at hv
    | _ => simp [compatTy] at hc
  | .vec w, r, l, v, ha, har, hc, hb, hv, hcl, hlen => by
    cases r with
    | vec r' =>
      simp only [accepted] at ha har
      simp only [compatTy] at hc
      cases v with
      | list vs =>
        simp only [hasTy, Bool.and_eq_true, List.all_eq_true, decide_eq_true_eq] at hv
        simp only [C09.noClash, List.all_eq_true] at hcl
        simp only [benignP, List.all_eq_true] at hb
        simp only [encTy, List.length_append] at hlen
        refine tyC_vec l w r' vs hv.2 (fun x hx => compat_ty w r' false x ha har hc (hb x hx) (hv.1 x hx) (hcl x hx) ?_)
        have := flatten_mem_length (vs.map (encTy w)) (encTy w x) (List.mem_map.2 ⟨x, hx, rfl⟩)
        omega
      | _ => simp [hasTy] at hv
    | _ => simp [compatTy] at hc
  | .struct a fs, r, l, v, ha, har, hc, hb, hv, hcl, hlen => by
    cases r with
    | struct b gs =>
      cases v with
      | struct vs =>
        simp only [accepted, Bool.and_eq_true] at ha har
        simp only [hasTy] at hv
        simp only [C09.noClash] at hcl
        simp only [compatTy, Bool.and_eq_true, beq_iff_eq] at hc
        have hndW := C08.nodupNat_nodup _ ha.1.1.2
        have hndR := C08.nodupNat_nodup _ har.1.1.2
        cases hta : a.transparent
        · have htb : b.transparent = false := by rw [← hc.1]; exact hta
          have hc2 := hc.2
          simp only [hta, Bool.false_eq_true, if_false, Bool.and_eq_true, beq_iff_eq] at hc2
          obtain ⟨⟨⟨htag, henc⟩, hcf⟩, hoo⟩ := hc2
          simp only [benignP, hta, Bool.false_eq_true, if_false, Bool.and_eq_true] at hb
          simp only [encTy, hta, Bool.false_eq_true, if_false, List.length_append] at hlen
          have hfl : (frame (a.enc.getD .array) (encFields fs vs)).length < 2 ^ 64 := by omega
          have hfit := fieldsFit_of_frame _ fs vs ha.1.1.1.2 hndW hv hfl
          have hitems := compat_fields fs gs vs ha.1.1.1.2 har.1.1.1.2 hndR hcf hb.1 hv hcl hfit
          have HB : BodyHyp (a.enc.getD .array) fs vs gs :=
            ⟨ha.1.1.1.2, hndW, hv, har.1.1.1.2, hndR, hcf, hoo, hfl, hitems⟩
          exact tyC_struct l a b fs gs vs hta htb htag ha.1.1.1.1 henc HB
        · have htb : b.transparent = true := by rw [← hc.1]; exact hta
          have hc2 := hc.2
          simp only [hta, if_true] at hc2
          have ha2 := ha.2
          simp only [hta, Bool.not_true, Bool.false_or, Bool.and_eq_true] at ha2
          have har2 := har.2
          simp only [htb, Bool.not_true, Bool.false_or, Bool.and_eq_true] at har2
          simp only [benignP, hta, if_true] at hb
          simp only [encTy, hta, if_true] at hlen
          match gs, hc2, har, har2, hb with
          | [(gb, u)], hc2, har, har2, hb =>
            have hgacc := har.1.1.1.2
            simp only [acceptedFields, Bool.and_eq_true] at hgacc
            have hgs : gb.skip = false := by simpa using har2.2
            exact tyC_transparent l a b fs gb u vs hta htb
              (compat_one fs gb u vs ha.1.1.1.2 ha2.2 hgs hgacc.1.1 hgacc.1.2 hc2 hb hv hcl hlen)
          | [], hc2, _, _, _ => simp at hc2
          | _ :: _ :: _, hc2, _, _, _ => simp at hc2
      | _ => simp [hasTy] at hv
    | _ => simp [compatTy] at hc
  | .enum a vs, r, l, v, ha, har, hc, hb, hv, hcl, hlen => by
    cases r with
    | enum b us =>
      cases v with
      | enum k fvs =>
        simp only [accepted, Bool.and_eq_true] at ha har
        simp only [hasTy] at hv
        simp only [C09.noClash] at hcl
        simp only [compatTy, Bool.and_eq_true, beq_iff_eq] at hc
        simp only [benignP] at hb
        obtain ⟨⟨htag, hio⟩, hcv⟩ := hc
        have hidx := varIdx_lt a vs k fvs ha.1.1.2 hv
        have hrl : (C09.rowBytes a vs k fvs).length < 2 ^ 64 := by
          simp only [encTy, C09.encVars_eq a vs k fvs ha.1.1.2 hv, List.length_append] at hlen
          omega
        exact tyC_enum l a b vs us k fvs htag ha.1.1.1 hio ha.1.1.2 hv hidx
          (compat_vars l a b us vs k fvs hio ha.1.1.2 har.1.1.2 hcv hb hv hcl hrl)
      | _ => simp [hasTy] at hv
    | _ => simp [compatTy] at hc
termination_by structural w => w
/-- transparent structs: the single writer field against the single reader field. -/
theorem compat_one : ∀ (fs : Fields) (gb : FAttr) (u : FTy) (vs : List Derive.Val), acceptedFields fs = true →
    (match fs with | [(fa, _)] => !fa.skip | _ => false) = true → gb.skip = false → fieldAttrOk gb u = true →
    (fieldBlob u || accepted u) = true → compatOne fs gb u = true → benignOne true fs u vs = true →
    hasFields fs vs = true → C09.noClashFields fs vs = true → (transparentBody (encFields fs vs)).length < 2 ^ 64 →
    (∀ x, projOne fs u vs = .ok x → ∀ rest,
        decWith gb.codec (decTy u) (transparentBody (encFields fs vs) ++ rest) = .ok x rest) ∧
      projOne fs u vs ≠ .unknown
  | [], _, _, _, _, h, _, _, _, _, _, _, _, _ => by simp at h
  | _ :: _ :: _, _, _, _, _, h, _, _, _, _, _, _, _, _ => by simp at h
  | [(fa, t)], gb, u, vs, ha, hs, hgs, hgok, hgacc, hc, hb, hv, hcl, hlen => by
    have hfs : fa.skip = false := by simpa using hs
    match vs, hv, hb, hcl, hlen with
    | [], hv, _, _, _ => simp [hasFields] at hv
    | _ :: _ :: _, hv, _, _, _ => simp [hasFields] at hv
    | [v], hv, hb, hcl, hlen =>
      simp only [hasFields, Bool.and_eq_true] at hv
      simp only [acceptedFields, Bool.and_eq_true, Bool.or_eq_true] at ha
      simp only [compatOne, Bool.and_eq_true, beq_iff_eq] at hc
      simp only [benignOne] at hb
      simp only [C09.noClashFields, hfs, Bool.false_or, Bool.and_true] at hcl
      simp only [encFields, hfs, Bool.false_eq_true, if_false, transparentBody] at hlen ⊢
      have hattr := ha.1.1
      simp only [fieldAttrOk, hfs, Bool.false_eq_true, if_false, Bool.and_eq_true] at hattr
      simp only [fieldAttrOk, hgs, Bool.false_eq_true, if_false, Bool.and_eq_true] at hgok
      have hI : ItemC false fa t v gb u := by
        apply itemC_of_tyC false fa t v gb u hc.1 hattr.1.2 hgok.1.2 hv.1 hc.2
        intro hnn
        have e2 : encWith fa.codec (encTy t) v = encTy t v := by
          cases hcd : fa.codec <;> simp [encWith] ; exact absurd hcd hnn
        rw [e2] at hlen
        rcases ha.1.2 with hbl | hacc
        · exact tyC_fieldBlob false t u v hbl hc.2 hv.1 hcl
        · cases hbu : fieldBlob u
          · have haccu : accepted u = true := by simpa [hbu] using hgacc
            exact compat_ty t u false v hacc haccu hc.2 hb hv.1 hcl hlen
          · exact tyC_fieldBlob false t u v (fieldBlob_of_compat false t u hc.2 hbu) hc.2 hv.1 hcl
      refine ⟨fun x hx rest => ?_, fun hu => ?_⟩
      · simp only [projOne] at hx
        exact hI.1 x hx rest
      · simp only [projOne] at hu
        have := (hI.2 hu).1
        cases this
termination_by structural fs => fs
/-- the fields of a struct / variant body: every shared non-nil field is read compatibly. -/
theorem compat_fields : ∀ (fs gs : Fields) (vs : List Derive.Val), acceptedFields fs = true → acceptedFields gs = true →
    (liveIdxs gs).Nodup → compatFields fs gs = true → benignFields true fs gs vs = true → hasFields fs vs = true →
    C09.noClashFields fs vs = true → FieldsFit fs vs → FieldsC gs fs vs
  | [], _, vs, _, _, _, _, _, _, _, _ => by cases vs <;> trivial
  | (a, t) :: fs, _, [], _, _, _, _, _, _, _, _ => trivial
  | (a, t) :: fs, gs, v :: vs, ha, hga, hgn, hc, hb, hv, hcl, hfit => by
    simp only [acceptedFields, Bool.and_eq_true, Bool.or_eq_true] at ha
    simp only [compatFields, Bool.and_eq_true] at hc
    simp only [benignFields, Bool.and_eq_true] at hb
    simp only [hasFields, Bool.and_eq_true] at hv
    simp only [C09.noClashFields, Bool.and_eq_true, Bool.or_eq_true] at hcl
    refine ⟨?_, compat_fields fs gs vs ha.2 hga hgn hc.2 hb.2 hv.2 hcl.2 hfit.2⟩
    intro hs hn b u hf
    obtain ⟨hbu, hbs, _⟩ := findField_mem gs a.idx b u hf
    have hc1 := hc.1
    have hb1 := hb.1
    simp only [hs, Bool.false_eq_true, if_false, hf, Bool.and_eq_true, beq_iff_eq] at hc1 hb1
    have hattr := ha.1.1
    simp only [fieldAttrOk, hs, Bool.false_eq_true, if_false, Bool.and_eq_true] at hattr
    have hok := fieldOk_of_mem gs b u hga hbu hbs
    have hcl1 : C09.noClash t v = true := by
      rcases hcl.1 with h | h
      · rw [hs] at h; cases h
      · exact h
    apply itemC_of_tyC _ a t v b u (by simpa using hc1.1.2) hattr.1.2 hok.2 hv.1 hc1.2
    intro hnn
    have hlen := hfit.1 hs hn
    have e2 : encWith a.codec (encTy t) v = encTy t v := by
      cases hcd : a.codec <;> simp [encWith] ; exact absurd hcd hnn
    rw [e2] at hlen
    rcases ha.1.2 with hbl | hacc
    · exact tyC_fieldBlob _ t u v hbl hc1.2 hv.1 hcl1
    · cases hbu' : fieldBlob u
      · have haccu : accepted u = true := by
          rcases accF_of_mem gs b u hga hbu with h | h
          · rw [hbu'] at h; cases h
          · exact h
        exact compat_ty t u _ v hacc haccu hc1.2 hb1 hv.1 hcl1 hlen
      · exact tyC_fieldBlob _ t u v (fieldBlob_of_compat _ t u hc1.2 hbu') hc1.2 hv.1 hcl1
termination_by structural fs => fs
/-- the rows of an enum. -/
theorem compat_vars (l : Bool) (a b : EAttr) (us : Variants) : ∀ (vs : Variants) (k : Nat) (fvs : List Derive.Val),
    a.indexOnly = b.indexOnly → acceptedVars a vs = true → acceptedVars b us = true →
    compatVars l a b vs us = true → benignVars true a b vs us k fvs = true → hasVars vs k fvs = true →
    C09.noClashVars vs k fvs = true → (C09.rowBytes a vs k fvs).length < 2 ^ 64 →
    (∀ x, projVars vs us k fvs = .ok x → ∀ r,
      findVariant (decVars b us) 0 (C09.varIdx vs k) (C09.rowBytes a vs k fvs ++ r) = .ok x r) ∧
    (projVars vs us k fvs = .unknown → l = true ∧ ∀ r, ∃ r',
      findVariant (decVars b us) 0 (C09.varIdx vs k) (C09.rowBytes a vs k fvs ++ r) = .err .variant r')
  | [], _, _, _, _, _, _, _, hv, _, _ => by simp [hasVars] at hv
  | (va, fs) :: rest, 0, fvs, hio, haW, haR, hc, hb, hv, hcl, hlen => by
    simp only [acceptedVars, Bool.and_eq_true, decide_eq_true_eq] at haW
    obtain ⟨⟨⟨⟨⟨⟨hidx, htag⟩, hacc⟩, hnd⟩, hunit⟩, hioW⟩, _⟩ := haW
    simp only [compatVars, Bool.and_eq_true] at hc
    simp only [hasVars] at hv
    simp only [C09.noClashVars] at hcl
    have hndW := C08.nodupNat_nodup _ hnd
    have hunitW : va.shape = .unit → fs = [] := by intro h; simpa [h] using hunit
    have hioW' : a.indexOnly = true → va.shape = .unit := by intro h; simpa [h] using hioW
    have hfl : (frame (va.enc.getD (a.enc.getD .array)) (encFields fs fvs)).length < 2 ^ 64 := by
      cases hsh : va.shape
      · have := hunitW hsh
        subst this
        rw [show encFields [] fvs = [] by cases fvs <;> rfl, frame_nil]
        cases (va.enc.getD (a.enc.getD .array)) <;> decide
      all_goals
        simp only [C09.rowBytes, hsh, List.length_append] at hlen
        omega
    have H : RowHyp a b va fs fvs us := ⟨hio, htag, hacc, hndW, hunitW, hioW', haR, hv, hfl⟩
    exact row_compat l a b va fs rest us fvs H hc.1 hb
      (fun gs hga hgn hcf hbf => compat_fields fs gs fvs hacc hga hgn hcf hbf hv hcl
        (fieldsFit_of_frame _ fs fvs hacc hndW hv hfl))
  | (va, fs) :: rest, k + 1, fvs, hio, haW, haR, hc, hb, hv, hcl, hlen => by
    simp only [acceptedVars, Bool.and_eq_true] at haW
    simp only [compatVars, Bool.and_eq_true] at hc
    simp only [benignVars] at hb
    simp only [hasVars] at hv
    simp only [C09.noClashVars] at hcl
    simp only [C09.rowBytes] at hlen
    simp only [projVars, C09.varIdx, C09.rowBytes]
    exact compat_vars l a b us rest k fvs hio haW.2 haR hc.2 hb hv hcl hlen
termination_by structural vs => vs
end

/-! ## The projection is defined on compatible versions

`proj_ty`: for accepted `w`, `r` with `compatTy l w r` and every well-typed `v`, `project w r v` is
never `bad`, and it is `unknown` only in lenient position — so `compat_decode` is not vacuous: on
`compatible` versions there always is a projected value, and the reader returns it. -/

theorem pjOk_of_ok {l : Bool} {w r : FTy} {v : Derive.Val} {x : Derive.Val} (h : projTy w r v = .ok x) : PjOk l w r v :=
  ⟨by rw [h]; simp, fun hu => by rw [h] at hu; cases hu⟩

theorem pjOk_fieldBlob (l : Bool) (t u : FTy) (v : Derive.Val) (hb : fieldBlob t = true) (hc : compatTy l t u = true)
    (hv : hasTy t v = true) : PjOk l t u v := by
  cases t with
  | blob k =>
    cases u <;> simp [compatTy] at hc
    cases v <;> simp [hasTy] at hv
    exact pjOk_of_ok (x := _) (by simp only [projTy]; rfl)
  | option t' =>
    cases t' <;> simp [fieldBlob] at hb
    cases u <;> simp [compatTy] at hc
    rename_i u'
    cases u' <;> simp [compatTy] at hc
    cases v <;> simp [hasTy] at hv
    · exact pjOk_of_ok (x := _) (by simp only [projTy]; rfl)
    · rename_i x
      cases x <;> simp [hasTy] at hv
      exact pjOk_of_ok (x := _) (by simp only [projTy]; rfl)
  | _ => simp [fieldBlob] at hb

theorem pjOk_option_some (l : Bool) (w r : FTy) (v : Derive.Val) (h : PjOk l w r v) :
    PjOk l (.option w) (.option r) (.some v) := by
  constructor
  · simp only [projTy]
    cases hp : projTy w r v with
    | ok x => simp
    | unknown => simp
    | bad => exact absurd hp h.nb
  · intro hu
    simp only [projTy] at hu
    cases hp : projTy w r v with
    | ok x => rw [hp] at hu; simp at hu
    | unknown => exact h.unk hp
    | bad => exact absurd hp h.nb

theorem pjOk_vec (l : Bool) (w r : FTy) (vs : List Derive.Val) (h : ∀ v ∈ vs, PjOk false w r v) :
    PjOk l (.vec w) (.vec r) (.list vs) := by
  obtain ⟨ys, hys⟩ := mapPRes_all_ok (vs.map (projTy w r)) (by
    intro p hp
    obtain ⟨v, hv, rfl⟩ := List.mem_map.1 hp
    exact pjOk_ok w r v (h v hv))
  exact pjOk_of_ok (by simp only [projTy]; exact hys)

mutual
theorem proj_ty : ∀ (w r : FTy) (l : Bool) (v : Derive.Val), accepted w = true → accepted r = true →
    compatTy l w r = true → hasTy w v = true → PjOk l w r v
  | .int k, r, l, v, _, _, hc, hv => by
    cases r with
    | int k' => cases v <;> simp [hasTy] at hv; exact pjOk_of_ok (x := _) (by simp only [projTy]; rfl)
    | _ => simp [compatTy] at hc
  | .bool, r, l, v, _, _, hc, hv => by
    cases r with
    | bool => cases v <;> simp [hasTy] at hv; exact pjOk_of_ok (x := _) (by simp only [projTy]; rfl)
    | _ => simp [compatTy] at hc
  | .text k, r, l, v, _, _, hc, hv => by
    cases r with
    | text k' => cases v <;> simp [hasTy] at hv; exact pjOk_of_ok (x := _) (by simp only [projTy]; rfl)
    | _ => simp [compatTy] at hc
  | .blob k, r, l, v, _, _, hc, hv => by
    cases r with
    | blob k' => cases v <;> simp [hasTy] at hv; exact pjOk_of_ok (x := _) (by simp only [projTy]; rfl)
    | _ => simp [compatTy] at hc
  | .option w, r, l, v, ha, har, hc, hv => by
    cases r with
    | option r' =>
      simp only [accepted] at ha har
      simp only [compatTy] at hc
      cases v with
      | none => exact pjOk_of_ok (x := _) (by simp only [projTy]; rfl)
      | some x =>
        simp only [hasTy] at hv
        exact pjOk_option_some l w r' x (proj_ty w r' l x ha har hc hv)
      | _ => simp [hasTy] at hv
    | _ => simp [compatTy] at hc
  | .vec w, r, l, v, ha, har, hc, hv => by
    cases r with
    | vec r' =>
      simp only [accepted] at ha har
      simp only [compatTy] at hc
      cases v with
      | list vs =>
        simp only [hasTy, Bool.and_eq_true, List.all_eq_true, decide_eq_true_eq] at hv
        exact pjOk_vec l w r' vs (fun x hx => proj_ty w r' false x ha har hc (hv.1 x hx))
      | _ => simp [hasTy] at hv
    | _ => simp [compatTy] at hc
  | .struct a fs, r, l, v, ha, har, hc, hv => by
    cases r with
    | struct b gs =>
      cases v with
      | struct vs =>
        simp only [accepted, Bool.and_eq_true] at ha har
        simp only [hasTy] at hv
        simp only [compatTy, Bool.and_eq_true, beq_iff_eq] at hc
        have hndW := C08.nodupNat_nodup _ ha.1.1.2
        have hndR := C08.nodupNat_nodup _ har.1.1.2
        cases hta : a.transparent
        · have hc2 := hc.2
          simp only [hta, Bool.false_eq_true, if_false, Bool.and_eq_true, beq_iff_eq] at hc2
          obtain ⟨⟨⟨_, _⟩, hcf⟩, hoo⟩ := hc2
          obtain ⟨xs, hxs⟩ := assemble_total fs vs gs hndW hndR hv hcf hoo
            (proj_fields fs gs vs ha.1.1.1.2 har.1.1.1.2 hcf hv)
          exact pjOk_of_ok (by simp only [projTy, hta, Bool.false_eq_true, if_false]; exact hxs)
        · have hc2 := hc.2
          simp only [hta, if_true] at hc2
          have ha2 := ha.2
          simp only [hta, Bool.not_true, Bool.false_or, Bool.and_eq_true] at ha2
          match gs, hc2, har with
          | [(gb, u)], hc2, har =>
            have hgacc := har.1.1.1.2
            simp only [acceptedFields, Bool.and_eq_true] at hgacc
            obtain ⟨x, hx⟩ := proj_one fs gb u vs ha.1.1.1.2 ha2.2 hgacc.1.2 hc2 hv
            exact pjOk_of_ok (x := _) (by simp only [projTy, hta, if_true, hx]; rfl)
          | [], hc2, _ => simp at hc2
          | _ :: _ :: _, hc2, _ => simp at hc2
      | _ => simp [hasTy] at hv
    | _ => simp [compatTy] at hc
  | .enum a vs, r, l, v, ha, har, hc, hv => by
    cases r with
    | enum b us =>
      cases v with
      | enum k fvs =>
        simp only [accepted, Bool.and_eq_true] at ha har
        simp only [hasTy] at hv
        simp only [compatTy, Bool.and_eq_true, beq_iff_eq] at hc
        have := proj_vars l a b us vs k fvs ha.1.1.2 har.1.1.2 hc.2 hv
        exact ⟨by simp only [projTy]; exact this.1, fun hu => this.2 (by simpa only [projTy] using hu)⟩
      | _ => simp [hasTy] at hv
    | _ => simp [compatTy] at hc
termination_by structural w => w
theorem proj_one : ∀ (fs : Fields) (gb : FAttr) (u : FTy) (vs : List Derive.Val), acceptedFields fs = true →
    (match fs with | [(fa, _)] => !fa.skip | _ => false) = true → (fieldBlob u || accepted u) = true →
    compatOne fs gb u = true → hasFields fs vs = true → ∃ x, projOne fs u vs = .ok x
  | [], _, _, _, _, h, _, _, _ => by simp at h
  | _ :: _ :: _, _, _, _, _, h, _, _, _ => by simp at h
  | [(fa, t)], gb, u, vs, ha, hs, hgacc, hc, hv => by
    match vs, hv with
    | [], hv => simp [hasFields] at hv
    | _ :: _ :: _, hv => simp [hasFields] at hv
    | [v], hv =>
      simp only [hasFields, Bool.and_eq_true] at hv
      simp only [acceptedFields, Bool.and_eq_true, Bool.or_eq_true] at ha
      simp only [compatOne, Bool.and_eq_true, beq_iff_eq] at hc
      have hP : PjOk false t u v := by
        rcases ha.1.2 with hbl | hacc
        · exact pjOk_fieldBlob false t u v hbl hc.2 hv.1
        · cases hbu : fieldBlob u
          · exact proj_ty t u false v hacc (by simpa [hbu] using hgacc) hc.2 hv.1
          · exact pjOk_fieldBlob false t u v (fieldBlob_of_compat false t u hc.2 hbu) hc.2 hv.1
      simpa only [projOne] using pjOk_ok t u v hP
termination_by structural fs => fs
theorem proj_fields : ∀ (fs gs : Fields) (vs : List Derive.Val), acceptedFields fs = true → acceptedFields gs = true →
    compatFields fs gs = true → hasFields fs vs = true → FieldsP gs fs vs
  | [], _, vs, _, _, _, _ => by cases vs <;> trivial
  | (a, t) :: fs, _, [], _, _, _, _ => trivial
  | (a, t) :: fs, gs, v :: vs, ha, hga, hc, hv => by
    simp only [acceptedFields, Bool.and_eq_true, Bool.or_eq_true] at ha
    simp only [compatFields, Bool.and_eq_true] at hc
    simp only [hasFields, Bool.and_eq_true] at hv
    refine ⟨?_, proj_fields fs gs vs ha.2 hga hc.2 hv.2⟩
    intro hs _ b u hf
    obtain ⟨hbu, _, _⟩ := findField_mem gs a.idx b u hf
    have hc1 := hc.1
    simp only [hs, Bool.false_eq_true, if_false, hf, Bool.and_eq_true, beq_iff_eq] at hc1
    rcases ha.1.2 with hbl | hacc
    · exact pjOk_fieldBlob _ t u v hbl hc1.2 hv.1
    · cases hbu' : fieldBlob u
      · have haccu : accepted u = true := by
          rcases accF_of_mem gs b u hga hbu with h | h
          · rw [hbu'] at h; cases h
          · exact h
        exact proj_ty t u _ v hacc haccu hc1.2 hv.1
      · exact pjOk_fieldBlob _ t u v (fieldBlob_of_compat _ t u hc1.2 hbu') hc1.2 hv.1
termination_by structural fs => fs
theorem proj_vars (l : Bool) (a b : EAttr) (us : Variants) : ∀ (vs : Variants) (k : Nat) (fvs : List Derive.Val),
    acceptedVars a vs = true → acceptedVars b us = true → compatVars l a b vs us = true → hasVars vs k fvs = true →
    projVars vs us k fvs ≠ .bad ∧ (projVars vs us k fvs = .unknown → l = true)
  | [], _, _, _, _, _, hv => by simp [hasVars] at hv
  | (va, fs) :: rest, 0, fvs, haW, haR, hc, hv => by
    simp only [acceptedVars, Bool.and_eq_true, decide_eq_true_eq] at haW
    obtain ⟨⟨⟨⟨⟨⟨_, _⟩, hacc⟩, hnd⟩, hunit⟩, _⟩, _⟩ := haW
    simp only [compatVars, Bool.and_eq_true] at hc
    simp only [hasVars] at hv
    have hunitW : va.shape = .unit → fs = [] := by intro h; simpa [h] using hunit
    exact row_proj l a b va fs rest us fvs (C08.nodupNat_nodup _ hnd) hv haR hunitW hc.1
      (fun gs hga _ hcf => proj_fields fs gs fvs hacc hga hcf hv)
  | (va, fs) :: rest, k + 1, fvs, haW, haR, hc, hv => by
    simp only [acceptedVars, Bool.and_eq_true] at haW
    simp only [compatVars, Bool.and_eq_true] at hc
    simp only [hasVars] at hv
    simp only [projVars]
    exact proj_vars l a b us rest k fvs haW.2 haR hc.2 hv
termination_by structural vs => vs
end

/-! ## C10, main statements -/

/-- on compatible versions the documented projection of every well-typed value is defined. -/
theorem project_defined (w r : FTy) (v : Derive.Val) (haw : accepted w = true) (har : accepted r = true)
    (hc : compatible w r = true) (hv : hasTy w v = true) : ∃ pv, project w r v = .ok pv :=
  pjOk_ok w r v (proj_ty w r false v haw har hc hv)

/-- **C10 (`compat_decode_statement` restricted by `benign`, i.e. outside K5, and to encodings that
    fit a slice).**  For any two accepted versions `w`, `r` of a type with `compatible w r` — the
    relation generated by the documented edits: renaming, adding / dropping optional fields at new
    or gap indices in array or map encoding, adding variants to an enum used as an optional field,
    unit variant ↔ variant with only optional fields, at any nesting depth (structs, variants,
    `Option`, `Vec`, transparent wrappers) — and every value `v` of the writer's version, the
    reader's decoder on the writer's encoding followed by arbitrary bytes returns exactly the
    documented projection and stops exactly at the end of the encoding: shared fields equal
    (recursively projected), optional fields unknown to the writer nil, fields unknown to the
    reader ignored whatever their content, an unknown variant in an optional field `None` without
    disturbing any sibling.  The extra hypotheses: `benign` (decidable) excludes exactly K5;
    `noClash` is the `Some(x) = null` exclusion of C09; the size bound is what every Rust slice
    satisfies (`skip()` counts in `u64`). -/
theorem compat_decode_partial (w r : FTy) (v : Derive.Val) (rest : Bytes) (haw : accepted w = true)
    (har : accepted r = true) (hc : compatible w r = true) (hb : benign w r v = true) (hv : hasTy w v = true)
    (hcl : C09.noClash w v = true) (hfit : (deriveEncode w v).length < 2 ^ 64) :
    ∀ pv, project w r v = .ok pv → deriveDecode r (deriveEncode w v ++ rest) = .ok pv rest :=
  fun pv hp => (compat_ty w r false v haw har hc hb hv hcl hfit).ok pv hp rest

/-- … and the projection exists: the reader always obtains *the* projected value. -/
theorem compat_decode (w r : FTy) (v : Derive.Val) (rest : Bytes) (haw : accepted w = true)
    (har : accepted r = true) (hc : compatible w r = true) (hb : benign w r v = true) (hv : hasTy w v = true)
    (hcl : C09.noClash w v = true) (hfit : (deriveEncode w v).length < 2 ^ 64) :
    ∃ pv, project w r v = .ok pv ∧ deriveDecode r (deriveEncode w v ++ rest) = .ok pv rest := by
  obtain ⟨pv, hp⟩ := project_defined w r v haw har hc hv
  exact ⟨pv, hp, compat_decode_partial w r v rest haw har hc hb hv hcl hfit pv hp⟩

/-- **C10 in full**: the statement without any exclusion — `benign` holds of every value since the
    K5 repair (`benign_always`). -/
theorem compat_decode_full : compat_decode_statement :=
  fun w r v rest haw har hc hv hcl hfit pv hp =>
    compat_decode_partial w r v rest haw har hc (benign_always w r v) hv hcl hfit pv hp

/-- … and the projection exists (no hypothesis beyond the statement's). -/
theorem compat_decode_full_exists (w r : FTy) (v : Derive.Val) (rest : Bytes) (haw : accepted w = true)
    (har : accepted r = true) (hc : compatible w r = true) (hv : hasTy w v = true)
    (hcl : C09.noClash w v = true) (hfit : (deriveEncode w v).length < 2 ^ 64) :
    ∃ pv, project w r v = .ok pv ∧ deriveDecode r (deriveEncode w v ++ rest) = .ok pv rest :=
  compat_decode w r v rest haw har hc (benign_always w r v) hv hcl hfit

/-- in *lenient* position (the declared type of an optional field) the writer's enum may have
    variants the reader does not know: then the reader's decoder reports an unknown-variant error
    (which the enclosing field turns into `None`); otherwise it returns the projection. -/
theorem compat_decode_lenient (w r : FTy) (v : Derive.Val) (rest : Bytes) (haw : accepted w = true)
    (har : accepted r = true) (hc : compatTy true w r = true) (hb : benign w r v = true) (hv : hasTy w v = true)
    (hcl : C09.noClash w v = true) (hfit : (deriveEncode w v).length < 2 ^ 64) :
    (∃ pv, project w r v = .ok pv ∧ deriveDecode r (deriveEncode w v ++ rest) = .ok pv rest) ∨
    (project w r v = .unknown ∧ ∃ r', deriveDecode r (deriveEncode w v ++ rest) = .err .variant r') := by
  have hT := compat_ty w r true v haw har hc hb hv hcl hfit
  have hP := proj_ty w r true v haw har hc hv
  cases hp : projTy w r v with
  | ok pv => exact Or.inl ⟨pv, hp, hT.ok pv hp rest⟩
  | unknown => exact Or.inr ⟨hp, (hT.unk hp).2 rest⟩
  | bad => exact absurd hp hP.nb

/-- every version reads itself: the projection onto the same version exists and is what the
    decoder returns (C09's round trip, re-derived through the general theorem). -/
theorem compat_decode_self (t : FTy) (v : Derive.Val) (rest : Bytes) (ha : accepted t = true) (hb : benign t t v = true)
    (hv : hasTy t v = true) (hcl : C09.noClash t v = true) (hfit : (deriveEncode t v).length < 2 ^ 64) :
    project t t v = .ok (withDefaults t v) := by
  obtain ⟨pv, hp, hd⟩ := compat_decode t t v rest ha ha (compatible_refl t ha) hb hv hcl hfit
  have := C09.derive_roundtrip t v ha hv hcl rest
  rw [this] at hd
  cases hd
  exact hp

/-! ### non-vacuity: a two-version pair exercising nesting, gap and new indices, both encodings,
    a new variant in optional position, unit → struct variant, `Vec` of edited structs -/

def exOld : FTy := .struct {}
  [({ idx := 0 }, .int .u8),
   ({ idx := 1 }, .option (.enum {} [({ idx := 0 }, []), ({ idx := 1 }, [])])),
   ({ idx := 3 }, .vec (.struct { enc := some .map } [({ idx := 0 }, .text .string)]))]

def exNew : FTy := .struct {}
  [({ idx := 0 }, .int .u8),
   ({ idx := 1 }, .option (.enum {} [({ idx := 0 }, []), ({ idx := 1, shape := .named }, [({ idx := 0 }, .option .bool)]), ({ idx := 2 }, [])])),
   ({ idx := 2 }, .option (.int .u16)),
   ({ idx := 3 }, .vec (.struct { enc := some .map } [({ idx := 0 }, .text .string), ({ idx := 5 }, .option .bool)]))]

def exNewVal : Derive.Val := .struct [.int 7, .some (.enum 2 []), .some (.int 300), .list [.struct [.text [0x61], .some (.bool true)]]]
def exNewVal' : Derive.Val := .struct [.int 7, .some (.enum 1 [.some (.bool true)]), .none, .list []]
def exOldVal : Derive.Val := .struct [.int 9, .some (.enum 1 []), .list [.struct [.text [0x62]]]]

theorem compat_example_hyps :
    accepted exOld = true ∧ accepted exNew = true ∧ compatible exOld exNew = true ∧ compatible exNew exOld = true ∧
    hasTy exNew exNewVal = true ∧ benign exNew exOld exNewVal = true ∧ C09.noClash exNew exNewVal = true ∧
    hasTy exOld exOldVal = true ∧ benign exOld exNew exOldVal = true ∧ C09.noClash exOld exOldVal = true := by
  refine ⟨by rfl, by rfl, by rfl, by rfl, by rfl, by rfl, by rfl, by rfl, by rfl, by rfl⟩

/-- the older reader on the newer writer: the unknown variant becomes `None`, the new fields are
    ignored (at top level and inside the `Vec`), the trailing bytes are untouched. -/
example : deriveDecode exOld (deriveEncode exNew exNewVal ++ [1, 2])
    = .ok (.struct [.int 7, .none, .list [.struct [.text [0x61]]]]) [1, 2] :=
  compat_decode_partial exNew exOld exNewVal [1, 2] (by rfl) (by rfl) (by rfl) (by rfl) (by rfl) (by rfl) (by decide) _ (by rfl)

/-- struct variant → unit variant (the body is skipped). -/
example : deriveDecode exOld (deriveEncode exNew exNewVal' ++ [1, 2])
    = .ok (.struct [.int 7, .some (.enum 1 []), .list []]) [1, 2] :=
  compat_decode_partial exNew exOld exNewVal' [1, 2] (by rfl) (by rfl) (by rfl) (by rfl) (by rfl) (by rfl) (by decide) _ (by rfl)

/-- the newer reader on the older writer: unit variant → struct variant with its optional field
    `None`, the optional field added at the gap index 2 reads the writer's gap `null` as `None`,
    the new field of the map-encoded element struct is `None`. -/
example : deriveDecode exNew (deriveEncode exOld exOldVal ++ [3])
    = .ok (.struct [.int 9, .some (.enum 1 [.none]), .none, .list [.struct [.text [0x62], .none]]]) [3] :=
  compat_decode_partial exOld exNew exOldVal [3] (by rfl) (by rfl) (by rfl) (by rfl) (by rfl) (by rfl) (by decide) _ (by rfl)

/-- the same pair with a *tag* on the field added at the gap index was K5 (a type error); since the
    repair the bare `null` at the gap is read as `None` there too. -/
example :
    let exNewK5 : FTy := .struct {}
      [({ idx := 0 }, .int .u8), ({ idx := 1 }, .option (.enum {} [({ idx := 0 }, []), ({ idx := 1 }, [])])),
       ({ idx := 2, tag := some 7 }, .option (.int .u16)), ({ idx := 3 }, .vec (.int .u8))]
    let exOldK5 : FTy := .struct {}
      [({ idx := 0 }, .int .u8), ({ idx := 1 }, .option (.enum {} [({ idx := 0 }, []), ({ idx := 1 }, [])])),
       ({ idx := 3 }, .vec (.int .u8))]
    compatible exOldK5 exNewK5 = true ∧
    deriveDecode exNewK5 (deriveEncode exOldK5 (.struct [.int 9, .none, .list []]))
      = .ok (.struct [.int 9, .none, .none, .list []]) [] := by
  refine ⟨by rfl, by rfl⟩

/-! ## The documented edits are instances of `compatible`, both directions (all constructors of `CompatStep`) -/

theorem isOption_anon (t : FTy) : (C08.anonymize t).isOption = t.isOption := by
  cases t <;> simp [C08.anonymize, FTy.isOption]

theorem optionalField_anon (a : FAttr) (t : FTy) :
    optionalField { a with name := "", isB := false } (C08.anonymize t) = optionalField a t := by
  simp [optionalField, nilOf, isOption_anon]

theorem findField_anon : ∀ (gs : Fields) (i : Nat),
    findField (C08.anonFields gs) i = (findField gs i).map fun g => ({ g.1 with name := "", isB := false }, C08.anonymize g.2)
  | [], _ => rfl
  | (b, u) :: gs, i => by
    simp only [C08.anonFields, findField]
    split
    · rfl
    · exact findField_anon gs i

theorem findVar_anon : ∀ (us : Variants) (pos i : Nat),
    findVar (C08.anonVars us) pos i =
      (findVar us pos i).map fun x => (x.1, { x.2.1 with name := "", isB := false }, C08.anonFields x.2.2)
  | [], _, _ => rfl
  | (vb, gs) :: us, pos, i => by
    simp only [C08.anonVars, findVar]
    split
    · rfl
    · exact findVar_anon us (pos + 1) i

theorem allOptional_anon (gs : Fields) : allOptional (C08.anonFields gs) = allOptional gs := by
  induction gs with
  | nil => rfl
  | cons g gs ih =>
    obtain ⟨b, u⟩ := g
    simp only [allOptional, C08.anonFields, List.all_cons] at ih ⊢
    rw [ih, optionalField_anon]

theorem onlyOptional_anon (gs fs : Fields) : onlyOptional (C08.anonFields gs) (C08.anonFields fs) = onlyOptional gs fs := by
  induction gs with
  | nil => rfl
  | cons g gs ih =>
    obtain ⟨b, u⟩ := g
    simp only [onlyOptional, C08.anonFields, List.all_cons] at ih ⊢
    rw [ih, optionalField_anon, findField_anon]
    cases findField fs b.idx <;> simp

mutual
theorem compat_anon : ∀ (w r : FTy) (l : Bool), compatTy l (C08.anonymize w) (C08.anonymize r) = compatTy l w r
  | .int _, r, l => by cases r <;> simp [C08.anonymize, compatTy]
  | .bool, r, l => by cases r <;> simp [C08.anonymize, compatTy]
  | .text _, r, l => by cases r <;> simp [C08.anonymize, compatTy]
  | .blob _, r, l => by cases r <;> simp [C08.anonymize, compatTy]
  | .option w, r, l => by
    cases r <;> simp only [C08.anonymize, compatTy]
    exact compat_anon w _ l
  | .vec w, r, l => by
    cases r <;> simp only [C08.anonymize, compatTy]
    exact compat_anon w _ false
  | .struct a fs, r, l => by
    cases r <;> simp only [C08.anonymize, compatTy]
    rename_i b gs
    rw [compatFields_anon fs gs, onlyOptional_anon]
    congr 1
    cases a.transparent
    · rfl
    · simp only [if_true]
      match gs with
      | [(gb, u)] => simp only [C08.anonFields]; exact compatOne_anon fs gb u
      | [] => rfl
      | _ :: _ :: _ => rfl
  | .enum a vs, r, l => by
    cases r <;> simp only [C08.anonymize, compatTy]
    rename_i b us
    rw [compatVars_anon l a b vs us]
termination_by structural w => w
theorem compatOne_anon : ∀ (fs : Fields) (gb : FAttr) (u : FTy),
    compatOne (C08.anonFields fs) { gb with name := "", isB := false } (C08.anonymize u) = compatOne fs gb u
  | [], _, _ => rfl
  | [(fa, t)], gb, u => by simp only [C08.anonFields, compatOne]; rw [compat_anon t u false]
  | _ :: _ :: _, _, _ => rfl
termination_by structural fs => fs
theorem compatFields_anon : ∀ (fs gs : Fields), compatFields (C08.anonFields fs) (C08.anonFields gs) = compatFields fs gs
  | [], _ => rfl
  | (fa, t) :: fs, gs => by
    simp only [C08.anonFields, compatFields]
    rw [compatFields_anon fs gs, findField_anon]
    congr 1
    cases fa.skip
    · simp only [Bool.false_eq_true, if_false]
      cases hf : findField gs fa.idx with
      | none => rfl
      | some g =>
        obtain ⟨gb, u⟩ := g
        simp only [Option.map_some, optionalField_anon, compat_anon t u]
    · rfl
termination_by structural fs => fs
theorem compatVars_anon (l : Bool) (a b : EAttr) : ∀ (vs us : Variants),
    compatVars l { a with name := "" } { b with name := "" } (C08.anonVars vs) (C08.anonVars us) = compatVars l a b vs us
  | [], _ => rfl
  | (va, fs) :: rest, us => by
    simp only [C08.anonVars, compatVars]
    rw [compatVars_anon l a b rest us, findVar_anon]
    congr 1
    cases hf : findVar us 0 va.idx with
    | none => rfl
    | some x =>
      obtain ⟨p, vb, gs⟩ := x
      simp only [Option.map_some, allOptional_anon, compatFields_anon, onlyOptional_anon]
termination_by structural vs => vs
end

/-- accepted as the declared type of a field (the byte-string kinds that need a codec included). -/
def accF (t : FTy) : Bool := fieldBlob t || accepted t

theorem compat_self (t : FTy) (l : Bool) (h : accF t = true) : compatTy l t t = true := by
  simp only [accF, Bool.or_eq_true] at h
  rcases h with h | h
  · exact compat_blob_refl t l h
  · exact compat_refl t l h

/-- "Renaming every identifier" (and `n` ↔ `b`): compatible in both directions. -/
theorem step_compatible_rename (l : Bool) (t t' : FTy) (h : C08.anonymize t = C08.anonymize t')
    (ha : accF t = true) (ha' : accF t' = true) : compatTy l t t' = true ∧ compatTy l t' t = true := by
  constructor
  · rw [← compat_anon t t' l, ← h, compat_anon t t l]; exact compat_self t l ha
  · rw [← compat_anon t' t l, h, compat_anon t' t' l]; exact compat_self t' l ha'

/-- "turn a unit variant into a struct or tuple variant if all fields are optional": both directions. -/
theorem step_compatible_unit (l : Bool) (e : EAttr) (va : VAttr) (sh : Shape) (fs : Fields) (vars : Variants)
    (hsh : va.shape = .unit) (hne : sh ≠ .unit) (hall : allOptional fs = true)
    (hold : accepted (.enum e ((va, []) :: vars)) = true)
    (hnew : accepted (.enum e (({ va with shape := sh }, fs) :: vars)) = true) :
    compatTy l (.enum e ((va, []) :: vars)) (.enum e (({ va with shape := sh }, fs) :: vars)) = true ∧
    compatTy l (.enum e (({ va with shape := sh }, fs) :: vars)) (.enum e ((va, []) :: vars)) = true := by
  have hold' := hold
  have hnew' := hnew
  simp only [accepted, Bool.and_eq_true] at hold' hnew'
  have hndO := C08.nodupNat_nodup _ hold'.1.2
  have hndN := C08.nodupNat_nodup _ hnew'.1.2
  have haO := hold'.1.1.2
  have haN := hnew'.1.1.2
  simp only [acceptedVars, Bool.and_eq_true] at haO haN
  constructor
  · simp only [compatTy, beq_self_eq_true, Bool.true_and, compatVars, findVar, if_true, Bool.and_eq_true]
    refine ⟨?_, compatVars_refl l e vars _ haO.2 hndN (fun g hg => by simp [hg])⟩
    cases sh with
    | unit => exact absurd rfl hne
    | tuple => simp [hsh, hall]
    | named => simp [hsh, hall]
  · simp only [compatTy, beq_self_eq_true, Bool.true_and, compatVars, findVar, if_true, Bool.and_eq_true]
    refine ⟨by simp [hsh], compatVars_refl l e vars _ haO.2 hndO (fun g hg => by simp [hg])⟩

/-- an edit inside the type of a struct field: both directions. -/
theorem step_compatible_inField (l : Bool) (a : SAttr) (fa : FAttr) (t t' : FTy) (fs : Fields)
    (hta : a.transparent = false) (hlive : fa.skip = false) (hopt : optionalField fa t = optionalField fa t')
    (h : compatTy (optionalField fa t) t t' = true ∧ compatTy (optionalField fa t) t' t = true)
    (hold : accepted (.struct a ((fa, t) :: fs)) = true) (hnew : accepted (.struct a ((fa, t') :: fs)) = true) :
    compatTy l (.struct a ((fa, t) :: fs)) (.struct a ((fa, t') :: fs)) = true ∧
    compatTy l (.struct a ((fa, t') :: fs)) (.struct a ((fa, t) :: fs)) = true := by
  have hold' := hold
  have hnew' := hnew
  simp only [accepted, Bool.and_eq_true] at hold' hnew'
  have hndO := C08.nodupNat_nodup _ hold'.1.1.2
  have hndN := C08.nodupNat_nodup _ hnew'.1.1.2
  have haO := hold'.1.1.1.2
  have haN := hnew'.1.1.1.2
  simp only [acceptedFields, Bool.and_eq_true] at haO haN
  have key : ∀ (x y : FTy), compatTy (optionalField fa y) x y = true → acceptedFields fs = true →
      (liveIdxs ((fa, x) :: fs)).Nodup → (liveIdxs ((fa, y) :: fs)).Nodup →
      compatTy l (.struct a ((fa, x) :: fs)) (.struct a ((fa, y) :: fs)) = true := by
    intro x y hc hafs hndx hndy
    simp only [compatTy, hta, beq_self_eq_true, Bool.true_and, Bool.false_eq_true, if_false, Bool.and_eq_true]
    refine ⟨?_, ?_⟩
    · simp only [compatFields, hlive, Bool.false_eq_true, if_false, findField, Bool.not_false, Bool.true_and,
        beq_self_eq_true, if_true, Bool.and_eq_true]
      exact ⟨hc, compatFields_refl fs _ hafs hndy (fun g hg => by simp [hg])⟩
    · simp only [onlyOptional, List.all_cons, Bool.and_eq_true, Bool.or_eq_true, List.all_eq_true]
      refine ⟨Or.inl (Or.inr (by simp [findField, hlive])), ?_⟩
      intro g hg
      cases hs : g.1.skip
      · left; right
        have hnd' : (liveIdxs fs).Nodup := by
          have : (fa.idx :: liveIdxs fs).Nodup := by simpa [liveIdxs, hlive] using hndx
          exact (List.nodup_cons.1 this).2
        have := findField_of_mem fs g.1 g.2 hnd' hg hs
        by_cases he : fa.idx = g.1.idx
        · simp [findField, hlive, he]
        · have hb : (fa.idx == g.1.idx) = false := by simpa using he
          simp [findField, hlive, hb, this]
      · left; left; rfl
  exact ⟨key t t' (by rw [← hopt]; exact h.1) haO.2 hndO hndN, key t' t h.2 haO.2 hndN hndO⟩

theorem accF_field (a : SAttr) (fa : FAttr) (t : FTy) (fs : Fields) (h : accepted (.struct a ((fa, t) :: fs)) = true) :
    accF t = true := by
  simp only [accepted, Bool.and_eq_true] at h
  have := h.1.1.1.2
  simp only [acceptedFields, Bool.and_eq_true] at this
  exact this.1.2

theorem accepted_of_accF_struct {a : SAttr} {fs : Fields} (h : accF (.struct a fs) = true) : accepted (.struct a fs) = true := by
  simpa [accF, fieldBlob] using h

theorem accepted_of_accF_enum {e : EAttr} {vs : Variants} (h : accF (.enum e vs) = true) : accepted (.enum e vs) = true := by
  simpa [accF, fieldBlob] using h

/-- **every documented edit relates two versions that are `compatible` in both directions**
    (`CompatStep l`: `l` = the edited type is the declared type of an optional field — the only
    place where "add a variant" is documented as compatible). -/
theorem step_compatible {l : Bool} {old new : FTy} (h : CompatStep l old new) :
    accF old = true → accF new = true → compatTy l old new = true ∧ compatTy l new old = true := by
  induction h with
  | rename l t t' he => exact fun ha ha' => step_compatible_rename l t t' he ha ha'
  | addField l a fs fa ft hta hlive hopt _ =>
    intro ha ha'
    exact step_compatible_field l a fs fa ft (accepted_of_accF_struct ha) (accepted_of_accF_struct ha') hta hlive hopt
  | dropField l a fs fa ft hta hlive hopt _ =>
    intro ha ha'
    exact (step_compatible_field l a fs fa ft (accepted_of_accF_struct ha') (accepted_of_accF_struct ha) hta hlive hopt).symm
  | addVariant e vars va fs _ =>
    intro ha ha'
    have := step_compatible_variant e vars va fs (accepted_of_accF_enum ha) (accepted_of_accF_enum ha')
    exact ⟨this.1 true, this.2.1⟩
  | unitToFields l e va sh fs vars hsh hne hall _ =>
    intro ha ha'
    exact step_compatible_unit l e va sh fs vars hsh hne hall (accepted_of_accF_enum ha) (accepted_of_accF_enum ha')
  | inField l a fa t t' fs hta hlive _ hopt ih =>
    intro ha ha'
    have ha1 := accepted_of_accF_struct ha
    have ha2 := accepted_of_accF_struct ha'
    exact step_compatible_inField l a fa t t' fs hta hlive hopt
      (ih (accF_field a fa t fs ha1) (accF_field a fa t' fs ha2)) ha1 ha2
  | inOption l t t' _ ih =>
    intro ha ha'
    have h1 : accF t = true := by
      simp only [accF, Bool.or_eq_true] at ha ⊢
      rcases ha with h | h
      · left; cases t <;> simp [fieldBlob] at h ⊢
      · right; simpa [accepted] using h
    have h2 : accF t' = true := by
      simp only [accF, Bool.or_eq_true] at ha' ⊢
      rcases ha' with h | h
      · left; cases t' <;> simp [fieldBlob] at h ⊢
      · right; simpa [accepted] using h
    simpa [compatTy] using ih h1 h2
  | inVec l t t' _ ih =>
    intro ha ha'
    have h1 : accF t = true := by
      have : accepted t = true := by simpa [accF, fieldBlob, accepted] using ha
      simp [accF, this]
    have h2 : accF t' = true := by
      have : accepted t' = true := by simpa [accF, fieldBlob, accepted] using ha'
      simp [accF, this]
    simpa [compatTy] using ih h1 h2

/-- **C10 for the documented edits, both directions**: for every single documented edit between
    two accepted versions (at any depth, through the congruence constructors), each version reads
    what the other wrote and obtains the documented projection. -/
theorem compat_decode_step (old new : FTy) (h : CompatStep false old new) (ho : accepted old = true)
    (hn : accepted new = true) :
    (∀ v rest, hasTy old v = true → benign old new v = true → C09.noClash old v = true →
      (deriveEncode old v).length < 2 ^ 64 →
      ∃ pv, project old new v = .ok pv ∧ deriveDecode new (deriveEncode old v ++ rest) = .ok pv rest) ∧
    (∀ v rest, hasTy new v = true → benign new old v = true → C09.noClash new v = true →
      (deriveEncode new v).length < 2 ^ 64 →
      ∃ pv, project new old v = .ok pv ∧ deriveDecode old (deriveEncode new v ++ rest) = .ok pv rest) := by
  obtain ⟨h1, h2⟩ := step_compatible h (by simp [accF, ho]) (by simp [accF, hn])
  exact ⟨fun v rest hv hb hc hl => compat_decode old new v rest ho hn h1 hb hv hc hl,
    fun v rest hv hb hc hl => compat_decode new old v rest hn ho h2 hb hv hc hl⟩


end Minicbor.C10
