/-
  C10 — Derived codecs are forward and backward compatible as documented.
  Property theorems only (helper lemmas: Lemmas/DeriveCompat.lean).

  Vocabulary (Compat.lean): `compatTy lenient w r` — "a reader of version `r` reads what a writer
  of version `w` wrote" (directional; `lenient` = the position is the declared type of an
  optional field, the only place where the writer's enum may have variants unknown to the
  reader); `project w r v` — the value the documentation promises the reader; `benign w r v` —
  excludes the one situation in which the code as it is breaks the promise (K5).
-/
import Minicbor.Compat
import Minicbor.Thm.C09
import Minicbor.Lemmas.DeriveCompat

namespace Minicbor.C10
open Minicbor.Derive

/-! ## The documented compatible edits -/

/-- a field the documentation calls optional (`Option<_>`, or a nil-aware codec). -/
abbrev Optional (a : FAttr) (t : FTy) : Prop := optionalField a t = true

/-- One documented compatible edit, `CompatStep lenient old new` (lib.rs:28-45, 73-83).
    `lenient` = the edited type is the declared type of an optional field.  The edits act on the
    head of a declaration list (declaration order is irrelevant: C08.derive_encode_reorder_irrelevant)
    and anywhere below through the congruence constructors. -/
inductive CompatStep : Bool → FTy → FTy → Prop where
  /-- "Renaming every identifier" (and the `n`/`b` choice). -/
  | rename (l : Bool) (t t' : FTy) : C08.anonymize t = C08.anonymize t' → CompatStep l t t'
  /-- "Adding optional fields" to a struct, at a new or a gap index. -/
  | addField (l : Bool) (a : SAttr) (fs : Fields) (fa : FAttr) (ft : FTy) :
      a.transparent = false → fa.skip = false → Optional fa ft → fa.idx ∉ liveIdxs fs →
      CompatStep l (.struct a fs) (.struct a ((fa, ft) :: fs))
  /-- "newer software can stop producing optional values": dropping an optional field. -/
  | dropField (l : Bool) (a : SAttr) (fs : Fields) (fa : FAttr) (ft : FTy) :
      a.transparent = false → fa.skip = false → Optional fa ft → fa.idx ∉ liveIdxs fs →
      CompatStep l (.struct a ((fa, ft) :: fs)) (.struct a fs)
  /-- "Adding more variants to [an enum] iff [it] is only decoded as part of [an optional field]". -/
  | addVariant (e : EAttr) (vars : Variants) (va : VAttr) (fs : Fields) :
      va.idx ∉ vars.map (·.1.idx) → CompatStep true (.enum e vars) (.enum e ((va, fs) :: vars))
  /-- "turn a unit variant into a struct or tuple variant if all fields are optional". -/
  | unitToFields (l : Bool) (e : EAttr) (va : VAttr) (sh : Shape) (fs : Fields) (vars : Variants) :
      va.shape = .unit → sh ≠ .unit → allOptional fs = true → e.indexOnly = false →
      CompatStep l (.enum e ((va, []) :: vars)) (.enum e (({ va with shape := sh }, fs) :: vars))
  /-- an edit of a field type of a struct (`l'` = that field is optional). -/
  | inField (l : Bool) (a : SAttr) (fa : FAttr) (t t' : FTy) (fs : Fields) :
      a.transparent = false → fa.skip = false → CompatStep (optionalField fa t) t t' → optionalField fa t = optionalField fa t' →
      CompatStep l (.struct a ((fa, t) :: fs)) (.struct a ((fa, t') :: fs))
  | inOption (l : Bool) (t t' : FTy) : CompatStep l t t' → CompatStep l (.option t) (.option t')
  | inVec (l : Bool) (t t' : FTy) : CompatStep false t t' → CompatStep l (.vec t) (.vec t')

/-! ## Counterexamples on the model (the code as it is) -/

def k5Writer : FTy := .struct {} [({ idx := 0 }, .int .u8), ({ idx := 2 }, .int .u8)]
def k5Reader : FTy := .struct {} [({ idx := 0 }, .int .u8), ({ idx := 1, tag := some 5 }, .option (.int .u8)), ({ idx := 2 }, .int .u8)]

/-- the full-strength statement of the property (false on the code as it is: K5). -/
def compat_decode_statement : Prop :=
  ∀ (w r : FTy) (v : Derive.Val) (rest : Bytes), accepted w = true → accepted r = true → compatible w r = true →
    hasTy w v = true → C09.noClash w v = true →
    ∀ pv, project w r v = .ok pv → deriveDecode r (deriveEncode w v ++ rest) = .ok pv rest

/-- K5: a tagged optional field added at a gap index (array encoding) rejects the bare `null` the
    older writer put there: `83 01 f6 02` read by the newer struct is a type error, although the
    two versions are related by the documented edit "add an optional field". -/
theorem compat_counterexample_K5 :
    accepted k5Writer = true ∧ accepted k5Reader = true ∧ compatible k5Writer k5Reader = true ∧
    compatible k5Reader k5Writer = true ∧
    deriveEncode k5Writer (.struct [.int 1, .int 2]) = [0x83, 0x01, 0xf6, 0x02] ∧
    project k5Writer k5Reader (.struct [.int 1, .int 2]) = .ok (.struct [.int 1, .none, .int 2]) ∧
    deriveDecode k5Reader [0x83, 0x01, 0xf6, 0x02] = .err .type [0x02] := by
  refine ⟨by rfl, by rfl, by rfl, by rfl, by rfl, by rfl, by rfl⟩

theorem compat_decode_statement_false : ¬ compat_decode_statement := by
  intro h
  have := h k5Writer k5Reader (.struct [.int 1, .int 2]) [] (by rfl) (by rfl) (by rfl) (by rfl) (by rfl)
    (.struct [.int 1, .none, .int 2]) (by rfl)
  have e : deriveDecode k5Reader (deriveEncode k5Writer (.struct [.int 1, .int 2]) ++ []) = .err .type [0x02] := by rfl
  rw [e] at this
  cases this

/-- `benign` excludes exactly that: false on the K5 witness, true on the same pair when the new
    field carries no tag, or when the writer's array ends before the new field's index — and there
    the decoder delivers the projection. -/
theorem k5_benign_excludes :
    benign k5Writer k5Reader (.struct [.int 1, .int 2]) = false ∧
    (let r' : FTy := .struct {} [({ idx := 0 }, .int .u8), ({ idx := 1 }, .option (.int .u8)), ({ idx := 2 }, .int .u8)]
     benign k5Writer r' (.struct [.int 1, .int 2]) = true ∧
     deriveDecode r' (deriveEncode k5Writer (.struct [.int 1, .int 2])) = .ok (.struct [.int 1, .none, .int 2]) []) ∧
    (let r'' : FTy := .struct {} [({ idx := 0 }, .int .u8), ({ idx := 2 }, .int .u8), ({ idx := 5, tag := some 5 }, .option (.int .u8))]
     benign k5Writer r'' (.struct [.int 1, .int 2]) = true ∧
     deriveDecode r'' (deriveEncode k5Writer (.struct [.int 1, .int 2])) = .ok (.struct [.int 1, .int 2, .none]) []) := by
  refine ⟨by rfl, ⟨by rfl, by rfl⟩, ⟨by rfl, by rfl⟩⟩

/-- F5 (repaired in /repo, 34b49ef): an `index_only` enum in an optional field that meets an
    unknown index becomes `None` and the sibling field survives — `82 05 07`. -/
theorem compat_F5_repaired :
    let io (n : Nat) : FTy := .enum { indexOnly := true } ((List.range n).map fun i => ({ idx := i }, []))
    let old : FTy := .struct {} [({ idx := 0 }, .option (io 2)), ({ idx := 1 }, .int .u8)]
    let new : FTy := .struct {} [({ idx := 0 }, .option (io 6)), ({ idx := 1 }, .int .u8)]
    compatible new old = true ∧
    deriveEncode new (.struct [.some (.enum 5 []), .int 7]) = [0x82, 0x05, 0x07] ∧
    project new old (.struct [.some (.enum 5 []), .int 7]) = .ok (.struct [.none, .int 7]) ∧
    deriveDecode old [0x82, 0x05, 0x07] = .ok (.struct [.none, .int 7]) [] := by
  refine ⟨by rfl, by rfl, by rfl, by rfl⟩

/-- The documented edits do not compose freely: dropping an optional field and later adding
    another optional field *with the same index and another type* are both documented compatible
    edits, but the first and the last version are not compatible — the writer's `Some(5)` at
    index 1 is a type error for the reader expecting a string there.  (The documentation never
    says that a retired index must not be reused; `compatible` is the relation that does hold.) -/
theorem compat_not_transitive :
    let a : FTy := .struct {} [({ idx := 0 }, .int .u8), ({ idx := 1 }, .option (.int .u8))]
    let b : FTy := .struct {} [({ idx := 0 }, .int .u8)]
    let c : FTy := .struct {} [({ idx := 0 }, .int .u8), ({ idx := 1 }, .option (.text .string))]
    compatible a b = true ∧ compatible b a = true ∧ compatible b c = true ∧ compatible c b = true ∧
    compatible a c = false ∧
    deriveDecode c (deriveEncode a (.struct [.int 1, .some (.int 5)])) = .err .type [] := by
  refine ⟨by rfl, by rfl, by rfl, by rfl, by rfl, by rfl⟩

/-! ## Missing mandatory fields are always an error -/

/-- a reader that declares a mandatory field rejects every writer body that is empty (e.g. a
    writer all of whose fields are absent optionals, or a unit struct). -/
theorem compat_missing_mandatory (a : SAttr) (gs : Fields) (gb : FAttr) (gu : FTy) (rest : Bytes)
    (hnt : a.transparent = false) (htag : a.tag = none) (hmem : (gb, gu) ∈ gs) (hlive : gb.skip = false)
    (hmand : nilOf gb gu = none) (hnoopt : gu.isOption = false) :
    deriveDecode (.struct a gs) (emptyBody (a.enc.getD .array) ++ rest) = .err .missing rest :=
  C09.derive_missing_mandatory a gs gb gu rest hnt htag hmem hlive hmand hnoopt

/-- concrete: the reader's mandatory field `#[n(1)]` is unknown to the writer — map and array. -/
theorem compat_missing_mandatory_example :
    let w : FTy := .struct { enc := some .map } [({ idx := 0 }, .int .u8)]
    let r : FTy := .struct { enc := some .map } [({ idx := 0 }, .int .u8), ({ idx := 1 }, .int .u8)]
    compatible w r = false ∧ deriveDecode r (deriveEncode w (.struct [.int 3])) = .err .missing [] := by
  refine ⟨by rfl, by rfl⟩

/-! ## Positive theorems (all accepted schemas of the stated shape, all values, unbounded)

`compat_decode_fields` is the engine: the reader's slot loops (both encodings) on a body written
by *any* other version, given what each item on the wire does to the reader (skip, or the
field's action delivering a value / swallowing an unknown variant).  `compat_decode_struct_partial`
instantiates it for versions whose shared fields are declared alike — i.e. for every sequence of
the documented edits "add an optional field" / "drop a field" at the top level of a struct, at
new or gap indices, in array or map encoding, whatever the (nested) field types: shared fields
come back equal, fields unknown to the writer are nil, fields unknown to the reader are ignored
whatever their content.  The K5 situation is excluded by an explicit hypothesis, `skip()` on the
ignored items is the statement of C06.skip_exact.  Edits *inside* a field's type (and the general
statement `compat_decode_statement` restricted by `benign`) rest on the correspondence. -/

/-- the reader's body decoder on a body written by any other version (engine). -/
theorem compat_decode_fields (enc : Encoding) (fs : Fields) (vs : List Derive.Val) (gs : Fields) (rest : Bytes)
    (ρ : Nat → Option Derive.Val)
    (hacc : acceptedFields fs = true) (hnd : (liveIdxs fs).Nodup) (hty : hasFields fs vs = true)
    (hndR : (liveIdxs gs).Nodup)
    (hcell : enc = .array → ∀ m, maxPresent (specFields fs vs) = some m → ∀ i, i ≤ m →
      StepH gs (ρ i) i (encPref (cellAt (specFields fs vs) i)))
    (hentry : enc = .map → ∀ p ∈ encFields fs vs, p.nil = false → StepH gs (ρ p.idx) p.idx (tagBytes p.tag ++ p.body))
    (hopt : ∀ b u, (b, u) ∈ gs → b.skip = false → sigmaF enc fs vs ρ b.idx = none → slotInit u = none →
      (nilOf b u).isSome = true) :
    Derive.fieldsDec enc (decFields gs) (frame enc (encFields fs vs) ++ rest) = .ok (readerVals (sigmaF enc fs vs ρ) gs) rest :=
  fieldsDec_compat enc fs vs gs rest ρ hacc hnd hty hndR hcell hentry hopt

/-- **C10 for structs whose shared fields are declared alike** (`SameHyp`: shared fields have the
    same type, tag and codec; the reader's extra fields are optional and not hit by K5; the
    writer's extra fields are skippable items). -/
theorem compat_decode_struct_partial (a b : SAttr) (fs gs : Fields) (vs : List Derive.Val) (rest : Bytes)
    (haw : accepted (.struct a fs) = true) (har : accepted (.struct b gs) = true)
    (hv : hasTy (.struct a fs) (.struct vs) = true) (hc : C09.noClash (.struct a fs) (.struct vs) = true)
    (hta : a.transparent = false) (htb : b.transparent = false) (htag : a.tag = b.tag)
    (henc : a.enc.getD .array = b.enc.getD .array)
    (H : SameHyp (a.enc.getD .array) fs vs gs) :
    deriveDecode (.struct b gs) (deriveEncode (.struct a fs) (.struct vs) ++ rest)
      = .ok (.struct (expectSame fs vs gs)) rest := by
  simp only [accepted, Bool.and_eq_true] at haw har
  simp only [hasTy] at hv
  simp only [C09.noClash] at hc
  have hrt := C09.fields_roundtrip fs vs haw.1.1.1.2 hv hc
  have hmain := fieldsDec_same (a.enc.getD .array) fs vs gs rest haw.1.1.1.2 (C08.nodupNat_nodup _ haw.1.1.2) hv hrt
    har.1.1.1.2 (C08.nodupNat_nodup _ har.1.1.2) H
  simp only [deriveDecode, deriveEncode, encTy, decTy, structDec, hta, htb, Bool.false_eq_true, if_false, List.append_assoc]
  rw [Dec.bind_run, ← htag, tagCheck_rt _ _ haw.1.1.1.1]
  simp only []
  rw [Dec.bind_run, ← henc, hmain]
  rfl

/-- **adding an optional field** (new or gap index, array or map): the newer reader sees the
    older writer's fields unchanged and the new field as its nil value. -/
theorem compat_add_optional_field (a : SAttr) (fs : Fields) (fa : FAttr) (ft : FTy) (vs : List Derive.Val) (rest : Bytes)
    (haw : accepted (.struct a fs) = true) (har : accepted (.struct a ((fa, ft) :: fs)) = true)
    (hv : hasTy (.struct a fs) (.struct vs) = true) (hc : C09.noClash (.struct a fs) (.struct vs) = true)
    (hta : a.transparent = false) (hlive : fa.skip = false) (hopt : Optional fa ft)
    (hk5 : a.enc.getD .array = .array → ∀ m, maxPresent (specFields fs vs) = some m → fa.idx ≤ m → fa.tag = none) :
    deriveDecode (.struct a ((fa, ft) :: fs)) (deriveEncode (.struct a fs) (.struct vs) ++ rest)
      = .ok (.struct (nilVal fa ft :: defaultsFields fs vs)) rest := by
  have haw' := haw
  have har' := har
  simp only [accepted, Bool.and_eq_true] at haw' har'
  have hv' := hv
  simp only [hasTy] at hv'
  have hndW := C08.nodupNat_nodup _ haw'.1.1.2
  have hndR := C08.nodupNat_nodup _ har'.1.1.2
  have hfresh : fa.idx ∉ liveIdxs fs := by
    have : (fa.idx :: liveIdxs fs).Nodup := by simpa [liveIdxs, hlive] using hndR
    exact (List.nodup_cons.1 this).1
  have hnone : lookupVal fs vs fa.idx = none := (lookupVal_none fs vs fa.idx hv').2 hfresh
  have H : SameHyp (a.enc.getD .array) fs vs ((fa, ft) :: fs) := by
    refine ⟨?_, ?_, ?_⟩
    · intro b u hbu hbs a' t' v' hl
      rcases List.mem_cons.1 hbu with e | hbu'
      · cases e; rw [hnone] at hl; cases hl
      · obtain ⟨rfl, rfl⟩ := lookupVal_unique fs vs hndW b u hbu' hbs a' t' v' hl
        exact ⟨rfl, rfl, rfl⟩
    · intro b u hbu hbs hl
      rcases List.mem_cons.1 hbu with e | hbu'
      · cases e; exact ⟨hopt, hk5⟩
      · have := (lookupVal_none fs vs b.idx hv').1 hl
        exact absurd (mem_liveIdxs fs b u hbu' hbs) this
    · intro p hp hni
      exfalso; apply hni
      have := encFields_idx_live fs vs p hp
      simp [liveIdxs, hlive, this]
  have := compat_decode_struct_partial a a fs ((fa, ft) :: fs) vs rest haw har hv hc hta hta rfl rfl H
  rw [this]
  simp only [expectSame, hlive, Bool.false_eq_true, if_false, hnone]
  rw [expectSame_suffix fs vs fs vs hv' hndW (fun _ _ _ _ h => h)]

/-- **dropping a field / a field unknown to the reader**: the reader that does not know a field
    ignores it whatever its type and content (its item is skipped), all other fields are intact. -/
theorem compat_drop_field (a : SAttr) (fs : Fields) (fa : FAttr) (ft : FTy) (v0 : Derive.Val) (vs : List Derive.Val) (rest : Bytes)
    (haw : accepted (.struct a ((fa, ft) :: fs)) = true) (har : accepted (.struct a fs) = true)
    (hv : hasTy (.struct a ((fa, ft) :: fs)) (.struct (v0 :: vs)) = true)
    (hc : C09.noClash (.struct a ((fa, ft) :: fs)) (.struct (v0 :: vs)) = true)
    (hta : a.transparent = false) (hlive : fa.skip = false)
    (hskip : ∀ r, Dec.skip true (tagBytes fa.tag ++ (encWith fa.codec (encTy ft) v0 ++ r)) = .ok () r) :
    deriveDecode (.struct a fs) (deriveEncode (.struct a ((fa, ft) :: fs)) (.struct (v0 :: vs)) ++ rest)
      = .ok (.struct (defaultsFields fs vs)) rest := by
  have haw' := haw
  have har' := har
  simp only [accepted, Bool.and_eq_true] at haw' har'
  have hv' := hv
  simp only [hasTy, hasFields, Bool.and_eq_true] at hv'
  have hndW := C08.nodupNat_nodup _ haw'.1.1.2
  have hndR := C08.nodupNat_nodup _ har'.1.1.2
  have hfresh : fa.idx ∉ liveIdxs fs := by
    have : (fa.idx :: liveIdxs fs).Nodup := by simpa [liveIdxs, hlive] using hndW
    exact (List.nodup_cons.1 this).1
  have hlk : ∀ i, i ∈ liveIdxs fs → lookupVal ((fa, ft) :: fs) (v0 :: vs) i = lookupVal fs vs i := by
    intro i hi
    have hne : fa.idx ≠ i := by intro e; rw [e] at hfresh; exact hfresh hi
    have hb : (fa.idx == i) = false := by simpa using hne
    simp [lookupVal, hlive, hb]
  have H : SameHyp (a.enc.getD .array) ((fa, ft) :: fs) (v0 :: vs) fs := by
    refine ⟨?_, ?_, ?_⟩
    · intro b u hbu hbs a' t' v' hl
      rw [hlk b.idx (mem_liveIdxs fs b u hbu hbs)] at hl
      obtain ⟨rfl, rfl⟩ := lookupVal_unique fs vs hndR b u hbu hbs a' t' v' hl
      exact ⟨rfl, rfl, rfl⟩
    · intro b u hbu hbs hl
      rw [hlk b.idx (mem_liveIdxs fs b u hbu hbs)] at hl
      have := (lookupVal_none fs vs b.idx hv'.2).1 hl
      exact absurd (mem_liveIdxs fs b u hbu hbs) this
    · intro p hp hni r
      simp only [encFields, hlive, Bool.false_eq_true, if_false, List.mem_cons] at hp
      rcases hp with rfl | hp
      · exact hskip r
      · exfalso; apply hni
        exact encFields_idx_live fs vs p hp
  have := compat_decode_struct_partial a a ((fa, ft) :: fs) fs (v0 :: vs) rest haw har hv hc hta hta rfl rfl H
  rw [this]
  congr 2
  exact expectSame_suffix ((fa, ft) :: fs) (v0 :: vs) fs vs hv'.2 hndR (by
    intro i a' t' v' hl
    have hi : i ∈ liveIdxs fs := by
      have h3 := lookupVal_mem fs vs i a' t' v' hl
      rw [← h3.2.1]; exact mem_liveIdxs fs a' t' (lookupVal_fst_mem fs vs i a' t' v' hl) h3.1
    rw [hlk i hi]; exact hl)

/-- **an unknown variant in an optional field becomes `None`**: the action of a field that
    swallows unknown variants (`Option<Enum>`, nil-aware codec), on an item its decoder rejects
    with an unknown-variant error *anywhere inside*, skips the whole item — regular and
    `index_only` enums alike since the repair of F5 — and reports "keep the slot". -/
theorem compat_unknown_variant_swallowed (b : FAttr) (u : FTy) (X r r' : Bytes)
    (htag : tagOk b.tag = true) (hsw : swallows b u = true)
    (hdec : decWith b.codec (decTy u) (X ++ r) = .err .variant r')
    (hskip : Dec.skip true (tagBytes b.tag ++ (X ++ r)) = .ok () r) :
    action (fdOf b u) (tagBytes b.tag ++ (X ++ r)) = .ok none r := by
  unfold action
  simp only [fdOf]
  rw [Dec.bind_run, tagCheck_rt _ _ htag]
  simp only [catchVariant, hdec, hsw, f5Fixed, Bool.and_self, beq_self_eq_true, if_true]
  rw [Dec.bind_run, hskip]
  rfl

/-- … **without disturbing any sibling field**: the slots of all other fields are untouched and
    the decoder stands exactly behind the item. -/
theorem compat_unknown_variant_keeps_siblings (c : Nat) (X r : Bytes) : ∀ (gs : Fields) (ss : Slots),
    (∀ b u, (b, u) ∈ gs → b.skip = false → b.idx = c → action (fdOf b u) (X ++ r) = .ok none r) →
    c ∈ liveIdxs gs → gs.length = ss.length →
    runAt (decFields gs) ss c (X ++ r) = .ok ss r
  | [], _, _, hc, _ => by simp [liveIdxs] at hc
  | (b, u) :: gs, [], _, _, hl => by simp at hl
  | (b, u) :: gs, s :: ss, hact, hc, hl => by
    by_cases hcond : (!b.skip && b.idx == c) = true
    · simp only [Bool.and_eq_true, Bool.not_eq_true', beq_iff_eq] at hcond
      have ha : action ⟨b, slotInit u, nilOf b u, defaultOf u, swallows b u, decWith b.codec (decTy u)⟩ (X ++ r) = .ok none r :=
        hact b u (by simp) hcond.1 hcond.2
      simp only [decFields_cons, runAt, fdOf, hcond.1, hcond.2, Bool.not_false, Bool.true_and, beq_self_eq_true, if_true]
      rw [Dec.bind_run, ha]
      rfl
    · have hcond' : (!b.skip && b.idx == c) = false := by simpa using hcond
      have hc' : c ∈ liveIdxs gs := by
        cases hs : b.skip
        · have : c ∈ b.idx :: liveIdxs gs := by simpa [liveIdxs, hs] using hc
          rcases List.mem_cons.1 this with e | h
          · simp [hs, e] at hcond'
          · exact h
        · simpa [liveIdxs, hs] using hc
      have ih := compat_unknown_variant_keeps_siblings c X r gs ss (fun b' u' hm => hact b' u' (by simp [hm])) hc'
        (by simpa using hl)
      simp only [decFields_cons, runAt, fdOf, hcond', Bool.false_eq_true, if_false]
      rw [Dec.bind_run, ih]
      rfl

/-- an enum decoder reports an unknown variant (here: at top level of the field's type) as an
    unknown-variant error, which is what `compat_unknown_variant_swallowed` consumes. -/
theorem compat_unknown_variant_error (e : EAttr) (us : Variants) (i : Nat) (rest : Bytes) (htag : e.tag = none)
    (hi : i < 4294967296) (hunk : i ∉ us.map (·.1.idx)) :
    decTy (.option (.enum e us)) ((if e.indexOnly then [] else Enc.array 2) ++ (Enc.u32 i ++ rest)) = .err .variant rest := by
  have h := C09.derive_unknown_variant e us i rest htag hi hunk
  have hs : startOk ((if e.indexOnly then [] else Enc.array 2) ++ (Enc.u32 i)) = true := by
    cases e.indexOnly
    · rfl
    · simp only [if_true, List.nil_append]
      unfold Enc.u32
      split
      · have : (Minicbor.u8 i).toNat = i := u8_toNat (by omega)
        simp [startOk, this]; omega
      · split
        · simp [startOk]
        · split <;> simp [startOk]
  obtain ⟨ty, h1, h2⟩ := datatype_startOk _ rest hs
  simp only [List.append_assoc] at h1
  simp only [decTy, optionDec]
  rw [Dec.bind_run, h1]
  simp only [h2, beq_iff_eq, if_false]
  simp only [deriveDecode, decTy] at h
  rw [Dec.bind_run, h]

/-! ## The documented edits are instances of `compatible` (both directions) -/

theorem findVar_of_mem : ∀ (us : Variants) (pos : Nat) (va : VAttr) (fs : Fields), (us.map (·.1.idx)).Nodup → (va, fs) ∈ us →
    ∃ p, findVar us pos va.idx = some (p, va, fs)
  | [], _, _, _, _, h => by simp at h
  | (vb, gs) :: us, pos, va, fs, hnd, h => by
    have hnd' : vb.idx ∉ us.map (·.1.idx) ∧ (us.map (·.1.idx)).Nodup := List.nodup_cons.1 hnd
    rcases List.mem_cons.1 h with e | h'
    · cases e; exact ⟨pos, by simp [findVar]⟩
    · have hne : vb.idx ≠ va.idx := by
        intro e; apply hnd'.1; rw [e]; exact List.mem_map.2 ⟨(va, fs), h', rfl⟩
      have hb : (vb.idx == va.idx) = false := by simpa using hne
      obtain ⟨p, hp⟩ := findVar_of_mem us (pos + 1) va fs hnd'.2 h'
      exact ⟨p, by simp [findVar, hb, hp]⟩

theorem onlyOptional_self (fs : Fields) (hnd : (liveIdxs fs).Nodup) : onlyOptional fs fs = true := by
  simp only [onlyOptional, List.all_eq_true, Bool.or_eq_true]
  intro g hg
  cases hs : g.1.skip
  · left; right
    have := findField_of_mem fs g.1 g.2 hnd hg hs
    simp [this]
  · left; left; rfl

theorem compat_blob_refl (t : FTy) (l : Bool) (hb : fieldBlob t = true) : compatTy l t t = true := by
  cases t with
  | blob k => simp [compatTy]
  | option t' =>
    cases t' with
    | blob k => simp [compatTy]
    | _ => simp [fieldBlob] at hb
  | _ => simp [fieldBlob] at hb

mutual
/-- every accepted version reads itself. -/
theorem compat_refl : ∀ (t : FTy) (l : Bool), accepted t = true → compatTy l t t = true
  | .int _, _, _ => by simp [compatTy]
  | .bool, _, _ => by simp [compatTy]
  | .text _, _, _ => by simp [compatTy]
  | .blob _, _, _ => by simp [compatTy]
  | .option t, l, ha => by simp only [accepted] at ha; simp only [compatTy]; exact compat_refl t l ha
  | .vec t, l, ha => by simp only [accepted] at ha; simp only [compatTy]; exact compat_refl t false ha
  | .struct a fs, l, ha => by
    simp only [accepted, Bool.and_eq_true] at ha
    have hnd := C08.nodupNat_nodup _ ha.1.1.2
    simp only [compatTy, beq_self_eq_true, Bool.true_and]
    cases htr : a.transparent
    · simp only [Bool.false_eq_true, if_false, Bool.and_eq_true]
      exact ⟨compatFields_refl fs fs ha.1.1.1.2 hnd (fun g hg => hg), onlyOptional_self fs hnd⟩
    · simp only [if_true]
      have h1 := ha.2
      simp only [htr, Bool.not_true, Bool.false_or, Bool.and_eq_true] at h1
      match fs, h1, ha with
      | [(fa, ft)], _, ha =>
        simp only [compatOne, beq_self_eq_true, Bool.true_and]
        have := ha.1.1.1.2
        simp only [acceptedFields, Bool.and_eq_true, Bool.or_eq_true] at this
        rcases this.1.2 with hb | hacc
        · exact compat_blob_refl ft false hb
        · exact compat_refl ft false hacc
      | [], h1, _ => simp at h1
      | _ :: _ :: _, h1, _ => simp at h1
  | .enum a vs, l, ha => by
    simp only [accepted, Bool.and_eq_true] at ha
    simp only [compatTy, beq_self_eq_true, Bool.true_and]
    exact compatVars_refl l a vs vs ha.1.1.2 (C08.nodupNat_nodup _ ha.1.2) (fun g hg => hg)
termination_by structural t => t
theorem compatFields_refl : ∀ (fs gs : Fields), acceptedFields fs = true → (liveIdxs gs).Nodup → (∀ g ∈ fs, g ∈ gs) →
    compatFields fs gs = true
  | [], _, _, _, _ => by simp [compatFields]
  | (fa, t) :: fs, gs, ha, hnd, hsub => by
    simp only [acceptedFields, Bool.and_eq_true, Bool.or_eq_true] at ha
    simp only [compatFields, Bool.and_eq_true]
    refine ⟨?_, compatFields_refl fs gs ha.2 hnd (fun g hg => hsub g (by simp [hg]))⟩
    cases hs : fa.skip
    · simp only [Bool.false_eq_true, if_false]
      rw [findField_of_mem gs fa t hnd (hsub _ (by simp)) hs]
      simp only [beq_self_eq_true, Bool.true_and]
      rcases ha.1.2 with hb | hacc
      · exact compat_blob_refl t _ hb
      · exact compat_refl t _ hacc
    · simp
termination_by structural fs => fs
theorem compatVars_refl (l : Bool) (e : EAttr) : ∀ (vs us : Variants), acceptedVars e vs = true →
    (us.map (·.1.idx)).Nodup → (∀ g ∈ vs, g ∈ us) → compatVars l e e vs us = true
  | [], _, _, _, _ => by simp [compatVars]
  | (va, fs) :: rest, us, ha, hnd, hsub => by
    simp only [acceptedVars, Bool.and_eq_true, decide_eq_true_eq] at ha
    obtain ⟨⟨⟨⟨⟨⟨hidx, htag⟩, hacc⟩, hndf⟩, hunit⟩, hio⟩, hrest⟩ := ha
    simp only [compatVars, Bool.and_eq_true]
    refine ⟨?_, compatVars_refl l e rest us hrest hnd (fun g hg => hsub g (by simp [hg]))⟩
    obtain ⟨p, hp⟩ := findVar_of_mem us 0 va fs hnd (hsub _ (by simp))
    rw [hp]
    simp only [beq_self_eq_true, Bool.true_and]
    cases hsh : va.shape
    · rfl
    all_goals
      simp only [Bool.and_eq_true, Bool.true_and]
      exact ⟨compatFields_refl fs fs hacc (C08.nodupNat_nodup _ hndf) (fun g hg => hg), onlyOptional_self fs (C08.nodupNat_nodup _ hndf)⟩
termination_by structural vs => vs
end

theorem compatible_refl (t : FTy) (ha : accepted t = true) : compatible t t = true := compat_refl t false ha

/-- "add an optional field" and "drop an optional field" are `compatible` in both directions. -/
theorem step_compatible_field (l : Bool) (a : SAttr) (fs : Fields) (fa : FAttr) (ft : FTy)
    (hold : accepted (.struct a fs) = true) (hnew : accepted (.struct a ((fa, ft) :: fs)) = true)
    (hta : a.transparent = false) (hlive : fa.skip = false) (hopt : Optional fa ft) :
    compatTy l (.struct a fs) (.struct a ((fa, ft) :: fs)) = true ∧
    compatTy l (.struct a ((fa, ft) :: fs)) (.struct a fs) = true := by
  have hold' := hold
  have hnew' := hnew
  simp only [accepted, Bool.and_eq_true] at hold' hnew'
  have hndO := C08.nodupNat_nodup _ hold'.1.1.2
  have hndN := C08.nodupNat_nodup _ hnew'.1.1.2
  have hfresh : fa.idx ∉ liveIdxs fs := by
    have : (fa.idx :: liveIdxs fs).Nodup := by simpa [liveIdxs, hlive] using hndN
    exact (List.nodup_cons.1 this).1
  have hself := compatFields_refl fs fs hold'.1.1.1.2 hndO (fun g hg => hg)
  have hselfN : compatFields fs ((fa, ft) :: fs) = true :=
    compatFields_refl fs ((fa, ft) :: fs) hold'.1.1.1.2 hndN (fun g hg => by simp [hg])
  constructor
  · -- the newer reader: all old fields are shared; the new field is optional
    simp only [compatTy, hta, beq_self_eq_true, Bool.true_and, Bool.false_eq_true, if_false, Bool.and_eq_true]
    refine ⟨hselfN, ?_⟩
    simp only [onlyOptional, List.all_cons, Bool.and_eq_true, Bool.or_eq_true, List.all_eq_true]
    refine ⟨Or.inr hopt, ?_⟩
    intro g hg
    cases hs : g.1.skip
    · left; right
      simp [findField_of_mem fs g.1 g.2 hndO hg hs]
    · left; left; rfl
  · -- the older reader: the new field is unknown to it and skipped
    simp only [compatTy, hta, beq_self_eq_true, Bool.true_and, Bool.false_eq_true, if_false, Bool.and_eq_true]
    refine ⟨?_, ?_⟩
    · simp only [compatFields, hlive, Bool.false_eq_true, if_false, Bool.and_eq_true]
      refine ⟨?_, hself⟩
      rw [(findField_none fs fa.idx).2 hfresh]
    · simp only [onlyOptional, List.all_eq_true, Bool.or_eq_true]
      intro g hg
      cases hs : g.1.skip
      · left; right
        have hne : fa.idx ≠ g.1.idx := by
          intro e; apply hfresh; rw [e]; exact mem_liveIdxs fs g.1 g.2 hg hs
        have hb : (fa.idx == g.1.idx) = false := by simpa using hne
        simp [findField, hlive, hb, findField_of_mem fs g.1 g.2 hndO hg hs]
      · left; left; rfl

/-- "add a variant to an enum that is only used as an optional field": the newer reader always
    reads the older writer; the older reader reads the newer writer exactly in lenient (optional
    field) position. -/
theorem step_compatible_variant (e : EAttr) (vars : Variants) (va : VAttr) (fs : Fields)
    (hold : accepted (.enum e vars) = true) (hnew : accepted (.enum e ((va, fs) :: vars)) = true) :
    (∀ l, compatTy l (.enum e vars) (.enum e ((va, fs) :: vars)) = true) ∧
    compatTy true (.enum e ((va, fs) :: vars)) (.enum e vars) = true ∧
    compatTy false (.enum e ((va, fs) :: vars)) (.enum e vars) = false := by
  have hold' := hold
  have hnew' := hnew
  simp only [accepted, Bool.and_eq_true] at hold' hnew'
  have hndO := C08.nodupNat_nodup _ hold'.1.2
  have hndN := C08.nodupNat_nodup _ hnew'.1.2
  have hfresh : va.idx ∉ vars.map (·.1.idx) := (List.nodup_cons.1 (by simpa using hndN)).1
  have hnf : findVar vars 0 va.idx = none := by
    have : ∀ (us : Variants) (pos : Nat), va.idx ∉ us.map (·.1.idx) → findVar us pos va.idx = none := by
      intro us
      induction us with
      | nil => intros; rfl
      | cons u us ih =>
        intro pos h
        obtain ⟨ub, ug⟩ := u
        have hne : ub.idx ≠ va.idx := by intro e; apply h; simp [e]
        have hb : (ub.idx == va.idx) = false := by simpa using hne
        simp only [findVar, hb, Bool.false_eq_true, if_false]
        exact ih (pos + 1) (fun hm => h (by simp [hm]))
    exact this vars 0 hfresh
  refine ⟨fun l => ?_, ?_, ?_⟩
  · simp only [compatTy, beq_self_eq_true, Bool.true_and]
    exact compatVars_refl l e vars ((va, fs) :: vars) hold'.1.1.2 hndN (fun g hg => by simp [hg])
  · simp only [compatTy, beq_self_eq_true, Bool.true_and, compatVars, hnf]
    exact compatVars_refl true e vars vars hold'.1.1.2 hndO (fun g hg => hg)
  · simp [compatTy, compatVars, hnf]

end Minicbor.C10
