/-
  C12 — Floating-point values survive bit-exactly; half precision converts per IEEE 754.
  Property theorems only (helper lemmas: Lemmas/Float*.lean).

  The definitions the theorems are about are the ones `mcdrv` executes: `Enc.f16/f32/f64`,
  `Dec.f16/f32/f64`, `f16ToF32`, `f32ToF16`, `f32ToF64` (Float.lean; transcriptions of the `half`
  crate's portable conversion functions, which is the path an x86_64 build with
  `default-features = false` takes, and of `f64::from(f32)`), with the value semantics
  `val16/val32/val64 : bits → FVal` (finite magnitudes as integer multiples of 2^-1074).
-/
import Minicbor.Encoder
import Minicbor.Decoder
import Minicbor.Lemmas.FloatTabDecode
import Minicbor.Lemmas.FloatTabEncode
import Minicbor.Lemmas.FloatWiden
import Minicbor.Lemmas.FloatRne

namespace Minicbor.C12
open Dec

/-! ## bit-exact round trip of binary32 / binary64 -/

theorem readSlice_be (k n : Nat) (rest : Bytes) :
    Dec.readSlice k (be k n ++ rest) = .ok (be k n) rest := by
  have := Dec.readSlice_append (be k n) rest
  rwa [be_length] at this

/-- every one of the 2^32 patterns (−0, subnormals, infinities, every NaN payload) comes back
    identical, with the decoder positioned right after the item; with or without the `half`
    feature. -/
theorem f32_bits_roundtrip (b : Nat) (hb : b < 2 ^ 32) (rest : Bytes) (half : Bool) :
    Dec.f32 half (Enc.f32 b ++ rest) = .ok b rest := by
  have h1 : (Minicbor.u8 (Enc.SIMPLE + 26)) = (0xfa : UInt8) := by decide
  have h2 : ((0xfa : UInt8) == 0xf9) = false := by decide
  simp only [Dec.f32, Enc.f32, h1, List.cons_append, Dec.bind_run, Dec.current_cons, h2, Bool.and_false,
    Bool.false_eq_true, if_false, beq_self_eq_true, if_true, Dec.read_cons, readSlice_be, Dec.pure_run]
  rw [fromBe_be 4 b (by simpa using hb)]

/-- every one of the 2^64 patterns comes back identical. -/
theorem f64_bits_roundtrip (b : Nat) (hb : b < 2 ^ 64) (rest : Bytes) (half : Bool) :
    Dec.f64 half (Enc.f64 b ++ rest) = .ok b rest := by
  have h1 : (Minicbor.u8 (Enc.SIMPLE + 27)) = (0xfb : UInt8) := by decide
  have h2 : ((0xfb : UInt8) == 0xf9) = false := by decide
  have h3 : ((0xfb : UInt8) == 0xfa) = false := by decide
  simp only [Dec.f64, Enc.f64, h1, List.cons_append, Dec.bind_run, Dec.current_cons, h2, h3, Bool.and_false,
    Bool.false_eq_true, if_false, beq_self_eq_true, if_true, Dec.read_cons, readSlice_be, Dec.pure_run]
  rw [fromBe_be 8 b (by simpa using hb)]

/-! ## half precision decodes exactly; widening is exact -/

/-- each of the 65 536 binary16 patterns is converted to a binary32 denoting exactly the value the
    pattern denotes (complete table, kernel-evaluated). -/
theorem f16_decode_exact : ∀ h, h < 65536 → val32 (f16ToF32 h) = val16 h := f16_decode_table

/-- `f64::from(f32)` is exact for all 2^32 patterns (proof by exponent class). -/
theorem widen_exact : ∀ x, x < 2 ^ 32 → val64 (f32ToF64 x) = val32 x := by
  intro x hx; exact widen_exact_all x (by simpa using hx)

theorem f16ToF32_lt (h : Nat) (hh : h < 65536) : f16ToF32 h < 2 ^ 32 := by
  unfold f16ToF32
  have hs : h / 32768 < 2 := by omega
  simp only [beq_iff_eq, Bool.and_eq_true]
  split
  · omega
  · split
    · split
      · omega
      · split <;> omega
    · split
      · rename_i h0 _ he0
        have hm0 : h % 1024 ≠ 0 := by omega
        obtain ⟨hlo, hhi⟩ := log2_bounds (h % 1024) hm0
        have hl : Nat.log2 (h % 1024) < 10 := log2_lt_of_lt _ 10 hm0 (by omega)
        generalize Nat.log2 (h % 1024) = l at *
        have hp1 : 2 ^ (l + 1) * 2 ^ (23 - l) = 16777216 := by
          rw [← Nat.pow_add, show l + 1 + (23 - l) = 24 by omega]
        have hlt : h % 1024 * 2 ^ (23 - l) < 16777216 := by
          rw [← hp1]; exact Nat.mul_lt_mul_of_pos_right hhi (Nat.pow_pos (by decide))
        omega
      · omega

/-- the wider accessors on narrower items: an `f9` item read through `f32`/`f64`, an `fa` item
    read through `f64`; the result is the widening conversion of the stored pattern and the
    decoder stops right after the item. -/
theorem accessor_widening (rest : Bytes) :
    (∀ h, h < 65536 → Dec.f32 true (0xf9 :: be 2 h ++ rest) = .ok (f16ToF32 h) rest) ∧
    (∀ h, h < 65536 → Dec.f64 true (0xf9 :: be 2 h ++ rest) = .ok (f32ToF64 (f16ToF32 h)) rest) ∧
    (∀ x half, x < 2 ^ 32 → Dec.f64 half (0xfa :: be 4 x ++ rest) = .ok (f32ToF64 x) rest) := by
  have h2 : ((0xfa : UInt8) == 0xf9) = false := by decide
  have h3 : ((0xf9 : UInt8) != 0xf9) = false := by decide
  refine ⟨?_, ?_, ?_⟩
  · intro h hh
    simp only [Dec.f32, Dec.f16, List.cons_append, Dec.bind_run, Dec.current_cons, beq_self_eq_true, Bool.and_self, if_true,
      Dec.read_cons, h3, Bool.false_eq_true, if_false, readSlice_be, Dec.pure_run]
    rw [fromBe_be 2 h (by simpa using hh)]
  · intro h hh
    simp only [Dec.f64, Dec.f16, List.cons_append, Dec.bind_run, Dec.current_cons, beq_self_eq_true, Bool.and_self, if_true,
      Dec.read_cons, h3, Bool.false_eq_true, if_false, readSlice_be, Dec.pure_run]
    rw [fromBe_be 2 h (by simpa using hh)]
  · intro x half hx
    simp only [Dec.f64, Dec.f32, List.cons_append, Dec.bind_run, Dec.current_cons, h2, Bool.and_false, Bool.false_eq_true,
      if_false, beq_self_eq_true, if_true, Dec.read_cons, readSlice_be, Dec.pure_run]
    rw [fromBe_be 4 x (by simpa using hx)]

/-- reading a narrower float through a wider accessor yields exactly the value the item denotes. -/
theorem accessor_widening_value (rest : Bytes) :
    (∀ h, h < 65536 → ∃ r, Dec.f32 true (0xf9 :: be 2 h ++ rest) = .ok r rest ∧ val32 r = val16 h) ∧
    (∀ h, h < 65536 → ∃ r, Dec.f64 true (0xf9 :: be 2 h ++ rest) = .ok r rest ∧ val64 r = val16 h) ∧
    (∀ x half, x < 2 ^ 32 → ∃ r, Dec.f64 half (0xfa :: be 4 x ++ rest) = .ok r rest ∧ val64 r = val32 x) := by
  obtain ⟨a, b, c⟩ := accessor_widening rest
  refine ⟨fun h hh => ⟨_, a h hh, f16_decode_exact h hh⟩, fun h hh => ⟨_, b h hh, ?_⟩,
    fun x half hx => ⟨_, c x half hx, widen_exact x hx⟩⟩
  rw [widen_exact _ (f16ToF32_lt h hh), f16_decode_exact h hh]

/-- a wider float is never accepted by a narrower accessor: `f32` on an `fb` item, `f16` on `fa` /
    `fb` items are type errors whatever the payload (in particular also when the payload would be
    exactly representable in the narrower format); `f32` leaves the position at the item, `f16`
    has consumed the initial byte. -/
theorem no_narrowing (bs : Bytes) (half : Bool) :
    Dec.f32 half (0xfb :: bs) = .err .type (0xfb :: bs) ∧
    Dec.f16 (0xfa :: bs) = .err .type bs ∧
    Dec.f16 (0xfb :: bs) = .err .type bs := by
  have h1 : ((0xfb : UInt8) == 0xf9) = false := by decide
  have h2 : ((0xfb : UInt8) == 0xfa) = false := by decide
  have h3 : ((0xfa : UInt8) != 0xf9) = true := by decide
  have h4 : ((0xfb : UInt8) != 0xf9) = true := by decide
  have t1 : ∀ r : Bytes, (typeMismatch (0xfb : UInt8) : Dec Nat) r = .err .type r := by
    intro r; simp [typeMismatch, typeOf, Dec.bind_run]
  have t2 : ∀ r : Bytes, (typeMismatch (0xfa : UInt8) : Dec Nat) r = .err .type r := by
    intro r; simp [typeMismatch, typeOf, Dec.bind_run]
  refine ⟨?_, ?_, ?_⟩
  · simp only [Dec.f32, Dec.bind_run, Dec.current_cons, h1, h2, Bool.and_false, Bool.false_eq_true, if_false, t1]
  · simp only [Dec.f16, Dec.bind_run, Dec.read_cons, h3, if_true, t2]
  · simp only [Dec.f16, Dec.bind_run, Dec.read_cons, h4, if_true, t1]

/-- without the `half` feature an `f9` item is a type error for `f32` and `f64` as well. -/
theorem no_half_feature (bs : Bytes) :
    Dec.f32 false (0xf9 :: bs) = .err .type (0xf9 :: bs) ∧
    Dec.f64 false (0xf9 :: bs) = .err .type (0xf9 :: bs) := by
  have h1 : ((0xf9 : UInt8) == 0xfa) = false := by decide
  have h2 : ((0xf9 : UInt8) == 0xfb) = false := by decide
  have t1 : ∀ r : Bytes, (typeMismatch (0xf9 : UInt8) : Dec Nat) r = .err .type r := by
    intro r; simp [typeMismatch, typeOf, Dec.bind_run]
  constructor
  · simp only [Dec.f32, Dec.bind_run, Dec.current_cons, h1, Bool.false_and, Bool.false_eq_true, if_false, t1]
  · simp only [Dec.f64, Dec.bind_run, Dec.current_cons, h1, h2, Bool.false_and, Bool.false_eq_true, if_false, t1]

/-! ## explicit half-precision encoding -/

/-- exact on every half-representable value: encoding the binary32 image of any non-NaN binary16
    pattern gives that pattern back (complete table, kernel-evaluated). -/
theorem f16_encode_exact : ∀ h, h < 65536 → isNan16 h = false → f32ToF16 (f16ToF32 h) = h := by
  intro h hh hn
  rw [f16_encode_table h hh, hn]
  simp

/-- NaN patterns keep sign and payload; only the quiet bit is forced. -/
theorem f16_encode_nan_payload : ∀ h, h < 65536 → isNan16 h = true →
    f32ToF16 (f16ToF32 h) = (if h / 512 % 2 == 0 then h + 512 else h) := by
  intro h hh hn
  rw [f16_encode_table h hh, hn]
  simp

/-- wire level: `Encoder::f16` of a half-representable value followed by `Decoder::f16` is the identity. -/
theorem f16_wire_roundtrip (h : Nat) (hh : h < 65536) (hn : isNan16 h = false) (rest : Bytes) :
    Dec.f16 (Enc.f16 (f16ToF32 h) ++ rest) = .ok (f16ToF32 h) rest := by
  have h1 : (Minicbor.u8 (Enc.SIMPLE + 25)) = (0xf9 : UInt8) := by decide
  have h3 : ((0xf9 : UInt8) != 0xf9) = false := by decide
  simp only [Dec.f16, Enc.f16, h1, List.cons_append, Dec.bind_run, Dec.read_cons, h3, Bool.false_eq_true,
    if_false, readSlice_be, Dec.pure_run, f16_encode_exact h hh hn]
  rw [fromBe_be 2 h (by simpa using hh)]

/-- NaN encodes to NaN (same sign), ±∞ to ±∞, and every finite value of magnitude ≥ 65520
    (= the midpoint between the largest finite half 65504 and 2^16) to ±∞.  All 2^32 inputs. -/
theorem f16_encode_nan_inf (x : Nat) (hx : x < 2 ^ 32) :
    (isNan32 x = true → isNan16 (f32ToF16 x) = true ∧ f32ToF16 x / 32768 = x / 2147483648) ∧
    (∀ neg, val32 x = .inf neg → val16 (f32ToF16 x) = .inf neg) ∧
    (∀ neg a, val32 x = .finite neg a → 65520 * 2 ^ 1074 ≤ a → val16 (f32ToF16 x) = .inf neg) := by
  have hx' : x < 4294967296 := by simpa using hx
  obtain ⟨hsplit, hs, he, hm⟩ := split32 x hx'
  refine ⟨?_, ?_, ?_⟩
  · intro hn
    simp only [isNan32, Bool.and_eq_true, beq_iff_eq, bne_iff_ne, ne_eq] at hn
    obtain ⟨hn1, hn2⟩ := hn
    have hq : x % 8388608 / 8192 < 1024 := by omega
    unfold f32ToF16 isNan16
    simp only [hn1, beq_self_eq_true, if_true, beq_iff_eq, hn2, if_false, Bool.and_eq_true, bne_iff_ne, ne_eq]
    split <;> omega
  · intro neg hv
    have he255 : x / 8388608 % 256 = 255 := by
      apply Classical.byContradiction
      intro hne
      rw [hsplit, val32_finite _ _ _ hs (by omega) hm] at hv
      cases hv
    have hm0 : x % 8388608 = 0 := by
      apply Classical.byContradiction
      intro hne
      unfold val32 at hv
      simp only [he255, beq_self_eq_true, if_true, beq_iff_eq, hne, if_false] at hv
      cases hv
    have hneg : neg = (x / 2147483648 == 1) := by
      rw [hsplit, val32_mk _ _ _ hs he hm] at hv
      simp only [he255, hm0, if_true] at hv
      injection hv with h; exact h.symm
    have : f32ToF16 x = x / 2147483648 * 32768 + 0x7C00 := by
      unfold f32ToF16
      simp only [he255, hm0, beq_self_eq_true, if_true]
    rw [this, hneg]
    exact val16_infinite _ hs
  · intro neg a hv hge
    have hfin : x / 8388608 % 256 < 255 := by
      apply Nat.lt_of_le_of_ne (by omega)
      intro he255
      unfold val32 at hv
      simp only [he255, beq_self_eq_true, if_true] at hv
      split at hv <;> cases hv
    obtain ⟨neg', a', hv', hov, _⟩ := rne_fields _ _ _ hs hfin hm
    rw [← hsplit] at hv' hov
    rw [hv] at hv'
    injection hv' with h1 h2
    subst h1 h2
    exact hov hge

/-- **`Encoder::f16` rounds to nearest, ties to even** — all 2^32 − 2^24 finite binary32 inputs.
    With `a` the exact magnitude of the input (units of 2^-1074): at or above 65520 the result is
    the infinity of the same sign (IEEE 754 overflow rule for round-to-nearest); below it the
    result is a finite half `b` of the same sign such that no binary16 value — of either sign —
    is closer to the input (`fdist` is the exact distance), and whenever another pattern is
    equally close the chosen pattern has an even mantissa. -/
theorem f16_encode_rne (x : Nat) (hx : x < 2 ^ 32) (hfin : x / 8388608 % 256 ≠ 255) :
    ∃ neg a, val32 x = .finite neg a ∧
      (65520 * 2 ^ 1074 ≤ a → val16 (f32ToF16 x) = .inf neg) ∧
      (a < 65520 * 2 ^ 1074 → ∃ b, val16 (f32ToF16 x) = .finite neg b ∧
        ∀ h', h' < 65536 → ∀ n' b', val16 h' = .finite n' b' →
          fdist neg b neg a ≤ fdist n' b' neg a ∧
          (fdist neg b neg a = fdist n' b' neg a → h' ≠ f32ToF16 x → f32ToF16 x % 2 = 0)) := by
  have hx' : x < 4294967296 := by simpa using hx
  obtain ⟨hsplit, hs, he, hm⟩ := split32 x hx'
  have := rne_fields _ _ _ hs (show x / 8388608 % 256 < 255 by omega) hm
  rw [← hsplit] at this
  exact this

/-! ## non-vacuity / spot checks at the boundaries named in the property -/

/-- 65520.0 → +∞, the float just below → 65504 (0x7BFF); 2^-25 (tie) → +0, the next float → the
    smallest subnormal; 2^-24·1.5 (tie) → 2 (even); −0 keeps its sign. -/
example : f32ToF16 0x477FF000 = 0x7C00 ∧ f32ToF16 0x477FEFFF = 0x7BFF ∧
    f32ToF16 0x33000000 = 0x0000 ∧ f32ToF16 0x33000001 = 0x0001 ∧
    f32ToF16 0x33C00000 = 0x0002 ∧ f32ToF16 0x80000000 = 0x8000 := by decide

/-- the hypotheses of `f16_encode_rne` are satisfiable on both sides of the threshold. -/
example : (∃ a, val32 0x477FF000 = .finite false a ∧ 65520 * 2 ^ 1074 ≤ a) ∧
    (∃ a, val32 0x3F800001 = .finite false a ∧ a < 65520 * 2 ^ 1074) := by
  refine ⟨⟨_, rfl, ?_⟩, ⟨_, rfl, ?_⟩⟩ <;> decide +kernel

end Minicbor.C12
