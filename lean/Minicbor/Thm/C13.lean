/-
  C13 — Bounded sinks: encoding succeeds iff it fits, never overruns, sink-independent.
  Property theorems only (model: Sink.lean, lemmas: Lemmas/SinkLemmas.lean).

  An encoding is the list `cs` of chunks the `Encoder` hands to `write_all` one after the other
  (`Encoder::put`); every theorem quantifies over **all** chunk lists, hence over every value of
  every type and every split of its encoding into encoder-internal writes.  A bounded sink
  is set up over a buffer `B` (capacity `B.length`) lying between canary regions `L` and `R` of a
  larger memory; `BSink` ranges over `&mut [u8]`, `Cursor<&mut [u8]>`, `Cursor<[u8; N]>`,
  `Cursor<Box<[u8]>>` (`.mem k`) and `Writer<W>` over a limited `std::io::Write` accepting at
  most `step > 0` bytes per call (`.io step`).
-/
import Minicbor.Lemmas.SinkLemmas
import Minicbor.EncPuts

namespace Minicbor.C13
open Sink

/-- a fresh bounded sink over the buffer `B` with canaries `L`, `R`. -/
def fresh (t : BSink) (L B R : Bytes) : Sink := t.mk (freshBuf L B R)

/-- **succeeds iff it fits**: encoding into a bounded sink of capacity `n = B.length` succeeds
    exactly when the encoding is at most `n` bytes long. -/
theorem sink_iff_fits (t : BSink) (ht : t.good) (L B R : Bytes) (cs : List Bytes) :
    (∃ s', (fresh t L B R).putAll cs = .ok s') ↔ cs.flatten.length ≤ B.length := by
  obtain ⟨h1, h2⟩ := putAll_spec t ht cs (freshBuf_lay L B R)
  constructor
  · intro ⟨s', hs⟩
    apply Nat.le_of_not_lt
    intro hlt
    obtain ⟨b', A', e, _⟩ := h2 hlt
    unfold fresh at hs
    rw [e] at hs
    cases hs
  · intro hfit
    obtain ⟨b', e, _⟩ := h1 hfit
    exact ⟨_, e⟩

/-- **never overruns, leaves a prefix**: whatever happens, the canary regions `L` and `R` are
    intact and the memory is `L ++ A ++ (untouched rest of the buffer) ++ R`, where `A` — the
    bytes the sink reports as accepted — is the whole encoding on success and a prefix of it
    (never longer than the buffer) on failure; and it never panics. -/
theorem sink_prefix (t : BSink) (ht : t.good) (L B R : Bytes) (cs : List Bytes) :
    match (fresh t L B R).putAll cs with
    | .ok s' => s'.memory = L ++ cs.flatten ++ B.drop cs.flatten.length ++ R ∧ s'.accepted = cs.flatten
    | .err s' => ∃ A, A <+: cs.flatten ∧ A.length ≤ B.length ∧
        s'.memory = L ++ A ++ B.drop A.length ++ R ∧ s'.accepted = A
    | .panic => False := by
  obtain ⟨h1, h2⟩ := putAll_spec t ht cs (freshBuf_lay L B R)
  by_cases hfit : cs.flatten.length ≤ B.length
  · obtain ⟨b', e, l⟩ := h1 hfit
    unfold fresh; rw [e]
    have := l.accepted t
    simp only [List.nil_append] at this
    exact ⟨this.2.2, this.1⟩
  · obtain ⟨b', A', e, l, hp, hl⟩ := h2 (by omega)
    unfold fresh; rw [e]
    have := l.accepted t
    simp only [List.nil_append] at this
    exact ⟨A', hp, hl, this.2.2, this.1⟩

/-- `Vec<u8>` is infallible and collects exactly the encoding. -/
theorem vec_collects (d : Bytes) (cs : List Bytes) :
    (Sink.vec d).putAll cs = .ok (.vec (d ++ cs.flatten)) := by
  induction cs generalizing d with
  | nil => simp [Sink.putAll]
  | cons c cs ih => simp [Sink.putAll, Sink.writeAll, ih]

/-- **sink-independent**: whenever two sinks (of any kinds, capacities and surroundings) both
    accept an encoding they hold the same bytes — the bytes `to_vec` returns. -/
theorem sink_independent (t₁ t₂ : BSink) (h₁ : t₁.good) (h₂ : t₂.good) (L₁ B₁ R₁ L₂ B₂ R₂ : Bytes)
    (cs : List Bytes) (s₁ s₂ : Sink)
    (e₁ : (fresh t₁ L₁ B₁ R₁).putAll cs = .ok s₁) (e₂ : (fresh t₂ L₂ B₂ R₂).putAll cs = .ok s₂) :
    s₁.accepted = s₂.accepted ∧
    (Sink.vec []).putAll cs = .ok (.vec s₁.accepted) := by
  have p₁ := sink_prefix t₁ h₁ L₁ B₁ R₁ cs
  have p₂ := sink_prefix t₂ h₂ L₂ B₂ R₂ cs
  rw [e₁] at p₁; rw [e₂] at p₂
  rw [p₁.2, p₂.2, vec_collects]
  simp

/-- the bytes of the calls that succeeded, in order. -/
def keptChunks : List Bytes → List Bool → Bytes
  | c :: cs, true :: os => c ++ keptChunks cs os
  | _ :: cs, false :: os => keptChunks cs os
  | _, _ => []

theorem specSeq_atomic (cs : List Bytes) : ∀ free,
    (specSeq true free cs).2 = keptChunks cs (specSeq true free cs).1 := by
  induction cs with
  | nil => intro free; simp [specSeq, keptChunks]
  | cons c cs ih =>
    intro free
    unfold specSeq
    split
    · simp [keptChunks, ih]
    · simp [keptChunks, ih]

/-- **cursor position**: after any sequence of raw `write_all` calls (carrying on after failed
    ones) the position equals the number of bytes accepted so far and indexes the next free
    byte: the memory is `L ++ accepted ++ rest of B ++ R`.  The per-call outcomes are those of the
    specification `specSeq` (a call succeeds iff the chunk fits into what is left); on the
    all-or-nothing sinks the accepted bytes are exactly the chunks of the successful calls. -/
theorem cursor_position (t : BSink) (ht : t.good) (L B R : Bytes) (cs : List Bytes) :
    ∃ s', (fresh t L B R).writeSeq cs = some (s', (specSeq t.atomic B.length cs).1) ∧
      s'.position = s'.accepted.length ∧
      s'.accepted = (specSeq t.atomic B.length cs).2 ∧
      s'.accepted.length ≤ B.length ∧
      s'.memory = L ++ s'.accepted ++ B.drop s'.accepted.length ++ R ∧
      (t.atomic = true → s'.accepted = keptChunks cs (specSeq t.atomic B.length cs).1) := by
  obtain ⟨b', e, l⟩ := writeSeq_spec t ht cs (freshBuf_lay L B R)
  have acc := l.accepted t
  simp only [List.nil_append] at acc
  refine ⟨t.mk b', e, ?_, acc.1, ?_, ?_, ?_⟩
  · rw [acc.2.1, acc.1]
  · rw [acc.1]; exact specSeq_le _ _ _
  · rw [acc.2.2, acc.1]
  · intro ha
    rw [acc.1, ha]; exact specSeq_atomic cs _

/-- the same for an encoding (which stops at the first failed `put`). -/
theorem position_after_encoding (t : BSink) (ht : t.good) (L B R : Bytes) (cs : List Bytes) :
    match (fresh t L B R).putAll cs with
    | .ok s' => s'.position = s'.accepted.length ∧ s'.position = cs.flatten.length
    | .err s' => s'.position = s'.accepted.length ∧ s'.position ≤ B.length
    | .panic => False := by
  obtain ⟨h1, h2⟩ := putAll_spec t ht cs (freshBuf_lay L B R)
  by_cases hfit : cs.flatten.length ≤ B.length
  · obtain ⟨b', e, l⟩ := h1 hfit
    unfold fresh; rw [e]
    have := l.accepted t
    simp only [List.nil_append] at this
    exact ⟨by rw [this.2.1, this.1], this.2.1⟩
  · obtain ⟨b', A', e, l, hp, hl⟩ := h2 (by omega)
    unfold fresh; rw [e]
    have := l.accepted t
    simp only [List.nil_append] at this
    exact ⟨by rw [this.2.1, this.1], by rw [this.2.1]; exact hl⟩

/-- **scripts of Encoder calls on one bounded sink, carrying on after a call that did not fit**
    (`Sink.callSeq`, what the six-configuration op `encseq` runs).  `pss` gives, per call, the `put`
    chunks of the method.  A call succeeds iff its whole encoding fits into what is left *at that
    time* (`specCalls`); whatever happened before, the position is the number of bytes accepted,
    the memory is `L ++ accepted ++ untouched rest of B ++ R`, and a failed call has added a prefix
    of its own encoding only (`fitPrefix`): on the all-or-nothing sinks whole chunks, never part of
    one.  So what the next call sees after a failure is determined by the sizes alone. -/
theorem call_script (t : BSink) (ht : t.good) (L B R : Bytes) (pss : List (List Bytes)) :
    ∃ s', (fresh t L B R).callSeq pss = some (s', (specCalls t.atomic B.length pss).1) ∧
      s'.position = s'.accepted.length ∧
      s'.accepted = (specCalls t.atomic B.length pss).2 ∧
      s'.accepted.length ≤ B.length ∧
      s'.memory = L ++ s'.accepted ++ B.drop s'.accepted.length ++ R := by
  obtain ⟨b', e, l⟩ := callSeq_spec t ht pss (freshBuf_lay L B R)
  have acc := l.accepted t
  simp only [List.nil_append] at acc
  refine ⟨t.mk b', e, ?_, acc.1, ?_, ?_⟩
  · rw [acc.2.1, acc.1]
  · rw [acc.1]; exact specCalls_le _ _ _
  · rw [acc.2.2, acc.1]

/-- what one call leaves behind: all of its encoding iff that fits, otherwise a strict prefix of it
    made of whole `put` chunks (all-or-nothing sinks) — and a call that fits is not affected by
    failures before it beyond the room they took. -/
theorem call_leaves_prefix (atomic : Bool) (free : Nat) (ps : List Bytes) :
    fitPrefix atomic free ps <+: ps.flatten ∧ (fitPrefix atomic free ps).length ≤ free ∧
    (ps.flatten.length ≤ free → fitPrefix atomic free ps = ps.flatten) ∧
    (free < ps.flatten.length → (fitPrefix atomic free ps).length < ps.flatten.length) :=
  ⟨fitPrefix_prefix _ _ _, fitPrefix_le _ _ _, fitPrefix_all _ _ _, fitPrefix_lt _ _ _⟩

/-- a script without failures is one encoding: the chunks of all calls in order. -/
theorem call_script_all_fit (t : BSink) (ht : t.good) (L B R : Bytes) (pss : List (List Bytes))
    (h : pss.flatten.flatten.length ≤ B.length) :
    (specCalls t.atomic B.length pss).1 = pss.map (fun _ => true) ∧
    (specCalls t.atomic B.length pss).2 = pss.flatten.flatten := by
  have key : ∀ (pss : List (List Bytes)) (free : Nat), pss.flatten.flatten.length ≤ free →
      (specCalls t.atomic free pss).1 = pss.map (fun _ => true) ∧ (specCalls t.atomic free pss).2 = pss.flatten.flatten := by
    intro pss
    induction pss with
    | nil => intro free _; simp [specCalls]
    | cons ps rest ih =>
      intro free h
      simp only [List.flatten_cons, List.flatten_append, List.length_append] at h
      have e := fitPrefix_all t.atomic ps free (by omega)
      obtain ⟨i1, i2⟩ := ih (free - ps.flatten.length) (by omega)
      simp only [specCalls, e, List.map_cons, List.flatten_cons, List.flatten_append]
      have hd : decide (ps.flatten.length ≤ free) = true := decide_eq_true (by omega)
      exact ⟨by rw [i1, hd], by rw [i2]⟩
  exact key pss B.length h

/-- **failure is a write error, never a panic**: too long an encoding yields `Error::write`. -/
theorem failure_is_write_error (t : BSink) (ht : t.good) (L B R : Bytes) (cs : List Bytes) :
    (fresh t L B R).putAll cs ≠ .panic ∧
    (fresh t L B R).writeSeq cs ≠ none ∧
    (B.length < cs.flatten.length → ∃ s', (fresh t L B R).putAll cs = .err s') := by
  obtain ⟨h1, h2⟩ := putAll_spec t ht cs (freshBuf_lay L B R)
  refine ⟨?_, ?_, ?_⟩
  · by_cases hfit : cs.flatten.length ≤ B.length
    · obtain ⟨b', e, _⟩ := h1 hfit
      unfold fresh; rw [e]; intro h; cases h
    · obtain ⟨b', A', e, _⟩ := h2 (by omega)
      unfold fresh; rw [e]; intro h; cases h
  · obtain ⟨s', e, _⟩ := cursor_position t ht L B R cs
    rw [e]; intro h; cases h
  · intro hlt
    obtain ⟨b', A', e, _⟩ := h2 hlt
    exact ⟨_, e⟩

/-- **exact fit** (what `no_std` users rely on): a buffer of exactly the encoding's length
    accepts it; one byte less does not. -/
theorem exact_buffer (t : BSink) (ht : t.good) (L B R : Bytes) (cs : List Bytes) :
    (B.length = cs.flatten.length → ∃ s', (fresh t L B R).putAll cs = .ok s' ∧ s'.accepted = cs.flatten ∧
        s'.memory = L ++ cs.flatten ++ R) ∧
    (B.length + 1 = cs.flatten.length → ∃ s', (fresh t L B R).putAll cs = .err s') := by
  constructor
  · intro hB
    obtain ⟨s', e⟩ := (sink_iff_fits t ht L B R cs).mpr (by omega)
    have p := sink_prefix t ht L B R cs
    rw [e] at p
    refine ⟨s', e, p.2, ?_⟩
    rw [p.1, ← hB, List.drop_length]; simp
  · intro hB
    exact (failure_is_write_error t ht L B R cs).2.2 (by omega)

/-- the theorems apply to the real put structure of every `Encoder` method. -/
theorem encoder_puts_sound (bs : Bytes) (t : Nat) (b : Bytes) :
    (Enc.putsOfHead bs).flatten = bs ∧ (Enc.putsString t b).flatten = Enc.typeLen t b.length ++ b :=
  ⟨Enc.putsOfHead_flatten bs, Enc.putsString_flatten t b⟩

/-! ## non-vacuity -/

/-- `u32(70000)` is written as `put([0x1a])`, `put([0,1,0x11,0x70])`: into a 3-byte slice between
    canaries `[0xAA]`/`[0xBB]` the first chunk is accepted, the second is refused as a whole; into
    a 3-byte `std::io` writer the second is written as far as it fits.  Canaries intact. -/
example :
    (match (fresh (.mem .slice) [0xAA] [0, 0, 0] [0xBB]).putAll [[0x1a], [0, 1, 0x11, 0x70]] with
      | .err s' => s'.memory == [0xAA, 0x1a, 0, 0, 0xBB] && s'.position == 1 | _ => false) = true ∧
    (match (fresh (.io 1) [0xAA] [0, 0, 0] [0xBB]).putAll [[0x1a], [0, 1, 0x11, 0x70]] with
      | .err s' => s'.memory == [0xAA, 0x1a, 0, 1, 0xBB] && s'.position == 3 | _ => false) = true ∧
    (match (fresh (.mem .cursorArray) [0xAA] [0, 0, 0, 0, 0] [0xBB]).putAll [[0x1a], [0, 1, 0x11, 0x70]] with
      | .ok s' => s'.memory == [0xAA, 0x1a, 0, 1, 0x11, 0x70, 0xBB] && s'.position == 5 | _ => false) = true := by
  decide

/-- the script `u8(1); bytes([0x11; 8]); u16(1000)` on a 6-byte slice: the second call writes its head and
    fails on the payload, the third still fits: `01 48 19 03 e8`, one byte left untouched. -/
example :
    (match (fresh (.mem .slice) [0xAA] [0xEE, 0xEE, 0xEE, 0xEE, 0xEE, 0xEE] [0xBB]).callSeq
        [[[1]], [[0x48], [0x11, 0x11, 0x11, 0x11, 0x11, 0x11, 0x11, 0x11]], [[0x19], [3, 0xe8]]] with
      | some (s', oks) => s'.memory == [0xAA, 1, 0x48, 0x19, 3, 0xe8, 0xEE, 0xBB] && s'.position == 5 && oks == [true, false, true]
      | none => false) = true := by
  decide

end Minicbor.C13
