/-
  C14 — Framed blocking I/O round-trips under any fragmentation and detects truncation.
  Property theorems only.  The model is `Minicbor/Frame.lean` (`Reader.read`, `Writer.write`
  over scripted `std::io::Read` / `Write`); scripts are of unbounded length and the proofs go
  by induction over them (`fill_benign`, `drain_benign` in `Lemmas/FrameIO.lean`).

  All theorems are for an arbitrary payload codec `c : Codec α`; `valCodec_roundtrip` shows
  that the codec the driver / harness run (`Val`) satisfies the round-trip hypothesis.
-/
import Minicbor.Lemmas.FrameIO
import Minicbor.Lemmas.Head
import Minicbor.Lemmas.NoPanic

namespace Minicbor.C14
open Minicbor.Frame

/-- re-exports (so that the audit lists them under this property). -/
theorem fill_benign : ∀ (sc : List Ev), Benign sc → ∀ (need : Nat) (acc bytes : Bytes),
    ∃ sc', Benign sc' ∧
      fill need acc bytes sc =
        if need ≤ bytes.length then (.done (acc ++ bytes.take need), ⟨bytes.drop need, sc'⟩)
        else (.short (acc ++ bytes), ⟨[], sc'⟩) := Frame.fill_benign

theorem drain_benign : ∀ (sc : List Ev), Benign sc → ∀ (data out : Bytes),
    ∃ sc', Benign sc' ∧ drain data out sc = (.done, ⟨out ++ data, sc'⟩) := Frame.drain_benign

/-! ## writer -/

/-- `ps` are the payloads of `vs`, each within the writer's maximum. -/
def Encodes (c : Codec α) (maxLen : Nat) : List α → List Bytes → Prop
  | [], [] => True
  | v :: vs, p :: ps => c.enc v = .ok p ∧ p.length ≤ maxLen ∧ Encodes c maxLen vs ps
  | _, _ => False

/-- **The writer emits exactly `frames`**: under any short-write / `Interrupted` behaviour of
    the sink, writing `vs` appends exactly the concatenation of their frames (4-byte big-endian
    length, then the payload) and every call returns its payload length. -/
theorem writer_frames (c : Codec α) : ∀ (vs : List α) (ps : List Bytes) (w : Writer),
    Encodes c w.maxLen vs ps → Benign w.snk.script →
    ∃ w', Writer.writeAll c vs w = (ps.map (fun p => .ok p.length), w') ∧
      w'.snk.out = w.snk.out ++ frames ps ∧ Benign w'.snk.script ∧ w'.maxLen = w.maxLen := by
  intro vs
  induction vs with
  | nil =>
    intro ps w he hb
    cases ps with
    | nil => exact ⟨w, by simp [Writer.writeAll], by simp [frames], hb, rfl⟩
    | cons => exact absurd he (by simp [Encodes])
  | cons v vs ih =>
    intro ps w he hb
    cases ps with
    | nil => exact absurd he (by simp [Encodes])
    | cons p ps =>
      obtain ⟨hv, hl, hrest⟩ := he
      obtain ⟨sc', hb', hd⟩ := Frame.drain_benign w.snk.script hb (frame p) w.snk.out
      have hnl : ¬ p.length > w.maxLen := by omega
      have hw : w.write c v = (.ok p.length,
          { w with snk := ⟨w.snk.out ++ frame p, sc'⟩, buffer := frame p }) := by
        simp only [Writer.write, hv, hnl, if_false, hd]
      obtain ⟨w'', h1, h2, h3, h4⟩ := ih ps
        { w with snk := ⟨w.snk.out ++ frame p, sc'⟩, buffer := frame p } hrest hb'
      refine ⟨w'', ?_, ?_, h3, h4⟩
      · simp only [Writer.writeAll, hw, h1, List.map_cons]
      · rw [h2]; simp [frames]

/-- a value that fails to encode, or whose encoding exceeds `max_len`, is rejected and not
    a single byte reaches the sink (whatever the sink would have done). -/
theorem writer_rejects_nothing_written (c : Codec α) (w : Writer) (v : α) :
    (∀ part, c.enc v = .error part → (w.write c v).1 = .error .encode ∧ (w.write c v).2.snk = w.snk) ∧
    (∀ p, c.enc v = .ok p → p.length > w.maxLen →
        (w.write c v).1 = .error .invalidLen ∧ (w.write c v).2.snk = w.snk) := by
  constructor
  · intro part h; simp [Writer.write, h]
  · intro p h hl; simp [Writer.write, h, hl]

/-- **The writer never emits a frame larger than its maximum**, for every sink behaviour:
    what one call adds to the sink is a prefix of the frame of a payload `≤ max_len`
    (possibly empty; the whole frame when the call returns `Ok`). -/
theorem writer_frame_size (c : Codec α) (w : Writer) (v : α) :
    ∃ t, (w.write c v).2.snk.out = w.snk.out ++ t ∧
      (t = [] ∨ ∃ p, c.enc v = .ok p ∧ p.length ≤ w.maxLen ∧ t <+: frame p) := by
  unfold Writer.write
  cases hv : c.enc v with
  | error part => exact ⟨[], by simp, .inl rfl⟩
  | ok p =>
    by_cases hl : p.length > w.maxLen
    · exact ⟨[], by simp [hl], .inl rfl⟩
    · obtain ⟨t, ht, hp⟩ := drain_prefix w.snk.script (frame p) w.snk.out
      refine ⟨t, ?_, .inr ⟨p, rfl, by omega, hp⟩⟩
      simp only [hl, if_false]
      revert ht
      cases drain (frame p) w.snk.out w.snk.script with
      | mk d s => cases d <;> (intro ht; exact ht)

/-! ## reader -/

/-- one frame at the head of the stream, any fragmentation: the read returns the decoding of
    exactly that payload and leaves the stream right behind the frame. -/
theorem read_frame (c : Codec α) (r : Reader) (p rest : Bytes)
    (hs : r.src.bytes = frame p ++ rest) (hb : Benign r.src.script)
    (hl : p.length ≤ r.maxLen) (h32 : p.length < 4294967296) :
    ∃ r', r.read c = (decodeRes c p, r') ∧ r'.src.bytes = rest ∧ Benign r'.src.script ∧
      r'.maxLen = r.maxLen ∧ r'.buffer = p := by
  obtain ⟨⟨bytes, script⟩, buffer, maxLen⟩ := r
  simp only at hs hb hl
  subst hs
  obtain ⟨sc1, hb1, h1⟩ := Frame.fill_benign script hb 4 [] (frame p ++ rest)
  have hlen : 4 ≤ (frame p ++ rest).length := by simp; omega
  have ht : List.take 4 (frame p ++ rest) = be 4 p.length := by
    rw [frame, List.append_assoc, List.take_left' (be_length 4 _)]
  have hd : List.drop 4 (frame p ++ rest) = p ++ rest := by
    rw [frame, List.append_assoc, List.drop_left' (be_length 4 _)]
  simp only [hlen, if_true, List.nil_append, ht, hd] at h1
  obtain ⟨sc2, hb2, h2⟩ := Frame.fill_benign sc1 hb1 p.length [] (p ++ rest)
  have hlen2 : p.length ≤ (p ++ rest).length := by simp
  simp only [hlen2, if_true, List.nil_append, List.take_left' rfl, List.drop_left' rfl] at h2
  have hnl : ¬ p.length > maxLen := by omega
  refine ⟨⟨⟨rest, sc2⟩, p, maxLen⟩, ?_, rfl, hb2, rfl, rfl⟩
  simp only [Reader.read, h1, fromBe_be4 _ h32, hnl, if_false, h2]

/-- at the end of the stream (zero bytes where a length prefix would start) the read reports
    a clean end. -/
theorem reader_clean_end (c : Codec α) (r : Reader) (hs : r.src.bytes = []) (hb : Benign r.src.script) :
    ∃ r', r.read c = (.ok none, r') ∧ r'.src.bytes = [] ∧ Benign r'.src.script ∧ r'.maxLen = r.maxLen := by
  obtain ⟨⟨bytes, script⟩, buffer, maxLen⟩ := r
  simp only at hs hb
  subst hs
  obtain ⟨sc1, hb1, h1⟩ := Frame.fill_benign script hb 4 [] []
  simp at h1
  exact ⟨⟨⟨[], sc1⟩, buffer, maxLen⟩, by simp only [Reader.read, h1], rfl, hb1, rfl⟩

/-- the payloads are within the reader's maximum (and a `u32` can express their length). -/
def Fits (maxLen : Nat) (ps : List Bytes) : Prop := ∀ p ∈ ps, p.length ≤ maxLen ∧ p.length < 4294967296

/-- reading `ps.length` frames off `frames ps ++ rest`, then whatever `k` further reads give. -/
theorem readN_frames (c : Codec α) (k : Nat) : ∀ (ps : List Bytes) (r : Reader) (rest : Bytes),
    r.src.bytes = frames ps ++ rest → Benign r.src.script → Fits r.maxLen ps →
    ∃ r', r'.src.bytes = rest ∧ Benign r'.src.script ∧ r'.maxLen = r.maxLen ∧
      Reader.readN c (ps.length + k) r =
        ((ps.map (decodeRes c)) ++ (Reader.readN c k r').1, (Reader.readN c k r').2) := by
  intro ps
  induction ps with
  | nil =>
    intro r rest hs hb _
    exact ⟨r, by simpa [frames] using hs, hb, rfl, by simp⟩
  | cons p ps ih =>
    intro r rest hs hb hf
    have hp := hf p (by simp)
    obtain ⟨r1, e1, s1, b1, m1, _⟩ := read_frame c r p (frames ps ++ rest)
      (by rw [hs]; simp [frames]) hb hp.1 hp.2
    obtain ⟨r', s', b', m', e'⟩ := ih r1 rest s1 b1 (by rw [m1]; intro q hq; exact hf q (by simp [hq]))
    refine ⟨r', s', b', by rw [m', m1], ?_⟩
    have : (p :: ps).length + k = (ps.length + k) + 1 := by simp; omega
    rw [this]
    simp only [Reader.readN, e1, e']
    simp

/-- **Any fragmentation, any placement of `Interrupted`**: over a stream that consists of the
    frames of `ps`, delivered in arbitrary pieces with arbitrarily many interrupted calls,
    `ps.length + 1` reads return the decoding of each payload in order and then a clean end. -/
theorem reader_any_fragmentation (c : Codec α) (ps : List Bytes) (r : Reader)
    (hs : r.src.bytes = frames ps) (hb : Benign r.src.script) (hf : Fits r.maxLen ps) :
    (Reader.readN c (ps.length + 1) r).1 = ps.map (decodeRes c) ++ [.ok none] := by
  obtain ⟨r', s', b', _, e'⟩ := readN_frames c 1 ps r [] (by simpa using hs) hb hf
  obtain ⟨r'', e'', _⟩ := reader_clean_end c r' s' b'
  rw [e']
  simp [Reader.readN, e'']

/-- **Round trip**: what the writer emitted for `vs` (see `writer_frames`) is read back as
    exactly `vs`, in order, then `None` — for every codec whose decoder inverts its encoder. -/
theorem reader_roundtrip (c : Codec α) (hrt : ∀ v p, c.enc v = .ok p → c.dec p = .ok v) :
    ∀ (vs : List α) (ps : List Bytes) (r : Reader), Encodes c r.maxLen vs ps → (∀ p ∈ ps, p.length < 4294967296) →
    r.src.bytes = frames ps → Benign r.src.script →
    (Reader.readN c (vs.length + 1) r).1 = vs.map (fun v => .ok (some v)) ++ [.ok none] := by
  intro vs ps r he h32 hs hb
  have key : ∀ (vs : List α) (ps : List Bytes), Encodes c r.maxLen vs ps →
      vs.length = ps.length ∧ (∀ p ∈ ps, p.length ≤ r.maxLen) ∧
      ps.map (decodeRes c) = vs.map (fun v => .ok (some v)) := by
    intro vs
    induction vs with
    | nil => intro ps he; cases ps with
      | nil => simp
      | cons => exact absurd he (by simp [Encodes])
    | cons v vs ih => intro ps he; cases ps with
      | nil => exact absurd he (by simp [Encodes])
      | cons p ps =>
        obtain ⟨hv, hl, hrest⟩ := he
        obtain ⟨a, b, d⟩ := ih ps hrest
        refine ⟨by simp [a], ?_, ?_⟩
        · intro q hq; cases hq with
          | head => exact hl
          | tail _ h => exact b q h
        · simp [decodeRes, hrt v p hv, d]
  obtain ⟨hlen, hmax, hmap⟩ := key vs ps he
  rw [hlen, ← hmap]
  exact reader_any_fragmentation c ps r hs hb (fun p hp => ⟨hmax p hp, h32 p hp⟩)

/-- **Truncation**: if the stream ends strictly inside a frame (in its length prefix or in
    its payload), the read that hits the end returns `UnexpectedEof` — never a value, never a
    clean end — under any fragmentation; the frames before it are unaffected. -/
theorem reader_truncation (c : Codec α) (ps : List Bytes) (p t : Bytes) (r : Reader)
    (ht : t <+: frame p) (hne : t ≠ []) (hcut : t ≠ frame p)
    (hs : r.src.bytes = frames ps ++ t) (hb : Benign r.src.script)
    (hf : Fits r.maxLen (ps ++ [p])) :
    (Reader.readN c (ps.length + 1) r).1 = ps.map (decodeRes c) ++ [.error (.io .unexpectedEof)] := by
  obtain ⟨r', s', b', m', e'⟩ := readN_frames c 1 ps r t hs hb (fun q hq => hf q (by simp [hq]))
  have hp := hf p (by simp)
  rw [← m'] at hp
  rw [e']
  suffices h : (r'.read c).1 = .error (.io .unexpectedEof) by simp [Reader.readN, h]
  obtain ⟨⟨bytes, script⟩, buffer, maxLen⟩ := r'
  simp only at s' b' hp
  subst s'
  obtain ⟨s, hsf⟩ := ht
  have hsne : s ≠ [] := by
    intro h; subst h; simp at hsf; exact hcut hsf
  rw [frame] at hsf
  obtain ⟨sc1, hb1, h1⟩ := Frame.fill_benign script b' 4 [] bytes
  rcases List.append_eq_append_iff.mp hsf with ⟨a', h4, hpa⟩ | ⟨c', h4, hsc⟩
  · -- the prefix did not arrive completely, or just so (`be 4 len = t ++ a'`, `s = a' ++ p`)
    have hlt : bytes.length + a'.length = 4 := by
      have := congrArg List.length h4; simp at this; omega
    by_cases ha : a' = []
    · -- cut exactly after the prefix
      subst ha
      simp at h4 hpa hlt
      subst hpa
      subst h4
      simp only [hlt, Nat.le_refl, if_true, List.nil_append, List.take_of_length_le (Nat.le_of_eq hlt),
        List.drop_of_length_le (Nat.le_of_eq hlt)] at h1
      obtain ⟨sc2, hb2, h2⟩ := Frame.fill_benign sc1 hb1 s.length [] []
      have : ¬ s.length ≤ ([] : Bytes).length := by
        cases s with
        | nil => exact absurd rfl hsne
        | cons => simp
      simp only [this, if_false, List.append_nil] at h2
      have hnl : ¬ s.length > maxLen := by omega
      simp only [Reader.read, h1, fromBe_be4 _ hp.2, hnl, if_false, h2]
    · -- cut inside the prefix
      have : 0 < a'.length := List.length_pos_iff.mpr ha
      have : ¬ 4 ≤ bytes.length := by omega
      simp only [this, if_false, List.nil_append] at h1
      cases bytes with
      | nil => exact absurd rfl hne
      | cons x xs => simp only [Reader.read, h1]
  · -- cut inside the payload (`t = be 4 len ++ c'`, `p = c' ++ s`)
    subst h4
    have hl4 : 4 ≤ (be 4 p.length ++ c').length := by simp
    simp only [hl4, if_true, List.nil_append, List.take_left' (be_length 4 _),
      List.drop_left' (be_length 4 _)] at h1
    obtain ⟨sc2, hb2, h2⟩ := Frame.fill_benign sc1 hb1 p.length [] c'
    have : ¬ p.length ≤ c'.length := by
      have := congrArg List.length hsc
      have := List.length_pos_iff.mpr hsne
      simp at *; omega
    simp only [this, if_false, List.nil_append] at h2
    have hnl : ¬ p.length > maxLen := by omega
    simp only [Reader.read, h1, fromBe_be4 _ hp.2, hnl, if_false, h2]

/-- **No desynchronisation**: a frame whose payload does not decode yields the decode error
    and consumes exactly its `4 + len` bytes: the next read starts at the next frame. -/
theorem reader_resync (c : Codec α) (r : Reader) (p rest : Bytes) (e : Err)
    (hbad : c.dec p = .error e)
    (hs : r.src.bytes = frame p ++ rest) (hb : Benign r.src.script)
    (hl : p.length ≤ r.maxLen) (h32 : p.length < 4294967296) :
    ∃ r', r.read c = (.error (.decode e), r') ∧ r'.src.bytes = rest ∧ Benign r'.src.script := by
  obtain ⟨r', e1, s1, b1, _, _⟩ := read_frame c r p rest hs hb hl h32
  exact ⟨r', by rw [e1]; simp [decodeRes, hbad], s1, b1⟩

/-- **Bounded buffer**, for every source behaviour whatsoever: a read either leaves the
    buffer alone or leaves it with a length `≤ max_len`. -/
theorem reader_alloc (c : Codec α) (r : Reader) :
    (r.read c).2.buffer = r.buffer ∨ (r.read c).2.buffer.length ≤ r.maxLen := by
  unfold Reader.read
  generalize fill 4 [] r.src.bytes r.src.script = f1
  obtain ⟨o1, src⟩ := f1
  cases o1 with
  | done pre =>
    by_cases hle : fromBe pre > r.maxLen
    · simp [hle]
    · have hg := fill_got_length src.script (fromBe pre) [] src.bytes
      dsimp only
      generalize fill (fromBe pre) [] src.bytes src.script = f2 at hg ⊢
      obtain ⟨o2, src2⟩ := f2
      cases o2 <;> simp [hle, Fill.got] at hg ⊢ <;> omega
  | short got => cases got <;> simp
  | fail k got => simp

/-- **An oversized length is rejected before any allocation**: the buffer is untouched, the
    error is `InvalidLen`, only the four prefix bytes are consumed. -/
theorem reader_oversize_rejected (c : Codec α) (r : Reader) (len : Nat) (rest : Bytes)
    (hs : r.src.bytes = be 4 len ++ rest) (hb : Benign r.src.script)
    (hbig : len > r.maxLen) (h32 : len < 4294967296) :
    ∃ r', r.read c = (.error .invalidLen, r') ∧ r'.buffer = r.buffer ∧ r'.src.bytes = rest := by
  obtain ⟨⟨bytes, script⟩, buffer, maxLen⟩ := r
  simp only at hs hb hbig
  subst hs
  obtain ⟨sc1, hb1, h1⟩ := Frame.fill_benign script hb 4 [] (be 4 len ++ rest)
  have hlen : 4 ≤ (be 4 len ++ rest).length := by simp
  simp only [hlen, if_true, List.nil_append, List.take_left' (be_length 4 _), List.drop_left' (be_length 4 _)] at h1
  exact ⟨⟨⟨rest, sc1⟩, buffer, maxLen⟩, by simp only [Reader.read, h1, fromBe_be4 _ h32, hbig, if_true], rfl, rfl⟩

/-! ## the codec of the driver and the harness -/

/-- values of `hio::V` (a `u64`, a byte string whose length is a `usize`). -/
def Val.Wf : Val → Prop
  | .u n => n < 18446744073709551616
  | .b bs => bs.length < 18446744073709551616
  | .x _ => True
  | .e => False              -- its empty payload is a frame like any other, but no decoder gives the value back
  | .t _ => False            -- its decoder reads the number and leaves the padding: the reader delivers `u n`, not `t n`

theorem u64_headW (n : Nat) (h : n < 18446744073709551616) :
    Enc.u64 n = headW 0 (prefWidth n) n := by
  unfold Enc.u64 prefWidth headW
  by_cases h1 : n ≤ 0x17
  · have : n < 24 := by omega
    simp [h1, this, Width.ai, Width.bytes, be]
  · by_cases h2 : n ≤ 0xff
    · have a : ¬ n < 24 := by omega
      have b : n < 256 := by omega
      simp [h1, h2, a, b, Width.ai, Width.bytes, be] <;> rfl
    · by_cases h3 : n ≤ 0xffff
      · have a : ¬ n < 24 := by omega
        have b : ¬ n < 256 := by omega
        have d : n < 65536 := by omega
        simp [h1, h2, h3, a, b, d, Width.ai, Width.bytes] <;> rfl
      · by_cases h4 : n ≤ 0xffffffff
        · have a : ¬ n < 24 := by omega
          have b : ¬ n < 256 := by omega
          have d : ¬ n < 65536 := by omega
          have e : n < 4294967296 := by omega
          simp [h1, h2, h3, h4, a, b, d, e, Width.ai, Width.bytes] <;> rfl
        · have a : ¬ n < 24 := by omega
          have b : ¬ n < 256 := by omega
          have d : ¬ n < 65536 := by omega
          have e : ¬ n < 4294967296 := by omega
          simp [h1, h2, h3, h4, a, b, d, e, Width.ai, Width.bytes] <;> rfl

theorem typeLen_headW (n : Nat) (h : n < 18446744073709551616) :
    Enc.typeLen Enc.BYTES n = headW 2 (prefWidth n) n := by
  unfold Enc.typeLen prefWidth headW Enc.BYTES
  by_cases h1 : n ≤ 0x17
  · have : n < 24 := by omega
    simp [h1, this, Width.ai, Width.bytes, be]
  · by_cases h2 : n ≤ 0xff
    · have a : ¬ n < 24 := by omega
      have b : n < 256 := by omega
      simp [h1, h2, a, b, Width.ai, Width.bytes, be] <;> rfl
    · by_cases h3 : n ≤ 0xffff
      · have a : ¬ n < 24 := by omega
        have b : ¬ n < 256 := by omega
        have d : n < 65536 := by omega
        simp [h1, h2, h3, a, b, d, Width.ai, Width.bytes] <;> rfl
      · by_cases h4 : n ≤ 0xffffffff
        · have a : ¬ n < 24 := by omega
          have b : ¬ n < 256 := by omega
          have d : ¬ n < 65536 := by omega
          have e : n < 4294967296 := by omega
          simp [h1, h2, h3, h4, a, b, d, e, Width.ai, Width.bytes] <;> rfl
        · have a : ¬ n < 24 := by omega
          have b : ¬ n < 256 := by omega
          have d : ¬ n < 65536 := by omega
          have e : ¬ n < 4294967296 := by omega
          simp [h1, h2, h3, h4, a, b, d, e, Width.ai, Width.bytes] <;> rfl

/-! decoding the two kinds of payload the writer produces -/
section ValCodec
open Dec

theorem typeOf_uint (b : UInt8) (bs : Bytes) (h : b.toNat ≤ 0x1b) :
    ∃ t, (t = .u8 ∨ t = .u16 ∨ t = .u32 ∨ t = .u64) ∧ typeOf b bs = .ok t bs := by
  unfold typeOf
  by_cases h1 : b.toNat ≤ 0x18
  · exact ⟨.u8, by simp, by simp only [if_pos h1]; rfl⟩
  · by_cases h2 : b.toNat = 0x19
    · exact ⟨.u16, by simp, by simp only [h2]; rfl⟩
    · by_cases h3 : b.toNat = 0x1a
      · exact ⟨.u32, by simp, by simp only [h3]; rfl⟩
      · have h4 : b.toNat = 0x1b := by omega
        exact ⟨.u64, by simp, by simp only [h4]; rfl⟩

theorem typeOf_bytes (b : UInt8) (bs : Bytes) (h1 : 0x40 ≤ b.toNat) (h2 : b.toNat ≤ 0x5b) :
    typeOf b bs = .ok .bytes bs := by
  unfold typeOf
  generalize b.toNat = n at *
  have e1 : ¬ n ≤ 0x18 := by omega
  have e2 : (n == 0x19) = false := by simp; omega
  have e3 : (n == 0x1a) = false := by simp; omega
  have e4 : (n == 0x1b) = false := by simp; omega
  have e5 : (0x20 ≤ n && n ≤ 0x37) = false := by simp; omega
  have e6 : (n == 0x38) = false := by simp; omega
  have e7 : (n == 0x39) = false := by simp; omega
  have e8 : (n == 0x3a) = false := by simp; omega
  have e9 : (n == 0x3b) = false := by simp; omega
  have e10 : (0x40 ≤ n && n ≤ 0x5b) = true := by simp; omega
  simp only [e1, e2, e3, e4, e5, e6, e7, e8, e9, e10, if_false, if_true, Bool.false_eq_true]
  rfl

theorem decVal_uint_ty (bs : Bytes) (t : CType) (ht : t = .u8 ∨ t = .u16 ∨ t = .u32 ∨ t = .u64)
    (h : Dec.datatype bs = .ok t bs) :
    decVal bs = (Dec.intAcc .u64 >>= fun n => (pure (.u n.toNat) : Dec Val)) bs := by
  unfold decVal
  rw [Dec.bind_run, h]
  rcases ht with rfl | rfl | rfl | rfl <;> rfl

theorem decVal_bytes_ty (bs : Bytes) (h : Dec.datatype bs = .ok .bytes bs) :
    decVal bs = (Dec.bytes >>= fun b => (pure (.b b) : Dec Val)) bs := by
  unfold decVal
  rw [Dec.bind_run, h]

theorem decVal_uint_head (w : Width) (n : Nat) (rest : Bytes) (hfit : w.fits n = true) :
    decVal (headW 0 w n ++ rest) = .ok (.u n) rest := by
  have hai := Width.ai_le w n hfit
  have hmax : n ≤ IntTy.u64.max := by have := Width.fits_lt w n hfit; simp [IntTy.u64]; omega
  have hb : (u8 (0 * 32 + w.ai n)).toNat ≤ 0x1b := by simp; omega
  obtain ⟨t, ht, hty⟩ := typeOf_uint (u8 (0 * 32 + w.ai n)) (headW 0 w n ++ rest) hb
  have hdt : Dec.datatype (headW 0 w n ++ rest) = .ok t (headW 0 w n ++ rest) := by
    unfold Dec.datatype
    rw [Dec.bind_run]
    simp only [headW, List.cons_append, Dec.current_cons]
    exact hty
  rw [decVal_uint_ty _ t ht hdt]
  have h1 : w.ai n % 256 ≤ 27 := by omega
  simp [intAcc, headW, Dec.bind_run, h1, Dec.unsigned_head w n rest hfit, tryAs, hmax]

theorem decVal_bytes_head (w : Width) (b rest : Bytes) (hfit : w.fits b.length = true) :
    decVal (headW 2 w b.length ++ b ++ rest) = .ok (.b b) rest := by
  have hai := Width.ai_le w b.length hfit
  have hlt := Width.fits_lt w b.length hfit
  have hb1 : 0x40 ≤ (u8 (2 * 32 + w.ai b.length)).toNat := by simp; omega
  have hb2 : (u8 (2 * 32 + w.ai b.length)).toNat ≤ 0x5b := by simp; omega
  have hdt : Dec.datatype (headW 2 w b.length ++ b ++ rest) = .ok .bytes (headW 2 w b.length ++ b ++ rest) := by
    unfold Dec.datatype
    rw [Dec.bind_run]
    simp only [headW, List.cons_append, Dec.current_cons]
    exact typeOf_bytes _ _ hb1 hb2
  rw [decVal_bytes_ty _ hdt]
  have hu := Dec.unsigned_head w b.length (b ++ rest) hfit
  have h1 : (64 + w.ai b.length) % 256 / 32 * 32 = 64 := by omega
  have h2 : (64 + w.ai b.length) % 256 % 32 = w.ai b.length := by omega
  have h31 : u8 (w.ai b.length) ≠ 31 := by
    intro h; have := congrArg UInt8.toNat h; simp at this; omega
  have hlt' : b.length < 18446744073709551616 := by simpa using hlt
  simp [Dec.bytes, headW, Dec.bind_run, majorOf, infoOf, h1, h2, h31, hu, u64ToUsize, hlt', Dec.readSlice_append]

theorem NoPanic.datatype : NoPanic Dec.datatype := by
  unfold Dec.datatype
  have := NoPanic.typeOf
  nopanic

theorem NoPanic.u64ToUsize (n : Nat) : NoPanic (Dec.u64ToUsize n) := by
  unfold Dec.u64ToUsize; nopanic

theorem NoPanic.bytes : NoPanic Dec.bytes := by
  unfold Dec.bytes
  have h1 := NoPanic.unsigned
  have h2 := NoPanic.u64ToUsize
  have h3 := @NoPanic.typeMismatch Bytes
  repeat' (first
      | exact NoPanic.pure _ | exact NoPanic.read | exact h1 _ | exact h2 _ | exact h3 _ | exact NoPanic.readSlice _
      | apply NoPanic.ite | apply NoPanic.bind | intro _)

/-- the payload decoder of the scenarios never panics (so the `panic` arm of `valCodec.dec` is dead). -/
theorem decVal_noPanic : NoPanic decVal := by
  unfold decVal
  apply NoPanic.bind NoPanic.datatype
  intro t
  have hi : NoPanic (Dec.intAcc .u64 >>= fun n => (pure (.u n.toNat) : Dec Val)) :=
    NoPanic.bind (NoPanic.intAcc _) (fun _ => NoPanic.pure _)
  have hb : NoPanic (Dec.bytes >>= fun b => (pure (.b b) : Dec Val)) :=
    NoPanic.bind NoPanic.bytes (fun _ => NoPanic.pure _)
  cases t <;> first | exact hi | exact hb | exact NoPanic.fail _

end ValCodec

/-- **The codec the driver and the harness run satisfies the round-trip hypothesis** of
    `reader_roundtrip` on every value of the Rust type (`u64`, `Vec<u8>`). -/
theorem valCodec_roundtrip (v : Val) (p : Bytes) (hwf : Val.Wf v) (h : valCodec.enc v = .ok p) :
    valCodec.dec p = .ok v := by
  cases v with
  | u n =>
    simp only [valCodec] at h
    injection h with h; subst h
    have := decVal_uint_head (prefWidth n) n [] (prefWidth_fits n hwf)
    rw [List.append_nil, ← u64_headW n hwf] at this
    simp [valCodec, this]
  | b bs =>
    simp only [valCodec] at h
    injection h with h; subst h
    have := decVal_bytes_head (prefWidth bs.length) bs [] (prefWidth_fits _ hwf)
    rw [List.append_nil, ← typeLen_headW _ hwf] at this
    simp [valCodec, Enc.bytes, this]
  | x part => simp [valCodec] at h
  | e => exact hwf.elim
  | t n => exact hwf.elim

/-- A frame may hold more than its value's decoder consumes (`minicbor::decode` ignores what follows the item): the payload written for
    `t n` — the number and one more item — is read back as the number. -/
theorem valCodec_padded (n : Nat) (h : n < 18446744073709551616) (p : Bytes) (he : valCodec.enc (.t n) = .ok p) :
    valCodec.dec p = .ok (.u n) := by
  simp only [valCodec] at he
  injection he with he; subst he
  have := decVal_uint_head (prefWidth n) n [0x00] (prefWidth_fits n h)
  rw [← u64_headW n h] at this
  simp [valCodec, this]

example : valCodec.enc (.t 300) = .ok [0x19, 0x01, 0x2c, 0x00] ∧ valCodec.dec [0x19, 0x01, 0x2c, 0x00] = .ok (.u 300) := by
  constructor <;> rfl

/-- non-vacuity: a two-frame stream, delivered one byte at a time with interruptions, read
    with `max_len` exactly the larger payload. -/
example :
    (Reader.readN valCodec 3 ⟨⟨frames [Enc.u64 300, Enc.bytes [1, 2]],
        [.io 1, .intr, .io 1, .io 1, .intr, .intr, .io 1, .io 1, .io 2, .io 9, .io 3, .io 1, .io 1, .io 1]⟩, [], 3⟩).1
      = [.ok (some (.u 300)), .ok (some (.b [1, 2])), .ok none] := by rfl

end Minicbor.C14
