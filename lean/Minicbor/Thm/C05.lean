/-
  C05 — Integer decoding is value-preserving across widths; it never wraps or truncates.
  Property theorems only.
-/
import Minicbor.Lemmas.Head
import Minicbor.Lemmas.NoPanic
import Minicbor.IntConv

namespace Minicbor.C05
open Dec

/-- the mathematical value of a CBOR integer head: major type 0 → `n`, major type 1 → `-1 - n`. -/
def intVal (neg : Bool) (n : Nat) : Int := if neg then -1 - (n : Int) else n

/-- the bytes of an integer head (any width). -/
def intHead (neg : Bool) (w : Width) (n : Nat) : Bytes := headW (if neg then 1 else 0) w n

/-- the value is representable in the requested type. -/
@[reducible] def Representable (t : IntTy) (v : Int) : Prop := t.lo ≤ v ∧ v ≤ t.hi

theorem representable_iff (t : IntTy) (neg : Bool) (n : Nat) :
    Representable t (intVal neg n) ↔ ((neg = true → t.neg = true) ∧ n ≤ t.max) := by
  unfold Representable intVal IntTy.lo IntTy.hi
  cases neg <;> cases hn : t.neg <;> simp <;> omega

theorem int_accessor_ok (t : IntTy) (w : Width) (neg : Bool) (n : Nat) (rest : Bytes)
    (hfit : w.fits n = true) (hneg : neg = true → t.neg = true) (hmax : n ≤ t.max) :
    intAcc t (intHead neg w n ++ rest) = .ok (intVal neg n) rest := by
  have hai := Width.ai_le w n hfit
  cases neg
  · have h1 : w.ai n % 256 ≤ 27 := by omega
    simp [intAcc, intHead, headW, intVal, Dec.bind_run, h1, Dec.unsigned_head w n rest hfit, tryAs, hmax]
  · have hn : t.neg = true := hneg rfl
    have h1 : ¬ (32 + w.ai n) % 256 ≤ 27 := by omega
    have h2 : 32 ≤ (32 + w.ai n) % 256 := by omega
    have h3 : (32 + w.ai n) % 256 ≤ 59 := by omega
    have h4 : (32 + w.ai n) % 256 - 32 = w.ai n := by omega
    simp [intAcc, intHead, headW, intVal, Dec.bind_run, h1, h2, h3, h4, hn,
      Dec.unsigned_head w n rest hfit, tryAs, hmax]

theorem int_accessor_overflow (t : IntTy) (w : Width) (neg : Bool) (n : Nat) (rest : Bytes)
    (hfit : w.fits n = true) (hneg : neg = true → t.neg = true) (hmax : t.max < n) :
    intAcc t (intHead neg w n ++ rest) = .err .overflow rest := by
  have hai := Width.ai_le w n hfit
  have hm : ¬ n ≤ t.max := by omega
  cases neg
  · have h1 : w.ai n % 256 ≤ 27 := by omega
    simp [intAcc, intHead, headW, Dec.bind_run, h1, Dec.unsigned_head w n rest hfit, tryAs, hm]
  · have hn : t.neg = true := hneg rfl
    have h1 : ¬ (32 + w.ai n) % 256 ≤ 27 := by omega
    have h2 : 32 ≤ (32 + w.ai n) % 256 := by omega
    have h3 : (32 + w.ai n) % 256 ≤ 59 := by omega
    have h4 : (32 + w.ai n) % 256 - 32 = w.ai n := by omega
    simp [intAcc, intHead, headW, Dec.bind_run, h1, h2, h3, h4, hn,
      Dec.unsigned_head w n rest hfit, tryAs, hm]

/-- `type_mismatch` never yields a value. -/
theorem typeMismatch_err (b : UInt8) (bs : Bytes) :
    ∃ e r, (typeMismatch b : Dec Int) bs = .err e r := by
  have hp := NoPanic.typeMismatch (α := Int) b bs
  unfold typeMismatch at *
  rw [Dec.bind_run] at *
  cases h : typeOf b bs with
  | ok a r => exact ⟨_, _, rfl⟩
  | err e r => exact ⟨_, _, rfl⟩
  | panic => rw [h] at hp; exact absurd rfl hp

theorem int_accessor_neg_rejected (t : IntTy) (w : Width) (n : Nat) (rest : Bytes)
    (hfit : w.fits n = true) (hneg : t.neg = false) :
    ∃ e r, intAcc t (intHead true w n ++ rest) = .err e r := by
  have hai := Width.ai_le w n hfit
  have h1 : ¬ (32 + w.ai n) % 256 ≤ 27 := by omega
  simp [intAcc, intHead, headW, Dec.bind_run, h1, hneg]
  exact typeMismatch_err _ _

/-- **C05, main statement.**  Decoding an integer head of either sign, at any width, with any
    of the integer accessors returns the mathematically equal value (and stops exactly after
    the head) if and only if that value is representable in the requested type; otherwise it
    returns an error. -/
theorem int_accessor_exact (t : IntTy) (w : Width) (neg : Bool) (n : Nat) (rest : Bytes)
    (hfit : w.fits n = true) :
    (Representable t (intVal neg n) →
        intAcc t (intHead neg w n ++ rest) = .ok (intVal neg n) rest) ∧
    (¬ Representable t (intVal neg n) →
        ∃ e r, intAcc t (intHead neg w n ++ rest) = .err e r) := by
  rw [representable_iff]
  constructor
  · intro ⟨h1, h2⟩; exact int_accessor_ok t w neg n rest hfit h1 h2
  · intro h
    by_cases hneg : neg = true → t.neg = true
    · have : t.max < n := by
        by_cases hm : n ≤ t.max
        · exact absurd ⟨hneg, hm⟩ h
        · omega
      exact ⟨_, _, int_accessor_overflow t w neg n rest hfit hneg this⟩
    · have hn : neg = true := by cases neg <;> simp_all
      have ht : t.neg = false := by cases h' : t.neg <;> simp_all
      subst hn
      exact int_accessor_neg_rejected t w n rest hfit ht

/-- the ranges of the nine accessors are the ranges of the Rust types. -/
theorem ranges :
    (IntTy.u8.lo, IntTy.u8.hi) = (0, 2^8 - 1) ∧ (IntTy.u16.lo, IntTy.u16.hi) = (0, 2^16 - 1) ∧
    (IntTy.u32.lo, IntTy.u32.hi) = (0, 2^32 - 1) ∧ (IntTy.u64.lo, IntTy.u64.hi) = (0, 2^64 - 1) ∧
    (IntTy.i8.lo, IntTy.i8.hi) = (-2^7, 2^7 - 1) ∧ (IntTy.i16.lo, IntTy.i16.hi) = (-2^15, 2^15 - 1) ∧
    (IntTy.i32.lo, IntTy.i32.hi) = (-2^31, 2^31 - 1) ∧ (IntTy.i64.lo, IntTy.i64.hi) = (-2^63, 2^63 - 1) ∧
    (IntTy.int.lo, IntTy.int.hi) = (-2^64, 2^64 - 1) := by decide

/-- non-vacuity: -2^63 encoded at width 8 is an `i64` but not an `i32`. -/
example : Representable .i64 (intVal true 9223372036854775807) ∧
    ¬ Representable .i32 (intVal true 9223372036854775807) := by decide


/-! ### `Int` and its conversions -/

/-- `Int` covers exactly `[-2^64, 2^64 - 1]`: every well-formed `Int` denotes a value in the
    range, and every value in the range is denoted by exactly the `Int` that `TryFrom<i128>` builds. -/
theorem int_range (c : CInt) (h : c.wf) :
    -18446744073709551616 ≤ c.denote ∧ c.denote ≤ 18446744073709551615 := by
  unfold CInt.denote CInt.wf at *; cases c.neg <;> simp <;> omega

theorem int_of_i128_exact (i : Int) :
    (∀ c, CInt.ofI128 i = some c → c.denote = i ∧ c.wf) ∧
    (CInt.ofI128 i = none ↔ (i < -18446744073709551616 ∨ 18446744073709551615 < i)) := by
  unfold CInt.ofI128
  constructor
  · intro c hc
    split at hc
    · split at hc
      · cases hc
      · cases hc; simp [CInt.denote, CInt.wf]; omega
    · split at hc
      · cases hc
      · cases hc; simp [CInt.denote, CInt.wf]; omega
  · (repeat' split) <;> simp <;> omega

theorem int_of_u128_exact (n : Nat) :
    (∀ c, CInt.ofU128 n = some c → c.denote = n ∧ c.wf) ∧ (CInt.ofU128 n = none ↔ 18446744073709551615 < n) := by
  unfold CInt.ofU128 CInt.ofU64
  constructor
  · intro c hc; split at hc
    · cases hc; simp [CInt.denote, CInt.wf]; omega
    · cases hc
  · split <;> simp <;> omega

theorem int_of_i64_exact (i : Int) (h : -9223372036854775808 ≤ i ∧ i ≤ 9223372036854775807) :
    (CInt.ofI64 i).denote = i ∧ (CInt.ofI64 i).wf := by
  unfold CInt.ofI64; split <;> simp [CInt.denote, CInt.wf] <;> omega

theorem int_of_u64_exact (n : Nat) (h : n ≤ 18446744073709551615) :
    (CInt.ofU64 n).denote = n ∧ (CInt.ofU64 n).wf := by
  simp [CInt.ofU64, CInt.denote, CInt.wf]; omega

/-- every elimination is exact or fails: it returns `v` iff `v` is the denoted value and lies
    in the target type's range. -/
theorem int_to_unsigned_exact (max : Nat) (c : CInt) (v : Nat) :
    CInt.toUnsigned max c = some v ↔ (c.denote = v ∧ v ≤ max) := by
  unfold CInt.toUnsigned CInt.toU64 CInt.denote
  cases c.neg
  · by_cases h : c.val ≤ max <;> simp [h] <;> omega
  · simp; omega

theorem int_to_u64_exact (c : CInt) (v : Nat) : CInt.toU64 c = some v ↔ c.denote = v := by
  unfold CInt.toU64 CInt.denote; cases c.neg <;> simp <;> omega

theorem int_to_u128_exact (c : CInt) (v : Nat) : CInt.toU128 c = some v ↔ c.denote = v := by
  unfold CInt.toU128 CInt.denote; cases c.neg <;> simp <;> omega

theorem int_to_i64_exact (c : CInt) (v : Int) :
    CInt.toI64 c = some v ↔ (c.denote = v ∧ -9223372036854775808 ≤ v ∧ v ≤ 9223372036854775807) := by
  unfold CInt.toI64 CInt.denote
  cases c.neg <;> by_cases h : c.val ≤ 9223372036854775807 <;> simp [h] <;> omega

theorem int_to_signed_exact (lo hi : Int) (c : CInt) (v : Int)
    (hlo : -9223372036854775808 ≤ lo) (hhi : hi ≤ 9223372036854775807) :
    CInt.toSigned lo hi c = some v ↔ (c.denote = v ∧ lo ≤ v ∧ v ≤ hi) := by
  unfold CInt.toSigned
  cases h : CInt.toI64 c with
  | none =>
    constructor
    · intro e; cases e
    · intro ⟨h1, h2, h3⟩
      have := (int_to_i64_exact c v).mpr ⟨h1, by omega, by omega⟩
      rw [h] at this; cases this
  | some n =>
    have hn := (int_to_i64_exact c n).mp h
    simp only []
    split
    · simp; constructor
      · intro e; subst e; exact ⟨hn.1, by omega, by omega⟩
      · intro ⟨h1, _, _⟩; omega
    · simp; intro h1; omega

theorem int_to_i128_exact (c : CInt) : CInt.toI128 c = c.denote := rfl

end Minicbor.C05
