/-
  C06 — `skip()` consumes exactly one data item, whatever its nesting.
  Property theorems only; all are proved at full strength (no partial fallback).

  Proof architecture (Lemmas/Skip*.lean):
  * SkipLocal   arbitrary bytes: `Consumes`, no-panic of every accessor, fuel adequacy, `*n -= 1` never underflows
  * SkipTok     what one loop iteration consumes for every kind of head of a valid tree (`arm_*`, state independent)
  * SkipRefine  weights of a concrete state (`segs`), the true weight machine, the relation `Rel` (same number of
                segments, `≤` pointwise, `=` at the bottom), its preservation by every token kind in counting mode,
                in stack mode and across the mode switch; related states stop together
  * SkipExact   mutual structural induction over `WItem` / `List WItem`: every valid item takes `a :: r` to
                `(a - 1) :: r` consuming exactly its bytes within the fuel; `Dec.skip_encW`
  * SkipExt     a successful run never looks past what it consumed (⇒ error on strict prefixes)
  * SkipView    token view on arbitrary bytes: `skipArm = armTok >>= applyTok`
  * SkipNoAlloc lockstep of the two builds on arbitrary bytes; exactness of the no-alloc build by pure counting
  * SkipMem     small-step semantics `Reach` and the memory bound
  * SkipParse   the reference parser of Parse.lean is sound and complete for Wire.lean's valid trees
-/
import Minicbor.Lemmas.SkipLocal
import Minicbor.Lemmas.SkipExact
import Minicbor.Lemmas.SkipExt
import Minicbor.Lemmas.SkipNoAlloc
import Minicbor.Lemmas.SkipMem
import Minicbor.Lemmas.SkipParse

namespace Minicbor.C06
open Dec

/-- the encoding fits in a Rust slice (`len ≤ isize::MAX < 2^64`).  Needed because the model's
    byte lists are unbounded while `nrounds`/`irounds` are saturating `u64` counters: a valid
    tree whose encoding exceeds `2^64` bytes could make `saturating_add` clip. -/
abbrev FitsSlice (w : WItem) : Prop := (encW w).length < 2 ^ 64

/-- **C06, main statement** (alloc build).  For every well-formed item — arbitrarily nested
    definite and indefinite arrays and maps, chunked strings, tag chains — followed by
    arbitrary bytes, `skip` succeeds and stops exactly at the first byte after the item. -/
theorem skip_exact (w : WItem) (rest : Bytes) (hv : w.Valid) (hfit : FitsSlice w) :
    Dec.skip true (encW w ++ rest) = .ok () rest :=
  Dec.skip_encW w rest hv (by unfold FitsSlice at hfit; unfold U64MAX; omega)

/-- `Decoder::skip` (alloc and no-alloc build) never panics on ARBITRARY bytes: the
    `*n -= 1` in the stack bookkeeping never meets a `Some(0)`, no other operation can
    panic, and the local fuel of the model's loop (`remaining + 2`) is never exhausted
    (every iteration consumes at least one byte). -/
theorem skip_no_panic (alloc : Bool) (bs : Bytes) : Dec.skip alloc bs ≠ .panic :=
  Dec.skip_ne_panic alloc bs

/-- a successful `skip` does not look beyond the bytes it consumed (arbitrary bytes). -/
theorem skip_ext (alloc : Bool) (bs r q : Bytes) (h : Dec.skip alloc bs = .ok () r) :
    Dec.skip alloc (bs ++ q) = .ok () (r ++ q) :=
  Dec.Ext.skip alloc bs () r q h

/-- on every strict prefix of a well-formed item `skip` returns an error (it never stops early
    and never panics). -/
theorem skip_prefix_err (w : WItem) (p q : Bytes) (hv : w.Valid) (hfit : FitsSlice w)
    (hp : encW w = p ++ q) (hq : q ≠ []) : ∃ e r, Dec.skip true p = .err e r := by
  cases h : Dec.skip true p with
  | ok u r =>
    have h1 := skip_ext true p r q h
    have h2 := skip_exact w [] hv hfit
    rw [List.append_nil, hp, h1] at h2
    have h3 : r ++ q = [] := by injection h2
    simp at h3
    exact absurd h3.2 hq
  | err e r => exact ⟨e, r, rfl⟩
  | panic => exact absurd h (skip_no_panic true p)

/-- the same, phrased with `List.IsPrefix`. -/
theorem skip_prefix_err' (w : WItem) (p : Bytes) (hv : w.Valid) (hfit : FitsSlice w)
    (hp : p <+: encW w) (hne : p ≠ encW w) : ∃ e r, Dec.skip true p = .err e r := by
  obtain ⟨q, hq⟩ := hp
  refine skip_prefix_err w p q hv hfit hq.symm ?_
  intro e; subst e; simp at hq; exact hne hq

/-- an indefinite-length array or map occurs somewhere inside a definite-length array or map
    (the nesting the no-alloc build documents as unsupported). -/
abbrev HasIndefInsideDef (w : WItem) : Prop := w.indefInDef = true

/-- **lockstep of the two builds on ARBITRARY bytes**: the no-alloc `skip` either computes
    exactly what the alloc `skip` computes (same result, same position) or returns the
    documented `message` error. -/
theorem noalloc_lockstep (bs : Bytes) :
    Dec.skip false bs = Dec.skip true bs ∨ ∃ r, Dec.skip false bs = .err .message r :=
  Dec.skip_lock bs

/-- whenever the no-alloc `skip` returns `ok`, so does the alloc `skip`, at the same position
    (arbitrary bytes, not only valid items): never a wrong position. -/
theorem noalloc_refines (bs r : Bytes) (h : Dec.skip false bs = .ok () r) :
    Dec.skip true bs = .ok () r := by
  rcases noalloc_lockstep bs with he | ⟨r', he⟩
  · rw [← he]; exact h
  · rw [he] at h; cases h

/-- the no-alloc build is exact on every well-formed item that does not nest an indefinite
    array/map inside a definite one. -/
theorem noalloc_exact (w : WItem) (rest : Bytes) (hv : w.Valid) (hfit : FitsSlice w)
    (hs : ¬ HasIndefInsideDef w) : Dec.skip false (encW w ++ rest) = .ok () rest :=
  Dec.skip_noalloc_encW w rest hv (by simpa [HasIndefInsideDef] using hs)
    (by unfold FitsSlice at hfit; unfold U64MAX; omega)

/-- **no-alloc build**: on a well-formed item followed by arbitrary bytes it returns either
    the exact position, or the documented unsupported-nesting error — and the latter only if
    the tree really has an indefinite array/map inside a definite one. -/
theorem noalloc_exact_or_unsupported (w : WItem) (rest : Bytes) (hv : w.Valid) (hfit : FitsSlice w) :
    Dec.skip false (encW w ++ rest) = .ok () rest ∨
    ((∃ r, Dec.skip false (encW w ++ rest) = .err .message r) ∧ HasIndefInsideDef w) := by
  by_cases hs : HasIndefInsideDef w
  · rcases noalloc_lockstep (encW w ++ rest) with he | he
    · left; rw [he]; exact skip_exact w rest hv hfit
    · right; exact ⟨he, hs⟩
  · left; exact noalloc_exact w rest hv hfit hs

/-- on a strict prefix the no-alloc build never returns `ok` either. -/
theorem noalloc_prefix_err (w : WItem) (p q : Bytes) (hv : w.Valid) (hfit : FitsSlice w)
    (hp : encW w = p ++ q) (hq : q ≠ []) : ∃ e r, Dec.skip false p = .err e r := by
  cases h : Dec.skip false p with
  | ok u r =>
    obtain ⟨e, r', he⟩ := skip_prefix_err w p q hv hfit hp hq
    rw [noalloc_refines p r h] at he; cases he
  | err e r => exact ⟨e, r, rfl⟩
  | panic => exact absurd h (skip_no_panic false p)

/-- fuel adequacy (termination / proportional work): the skip loop started with more fuel than
    remaining bytes never runs dry, because every iteration consumes at least one byte. -/
theorem skip_fuel_adequate (alloc : Bool) (fuel : Nat) (s : SkipSt) (bs : Bytes)
    (h : bs.length < fuel) : Dec.skipLoop alloc fuel s bs ≠ .panic :=
  Dec.skipLoop_ne_panic alloc fuel s bs h

/-- memory bound on ARBITRARY bytes (for C02): at every head of the `while` loop
    (`Reach` = small-step semantics of the loop of `skip` started on `bs0`) the number of
    stack frames plus `irounds` is at most the number of bytes consumed so far. -/
theorem skip_stack_le_consumed (alloc : Bool) (bs0 : Bytes) (s : SkipSt) (bs : Bytes)
    (h : Reach alloc bs0 s bs) : s.stack.length + s.ir + bs.length ≤ bs0.length :=
  reach_stack_le_consumed alloc bs0 s bs h

/-! ### agreement with full decoding (the reference parser of `Parse.lean`) -/

/-- the reference parser reads back every valid tree followed by anything … -/
theorem parse_encW (w : WItem) (rest : Bytes) (hv : w.Valid) : parse (encW w ++ rest) = some (w, rest) :=
  Minicbor.parse_encW w rest hv

/-- … and accepts nothing else: "well-formed" = image of `encW` on valid trees = accepted by `parse`. -/
theorem parse_sound (bs : Bytes) (w : WItem) (r : Bytes) (h : parse bs = some (w, r)) :
    w.Valid ∧ bs = encW w ++ r :=
  Minicbor.parse_sound bs w r h

theorem wellformed_iff (bs : Bytes) :
    (∃ w : WItem, w.Valid ∧ bs = encW w) ↔ (∃ w, parse bs = some (w, [])) :=
  Minicbor.wellformed_iff bs

/-- **`skip` agrees with full decoding of the same item**: if the input (a slice) starts with a
    well-formed item, `skip` succeeds and stops exactly where the reference decoder stops. -/
theorem skip_agrees_parse (bs : Bytes) (w : WItem) (r : Bytes) (h : parse bs = some (w, r))
    (hlen : bs.length < 2 ^ 64) : Dec.skip true bs = .ok () r :=
  Dec.skip_agrees_parse bs w r h (by unfold U64MAX; omega)

/-- conversely, on a well-formed prefix a successful `skip` can only end where the parser ends. -/
theorem skip_ok_ends_at_parse (bs : Bytes) (w : WItem) (r r' : Bytes) (h : parse bs = some (w, r))
    (hlen : bs.length < 2 ^ 64) (hs : Dec.skip true bs = .ok () r') : r' = r := by
  rw [skip_agrees_parse bs w r h hlen] at hs
  injection hs with _ h2; exact h2.symm

/-! ### non-vacuity -/

/-- `[_ 1, [2, {_ 3: h'' }]], 4` nested: an indefinite array and an indefinite map inside definite arrays. -/
def sample : WItem :=
  .array .w0 [.arrayI [.uint .w0 1, .array .w1 [.uint .w0 2, .mapI [.uint .w0 3, .bytesI [(.w0, [1, 2])]]]],
              .tag .w0 1 (.uint .w0 4)]

example : sample.Valid ∧ FitsSlice sample ∧ HasIndefInsideDef sample := by
  refine ⟨by decide, by decide, by decide⟩

/-- the alloc build skips it exactly; the no-alloc build refuses it. -/
example : Dec.skip true (encW sample ++ [0xff, 0x00]) = .ok () [0xff, 0x00] :=
  skip_exact sample _ (by decide) (by decide)

example : ∃ r, Dec.skip false (encW sample) = .err .message r := ⟨(encW sample).drop 2, rfl⟩

/-- a supported nesting for the no-alloc build: an indefinite array as the last pending item. -/
def sample2 : WItem := .arrayI [.array .w0 [.uint .w0 1, .textI [(.w0, [0x61])]], .mapI []]

example : sample2.Valid ∧ FitsSlice sample2 ∧ ¬ HasIndefInsideDef sample2 := by
  refine ⟨by decide, by decide, by decide⟩

end Minicbor.C06
