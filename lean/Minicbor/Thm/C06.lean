/-
  C06 — `skip()` consumes exactly one data item, whatever its nesting.
  Property theorems only (work in progress: further theorems are appended as they are proved).
-/
import Minicbor.Lemmas.SkipLocal

namespace Minicbor.C06
open Dec

/-- `Decoder::skip` (alloc and no-alloc build) never panics on ARBITRARY bytes: the
    `*n -= 1` in the stack bookkeeping never meets a `Some(0)`, no other operation can
    panic, and the local fuel of the model's loop (`remaining + 2`) is never exhausted
    (every iteration consumes at least one byte). -/
theorem skip_no_panic (alloc : Bool) (bs : Bytes) : Dec.skip alloc bs ≠ .panic :=
  Dec.skip_ne_panic alloc bs

end Minicbor.C06
