/-
  C06 — `skip()` consumes exactly one data item, whatever its nesting.
  Property theorems only (work in progress: further theorems are appended as they are proved).
-/
import Minicbor.Lemmas.SkipLocal
import Minicbor.Lemmas.SkipExact
import Minicbor.Lemmas.SkipExt

namespace Minicbor.C06
open Dec

/-- the encoding fits in a Rust slice (`len ≤ isize::MAX < 2^64`).  Needed because the model's
    byte lists are unbounded while `nrounds`/`irounds` are saturating `u64` counters: a valid
    tree whose encoding exceeds `2^64` bytes could make `saturating_add` clip. -/
abbrev FitsSlice (w : WItem) : Prop := (encW w).length < 2 ^ 64

/-- **C06, main statement** (alloc build).  For every well-formed item — arbitrarily nested
    definite and indefinite arrays and maps, chunked strings, tag chains — followed by
    arbitrary bytes, `skip` succeeds and stops exactly at the first byte after the item. -/
theorem skip_exact (w : WItem) (rest : Bytes) (hv : w.Valid) (hfit : FitsSlice w) :
    Dec.skip true (encW w ++ rest) = .ok () rest :=
  Dec.skip_encW w rest hv (by unfold FitsSlice at hfit; unfold U64MAX; omega)

/-- `Decoder::skip` (alloc and no-alloc build) never panics on ARBITRARY bytes: the
    `*n -= 1` in the stack bookkeeping never meets a `Some(0)`, no other operation can
    panic, and the local fuel of the model's loop (`remaining + 2`) is never exhausted
    (every iteration consumes at least one byte). -/
theorem skip_no_panic (alloc : Bool) (bs : Bytes) : Dec.skip alloc bs ≠ .panic :=
  Dec.skip_ne_panic alloc bs

/-- a successful `skip` does not look beyond the bytes it consumed (arbitrary bytes). -/
theorem skip_ext (alloc : Bool) (bs r q : Bytes) (h : Dec.skip alloc bs = .ok () r) :
    Dec.skip alloc (bs ++ q) = .ok () (r ++ q) :=
  Dec.Ext.skip alloc bs () r q h

/-- on every strict prefix of a well-formed item `skip` returns an error (it never stops early
    and never panics). -/
theorem skip_prefix_err (w : WItem) (p q : Bytes) (hv : w.Valid) (hfit : FitsSlice w)
    (hp : encW w = p ++ q) (hq : q ≠ []) : ∃ e r, Dec.skip true p = .err e r := by
  cases h : Dec.skip true p with
  | ok u r =>
    have h1 := skip_ext true p r q h
    have h2 := skip_exact w [] hv hfit
    rw [List.append_nil, hp, h1] at h2
    have h3 : r ++ q = [] := by injection h2
    simp at h3
    exact absurd h3.2 hq
  | err e r => exact ⟨e, r, rfl⟩
  | panic => exact absurd h (skip_no_panic true p)

/-- the same, phrased with `List.IsPrefix`. -/
theorem skip_prefix_err' (w : WItem) (p : Bytes) (hv : w.Valid) (hfit : FitsSlice w)
    (hp : p <+: encW w) (hne : p ≠ encW w) : ∃ e r, Dec.skip true p = .err e r := by
  obtain ⟨q, hq⟩ := hp
  refine skip_prefix_err w p q hv hfit hq.symm ?_
  intro e; subst e; simp at hq; exact hne hq

end Minicbor.C06
