/-
  C16 — AsyncWriter delivers whole frames in order under short writes and cancel+sync.
  Property theorems only.  Model: `Minicbor/Frame.lean` (`syncLoop`, `AWCore.begin`,
  `WSys.run`); the sync-loop specification (`syncLoop_spec`, induction over sink scripts of
  arbitrary length and content) is in `Lemmas/AsyncWrite.lean`.

  A schedule = the sink script (`List Ev`: accept up to k bytes / Pending / transient error /
  accept 0, one event per `poll_write`) and the caller's acts (`List (WAct α)`: call `write v`
  or `sync` and poll the new future once, poll the pending future again, drop it).  The
  property's precondition — after a dropped (or failed) write the caller drives `sync` to
  completion before the next `write` — is `Disciplined`, defined on what the caller can see.
-/
import Minicbor.Lemmas.AsyncWrite

namespace Minicbor.C16
open Minicbor.Frame

/-- **Dropping a pending `write` / `sync` future is the identity on the writer** and is not
    observable (the futures hold nothing but the `&mut self` borrow). -/
theorem drop_is_identity (c : Codec α) (s : WSys) :
    (s.act c .drop).1.wr = s.wr ∧ (s.act c .drop).2 = none := ⟨rfl, rfl⟩

/-! ## the caller's discipline -/

/-- what the caller knows after an act: is a frame possibly still in flight?  Set by a
    `Pending` answer or an I/O error, cleared by `Ok` from `write` or `sync`; an encode /
    length error and a drop change nothing. -/
def dirtyAfter (dirty : Bool) : Option (Poll WRet) → Bool
  | some .pending => true
  | some (.ready (.wrote (.ok _))) => false
  | some (.ready (.synced (.ok _))) => false
  | some (.ready (.wrote (.error (.io _)))) => true
  | some (.ready (.synced (.error (.io _)))) => true
  | _ => dirty

/-- **The property's precondition**: `write` is only called when nothing is in flight, i.e.
    the previous `write` / `sync` call completed with `Ok` (a write future that was dropped, or
    that failed with an I/O error, is followed by a `sync` that returns `Ok`). -/
def Disciplined (c : Codec α) : Bool → List (WAct α) → WSys → Prop
  | _, [], _ => True
  | dirty, a :: as, s =>
    (match a with | .write _ => dirty = false | _ => True) ∧
    Disciplined c (dirtyAfter dirty (s.act c a).2) as (s.act c a).1

/-- the discipline is decidable (it is defined on the transcript). -/
instance Disciplined.dec (c : Codec α) : ∀ (dirty : Bool) (acts : List (WAct α)) (s : WSys),
    Decidable (Disciplined c dirty acts s)
  | _, [], _ => isTrue trivial
  | dirty, a :: as, s =>
    have : Decidable (match a with | .write _ => dirty = false | _ => True) := by
      cases a <;> simp only <;> infer_instance
    have := Disciplined.dec c (dirtyAfter dirty (s.act c a).2) as (s.act c a).1
    inferInstanceAs (Decidable (_ ∧ _))

/-- the payloads of the values whose `write` got past encoding and the `max_len` check, in
    call order: exactly these must reach the sink. -/
def armed (c : Codec α) (ml : Nat) : List (WAct α) → List Bytes
  | [] => []
  | .write v :: as =>
    (match c.enc v with
      | .ok p => if p.length ≤ ml then [p] else []
      | .error _ => []) ++ armed c ml as
  | _ :: as => armed c ml as

theorem armed_cons (c : Codec α) (ml : Nat) (a : WAct α) (as : List (WAct α)) :
    armed c ml (a :: as) = armed c ml [a] ++ armed c ml as := by
  cases a <;> simp [armed]

/-- the invariant: with `A` the armed payloads so far, either nothing is in flight and the sink
    holds exactly `frames A`, or the last armed frame is in flight at offset `o` (strictly
    inside it), the buffer holds that frame unmodified and the sink holds the frames before it
    plus its first `o` bytes. -/
inductive Rep (s : WSys) (ml : Nat) (dirty : Bool) (A : List Bytes) : Prop
  | clean : s.wr.core.state = .none → s.wr.core.maxLen = ml → s.wr.snk.out = frames A → s.fut = none →
      Rep s ml dirty A
  | inFlight (init : List Bytes) (p : Bytes) (o : Nat) : dirty = true → A = init ++ [p] →
      s.wr.core = ⟨.writeFrom o, frame p, ml⟩ → o < (frame p).length →
      s.wr.snk.out = frames init ++ (frame p).take o → Rep s ml dirty A

/-- result of a completed call of kind `f`. -/
def retOf (f : WFut) (r : Except FErr Nat) : WRet :=
  match f with
  | .write => .wrote r
  | .sync => .synced (r.map fun _ => ())

/-- one poll of a future that is inside `sync`, from a state with a frame in flight. -/
theorem pollSync_inFlight (f : WFut) (B : Bytes) (ml o : Nat) (out : Bytes) (sc : List Ev) (ho : o < B.length) :
    (∃ sc', AWriter.pollSync ⟨⟨.writeFrom o, B, ml⟩, ⟨out, sc⟩⟩ f =
        (.ready (retOf f (.ok (B.length - 4))), ⟨⟨.none, B, ml⟩, ⟨out ++ B.drop o, sc'⟩⟩)) ∨
    (∃ o' sc', o ≤ o' ∧ o' < B.length ∧
      ((AWriter.pollSync ⟨⟨.writeFrom o, B, ml⟩, ⟨out, sc⟩⟩ f =
          (.pending, ⟨⟨.writeFrom o', B, ml⟩, ⟨out ++ (B.drop o).take (o' - o), sc'⟩⟩)) ∨
       (∃ k, AWriter.pollSync ⟨⟨.writeFrom o, B, ml⟩, ⟨out, sc⟩⟩ f =
          (.ready (retOf f (.error (.io k))), ⟨⟨.writeFrom o', B, ml⟩, ⟨out ++ (B.drop o).take (o' - o), sc'⟩⟩)))) := by
  rcases syncLoop_spec B ml sc o out ho with ⟨sc', h⟩ | ⟨x, o', sc', h, h1, h2, h3⟩
  · left
    refine ⟨sc', ?_⟩
    simp only [AWriter.pollSync, h]
    cases f <;> rfl
  · right
    refine ⟨o', sc', h1, h2, ?_⟩
    rcases h3 with rfl | ⟨k, rfl⟩
    · left; simp only [AWriter.pollSync, h]
    · right; refine ⟨k, ?_⟩; simp only [AWriter.pollSync, h]; cases f <;> rfl

theorem frames_snoc (A : List Bytes) (p : Bytes) : frames (A ++ [p]) = frames A ++ frame p := by
  rw [frames_append]; simp [frames]

/-- **One act preserves the invariant** (for every sink behaviour), the caller's flag tracks
    it, and a completed `write` reports the payload length of the frame just delivered. -/
theorem act_inv (c : Codec α) (ml : Nat) (s : WSys) (dirty : Bool) (A : List Bytes) (a : WAct α)
    (hr : Rep s ml dirty A) (hd : match a with | .write _ => dirty = false | _ => True) :
    Rep (s.act c a).1 ml (dirtyAfter dirty (s.act c a).2) (A ++ armed c ml [a]) ∧
    (∀ n, (s.act c a).2 = some (.ready (.wrote (.ok n))) →
      ∃ init p, A ++ armed c ml [a] = init ++ [p] ∧ n = p.length) := by
  obtain ⟨⟨core, snk⟩, fut⟩ := s
  -- continuing / starting the sync loop with a frame `p` in flight at offset `o`
  have flight : ∀ (f : WFut) (init : List Bytes) (p : Bytes) (o : Nat) (out : Bytes) (sc : List Ev) (d : Bool),
      o < (frame p).length → out = frames init ++ (frame p).take o →
      Rep (WSys.settleFut f (AWriter.pollSync ⟨⟨.writeFrom o, frame p, ml⟩, ⟨out, sc⟩⟩ f)).1 ml
        (dirtyAfter d (WSys.settleFut f (AWriter.pollSync ⟨⟨.writeFrom o, frame p, ml⟩, ⟨out, sc⟩⟩ f)).2)
        (init ++ [p]) ∧
      (∀ n, (WSys.settleFut f (AWriter.pollSync ⟨⟨.writeFrom o, frame p, ml⟩, ⟨out, sc⟩⟩ f)).2
          = some (.ready (.wrote (.ok n))) → n = p.length) := by
    intro f init p o out sc d ho hout
    rcases pollSync_inFlight f (frame p) ml o out sc ho with ⟨sc', h⟩ | ⟨o', sc', h1, h2, h | ⟨k, h⟩⟩
    · rw [h]
      constructor
      · refine .clean rfl rfl ?_ rfl
        simp only [WSys.settleFut, hout]
        rw [frames_snoc, List.append_assoc, List.take_append_drop]
      · intro n hn
        cases f <;> simp [WSys.settleFut, retOf] at hn
        omega
    · rw [h]
      constructor
      · refine .inFlight init p o' rfl rfl rfl h2 ?_
        simp only [WSys.settleFut, hout]
        rw [List.append_assoc, take_take_drop _ _ _ h1]
      · intro n hn; simp [WSys.settleFut] at hn
    · rw [h]
      constructor
      · refine .inFlight init p o' ?_ rfl rfl h2 ?_
        · cases f <;> rfl
        · simp only [WSys.settleFut, hout]
          rw [List.append_assoc, take_take_drop _ _ _ h1]
      · intro n hn
        cases f <;> simp [WSys.settleFut, retOf] at hn
  cases a with
  | write v =>
    simp only at hd
    subst hd
    cases hr with
    | inFlight init p o hdirty _ _ _ _ => cases hdirty
    | clean hst hml hout hfut =>
      obtain ⟨state, buffer, maxLen⟩ := core
      simp only at hst hml hout hfut
      subst hst; subst hml
      cases hv : c.enc v with
      | error part =>
        simp only [WSys.act, AWriter.startWrite, AWCore.begin, hv, WSys.settleFut, armed, List.append_nil]
        exact ⟨.clean rfl rfl hout rfl, fun n hn => by simp at hn⟩
      | ok p =>
        by_cases hl : p.length > maxLen
        · have : ¬ p.length ≤ maxLen := by omega
          simp only [WSys.act, AWriter.startWrite, AWCore.begin, hv, hl, if_true, WSys.settleFut, armed, this,
            if_false, List.append_nil]
          exact ⟨.clean rfl rfl hout rfl, fun n hn => by simp at hn⟩
        · have hle : p.length ≤ maxLen := by omega
          obtain ⟨snkout, script⟩ := snk
          simp only at hout
          have := flight .write A p 0 snkout script false (by simp; omega) (by simp [hout])
          simp only [WSys.act, AWriter.startWrite, AWCore.begin, hv, hl, if_false, armed, hle, if_true,
            List.append_nil]
          exact ⟨this.1, fun n hn => ⟨A, p, rfl, this.2 n hn⟩⟩
  | sync =>
    simp only [armed, List.append_nil]
    cases hr with
    | clean hst hml hout hfut =>
      obtain ⟨state, buffer, maxLen⟩ := core
      obtain ⟨snkout, script⟩ := snk
      simp only at hst hml hout hfut
      subst hst; subst hml
      simp only [WSys.act, AWriter.pollSync, syncLoop_idle, WSys.settleFut]
      exact ⟨.clean rfl rfl hout rfl, fun n hn => by simp at hn⟩
    | inFlight init p o hdirty hA hcore ho hout =>
      obtain ⟨snkout, script⟩ := snk
      simp only at hcore hout
      subst hcore; subst hA
      have := flight .sync init p o snkout script dirty ho hout
      exact ⟨this.1, fun n hn => ⟨init, p, rfl, this.2 n hn⟩⟩
  | poll =>
    simp only [armed, List.append_nil]
    cases fut with
    | none =>
      simp only [WSys.act, dirtyAfter]
      exact ⟨hr, fun n hn => by simp at hn⟩
    | some f =>
      cases hr with
      | clean _ _ _ hfut => simp at hfut
      | inFlight init p o hdirty hA hcore ho hout =>
        obtain ⟨snkout, script⟩ := snk
        simp only at hcore hout
        subst hcore; subst hA
        have := flight f init p o snkout script dirty ho hout
        exact ⟨this.1, fun n hn => ⟨init, p, rfl, this.2 n hn⟩⟩
  | drop =>
    simp only [armed, List.append_nil, WSys.act, dirtyAfter]
    refine ⟨?_, fun n hn => by simp at hn⟩
    cases hr with
    | clean hst hml hout _ => exact .clean hst hml hout rfl
    | inFlight init p o hdirty hA hcore ho hout => exact .inFlight init p o hdirty hA hcore ho hout

/-- **The run invariant**, by induction over the caller's acts. -/
theorem run_inv (c : Codec α) (ml : Nat) : ∀ (acts : List (WAct α)) (s : WSys) (dirty : Bool) (A : List Bytes),
    Rep s ml dirty A → Disciplined c dirty acts s →
    ∃ dirty', Rep (WSys.run c acts s).2 ml dirty' (A ++ armed c ml acts) := by
  intro acts
  induction acts with
  | nil => intro s dirty A hr _; exact ⟨dirty, by simpa [WSys.run, armed] using hr⟩
  | cons a as ih =>
    intro s dirty A hr hd
    obtain ⟨hd1, hd2⟩ := hd
    obtain ⟨hr', _⟩ := act_inv c ml s dirty A a hr hd1
    obtain ⟨d', h⟩ := ih (s.act c a).1 _ _ hr' hd2
    refine ⟨d', ?_⟩
    rw [armed_cons, ← List.append_assoc]
    simpa [WSys.run] using h

theorem init_rep (ml : Nat) (sc : List Ev) : Rep ⟨AWriter.init ml sc, none⟩ ml false [] :=
  .clean rfl rfl rfl rfl

/-- **The property.**  For every sequence of acts that respects the discipline and every
    sink behaviour (arbitrary non-empty partial acceptance, Pending, transient errors,
    accept-0, in any order): the sink has received exactly the frames of the armed values, in
    order — complete ones, then, if a frame is still in flight, a strict prefix of the last
    one; nothing duplicated, dropped or interleaved. -/
theorem async_writer_bytes (c : Codec α) (ml : Nat) (sc : List Ev) (acts : List (WAct α))
    (hd : Disciplined c false acts ⟨AWriter.init ml sc, none⟩) :
    let s' := (WSys.run c acts ⟨AWriter.init ml sc, none⟩).2
    (s'.wr.core.state = .none ∧ s'.wr.snk.out = frames (armed c ml acts)) ∨
    (∃ init p o, armed c ml acts = init ++ [p] ∧ s'.wr.core.state = .writeFrom o ∧ o < (frame p).length ∧
      s'.wr.core.buffer = frame p ∧ s'.wr.snk.out = frames init ++ (frame p).take o) := by
  obtain ⟨d', h⟩ := run_inv c ml acts _ false [] (init_rep ml sc) hd
  simp only [List.nil_append] at h
  cases h with
  | clean h1 _ h3 _ => exact .inl ⟨h1, h3⟩
  | inFlight init p o _ hA hcore ho hout =>
    exact .inr ⟨init, p, o, hA, by rw [hcore], ho, by rw [hcore], hout⟩

/-- … in particular, whenever the run ends with nothing in flight (the last `write` / `sync`
    returned `Ok`), the sink holds exactly the concatenation of the complete frames. -/
theorem async_writer_clean_end (c : Codec α) (ml : Nat) (sc : List Ev) (acts : List (WAct α))
    (hd : Disciplined c false acts ⟨AWriter.init ml sc, none⟩)
    (hend : (WSys.run c acts ⟨AWriter.init ml sc, none⟩).2.wr.core.state = .none) :
    (WSys.run c acts ⟨AWriter.init ml sc, none⟩).2.wr.snk.out = frames (armed c ml acts) := by
  rcases async_writer_bytes c ml sc acts hd with ⟨_, h⟩ | ⟨_, _, _, _, h, _⟩
  · exact h
  · rw [hend] at h; cases h

/-- the run invariant up to (not including) the last act, and the discipline's condition on it. -/
theorem run_inv_last (c : Codec α) (ml : Nat) (a : WAct α) : ∀ (acts : List (WAct α)) (s : WSys) (dirty : Bool)
    (A : List Bytes), Rep s ml dirty A → Disciplined c dirty (acts ++ [a]) s →
    ∃ d', Rep (WSys.run c acts s).2 ml d' (A ++ armed c ml acts) ∧
      (match a with | .write _ => d' = false | _ => True) := by
  intro acts
  induction acts with
  | nil =>
    intro s dirty A hr hd
    exact ⟨dirty, by simpa [WSys.run, armed] using hr, hd.1⟩
  | cons b bs ih =>
    intro s dirty A hr hd
    obtain ⟨hd1, hd2⟩ := hd
    obtain ⟨hr', _⟩ := act_inv c ml s dirty A b hr hd1
    obtain ⟨d', h1, h2⟩ := ih (s.act c b).1 _ _ hr' hd2
    refine ⟨d', ?_, h2⟩
    rw [armed_cons, ← List.append_assoc]
    simpa [WSys.run] using h1

theorem armed_append (c : Codec α) (ml : Nat) (xs ys : List (WAct α)) :
    armed c ml (xs ++ ys) = armed c ml xs ++ armed c ml ys := by
  induction xs with
  | nil => simp [armed]
  | cons b bs ih => rw [List.cons_append, armed_cons, armed_cons c ml b bs, ih, List.append_assoc]

/-- **Each completed write reports its payload length**: at any point of a disciplined run,
    an act that makes a `write` future complete with `Ok(n)` has `n` = the length of the payload
    of the frame that was just delivered (the last armed one). -/
theorem completed_write_reports_length (c : Codec α) (ml : Nat) (sc : List Ev)
    (acts : List (WAct α)) (a : WAct α) (n : Nat)
    (hd : Disciplined c false (acts ++ [a]) ⟨AWriter.init ml sc, none⟩)
    (hn : ((WSys.run c acts ⟨AWriter.init ml sc, none⟩).2.act c a).2 = some (.ready (.wrote (.ok n)))) :
    ∃ init p, armed c ml (acts ++ [a]) = init ++ [p] ∧ n = p.length := by
  obtain ⟨d', hr, hda⟩ := run_inv_last c ml a acts _ false [] (init_rep ml sc) hd
  simp only [List.nil_append] at hr
  obtain ⟨_, h⟩ := act_inv c ml _ d' _ a hr hda
  obtain ⟨init, p, h1, h2⟩ := h n hn
  exact ⟨init, p, by rw [armed_append, h1], h2⟩

/-! ## the other clauses -/

/-- **`sync` on an idle writer writes nothing** (and asks the sink nothing). -/
theorem sync_idle_noop (w : AWriter) (h : w.core.state = .none) :
    w.pollSync .sync = (.ready (.synced (.ok ())), w) := by
  obtain ⟨⟨state, buffer, maxLen⟩, ⟨out, script⟩⟩ := w
  simp only at h
  subst h
  simp only [AWriter.pollSync, syncLoop_idle]

/-- **A sink that accepts zero bytes produces a write-zero error**; nothing is written and the
    offset is kept … -/
theorem write_zero_error (B : Bytes) (ml o : Nat) (out : Bytes) (sc : List Ev) (f : WFut) (ho : o < B.length) :
    AWriter.pollSync ⟨⟨.writeFrom o, B, ml⟩, ⟨out, .zero :: sc⟩⟩ f =
      (.ready (retOf f (.error (.io .writeZero))), ⟨⟨.writeFrom o, B, ml⟩, ⟨out, sc⟩⟩) ∧
    AWriter.pollSync ⟨⟨.writeFrom o, B, ml⟩, ⟨out, .io 0 :: sc⟩⟩ f =
      (.ready (retOf f (.error (.io .writeZero))), ⟨⟨.writeFrom o, B, ml⟩, ⟨out, sc⟩⟩) := by
  have hlt : ¬ o ≥ B.length := by omega
  constructor
  · have : syncLoop ⟨.writeFrom o, B, ml⟩ out (.zero :: sc) =
        (.ready (.error (.io .writeZero)), ⟨.writeFrom o, B, ml⟩, ⟨out, sc⟩) := by
      rw [syncLoop]; simp only [hlt, if_false]
    simp only [AWriter.pollSync, this]; cases f <;> rfl
  · have : syncLoop ⟨.writeFrom o, B, ml⟩ out (.io 0 :: sc) =
        (.ready (.error (.io .writeZero)), ⟨.writeFrom o, B, ml⟩, ⟨out, sc⟩) := by
      rw [syncLoop]; simp only [hlt, if_false, Nat.zero_min, if_true]
    simp only [AWriter.pollSync, this]; cases f <;> rfl

/-- … so that a later `sync` resumes exactly there: the frame still arrives whole. -/
theorem write_zero_then_sync_resumes (B : Bytes) (ml o : Nat) (out : Bytes) (f : WFut) (ho : o < B.length) :
    AWriter.pollSync (AWriter.pollSync ⟨⟨.writeFrom o, B, ml⟩, ⟨out, [.zero, .io B.length]⟩⟩ f).2 .sync =
      (.ready (.synced (.ok ())), ⟨⟨.none, B, ml⟩, ⟨out ++ B.drop o, []⟩⟩) := by
  rw [(write_zero_error B ml o out [.io B.length] f ho).1]
  have hlt : ¬ o ≥ B.length := by omega
  have hn : ¬ min B.length (B.length - o) = 0 := by omega
  have hm : min B.length (B.length - o) = B.length - o := by omega
  have hne : ¬ B.length - o = 0 := by omega
  have : syncLoop ⟨.writeFrom o, B, ml⟩ out [.io B.length] =
      (.ready (.ok ()), ⟨.none, B, ml⟩, ⟨out ++ B.drop o, []⟩) := by
    rw [syncLoop]; simp only [hlt, if_false, hm, hne]
    rw [syncLoop_done B ml _ _ [] (by omega)]
    rw [List.take_of_length_le (by simp)]
  simp only [AWriter.pollSync, this]

/-- a transient error (`Other`, `Interrupted`) is reported by the poll that met it and leaves
    offset, buffer and sink untouched. -/
theorem transient_error_keeps_offset (B : Bytes) (ml o : Nat) (out : Bytes) (sc : List Ev) (f : WFut)
    (ho : o < B.length) :
    AWriter.pollSync ⟨⟨.writeFrom o, B, ml⟩, ⟨out, .fail :: sc⟩⟩ f =
      (.ready (retOf f (.error (.io .other))), ⟨⟨.writeFrom o, B, ml⟩, ⟨out, sc⟩⟩) ∧
    AWriter.pollSync ⟨⟨.writeFrom o, B, ml⟩, ⟨out, .intr :: sc⟩⟩ f =
      (.ready (retOf f (.error (.io .interrupted))), ⟨⟨.writeFrom o, B, ml⟩, ⟨out, sc⟩⟩) := by
  have hlt : ¬ o ≥ B.length := by omega
  constructor
  · have : syncLoop ⟨.writeFrom o, B, ml⟩ out (.fail :: sc) =
        (.ready (.error (.io .other)), ⟨.writeFrom o, B, ml⟩, ⟨out, sc⟩) := by
      rw [syncLoop]; simp only [hlt, if_false]
    simp only [AWriter.pollSync, this]; cases f <;> rfl
  · have : syncLoop ⟨.writeFrom o, B, ml⟩ out (.intr :: sc) =
        (.ready (.error (.io .interrupted)), ⟨.writeFrom o, B, ml⟩, ⟨out, sc⟩) := by
      rw [syncLoop]; simp only [hlt, if_false]
    simp only [AWriter.pollSync, this]; cases f <;> rfl

/-- **A value that fails to encode or exceeds the maximum length puts no bytes into the sink**:
    the call returns the error in its first poll, the sink (bytes and script) and the write
    state are untouched — whatever state the writer was in. -/
theorem encode_failure_or_too_long_writes_nothing (c : Codec α) (w : AWriter) (v : α) :
    (∀ part, c.enc v = .error part →
      (w.startWrite c v).1 = .ready (.wrote (.error .encode)) ∧ (w.startWrite c v).2.snk = w.snk ∧
      (w.startWrite c v).2.core.state = w.core.state) ∧
    (∀ p, c.enc v = .ok p → p.length > w.core.maxLen →
      (w.startWrite c v).1 = .ready (.wrote (.error .invalidLen)) ∧ (w.startWrite c v).2.snk = w.snk ∧
      (w.startWrite c v).2.core.state = w.core.state) := by
  constructor
  · intro part h; simp [AWriter.startWrite, AWCore.begin, h]
  · intro p h hl; simp [AWriter.startWrite, AWCore.begin, h, hl]

/-- the offset stays strictly inside the buffer while a frame is in flight (the slice
    `&self.buffer[*o ..]` is never empty, never out of bounds). -/
theorem offset_le_buffer (c : Codec α) (ml : Nat) (sc : List Ev) (acts : List (WAct α))
    (hd : Disciplined c false acts ⟨AWriter.init ml sc, none⟩) :
    match (WSys.run c acts ⟨AWriter.init ml sc, none⟩).2.wr.core.state with
    | .none => True
    | .writeFrom o => o < (WSys.run c acts ⟨AWriter.init ml sc, none⟩).2.wr.core.buffer.length := by
  rcases async_writer_bytes c ml sc acts hd with ⟨h, _⟩ | ⟨_, p, o, _, h, ho, hb, _⟩
  · rw [h]; trivial
  · rw [h, hb]; exact ho

/-- Outside the precondition (documented, not constrained by the property): a `write` issued
    over a frame in flight without the intervening `sync`.  The new call refills the buffer
    first and re-arms `state` only at the end, so when it fails to encode it leaves the stale
    `WriteFrom(3)` pointing into the rewritten buffer; the next `sync` then "completes" by
    sending bytes of the failed value.  (`write(5)` cancelled after 3 bytes, `write(X)` fails
    after writing `01 02`, `sync` → sink `00 00 00 | 01 01 02`.) -/
theorem undisciplined_stale_state :
    (WSys.run valCodec [.write (.u 5), .drop, .write (.x [1, 2]), .sync]
      ⟨AWriter.init 100 [.io 3, .pend, .io 9], none⟩).2.wr.snk.out = [0, 0, 0, 1, 1, 2] ∧
    ¬ Disciplined valCodec false [.write (.u 5), .drop, .write (.x [1, 2]), .sync]
      ⟨AWriter.init 100 [.io 3, .pend, .io 9], none⟩ := by
  refine ⟨by decide, by decide⟩

/-- non-vacuity: a disciplined schedule with short writes, Pendings, a dropped write resumed
    by `sync` through a transient error and an accept-0, a value that fails to encode, and a
    write completed by a second poll; `max_len` exactly the payload size. -/
example :
    Disciplined valCodec false
      [.write (.u 300), .poll, .drop, .sync, .sync, .sync, .write (.x [7]), .write (.b [1, 2]), .poll]
      ⟨AWriter.init 3 [.io 1, .pend, .io 2, .pend, .fail, .io 1, .zero, .io 9, .io 2, .pend, .io 9], none⟩ ∧
    (WSys.run valCodec
      [.write (.u 300), .poll, .drop, .sync, .sync, .sync, .write (.x [7]), .write (.b [1, 2]), .poll]
      ⟨AWriter.init 3 [.io 1, .pend, .io 2, .pend, .fail, .io 1, .zero, .io 9, .io 2, .pend, .io 9], none⟩).2.wr.snk.out
      = frames [Enc.u64 300, Enc.bytes [1, 2]] := by
  refine ⟨by decide +kernel, by decide +kernel⟩

end Minicbor.C16
