/-
  `f64 as f32` undoes `f64::from(f32)`: for every binary32 pattern that is not a NaN, narrowing its widening gives
  the pattern back (every binary32 value is a binary64 value, and rounding an exactly representable value changes
  nothing); a NaN comes back quieted, sign and the other payload bits intact.
-/
import Minicbor.Narrow
import Minicbor.Lemmas.FloatWiden
import Minicbor.Lemmas.NarrowRne

namespace Minicbor.NarrowThm
open Minicbor

theorem rneShift_exact (q sh : Nat) : rneShift (q * 2 ^ sh) sh = q := by
  unfold rneShift
  split
  · rename_i h; simp at h; subst h; simp
  · have hp : 0 < 2 ^ sh := Nat.pow_pos (by decide)
    have h1 : q * 2 ^ sh / 2 ^ sh = q := Nat.mul_div_cancel _ hp
    have h2 : q * 2 ^ sh % 2 ^ sh = 0 := Nat.mul_mod_left _ _
    have h3 : 0 < 2 ^ (sh - 1) := Nat.pow_pos (by decide)
    simp only [h1, h2]
    have : ¬ (0 > 2 ^ (sh - 1)) := by omega
    have h4 : ((0 : Nat) == 2 ^ (sh - 1)) = false := by
      have : (0 : Nat) ≠ 2 ^ (sh - 1) := by omega
      simpa using this
    simp [h4]

theorem rneShift_zero (sh : Nat) : rneShift 0 sh = 0 := by
  have := rneShift_exact 0 sh
  rwa [Nat.zero_mul] at this

theorem f64ToF32_mk (s e m : Nat) (hs : s < 2) (he : e < 2048) (hm : m < 4503599627370496) :
    f64ToF32 (s * 9223372036854775808 + e * 4503599627370496 + m) =
      (if e = 2047 then
        (if m = 0 then s * 2147483648 + 0x7F800000
         else s * 2147483648 + 0x7F800000 + (if m / 536870912 ≥ 4194304 then m / 536870912 else m / 536870912 + 4194304))
      else
        (if (if e = 0 then 1 else e) ≥ 897 then
          (if ((if e = 0 then 1 else e) - 896) * 8388608 + (rneShift (if e = 0 then m else 4503599627370496 + m) 29 - 8388608) ≥ 0x7F800000
           then s * 2147483648 + 0x7F800000
           else s * 2147483648 + (((if e = 0 then 1 else e) - 896) * 8388608 + (rneShift (if e = 0 then m else 4503599627370496 + m) 29 - 8388608)))
        else s * 2147483648 + rneShift (if e = 0 then m else 4503599627370496 + m) (926 - (if e = 0 then 1 else e)))) := by
  have h1 : (s * 9223372036854775808 + e * 4503599627370496 + m) / 9223372036854775808 = s := by omega
  have h2 : (s * 9223372036854775808 + e * 4503599627370496 + m) / 4503599627370496 % 2048 = e := by omega
  have h3 : (s * 9223372036854775808 + e * 4503599627370496 + m) % 4503599627370496 = m := by omega
  unfold f64ToF32
  simp only [h1, h2, h3, beq_iff_eq]

theorem f64ToF32_special (s m : Nat) (hs : s < 2) (hm : m < 4503599627370496) :
    f64ToF32 (s * 9223372036854775808 + 2047 * 4503599627370496 + m) =
      if m = 0 then s * 2147483648 + 0x7F800000
      else s * 2147483648 + 0x7F800000 + (if m / 536870912 ≥ 4194304 then m / 536870912 else m / 536870912 + 4194304) := by
  rw [f64ToF32_mk s 2047 m hs (by omega) hm]; simp

theorem f64ToF32_fin (s e m : Nat) (hs : s < 2) (he1 : 1 ≤ e) (he2 : e < 2047) (hm : m < 4503599627370496) :
    f64ToF32 (s * 9223372036854775808 + e * 4503599627370496 + m) =
      if e ≥ 897 then
        (if (e - 896) * 8388608 + (rneShift (4503599627370496 + m) 29 - 8388608) ≥ 0x7F800000 then s * 2147483648 + 0x7F800000
         else s * 2147483648 + ((e - 896) * 8388608 + (rneShift (4503599627370496 + m) 29 - 8388608)))
      else s * 2147483648 + rneShift (4503599627370496 + m) (926 - e) := by
  rw [f64ToF32_mk s e m hs (by omega) hm]
  have h1 : ¬ (e = 2047) := by omega
  have h0 : ¬ (e = 0) := by omega
  simp only [h1, h0, if_false]

theorem narrow_sub (s m : Nat) (hs : s < 2) (hm : m < 8388608) (hm0 : m ≠ 0) :
    f64ToF32 (s * 9223372036854775808 + (Nat.log2 m + 874) * 4503599627370496 + (m * 2 ^ (52 - Nat.log2 m) - 4503599627370496))
      = s * 2147483648 + m := by
  obtain ⟨hlo, hhi⟩ := log2_bounds m hm0
  have hl : Nat.log2 m < 23 := log2_lt_of_lt m 23 hm0 (by omega)
  generalize Nat.log2 m = l at *
  have hpow : 2 ^ l * 2 ^ (52 - l) = 4503599627370496 := by
    rw [← Nat.pow_add, show l + (52 - l) = 52 by omega]
  have hp : 0 < 2 ^ (52 - l) := Nat.pow_pos (by decide)
  have hge : 4503599627370496 ≤ m * 2 ^ (52 - l) := by
    rw [← hpow]; exact Nat.mul_le_mul_right _ hlo
  have hlt2 : m * 2 ^ (52 - l) < 2 * 4503599627370496 := by
    have : 2 ^ (l + 1) * 2 ^ (52 - l) = 2 * 4503599627370496 := by
      rw [← Nat.pow_add, show l + 1 + (52 - l) = 53 by omega]
    rw [← this]; exact Nat.mul_lt_mul_of_pos_right hhi hp
  rw [f64ToF32_fin s (l + 874) (m * 2 ^ (52 - l) - 4503599627370496) hs (by omega) (by omega) (by omega)]
  have hE : ¬ (l + 874 ≥ 897) := by omega
  have hM : 4503599627370496 + (m * 2 ^ (52 - l) - 4503599627370496) = m * 2 ^ (52 - l) := by omega
  rw [if_neg hE, hM, show 926 - (l + 874) = 52 - l by omega, rneShift_exact]

theorem narrow_norm (s e m : Nat) (hs : s < 2) (he : e < 256) (hm : m < 8388608) (he255 : e ≠ 255) (he0 : e ≠ 0) :
    f64ToF32 (s * 9223372036854775808 + (e + 896) * 4503599627370496 + m * 536870912) = s * 2147483648 + e * 8388608 + m := by
  have hlt : m * 536870912 < 4503599627370496 := by omega
  rw [f64ToF32_fin s (e + 896) (m * 536870912) hs (by omega) (by omega) hlt]
  have hE : e + 896 ≥ 897 := by omega
  have hM : 4503599627370496 + m * 536870912 = (8388608 + m) * 2 ^ 29 := by
    have : (2 : Nat) ^ 29 = 536870912 := by decide
    rw [this]; omega
  rw [if_pos hE, hM, rneShift_exact]
  have hb : ¬ ((e + 896 - 896) * 8388608 + (8388608 + m - 8388608) ≥ 0x7F800000) := by omega
  rw [if_neg hb]
  omega

/-- the pattern a NaN comes back as: quiet bit set, everything else kept. -/
def quieted (x : Nat) : Nat := if x % 8388608 ≥ 4194304 then x else x + 4194304

theorem narrow_inf (s : Nat) (hs : s < 2) :
    f64ToF32 (s * 9223372036854775808 + 0x7FF0000000000000) = s * 2147483648 + 255 * 8388608 + 0 := by
  have := f64ToF32_special s 0 hs (by omega)
  rw [if_pos rfl] at this
  rw [show s * 9223372036854775808 + 0x7FF0000000000000 = s * 9223372036854775808 + 2047 * 4503599627370496 + 0 from by omega, this]

theorem narrow_nan_q (s m : Nat) (hs : s < 2) (hm : m < 8388608) (hq : m ≥ 4194304) :
    f64ToF32 (s * 9223372036854775808 + 0x7FF0000000000000 + m * 536870912) = s * 2147483648 + 255 * 8388608 + m := by
  have hlt : m * 536870912 < 4503599627370496 := by omega
  have := f64ToF32_special s (m * 536870912) hs hlt
  have hne : m * 536870912 ≠ 0 := by omega
  have hd : m * 536870912 / 536870912 = m := by omega
  rw [if_neg hne, hd, if_pos hq] at this
  rw [show s * 9223372036854775808 + 0x7FF0000000000000 + m * 536870912 = s * 9223372036854775808 + 2047 * 4503599627370496 + m * 536870912 from by omega, this]

theorem narrow_nan_s (s m : Nat) (hs : s < 2) (hm : m < 8388608) (hq : ¬ m ≥ 4194304) :
    f64ToF32 (s * 9223372036854775808 + 0x7FF0000000000000 + (m * 536870912 + 2251799813685248)) = s * 2147483648 + 255 * 8388608 + m + 4194304 := by
  have hlt : m * 536870912 + 2251799813685248 < 4503599627370496 := by omega
  have := f64ToF32_special s (m * 536870912 + 2251799813685248) hs hlt
  have hne : m * 536870912 + 2251799813685248 ≠ 0 := by omega
  have hd : (m * 536870912 + 2251799813685248) / 536870912 = m + 4194304 := by omega
  have hge : m + 4194304 ≥ 4194304 := by omega
  rw [if_neg hne, hd, if_pos hge] at this
  rw [show s * 9223372036854775808 + 0x7FF0000000000000 + (m * 536870912 + 2251799813685248) = s * 9223372036854775808 + 2047 * 4503599627370496 + (m * 536870912 + 2251799813685248) from by omega, this]
  omega

theorem narrow_zero (s : Nat) (hs : s < 2) : f64ToF32 (s * 9223372036854775808) = s * 2147483648 + 0 * 8388608 + 0 := by
  have h1 : (s * 9223372036854775808) / 9223372036854775808 = s := by omega
  have h2 : (s * 9223372036854775808) / 4503599627370496 % 2048 = 0 := by omega
  have h3 : (s * 9223372036854775808) % 4503599627370496 = 0 := by omega
  unfold f64ToF32
  simp only [h1, h2, h3]
  have : rneShift 0 (926 - 1) = 0 := rneShift_zero _
  simp [this]

/-- **narrowing undoes widening** for all 2^32 binary32 patterns. -/
theorem narrow_widen_fields (s e m : Nat) (hs : s < 2) (he : e < 256) (hm : m < 8388608) :
    f64ToF32 (f32ToF64 (s * 2147483648 + e * 8388608 + m)) =
      if e = 255 ∧ m ≠ 0 then quieted (s * 2147483648 + e * 8388608 + m) else s * 2147483648 + e * 8388608 + m := by
  rw [f32ToF64_mk s e m hs he hm]
  by_cases he255 : e = 255
  · subst he255
    rw [if_pos rfl]
    by_cases hm0 : m = 0
    · subst hm0
      rw [if_pos rfl, narrow_inf s hs, if_neg (by simp)]
    · rw [if_neg hm0, if_pos (show 255 = 255 ∧ m ≠ 0 from ⟨rfl, hm0⟩)]
      have hmod : (s * 2147483648 + 255 * 8388608 + m) % 8388608 = m := by omega
      unfold quieted
      rw [hmod]
      by_cases hq : m ≥ 4194304
      · rw [if_pos hq, narrow_nan_q s m hs hm hq, if_pos hq]
      · rw [if_neg hq, narrow_nan_s s m hs hm hq, if_neg hq]
  · have hnan : ¬ (e = 255 ∧ m ≠ 0) := by intro h; exact he255 h.1
    rw [if_neg he255, if_neg hnan]
    by_cases he0 : e = 0
    · subst he0
      rw [if_pos rfl]
      by_cases hm0 : m = 0
      · subst hm0
        rw [if_pos rfl, narrow_zero s hs]
      · rw [if_neg hm0, narrow_sub s m hs hm hm0]
        omega
    · rw [if_neg he0, narrow_norm s e m hs he hm he255 he0]

theorem narrow_widen (x : Nat) (hx : x < 2 ^ 32) :
    f64ToF32 (f32ToF64 x) = if isNan32 x then quieted x else x := by
  have hs : x / 2147483648 < 2 := by omega
  have he : x / 8388608 % 256 < 256 := Nat.mod_lt _ (by decide)
  have hm : x % 8388608 < 8388608 := Nat.mod_lt _ (by decide)
  have hx' : x = x / 2147483648 * 2147483648 + x / 8388608 % 256 * 8388608 + x % 8388608 := by omega
  have := narrow_widen_fields (x / 2147483648) (x / 8388608 % 256) (x % 8388608) hs he hm
  rw [← hx'] at this
  rw [this]
  simp only [isNan32, Bool.and_eq_true, beq_iff_eq, bne_iff_ne, ne_eq]

/-- non-vacuity / spot checks: 1.0, the largest finite double (→ +inf), a tie, the smallest subnormal. -/
example : f64ToF32 0x3FF0000000000000 = 0x3F800000 ∧ f64ToF32 0x7FEFFFFFFFFFFFFF = 0x7F800000 ∧
    f64ToF32 0x3FF0000010000000 = 0x3F800000 ∧ f64ToF32 0x3FF0000030000000 = 0x3F800002 ∧
    f64ToF32 0x36A0000000000000 = 0x00000001 ∧ f64ToF32 0x3690000000000000 = 0 ∧ f64ToF32 0x7FF0000000000001 = 0x7FC00000 := by
  refine ⟨by decide, by decide, by decide, by decide, by decide, by decide, by decide⟩

/-! ## `f64 as f32` rounds to nearest, ties to even — every finite binary64 input -/

theorem f64ToF32_rnd (s e m : Nat) (hs : s < 2) (he : e < 2047) (hm : m < 4503599627370496) :
    f64ToF32 (s * 9223372036854775808 + e * 4503599627370496 + m) = s * 2147483648 + rnd32 e m := by
  rw [f64ToF32_mk s e m hs (by omega) hm]
  have h1 : ¬ (e = 2047) := by omega
  rw [if_neg h1]
  unfold rnd32
  simp only []
  generalize (if e = 0 then 1 else e) = E
  generalize (if e = 0 then m else 4503599627370496 + m) = M
  by_cases hn : E ≥ 897
  · rw [if_pos hn, if_pos hn]
    by_cases hb : (E - 896) * 8388608 + (rneShift M 29 - 8388608) ≥ 0x7F800000
    · rw [if_pos hb, if_pos hb]
    · rw [if_neg hb, if_neg hb]
  · rw [if_neg hn, if_neg hn]

/-- in fields. -/
theorem narrow_rne_fields (s e m : Nat) (hs : s < 2) (he : e < 2047) (hm : m < 4503599627370496) :
    ∃ neg a, val64 (s * 9223372036854775808 + e * 4503599627370496 + m) = .finite neg a ∧
      (ovf32 ≤ a → val32 (f64ToF32 (s * 9223372036854775808 + e * 4503599627370496 + m)) = .inf neg) ∧
      (a < ovf32 → ∃ b,
        val32 (f64ToF32 (s * 9223372036854775808 + e * 4503599627370496 + m)) = .finite neg b ∧
        ∀ y, y < 4294967296 → ∀ n' b', val32 y = .finite n' b' →
          fdist neg b neg a ≤ fdist n' b' neg a ∧
          (fdist neg b neg a = fdist n' b' neg a →
            y ≠ f64ToF32 (s * 9223372036854775808 + e * 4503599627370496 + m) →
            f64ToF32 (s * 9223372036854775808 + e * 4503599627370496 + m) % 2 = 0)) := by
  obtain ⟨hle, hov, hfin⟩ := narrow_rne_mag e m he hm
  refine ⟨s == 1, mag64f e m, val64_finite s e m hs he hm, ?_, ?_⟩
  · intro hge
    rw [f64ToF32_rnd s e m hs he hm, hov hge]
    exact val32_infinite s hs
  · intro hlt
    obtain ⟨hR, hnear⟩ := hfin hlt
    rw [f64ToF32_rnd s e m hs he hm]
    refine ⟨mag32 (rnd32 e m), val32_of_mag s (rnd32 e m) hs (by omega), ?_⟩
    intro y hy n' b' hv
    obtain ⟨hH, hn, hb⟩ := val32_finite_inv y hy n' b' hv
    rw [hn, hb]
    clear hv hn hb
    have hsplit : y = (y / 2147483648) * 2147483648 + y % 2147483648 := by omega
    have hs' : y / 2147483648 < 2 := by omega
    generalize y / 2147483648 = s' at *
    generalize y % 2147483648 = H' at *
    obtain ⟨n1, n2⟩ := hnear H'
    unfold fdist
    simp only [if_true]
    by_cases hsame : (s' == 1) = (s == 1)
    · have hss : s' = s := by
        have a : s = 0 ∨ s = 1 := by omega
        have b : s' = 0 ∨ s' = 1 := by omega
        rcases a with rfl | rfl <;> rcases b with rfl | rfl <;> simp at hsame <;> rfl
      simp only [hsame, if_true]
      refine ⟨n1, fun heq hne => ?_⟩
      have h2 := n2 heq (by omega)
      omega
    · simp only [hsame, if_false]
      have z := (hnear 0).1
      have z2 := (hnear 0).2
      have e0 : mag32 0 = 0 := by
        have := mag32_small 0 (by omega)
        simpa using this
      rw [e0] at z z2
      have hz : ndist 0 (mag64f e m) = mag64f e m := by unfold ndist; omega
      rw [hz] at z z2
      constructor
      · omega
      · intro heq _
        have hb0 : ndist (mag32 (rnd32 e m)) (mag64f e m) = mag64f e m := by omega
        by_cases hr0 : rnd32 e m = 0
        · omega
        · have := z2 hb0 (fun h => hr0 h.symm)
          omega

/-- **`f64 as f32` (serde's `f32` visitor on a buffered double) rounds to nearest, ties to even** — all
    2^64 − 2^53 finite binary64 inputs.  With `a` the exact magnitude of the input (units of 2^-1074): at or
    above `ovf32` = (2^25 − 1)·2^103 the result is the infinity of the same sign; below it the result is a
    finite binary32 `b` of the same sign such that no binary32 value — of either sign — is closer to the input,
    and whenever another pattern is equally close the chosen pattern has an even mantissa. -/
theorem narrow_rne (x : Nat) (hx : x < 2 ^ 64) (hfin : x / 4503599627370496 % 2048 ≠ 2047) :
    ∃ neg a, val64 x = .finite neg a ∧
      (ovf32 ≤ a → val32 (f64ToF32 x) = .inf neg) ∧
      (a < ovf32 → ∃ b, val32 (f64ToF32 x) = .finite neg b ∧
        ∀ y, y < 2 ^ 32 → ∀ n' b', val32 y = .finite n' b' →
          fdist neg b neg a ≤ fdist n' b' neg a ∧
          (fdist neg b neg a = fdist n' b' neg a → y ≠ f64ToF32 x → f64ToF32 x % 2 = 0)) := by
  have hx' : x < 18446744073709551616 := by simpa using hx
  have hsplit : x = (x / 9223372036854775808) * 9223372036854775808
      + (x / 4503599627370496 % 2048) * 4503599627370496 + x % 4503599627370496 := by omega
  have := narrow_rne_fields (x / 9223372036854775808) (x / 4503599627370496 % 2048) (x % 4503599627370496)
    (by omega) (by omega) (by omega)
  rw [← hsplit] at this
  simpa using this

/-- the result of narrowing is a binary32 pattern. -/
theorem f64ToF32_lt (x : Nat) (hx : x < 2 ^ 64) (hfin : x / 4503599627370496 % 2048 ≠ 2047) : f64ToF32 x < 2 ^ 32 := by
  have hx' : x < 18446744073709551616 := by simpa using hx
  have hsplit : x = (x / 9223372036854775808) * 9223372036854775808
      + (x / 4503599627370496 % 2048) * 4503599627370496 + x % 4503599627370496 := by omega
  rw [hsplit, f64ToF32_rnd _ _ _ (by omega) (by omega) (by omega)]
  have := (narrow_rne_mag (x / 4503599627370496 % 2048) (x % 4503599627370496) (by omega) (by omega)).1
  omega

/-- non-vacuity: both sides of the overflow threshold are inhabited (the largest finite double; 1 + 2^-52), and
    the threshold itself (0x47EFFFFFF0000000, a tie between the largest finite float and 2^128) goes to +inf. -/
example : (∃ a, val64 0x7FEFFFFFFFFFFFFF = .finite false a ∧ ovf32 ≤ a) ∧
    (∃ a, val64 0x3FF0000000000001 = .finite false a ∧ a < ovf32) ∧
    val64 0x47EFFFFFF0000000 = .finite false ovf32 ∧ f64ToF32 0x47EFFFFFF0000000 = 0x7F800000 ∧
    f64ToF32 0x47EFFFFFEFFFFFFF = 0x7F7FFFFF := by
  refine ⟨⟨_, rfl, ?_⟩, ⟨_, rfl, ?_⟩, ?_, ?_, ?_⟩ <;> decide +kernel

end Minicbor.NarrowThm
