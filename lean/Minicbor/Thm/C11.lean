/-
  C11 — Token streams are faithful.  Property theorems only.
  The specification (`toks`, `canon`, `preferred`, `halfQuiet`, `Token.valueEq`, `Token.wf`) is in
  `Lemmas/TokenSpec.lean`, the token-list reader `itemOfTokens` in `Lemmas/TokenParse.lean`; the
  per-head lemmas and the inductions are in `Lemmas/Token*.lean`.
-/
import Minicbor.Lemmas.TokenTree
import Minicbor.Lemmas.TokenEnc
import Minicbor.Lemmas.TokenCanon
import Minicbor.Lemmas.TokenRound
import Minicbor.Lemmas.TokenParse

namespace Minicbor.C11
open Dec

/-! ### arbitrary bytes -/

/-- **`Token::decode` never panics and a successful call consumes at least one byte.** -/
theorem token_progress (bs : Bytes) :
    Dec.token bs ≠ .panic ∧ ∀ t rest, Dec.token bs = .ok t rest → rest.length < bs.length := by
  refine ⟨NoPanic.token bs, fun t rest h => ?_⟩
  have := Consumes.token bs t rest h
  omega

/-- **On arbitrary bytes the tokenizer yields at most one item per input byte and then ends**:
    the iterator always finishes (its fuel is never exhausted, no call panics), what it yields is
    a list of tokens followed by at most one decoding error — which is never "end of input" and
    is the last item — and the number of yielded items does not exceed the number of bytes. -/
theorem tokenizer_bounded (bs : Bytes) :
    ∃ (ts : List Token) (tail : List TokItem),
      tokens bs = some (ts.map TokItem.tok ++ tail) ∧
      (tail = [] ∨ ∃ e, e ≠ Err.eoi ∧ tail = [TokItem.err e]) ∧
      ts.length + tail.length ≤ bs.length :=
  tokenize_spec (bs.length + 1) bs (Nat.lt_succ_self _)

/-- the same, in the form of the property text: the item list exists, is no longer than the input,
    and an error item can only be the last one. -/
theorem tokenizer_bounded' (bs : Bytes) :
    ∃ items, tokens bs = some items ∧ items.length ≤ bs.length ∧
      ∀ i e, items[i]? = some (TokItem.err e) → i + 1 = items.length := by
  obtain ⟨ts, tail, h1, h2, h3⟩ := tokenizer_bounded bs
  refine ⟨_, h1, by simpa using h3, ?_⟩
  intro i e hi
  rcases h2 with rfl | ⟨e', _, rfl⟩
  · simp only [List.append_nil, List.getElem?_map] at hi
    cases h : ts[i]? <;> simp [h] at hi
  · by_cases hlt : i < ts.length
    · rw [List.getElem?_append_left (by simpa using hlt)] at hi
      simp only [List.getElem?_map] at hi
      cases h : ts[i]? <;> simp [h] at hi
    · rw [List.getElem?_append_right (by simpa using hlt)] at hi
      simp only [List.length_map] at hi
      have : i - ts.length = 0 := by
        cases hk : i - ts.length with
        | zero => rfl
        | succ k => rw [hk] at hi; simp at hi
      simp only [List.length_append, List.length_map, List.length_cons, List.length_nil]
      omega

/-! ### well-formed input: tokenising -/

/-- **Tokenising a well-formed item**: for a valid wire tree `w` (any head widths, indefinite
    containers, chunked strings) followed by arbitrary bytes `rest`, the tokenizer first yields
    exactly `toks w` — one token per head — and then continues on `rest`. -/
theorem tokenize_item (w : WItem) (hv : w.Valid) (rest : Bytes) :
    tokens (encW w ++ rest) = (tokens rest).map ((toks w).map TokItem.tok ++ ·) :=
  tokens_steps (steps_item w hv rest)

/-- **Tokenising a sequence of well-formed items** yields the tokens of the items, in order, and
    nothing else: no error, no missing or extra token. -/
theorem tokenize_encW (ws : List WItem) (hv : validAll ws = true) :
    tokens (encWs ws) = some ((ws.flatMap toks).map TokItem.tok) := by
  have := tokens_steps_all (bs := encWs ws) (ts := toksL ws)
    (by simpa using steps_items ws hv [])
  rwa [toksL_eq_flatMap] at this

theorem tokenize_encW_single (w : WItem) (hv : w.Valid) :
    tokens (encW w) = some ((toks w).map TokItem.tok) := by
  have := tokenize_encW [w] (by simp [validAll, hv])
  simpa [encWs] using this

/-! ### each token carries the data-model value of its head -/

/-- **The tokens determine the data-model value**: reading the token list of a valid tree back
    into the RFC 8949 data model (`itemOfTokens`, which looks at nothing but the payloads of the
    tokens) gives the value of the tree — integers by their number, strings by their bytes (chunks
    concatenated), containers with exactly their elements, tags, simple values, float bits. -/
theorem token_value (w : WItem) (hv : w.Valid) (hq : halfQuiet w = true) :
    itemOfTokens (toks w) = some (value w) := by
  have := parse_toks w hv (2 * (toks w).length) [] (Nat.le_refl _)
  rw [List.append_nil, canon_value w hq] at this
  simp only [itemOfTokens, this]

/-- without the assumption on half floats: the value of the canonical tree (a signalling half NaN
    reads back quieted, because the `F16` token holds the widened `f32`). -/
theorem token_value_canon (w : WItem) (hv : w.Valid) :
    itemOfTokens (toks w) = some (value (canon w)) := by
  have := parse_toks w hv (2 * (toks w).length) [] (Nat.le_refl _)
  rw [List.append_nil] at this
  simp only [itemOfTokens, this]

/-- the kind of an integer token is the one `Decoder::type_of` assigns to the head, and its
    payload is the mathematical value (the case the property singles out: `38 80` is `I16(-129)`). -/
theorem token_int_kinds :
    toks (.nint .w1 127) = [.i8 (-128)] ∧ toks (.nint .w1 128) = [.i16 (-129)] ∧
    toks (.nint .w8 (2 ^ 63 - 1)) = [.i64 (-2 ^ 63)] ∧ toks (.nint .w8 (2 ^ 63)) = [.int (-2 ^ 63 - 1)] ∧
    toks (.uint .w1 24) = [.u8 24] ∧ toks (.uint .w8 1) = [.u64 1] := by decide

/-! ### tokenise, then re-encode -/

/-- **Re-encoding the tokens canonicalises**: the tokens of a valid item sequence encode to the
    same sequence with every head in preferred (shortest) form; indefinite-length items and chunk
    boundaries are kept, floats keep their width (a signalling half NaN is quieted, `quiet16`). -/
theorem tokens_canonicalise (ws : List WItem) (hv : validAll ws = true) :
    ∃ ts, tokens (encWs ws) = some (ts.map TokItem.tok) ∧ encodeTokens ts = encWs (canonL ws) := by
  refine ⟨ws.flatMap toks, tokenize_encW ws hv, ?_⟩
  rw [← toksL_eq_flatMap]; exact enc_toksL ws hv

/-- `canon` is what the property calls "the preferred form of the same item sequence": it is
    well-formed, every head is preferred, and it denotes the same data-model values. -/
theorem canon_spec (ws : List WItem) (hv : validAll ws = true) :
    validAll (canonL ws) = true ∧ preferredL (canonL ws) = true ∧
    (halfQuietL ws = true → values (canonL ws) = values ws) :=
  ⟨canonL_valid ws hv, canonL_preferred ws, canonL_values ws⟩

/-- **For input in preferred serialisation, tokenise-then-encode is the identity on the bytes.** -/
theorem tokens_of_preferred (ws : List WItem) (hv : validAll ws = true) (hp : preferredL ws = true) :
    ∃ ts, tokens (encWs ws) = some (ts.map TokItem.tok) ∧ encodeTokens ts = encWs ws := by
  obtain ⟨ts, h1, h2⟩ := tokens_canonicalise ws hv
  exact ⟨ts, h1, by rw [h2, canonL_of_preferred ws hp]⟩

/-! ### encode, then tokenise -/

/-- **Every token list, once encoded, tokenises back to value-equal tokens**: same length, and
    pointwise `Token.valueEq` — integer tokens denote the same number (their kind may change: the
    encoder writes the shortest head and the decoder classifies by head width), every other token
    is identical (floats bitwise; `Simple(20..=31)` is written as `f8 xx` and comes back as the same
    `Simple`).  `Token.wf` = what the Rust payload types guarantee (`Token.ok` and slice lengths below
    2^64) plus the property's assumption that an `F16` token holds a half-representable `f32`.
    The intermediate bytes need not be well-formed CBOR. -/
theorem tokens_roundtrip (ts : List Token) (hwf : ∀ t ∈ ts, Token.wf t) :
    ∃ ts', tokens (encodeTokens ts) = some (ts'.map TokItem.tok) ∧ Token.valueEqL ts ts' := by
  obtain ⟨ts', h1, h2⟩ := round_steps ts hwf []
  exact ⟨ts', tokens_steps_all (by simpa using h1), h2⟩

/-- strict value equality implies the looser one of the property text (which also identifies
    `Simple(20..23)` with `Bool`/`Null`/`Undefined`). -/
theorem valueEq_loose (a b : Token) (h : Token.valueEq a b) : Token.valueEqLoose a b := by
  unfold Token.valueEq at h
  unfold Token.valueEqLoose
  split at h
  · rename_i x y ha hb
    have ea : Token.alias a = a := by cases a <;> first | rfl | simp [Token.intVal?] at ha
    have eb : Token.alias b = b := by cases b <;> first | rfl | simp [Token.intVal?] at hb
    rw [ea, eb]; simp [Token.valueEq, ha, hb, h]
  · subst h
    rename_i ha _
    cases hx : Token.intVal? (Token.alias a) <;> simp [Token.valueEq, hx]
  · exact h.elim

/-! ### non-vacuity -/

/-- a non-preferred, nested, partly indefinite tree and its canonical form. -/
example :
    let w : WItem := .array .w2 [.uint .w8 1, .arrayI [.nint .w1 3, .textI [(.w1, [0x61])]], .tag .w4 2 (.f16 0x3c00)]
    w.Valid ∧ preferred w = false ∧ halfQuiet w = true ∧
    encW w = [0x99, 0, 3, 0x1b, 0, 0, 0, 0, 0, 0, 0, 1, 0x9f, 0x38, 3, 0x7f, 0x78, 1, 0x61, 0xff, 0xff,
              0xda, 0, 0, 0, 2, 0xf9, 0x3c, 0] ∧
    encW (canon w) = [0x83, 1, 0x9f, 0x23, 0x7f, 0x61, 0x61, 0xff, 0xff, 0xc2, 0xf9, 0x3c, 0] ∧
    toks w = [.array 3, .u64 1, .beginArray, .i8 (-4), .beginString, .string [0x61], .brk, .brk, .tag 2,
              .f16 0x3f800000] := by
  decide

/-- a well-formed token list whose kinds change on the way back. -/
example :
    (∀ t ∈ [Token.u64 5, .i32 (-200), .int 70000, .simple 20, .bytes [1, 2]], Token.wf t) ∧
    tokens (encodeTokens [Token.u64 5, .i32 (-200), .int 70000, .simple 20, .bytes [1, 2]]) =
      some [.tok (.u8 5), .tok (.i16 (-200)), .tok (.u32 70000), .tok (.simple 20), .tok (.bytes [1, 2])] := by
  constructor
  · intro t ht
    simp only [List.mem_cons, List.not_mem_nil, or_false] at ht
    rcases ht with rfl | rfl | rfl | rfl | rfl <;> simp [Token.wf, Token.ok] <;> decide
  · decide

end Minicbor.C11
