/-
  C11 — Token streams are faithful.  Property theorems only.
  The specification (`toks`, `canon`, `preferred`, `Token.valueEq`, …) is in
  `Lemmas/TokenSpec.lean`; the per-head lemmas and inductions are in `Lemmas/Token*.lean`.
-/
import Minicbor.Lemmas.TokenTree
import Minicbor.Lemmas.TokenEnc

namespace Minicbor.C11
open Dec

/-! ### arbitrary bytes -/

/-- **`Token::decode` never panics and a successful call consumes at least one byte.** -/
theorem token_progress (bs : Bytes) :
    Dec.token bs ≠ .panic ∧ ∀ t rest, Dec.token bs = .ok t rest → rest.length < bs.length := by
  refine ⟨NoPanic.token bs, fun t rest h => ?_⟩
  have := Consumes.token bs t rest h
  omega

/-- **On arbitrary bytes the tokenizer yields at most one item per input byte and then ends**:
    the iterator always finishes (its fuel is never exhausted, no call panics), what it yields is
    a list of tokens followed by at most one decoding error — which is never "end of input" and
    is the last item — and the number of yielded items does not exceed the number of bytes. -/
theorem tokenizer_bounded (bs : Bytes) :
    ∃ (ts : List Token) (tail : List TokItem),
      tokens bs = some (ts.map TokItem.tok ++ tail) ∧
      (tail = [] ∨ ∃ e, e ≠ Err.eoi ∧ tail = [TokItem.err e]) ∧
      ts.length + tail.length ≤ bs.length :=
  tokenize_spec (bs.length + 1) bs (Nat.lt_succ_self _)

/-- the form asked for in the property text. -/
theorem tokenizer_bounded' (bs : Bytes) :
    ∃ items, tokens bs = some items ∧ items.length ≤ bs.length ∧
      ∀ i e, items[i]? = some (TokItem.err e) → i + 1 = items.length := by
  obtain ⟨ts, tail, h1, h2, h3⟩ := tokenizer_bounded bs
  refine ⟨_, h1, by simpa using h3, ?_⟩
  intro i e hi
  rcases h2 with rfl | ⟨e', _, rfl⟩
  · simp only [List.append_nil, List.getElem?_map] at hi
    cases h : ts[i]? <;> simp [h] at hi
  · by_cases hlt : i < ts.length
    · rw [List.getElem?_append_left (by simpa using hlt)] at hi
      simp only [List.getElem?_map] at hi
      cases h : ts[i]? <;> simp [h] at hi
    · rw [List.getElem?_append_right (by simpa using hlt)] at hi
      simp only [List.length_map] at hi
      have : i - ts.length = 0 := by
        cases hk : i - ts.length with
        | zero => rfl
        | succ k => rw [hk] at hi; simp at hi
      simp only [List.length_append, List.length_map, List.length_cons, List.length_nil]
      omega

/-! ### well-formed input -/

/-- **Tokenising a well-formed item**: for a valid wire tree `w` (any head widths, indefinite
    containers, chunked strings) followed by arbitrary bytes `rest`, the tokenizer first yields
    exactly `toks w` — one token per head — and then continues on `rest`. -/
theorem tokenize_item (w : WItem) (hv : w.Valid) (rest : Bytes) :
    tokens (encW w ++ rest) = (tokens rest).map ((toks w).map TokItem.tok ++ ·) :=
  tokens_steps (steps_item w hv rest)

/-- **Tokenising a sequence of well-formed items** yields the tokens of the items, in order, and
    nothing else: no error, no missing or extra token. -/
theorem tokenize_encW (ws : List WItem) (hv : validAll ws = true) :
    tokens (encWs ws) = some ((ws.flatMap toks).map TokItem.tok) := by
  have := tokens_steps_all (bs := encWs ws) (ts := toksL ws)
    (by simpa using steps_items ws hv [])
  rwa [toksL_eq_flatMap] at this

theorem tokenize_encW_single (w : WItem) (hv : w.Valid) :
    tokens (encW w) = some ((toks w).map TokItem.tok) := by
  have := tokenize_encW [w] (by simp [validAll, hv])
  simpa [encWs] using this

/-! ### tokenise, then re-encode -/

/-- **Re-encoding the tokens canonicalises**: the tokens of a valid tree encode to the same tree
    with every head in preferred (shortest) form; indefinite-length items and chunk boundaries
    are kept, floats keep their width (a signalling half NaN is quieted, `quiet16`). -/
theorem tokens_canonicalise (ws : List WItem) (hv : validAll ws = true) :
    ∃ ts, tokens (encWs ws) = some (ts.map TokItem.tok) ∧ encodeTokens ts = encWs (canonL ws) := by
  refine ⟨ws.flatMap toks, tokenize_encW ws hv, ?_⟩
  rw [← toksL_eq_flatMap]; exact enc_toksL ws hv

/-- `canon` does not change the data-model value … -/
theorem canonChunks_join (cs : List (Width × Bytes)) : joinChunks (canonChunks cs) = joinChunks cs := by
  induction cs with
  | nil => rfl
  | cons c cs ih => obtain ⟨w, b⟩ := c; simp [canonChunks, joinChunks, ih]

/-- **For input in preferred serialisation, tokenise-then-encode is the identity on the bytes.** -/
theorem tokens_of_preferred (ws : List WItem) (hv : validAll ws = true) (hp : preferredL ws = true) :
    ∃ ts, tokens (encWs ws) = some (ts.map TokItem.tok) ∧ encodeTokens ts = encWs ws := by
  obtain ⟨ts, h1, h2⟩ := tokens_canonicalise ws hv
  exact ⟨ts, h1, by rw [h2, canonL_of_preferred ws hp]⟩

/-- the canonical form is itself valid and preferred, so canonicalising is idempotent and its
    output is a fixed point of tokenise-then-encode.  (sanity of the definition of `canon`) -/
theorem prefWidth_fits' (n : Nat) (w : Width) (h : w.fits n = true) : (prefWidth n).fits n = true :=
  prefWidth_fits n (fits_lt64 h)

/-- non-vacuity: a non-preferred, nested, partly indefinite tree and its canonical form. -/
example :
    let w : WItem := .array .w2 [.uint .w8 1, .arrayI [.nint .w1 3, .textI [(.w1, [0x61])]], .tag .w4 2 (.f16 0x3c00)]
    w.Valid ∧ preferred w = false ∧
    encW w = [0x99, 0, 3, 0x1b, 0, 0, 0, 0, 0, 0, 0, 1, 0x9f, 0x38, 3, 0x7f, 0x78, 1, 0x61, 0xff, 0xff,
              0xda, 0, 0, 0, 2, 0xf9, 0x3c, 0] ∧
    encW (canon w) = [0x83, 1, 0x9f, 0x23, 0x7f, 0x61, 0x61, 0xff, 0xff, 0xc2, 0xf9, 0x3c, 0] := by
  decide

end Minicbor.C11
