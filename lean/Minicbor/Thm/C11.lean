/-
  C11 — Token streams are faithful.  Property theorems only.  (placeholder: examples only;
  the general theorems are being added)
-/
import Minicbor.Token

namespace Minicbor.C11

/-- concrete evaluations (tests, not the general claim). -/
theorem token_roundtrip_examples :
    tokens [0x83, 0x01, 0x9f, 0x02, 0xff, 0x61, 0x61] =
      some [.tok (.array 3), .tok (.u8 1), .tok .beginArray, .tok (.u8 2), .tok .brk, .tok (.string [0x61])] ∧
    encodeTokens [.array 3, .u8 1, .beginArray, .u8 2, .brk, .string [0x61]] = [0x83, 0x01, 0x9f, 0x02, 0xff, 0x61, 0x61] := by
  constructor <;> decide

end Minicbor.C11
