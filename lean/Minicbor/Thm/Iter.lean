/-
  The iterator view (`Iter.lean`: state + `next`) and the drained loops used by every `Decode` impl are the same
  thing: calling `next` until `None` or the first error is `repeatN` for a definite container and `untilBreak`
  for an indefinite one.
-/
import Minicbor.Iter
import Minicbor.Lemmas.TotalTy

namespace Minicbor.IterThm
open Minicbor

theorem repeatN_succ (m : Dec α) (n : Nat) (bs : Bytes) :
    Dec.repeatN m (n + 1) bs =
      match m bs with
      | .ok a r => (match Dec.repeatN m n r with
                    | .ok as r' => .ok (a :: as) r'
                    | .err e r' => .err e r'
                    | .panic => .panic)
      | .err e r => .err e r
      | .panic => .panic := by
  show (m >>= fun x => Dec.repeatN m n >>= fun xs => pure (x :: xs)) bs = _
  rw [Dec.bind_run]
  cases m bs with
  | ok a r =>
    show (Dec.repeatN m n >>= fun xs => pure (a :: xs)) r =
      (match Dec.repeatN m n r with
        | .ok as r' => .ok (a :: as) r'
        | .err e r' => .err e r'
        | .panic => .panic)
    rw [Dec.bind_run]
    cases Dec.repeatN m n r <;> rfl
  | err e r => rfl
  | panic => rfl

/-- **definite containers**: `next` until `None` is the counted loop (any fuel above the declared length). -/
theorem drain_definite (m : Dec α) (n : Nat) : ∀ (fuel : Nat) (bs : Bytes), n < fuel →
    drain m fuel ⟨some n, bs⟩ = Dec.repeatN m n bs := by
  induction n with
  | zero =>
    intro fuel bs h
    obtain ⟨f, rfl⟩ : ∃ f, fuel = f + 1 := ⟨fuel - 1, by omega⟩
    rfl
  | succ n ih =>
    intro fuel bs h
    obtain ⟨f, rfl⟩ : ∃ f, fuel = f + 1 := ⟨fuel - 1, by omega⟩
    rw [repeatN_succ]
    show (match iterNext m ⟨some (n + 1), bs⟩ with
      | (.done, s') => Res.ok [] s'.rest
      | (.item a, s') => (match drain m f s' with | .ok as r => .ok (a :: as) r | .err e r => .err e r | .panic => .panic)
      | (.error e, s') => .err e s'.rest
      | (.panic, _) => .panic) = _
    show (match iterRun m (some n) bs with
      | (.done, s') => Res.ok [] s'.rest
      | (.item a, s') => (match drain m f s' with | .ok as r => .ok (a :: as) r | .err e r => .err e r | .panic => .panic)
      | (.error e, s') => .err e s'.rest
      | (.panic, _) => .panic) = _
    unfold iterRun
    cases hm : m bs with
    | ok a r =>
      show (match drain m f ⟨some n, r⟩ with | .ok as r => Res.ok (a :: as) r | .err e r => .err e r | .panic => .panic) = _
      rw [ih f r (by omega)]
    | err e r => rfl
    | panic => rfl

theorem untilBreak_succ (m : Dec α) (fuel : Nat) (bs : Bytes) :
    Dec.untilBreak m (fuel + 1) bs =
      match bs with
      | [] => .err .eoi []
      | b :: r =>
        if b == 0xff then .ok [] r
        else match m (b :: r) with
          | .ok a r' => (match Dec.untilBreak m fuel r' with
                        | .ok as r'' => .ok (a :: as) r''
                        | .err e r'' => .err e r''
                        | .panic => .panic)
          | .err e r' => .err e r'
          | .panic => .panic := by
  cases bs with
  | nil => rfl
  | cons b r =>
    show (Dec.current >>= fun b' => if b' == 0xff then (Dec.read >>= fun _ => pure [])
        else (m >>= fun x => Dec.untilBreak m fuel >>= fun xs => pure (x :: xs))) (b :: r) = _
    rw [Dec.bind_run, Dec.current_cons]
    show (if b == 0xff then (Dec.read >>= fun _ => pure [])
        else (m >>= fun x => Dec.untilBreak m fuel >>= fun xs => pure (x :: xs))) (b :: r) =
      (if b == 0xff then .ok [] r
        else match m (b :: r) with
          | .ok a r' => (match Dec.untilBreak m fuel r' with
                        | .ok as r'' => .ok (a :: as) r''
                        | .err e r'' => .err e r''
                        | .panic => .panic)
          | .err e r' => .err e r'
          | .panic => .panic)
    by_cases hb : (b == 0xff) = true
    · rw [if_pos hb, if_pos hb]; rfl
    · rw [if_neg hb, if_neg hb, Dec.bind_run]
      cases m (b :: r) with
      | ok a r' =>
        show (Dec.untilBreak m fuel >>= fun xs => pure (a :: xs)) r' =
          (match Dec.untilBreak m fuel r' with
            | .ok as r'' => .ok (a :: as) r''
            | .err e r'' => .err e r''
            | .panic => .panic)
        rw [Dec.bind_run]
        cases Dec.untilBreak m fuel r' <;> rfl
      | err e r' => rfl
      | panic => rfl

/-- **indefinite containers**: `next` until `None` is the until-break loop, fuel for fuel. -/
theorem drain_indefinite (m : Dec α) : ∀ (fuel : Nat) (bs : Bytes),
    drain m fuel ⟨none, bs⟩ = Dec.untilBreak m fuel bs := by
  intro fuel
  induction fuel with
  | zero => intro bs; rfl
  | succ f ih =>
    intro bs
    rw [untilBreak_succ]
    cases bs with
    | nil => rfl
    | cons b r =>
      show (match iterNext m ⟨none, b :: r⟩ with
        | (.done, s') => Res.ok [] s'.rest
        | (.item a, s') => (match drain m f s' with | .ok as r => .ok (a :: as) r | .err e r => .err e r | .panic => .panic)
        | (.error e, s') => .err e s'.rest
        | (.panic, _) => .panic) = _
      show (match (if b == 0xff then ((IterOut.done : IterOut α), (⟨none, r⟩ : IterSt)) else iterRun m none (b :: r)) with
        | (.done, s') => Res.ok [] s'.rest
        | (.item a, s') => (match drain m f s' with | .ok as r => .ok (a :: as) r | .err e r => .err e r | .panic => .panic)
        | (.error e, s') => .err e s'.rest
        | (.panic, _) => .panic) =
        (if b == 0xff then .ok [] r
          else match m (b :: r) with
            | .ok a r' => (match Dec.untilBreak m f r' with
                          | .ok as r'' => .ok (a :: as) r''
                          | .err e r'' => .err e r''
                          | .panic => .panic)
            | .err e r' => .err e r'
            | .panic => .panic)
      by_cases hb : (b == 0xff) = true
      · rw [if_pos hb, if_pos hb]
      · rw [if_neg hb, if_neg hb]
        unfold iterRun
        cases hm : m (b :: r) with
        | ok a r' =>
          show (match drain m f ⟨none, r'⟩ with | .ok as r => Res.ok (a :: as) r | .err e r => .err e r | .panic => .panic) = _
          rw [ih r']
        | err e r' => rfl
        | panic => rfl

/-- the fuel the drained loop gives an iterator just opened on `r`. -/
def fuelFor (s : IterSt) : Nat :=
  match s.left with
  | some n => n + 1
  | none => s.rest.length + 1

/-- **`array_iter_with(..)` collected = the drained loop of the model** (`Dec.arrayIter`, the body of every
    sequence `Decode` impl): open, then `next` until `None` or the first error. -/
theorem arrayIter_is_next_loop (m : Dec α) (bs : Bytes) :
    Dec.arrayIter m bs =
      match arrayOpen bs with
      | .ok s _ => drain m (fuelFor s) s
      | .err e r => .err e r
      | .panic => .panic := by
  show (Dec.array >>= fun l => match l with
      | some n => Dec.repeatN m n
      | none => (Dec.remaining >>= fun r => Dec.untilBreak m (r.length + 1))) bs = _
  rw [Dec.bind_run]
  unfold arrayOpen
  cases Dec.array bs with
  | ok l r =>
    cases l with
    | some n => exact (drain_definite m n (n + 1) r (by omega)).symm
    | none => exact (drain_indefinite m (r.length + 1) r).symm
  | err e r => rfl
  | panic => rfl

/-- **`map_iter_with(..)` collected = `Dec.mapIter`** (the body of the map `Decode` impls; entries flattened to
    key, value, key, value …): open, then `next` until `None` or the first error, with the element decoder
    "key then value". -/
theorem mapIter_is_next_loop (mk mv : Dec α) (bs : Bytes) :
    Dec.mapIter mk mv bs =
      match mapOpen bs with
      | .ok s _ =>
        (match drain (do let k ← mk; let v ← mv; pure [k, v]) (fuelFor s) s with
         | .ok xs r => .ok xs.flatten r
         | .err e r => .err e r
         | .panic => .panic)
      | .err e r => .err e r
      | .panic => .panic := by
  show (Dec.map >>= fun l => match l with
      | some n => (Dec.repeatN (do let k ← mk; let v ← mv; pure [k, v]) n >>= fun xs => pure xs.flatten)
      | none => (Dec.remaining >>= fun r =>
          Dec.untilBreak (do let k ← mk; let v ← mv; pure [k, v]) (r.length + 1) >>= fun xs => pure xs.flatten)) bs = _
  rw [Dec.bind_run]
  unfold mapOpen
  cases Dec.map bs with
  | ok l r =>
    cases l with
    | some n =>
      show (Dec.repeatN (do let k ← mk; let v ← mv; pure [k, v]) n >>= fun xs => pure xs.flatten) r =
        (match drain (do let k ← mk; let v ← mv; pure [k, v]) (n + 1) ⟨some n, r⟩ with
         | .ok xs r => .ok xs.flatten r | .err e r => .err e r | .panic => .panic)
      rw [drain_definite _ n (n + 1) r (by omega), Dec.bind_run]
      cases Dec.repeatN (do let k ← mk; let v ← mv; pure [k, v]) n r <;> rfl
    | none =>
      show (Dec.untilBreak (do let k ← mk; let v ← mv; pure [k, v]) (r.length + 1) >>= fun xs => pure xs.flatten) r =
        (match drain (do let k ← mk; let v ← mv; pure [k, v]) (r.length + 1) ⟨none, r⟩ with
         | .ok xs r => .ok xs.flatten r | .err e r => .err e r | .panic => .panic)
      rw [drain_indefinite, Dec.bind_run]
      cases Dec.untilBreak (do let k ← mk; let v ← mv; pure [k, v]) (r.length + 1) r <;> rfl
  | err e r => rfl
  | panic => rfl

/-- a definite iterator is fused: once exhausted it keeps answering `None` and nothing moves. -/
theorem definite_fused (m : Dec α) (r : Bytes) : iterNext m ⟨some 0, r⟩ = (.done, ⟨some 0, r⟩) := rfl

/-- an indefinite iterator is **not** fused: after the break it reads on (the byte after the break is taken for
    the next element) — `Iterator` allows that, and the adaptors inherit it. -/
theorem indefinite_not_fused :
    iterNext (Dec.intAcc Dec.IntTy.u8) ⟨none, [0xff, 0x07]⟩ = (.done, ⟨none, [0x07]⟩) ∧
    iterNext (Dec.intAcc Dec.IntTy.u8) ⟨none, [0x07]⟩ = (.item 7, ⟨none, []⟩) := by
  constructor <;> rfl

/-- the transcript `all` is the drained loop: same items, same end, same error. -/
theorem all_is_drain (m : Dec α) : ∀ (fuel : Nat) (s : IterSt),
    match drain m fuel s with
    | .ok as r  => (Script.all m fuel s).1 = List.map Script.Ev.item as ∧ (Script.all m fuel s).2.rest = r
    | .err e r  => ∃ as, (Script.all m fuel s).1 = List.map Script.Ev.item as ++ [.error e] ∧ (Script.all m fuel s).2.rest = r
    | .panic    => True := by
  intro fuel
  induction fuel with
  | zero => intro s; trivial
  | succ f ih =>
    intro s
    unfold drain Script.all
    cases hn : iterNext m s with
    | mk o s' =>
      cases o with
      | done => exact ⟨rfl, rfl⟩
      | item a =>
        have := ih s'
        simp only []
        cases hd : drain m f s' with
        | ok as r =>
          rw [hd] at this
          simp only []
          exact ⟨by rw [this.1]; rfl, this.2⟩
        | err e r =>
          rw [hd] at this
          obtain ⟨as, h1, h2⟩ := this
          simp only []
          exact ⟨a :: as, by rw [h1]; rfl, h2⟩
        | panic => trivial
      | error e => exact ⟨[], rfl, rfl⟩
      | panic => trivial

/-- **an iterator never moves backwards and never leaves the input**: whatever `next` answers — an item, an error, the end — the decoder
    stands at a suffix of where it stood (for every element decoder with that property: `decodeT_suffix` gives it for all built-in types). -/
theorem iterNext_suffix (m : Dec α) (hm : Dec.Suffix m) (s : IterSt) : (iterNext m s).2.rest <:+ s.rest := by
  have run : ∀ l bs, (iterRun m l bs).2.rest <:+ bs := by
    intro l bs
    unfold iterRun
    cases h : m bs with
    | ok a r => exact (hm bs).1 a r h
    | err e r => exact (hm bs).2 e r h
    | panic => exact List.suffix_refl _
  unfold iterNext
  cases hl : s.left with
  | none =>
    cases hr : s.rest with
    | nil => simp only [hr]; exact List.suffix_refl _
    | cons b r =>
      simp only []
      split
      · exact List.suffix_cons b r
      · rw [← hr]; exact run none s.rest
  | some n =>
    cases n with
    | zero => exact List.suffix_refl _
    | succ k => exact run (some k) s.rest

theorem iterNext_suffix_builtin (t : Ty) (s : IterSt) : (iterNext (decodeT t) s).2.rest <:+ s.rest :=
  iterNext_suffix _ (Dec.decodeT_suffix t) s

/-- a definite iterator answers at most as often as its declared length says, errors included, however the elements fail: after
    `left` answers it is exhausted (`allx` = `next` until `None`, carrying on after failed elements). -/
theorem allx_definite_length (m : Dec α) : ∀ (cap n : Nat) (bs : Bytes),
    (Script.allx m cap ⟨some n, bs⟩).1.length ≤ n := by
  intro cap
  induction cap with
  | zero => intro n bs; exact Nat.zero_le _
  | succ c ih =>
    intro n bs
    cases n with
    | zero => exact Nat.le_refl _
    | succ k =>
      unfold Script.allx
      show (match iterRun m (some k) bs with
        | (.done, s') => (([] : List (Script.Ev α)), s')
        | (.item a, s') => (let (evs, s'') := Script.allx m c s'; (.item a :: evs, s''))
        | (.error e, s') => (let (evs, s'') := Script.allx m c s'; (.error e :: evs, s''))
        | (.panic, s') => ([.panic], s')).1.length ≤ k + 1
      unfold iterRun
      cases m bs with
      | ok a r => exact Nat.succ_le_succ (ih k r)
      | err e r => exact Nat.succ_le_succ (ih k r)
      | panic => exact Nat.succ_le_succ (Nat.zero_le _)

/-- `skip(0)`, `nth(0)`-then-rest and `take(0)`-then-rest add nothing to plain iteration. -/
theorem skip_zero (m : Dec α) (fuel : Nat) (s : IterSt) : Script.skip m fuel 0 s = Script.all m fuel s := rfl

/-- non-vacuity: a definite array of two, an indefinite one with data behind it, a foreign item inside. -/
example : Dec.arrayIter (Dec.intAcc Dec.IntTy.u8) [0x82, 0x01, 0x02, 0x09] = .ok [1, 2] [0x09] ∧
    Dec.arrayIter (Dec.intAcc Dec.IntTy.u8) [0x9f, 0x01, 0xff, 0x09] = .ok [1] [0x09] ∧
    (Script.nth (Dec.intAcc Dec.IntTy.u8) 10 1 ⟨none, [0x01, 0x02, 0xff, 0x09]⟩).1.length = 1 := by
  refine ⟨by rfl, by rfl, by decide⟩

end Minicbor.IterThm
