/-
  C07 — CborLen is exact.  Property theorems only.
  (placeholder: a concrete evaluation; the general theorems are being added)
-/
import Minicbor.Types
import Minicbor.Token

namespace Minicbor.C07

theorem len_example :
    (encodeT (.map .str (.seq (.int .u16))) (.map [.str [0x61], .list [.int 1, .int 300]])).map List.length
      = some (lenT (.map .str (.seq (.int .u16))) (.map [.str [0x61], .list [.int 1, .int 300]])) := by
  decide

end Minicbor.C07
