/-
  C07 — CborLen is exact: built-in impls and `Token`.  Property theorems only.
  (The derived-impl part of C07 lives with the derive model.)

  `lenT` (Types.lean) mirrors the hand-written `CborLen` impls, `Token.len` the one of `Token`
  (after the repair of the two token defects, see known_findings.json); `encodeT` / `Token.enc`
  mirror the `Encode` impls.

  Side condition `t.SmallArity` (decidable): tuples and `decode_fields!` records have at most 23
  components and `[index, payload]` enums at most 24 variants.  The `CborLen` impls of tuples
  (arity ≤ 16 in Rust), ranges, socket addresses, `Result`, `Bound`, `IpAddr`, `SocketAddr`,
  `Duration`, `SystemTime` hard-code `1` for the array head and the variant index; every Rust
  type satisfies the condition, the descriptor language alone does not (`arity_needed`).
  No size hypothesis is needed: `type_len` and the width table agree on every argument.
-/
import Minicbor.Lemmas.TypesLen
import Minicbor.Lemmas.TypesRoundtrip

namespace Minicbor.C07

/-- **C07, built-in impls.**  Whenever encoding succeeds, the computed length is the number of
    bytes written. -/
theorem len_exact_builtin (t : Ty) (v : Val) (bs : Bytes) (har : t.SmallArity = true)
    (henc : encodeT t v = some bs) : lenT t v = bs.length :=
  len_all.1 t v bs henc har

/-- the element loops (for use by the derived-impl part). -/
theorem len_exact_list (t : Ty) (vs : List Val) (bs : Bytes) (har : t.SmallArity = true)
    (henc : encodeList t vs = some bs) : lenList t vs = bs.length :=
  len_all.2.2.2 t vs bs henc har

/-- **C07, tokens.**  For every `Token` (no restriction on the payload) the computed length is the
    number of bytes `Token::encode` writes. -/
theorem len_exact_token (tk : Token) : tk.len = tk.enc.length := Token.len_enc tk

theorem len_exact_tokens (tks : List Token) :
    (tks.map Token.len).sum = (encodeTokens tks).length := by
  induction tks with
  | nil => rfl
  | cons t ts ih => simp [encodeTokens, ih, len_exact_token]

/-- **exact buffer.**  A buffer suffices for the encoding iff it has at least `len(v)` bytes: one
    of exactly that size does, one a byte smaller does not (a slice sink accepts a write sequence
    iff the total fits its capacity — C13). -/
theorem exact_buffer (t : Ty) (v : Val) (bs : Bytes) (har : t.SmallArity = true)
    (henc : encodeT t v = some bs) :
    (∀ cap, bs.length ≤ cap ↔ lenT t v ≤ cap) ∧ bs.length ≤ lenT t v ∧ ¬ bs.length ≤ lenT t v - 1 := by
  have h := len_exact_builtin t v bs har henc
  have hp := enc_sizes.1 t v bs henc
  refine ⟨fun cap => by rw [h], by omega, by omega⟩

/-- the arity condition is needed for the descriptor language (not for Rust, which has no
    24-tuples): a 24-component tuple gets a two-byte array head but is sized with one. -/
theorem arity_needed :
    let t : Ty := .tup (List.replicate 24 .unit)
    let v : Val := .list (List.replicate 24 .unit)
    (encodeT t v).map List.length = some 26 ∧ lenT t v = 25 ∧ t.SmallArity = false := by
  decide

/-- non-vacuity: a nested value at several width boundaries. -/
example :
    let t : Ty := .map .str (.seq (.opt (.tup [.int .u16, .tagged 70000 .bytes, .enum [.unit, .f64]])))
    let v : Val := .map [.str [0x61], .list [.some (.list [.int 300, .tagged (.bytes [1, 2]), .variant 1 (.float 0)]), .none]]
    t.SmallArity = true ∧ (encodeT t v).map List.length = some (lenT t v) := by
  decide

end Minicbor.C07
